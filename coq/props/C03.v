(* C03 - no comment is lost, duplicated or altered.  Statements only.
   Partial: proved for the gate through which comments normally pass (load_token_trivia, both modes; replayed against
   every traced call of the real function) and for the census itself; the ~150 other sites that build trivia are
   validated by the census of input and output on generated programs. *)
From Coq Require Import List.
From SV Require Lex Bracket Census Trivia TriviaProof EraseProof.
Import ListNotations.

Theorem C03_leading_gate_keeps_every_comment : forall win l cnt, forallb Trivia.trivia_ok l = true ->
  Census.census (Trivia.otoks (Trivia.lead win cnt l)) = Census.census l.
Proof. exact TriviaProof.lead_census. Qed.
Check C03_leading_gate_keeps_every_comment : forall win l cnt, forallb Trivia.trivia_ok l = true ->
  Census.census (Trivia.otoks (Trivia.lead win cnt l)) = Census.census l.
Print Assumptions C03_leading_gate_keeps_every_comment.
Theorem C03_trailing_gate_keeps_every_comment : forall win l, forallb Trivia.trivia_ok l = true ->
  Census.census (Trivia.otoks (Trivia.trail win l)) = Census.census l.
Proof. exact TriviaProof.trail_census. Qed.
Print Assumptions C03_trailing_gate_keeps_every_comment.
(* no code inside a comment: after the leading gate every comment is followed by a newline before anything else *)
Theorem C03_leading_comments_terminated : forall win l cnt, forallb Trivia.trivia_ok l = true -> TriviaProof.com_then_nl (Trivia.lead win cnt l).
Proof. exact TriviaProof.lead_no_capture. Qed.
Print Assumptions C03_leading_comments_terminated.
Theorem C03_only_allowed_normalisation : forall win t, Trivia.trivia_ok t = true -> Census.norm_com (Trivia.fmt_comment win t) = Census.norm_com t.
Proof. exact TriviaProof.norm_fmt_comment. Qed.
Print Assumptions C03_only_allowed_normalisation.
(* the observation: the census sees the comments and nothing else, compositionally *)
Theorem C03_census_sees_only_comments : forall ts, Census.census (filter EraseProof.is_comment ts) = Census.census ts.
Proof. exact EraseProof.census_only_comments. Qed.
Print Assumptions C03_census_sees_only_comments.
Theorem C03_census_compositional : forall a b, Census.census (a ++ b) = Census.census a ++ Census.census b.
Proof. exact TriviaProof.census_app. Qed.
Print Assumptions C03_census_compositional.

(* L0 - the whole-formatter model on a fragment of Lua 5.1 with comments at statement level (Fmt0.v), tied to the binary
   byte for byte on every run: the comments of the output are exactly the comments of the program - those inside its tables written over several
   lines (on lines of their own, behind the comma of a field), those in front of
   its statements, behind them, and dangling at the end of its blocks - each once, in source order, with only trailing
   blanks trimmed *)
From SV Require Fmt0 Fmt0Proof.
Theorem C03_L0_comments_of_the_output_are_those_of_the_program : forall c p,
  Census.census (Fmt0.pprog c (Fmt0.norm0 c p)) = Fmt0Proof.lc (Fmt0Proof.coms_b p).
Proof. exact Fmt0Proof.format0_comments_exact. Qed.
Print Assumptions C03_L0_comments_of_the_output_are_those_of_the_program.
