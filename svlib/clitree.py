"""Scenario generator and runner for the CLI process properties (C13, C14, C19): directory trees whose files have
a chosen outcome, run through the real binary; observations are written as records for ml/drv_cli.ml."""
import hashlib, stat
from .cli import *

FORMATTED = "local x = 1\n"
CONTENT = {
    "formatted": lambda i: ("local x%d = %d\n" % (i, i)).encode(),
    # differs from its formatted form: visibly, or (i = 1) only by the missing final line ending, or (i = 3) only by CR LF line endings
    "unformatted": lambda i: (("local x%d = %d\nlocal y = 2" % (i, i)) if i == 1 else ("local x%d = %d\r\nlocal y = 2\r\n" % (i, i)) if i == 3
                              else ("local   x%d   =   %d\nlocal y = {1,2,\n3}\n" % (i, i))).encode(),
    "unparseable": lambda i: ("local = = %d\n" % i).encode(),
    # not UTF-8: either nowhere near Lua, or (odd i) inside a string and a comment of an unformatted but lexable program
    "unreadable": lambda i: b"\xff\xfe local x = 1\n" if i % 2 == 0 else ("local   s%d   =   \"caf" % i).encode() + b"\xe9\" -- \xff\n",
    "verifyfail": lambda i: ("local x%d = bar -- c\n(foo)(t)\n" % i).encode(),
    "readonly": lambda i: ("local   r%d   =   1\n" % i).encode(),
}
def sha(b): return hashlib.sha256(b).hexdigest()[:16]

_IMMUTABLE_OK = None
def immutable_supported():
    global _IMMUTABLE_OK
    if _IMMUTABLE_OK is None:
        d = scratch("imm"); p = os.path.join(d, "x")
        open(p, "w").write("x")
        _IMMUTABLE_OK = subprocess.run(["chattr", "+i", p], stderr=subprocess.DEVNULL).returncode == 0
        if _IMMUTABLE_OK:
            try:
                open(p, "w").write("y"); _IMMUTABLE_OK = False
            except OSError:
                pass
            subprocess.run(["chattr", "-i", p], stderr=subprocess.DEVNULL)
        cleanup(d)
    return _IMMUTABLE_OK

def gen_scenario(rng, sid, mode, kinds, verify_ok=True):
    """-> dict(id, mode, files=[(relpath, kind)], args=[...], extra=[...])"""
    n = rng.randint(1, 6)
    files = []
    for i in range(n):
        k = rng.choice(kinds)
        sub = rng.choice(["", "", "a", "a/b", "c"])
        # one file in five is a copy of an earlier one in another directory (same name, same bytes): two files may then have
        # byte-identical diffs
        if files and rng.random() < 0.2:
            rel0, k0 = rng.choice(files)
            cand = [d for d in ["", "a", "a/b", "c"] if os.path.join(d, os.path.basename(rel0)) not in [r for r, _ in files]]
            if cand:
                files.append((os.path.join(rng.choice(cand), os.path.basename(rel0)), k0))
                continue
        files.append((os.path.join(sub, "f%d.lua" % i), k))
    if rng.random() < 0.3: files.append(("missing%d.lua" % rng.randint(0, 9), "missing"))
    style = rng.choice(["dir", "explicit", "mixed"])
    paths = [p for p, _ in files]
    if style == "dir": args = ["."] + [p for p, k in files if k == "missing"]
    elif style == "explicit": args = paths[:]
    else: args = ["."] + [p for p, k in files if k == "missing" or rng.random() < 0.4]
    rng.shuffle(args)
    extra = []
    if any(k == "verifyfail" for _, k in files): extra.append("--verify")
    extra += ["--num-threads", str(rng.choice([1, 2, 3, 4, 8, 16]))]
    if mode == "check":
        extra += ["--check", "--output-format=" + rng.choice(["standard", "unified", "json", "summary"])]
    elif rng.random() < 0.3:
        extra += ["--output-format=json"]
    return dict(id=sid, mode=mode, files=files, args=args, extra=extra)

def library_formatted(contents):
    """formatted text of each byte string according to the library (through `stylua -`, the stdin path of C17 is
    checked on its own there); None when it does not format"""
    out = {}
    def one(b):
        c, o, e = stylua(["--no-editorconfig", "-"], CACHE, stdin=b)
        return b, (o if c == 0 else None)
    for b, o in pmap(one, list(set(contents))):
        out[b] = o
    return out

def materialise(sc, root):
    made = {}
    for i, (rel, kind) in enumerate(sc["files"]):
        if kind == "missing": continue
        p = os.path.join(root, rel)
        os.makedirs(os.path.dirname(p), exist_ok=True)
        idx = int("".join(ch for ch in os.path.basename(rel) if ch.isdigit()) or 0)
        b = CONTENT[kind](idx)
        with open(p, "wb") as f: f.write(b)
        made[rel] = b
    # age the files so that a rewrite within the same clock tick is still visible
    for rel in made:
        os.utime(os.path.join(root, rel), ns=(10**18, 10**18))
    for rel, kind in sc["files"]:
        if kind == "readonly": subprocess.run(["chattr", "+i", os.path.join(root, rel)], stderr=subprocess.DEVNULL)
    return made

def release(sc, root):
    for rel, kind in sc["files"]:
        if kind == "readonly": subprocess.run(["chattr", "-i", os.path.join(root, rel)], stderr=subprocess.DEVNULL)

def diff_paths(sc, out):
    """paths for which the binary printed a diff / listing, per output format"""
    text = out.decode("utf-8", "replace")
    fmt = next((a.split("=")[1] for a in sc["extra"] if a.startswith("--output-format=")), "standard")
    found = []
    if fmt == "json":
        for l in text.splitlines():
            if l.startswith("{"):
                try: found.append(json.loads(l)["file"])
                except Exception: pass
    elif fmt == "summary":
        found = [l.strip() for l in text.splitlines() if l.strip().endswith(".lua")]
    elif fmt == "unified":
        found = ["?"] * text.count("--- old\n")
    else:
        found = [l[len("Diff in "):-1] for l in text.splitlines() if l.startswith("Diff in ") and l.endswith(":")]
    return [os.path.normpath(p) for p in found]

def run_scenario(sc, fmt_of, env_extra=None, keep_root=None):
    """-> (record lines, observed dict)"""
    root = keep_root or scratch("scn")
    try:
        made = materialise(sc, root)
        code, out, err = stylua(["--no-editorconfig"] + sc["extra"] + sc["args"], root, env_extra=env_extra)
        lines = ["SCN %s %s" % (sc["id"], sc["mode"])]
        for rel, kind in sc["files"]:
            rel_n = os.path.normpath(rel)
            if kind == "missing":
                lines.append("FILE %s missing - -" % rel_n); continue
            b = made[rel]
            f = fmt_of.get(b)
            lines.append("FILE %s %s %s %s" % (rel_n, kind, sha(b), sha(f) if f is not None else "-"))
        lines.append("OBS status %d" % code)
        release(sc, root)
        for rel in made:
            p = os.path.join(root, rel)
            try:
                b2 = open(p, "rb").read(); mt = os.stat(p).st_mtime_ns != 10**18
                lines.append("AFTER %s %s %d" % (os.path.normpath(rel), sha(b2), 1 if mt else 0))
            except OSError:
                pass
        dp = diff_paths(sc, out)
        unified = "--output-format=unified" in sc["extra"]
        if unified:
            # unified output names no file: only the count can be compared
            want = [os.path.normpath(r) for r, k in sc["files"] if k == "unformatted" or (k == "readonly")]
            if len(dp) == len(want): dp = want
            else: dp = ["<unified-count-%d-expected-%d>" % (len(dp), len(want))]
        for p in sorted(set(dp)):
            lines.append("DIFF " + p)
        lines.append("END")
        return lines, dict(code=code, stdout=out, stderr=err)
    finally:
        release(sc, root)
        if not keep_root: cleanup(root)

def judge(lines):
    r = subprocess.run([driver("drv_cli")], input="\n".join(lines) + "\n", stdout=subprocess.PIPE, stderr=subprocess.PIPE, text=True)
    tot, bads, samples = {}, [], []
    for l in r.stdout.splitlines():
        if l.startswith("SUMMARY"): tot = {k: int(v) for k, v in parse_kv(l).items()}
        elif l.startswith("BAD"): bads.append(l)
        elif l.startswith("SAMPLE"): samples.append(l[7:])
    return r.returncode == 0, tot, bads, samples, r.stderr
