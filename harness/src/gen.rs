//! G_prog: grammar-directed random programs.  Every random choice comes from the one PRNG, so (seed, index) replays a case.
//! Knobs: dialect, where comments may appear, how wild the whitespace is.
use crate::common::*;

#[derive(Clone, Copy, PartialEq)]
pub enum Comments { None, Boundaries, Lists, Anywhere }
#[derive(Clone, Copy)]
pub struct Knobs {
    pub syn: &'static str,
    pub comments: Comments,
    pub crlf: bool,
    pub wild_ws: bool,     // random blanks / tabs / newlines between tokens
    pub directives: bool,  // stylua: ignore comments
    pub requires: bool,    // require blocks at top level
    pub size: usize,       // statement budget
}
pub struct Gen<'a> { pub rng: &'a mut Rng, pub k: Knobs, depth: usize, in_vararg: bool, budget: usize, pub stats: [usize; 8] }

const NAMES: &[&str] = &["a", "b", "foo", "bar", "x1", "_t", "self", "value", "index", "longer_identifier_name", "T", "i"];
const BINOPS51: &[&str] = &["+", "-", "*", "/", "%", "^", "..", "<", "<=", ">", ">=", "==", "~=", "and", "or"];
const BINOPS53: &[&str] = &["//", "&", "|", "~", "<<", ">>"];
const STRS: &[&str] = &["\"abc\"", "'abc'", "\"it's\"", "'say \"hi\"'", "\"\\n\\t\\\\\"", "'\\065\\x41'", "\"\"", "[[long]]", "[==[with ]] inside]==]", "\"a\\\nb\"", "'q\\'q'", "\"tab\\tend\""];
const NUMS: &[&str] = &["0", "1", "42", "3.14", ".5", "1e10", "0xFF", "0x1p4", "1E-3", "007", "9007199254740993"];

impl<'a> Gen<'a> {
    pub fn new(rng: &'a mut Rng, k: Knobs) -> Self { Gen { rng, k, depth: 0, in_vararg: true, budget: k.size, stats: [0; 8] } }
    fn nl(&self) -> &'static str { if self.k.crlf { "\r\n" } else { "\n" } }
    fn is53(&self) -> bool { matches!(self.k.syn, "Lua53" | "Lua54") }
    fn luau(&self) -> bool { self.k.syn == "Luau" }
    fn comment(&mut self, own_line: bool) -> String {
        self.stats[0] += 1;
        let n = self.rng.below(1000);
        if own_line || self.rng.chance(1, 2) {
            format!("-- c{}{}{}", n, if self.rng.chance(1, 4) { "  " } else { "" }, self.nl())
        } else if self.rng.chance(1, 5) {
            format!("--[=[ c{}{}x ]=] ", n, self.nl())
        } else {
            format!("--[[ c{} ]] ", n)
        }
    }
    /// separator between two tokens: always at least one blank
    fn sp(&mut self) -> String {
        let mut s = String::new();
        if self.k.wild_ws {
            match self.rng.below(12) { 0 => s.push_str("  "), 1 => s.push('\t'), 2 => { s.push_str(self.nl()); s.push_str("   ") } _ => s.push(' ') }
        } else { s.push(' '); }
        if self.k.comments == Comments::Anywhere && self.rng.chance(1, 14) { s.push_str(&self.comment(false)); }
        s
    }
    /// the separator of a list: in `Lists` (and `Anywhere`) mode comments may sit before and after the comma
    fn comma(&mut self) -> String {
        if !matches!(self.k.comments, Comments::Lists | Comments::Anywhere) || !self.rng.chance(1, 4) { return ", ".to_string(); }
        let mut s = String::new();
        if self.rng.chance(1, 2) { s.push_str(&format!(" --[[ b{} ]]", self.rng.below(100))); }
        s.push(',');
        match self.rng.below(3) {
            0 => { s.push_str(&format!(" -- l{}", self.rng.below(100))); s.push_str(self.nl()); }
            1 => s.push_str(&format!(" --[[ a{} ]] ", self.rng.below(100))),
            _ => s.push(' '),
        }
        self.stats[0] += 1;
        s
    }
    fn name(&mut self) -> String { self.rng.pick(NAMES).to_string() }
    /// the line break after an opening keyword (then / do / else / repeat / a function header), sometimes with a comment
    /// that trails the keyword on its line
    fn open_nl(&mut self) -> String {
        if self.k.comments != Comments::None && self.rng.chance(1, 8) { let c = self.comment(false); if c.ends_with('\n') { format!(" {}", c) } else { format!(" {}{}", c, self.nl()) } }
        else { self.nl().to_string() }
    }
    /// between a condition and its `do` / `then`: one time in ten (when comments are generated) a line comment trails the
    /// condition and the keyword stands on the next line
    fn cond_end(&mut self) -> String {
        if self.k.comments != Comments::None && self.rng.chance(1, 10) { self.stats[0] += 1; format!(" -- k{}{}{}", self.rng.below(1000), self.nl(), self.indent()) }
        else { " ".to_string() }
    }
    fn indent(&self) -> String { "\t".repeat(self.depth) }

    fn atom(&mut self) -> String {
        match self.rng.below(10) {
            0 => self.rng.pick(NUMS).to_string(),
            1 => self.rng.pick(STRS).to_string(),
            2 => ["nil", "true", "false"][self.rng.below(3)].to_string(),
            3 if self.in_vararg => "...".to_string(),
            _ => self.name(),
        }
    }
    fn prefix_chain(&mut self, must_call: bool) -> String {
        let mut s = if self.rng.chance(1, 8) { let e = self.expr(1); format!("({})", e) } else { self.name() };
        let n = self.rng.below(3) + if must_call { 1 } else { 0 };
        for i in 0..n {
            let last = i + 1 == n;
            match self.rng.below(if must_call && last { 3 } else { 6 }) {
                0 => { let a = self.args(); s.push_str(&a); }
                1 => { let m = self.name(); let a = self.args(); s.push_str(&format!(":{}{}", m, a)); }
                2 => { let a = self.args(); s.push_str(&a); }
                3 => { let f = self.name(); s.push_str(&format!(".{}", f)); }
                _ => { let e = self.expr(1); s.push_str(&format!("[{}]", if e.starts_with("[") { format!(" {} ", e) } else { e })); }
            }
        }
        s
    }
    /// `name.f:m(x).g` with a line comment behind the name or behind a link that is not the last one, the rest of the chain on the
    /// next line: the formatter hangs such a chain (format_function_call `must_hang`), so that the comment swallows nothing
    fn chain_with_comment(&mut self) -> String {
        let n = 2 + self.rng.below(2);
        let at = self.rng.below(n);           // 0: behind the name; i: behind the i-th link (never the last)
        let mut s = self.name();
        for i in 0..n {
            if i == at { self.stats[0] += 1; s.push_str(&format!(" -- s{}{}{}\t", self.rng.below(1000), self.nl(), self.indent())); }
            if self.rng.chance(1, 2) { let f = self.name(); s.push_str(&format!(".{}", f)); }
            else { let m = self.name(); let a = if self.rng.chance(1, 2) { "()".to_string() } else { format!("({})", self.atom()) }; s.push_str(&format!(":{}{}", m, a)); }
        }
        s
    }
    fn args(&mut self) -> String {
        match self.rng.below(8) {
            0 => format!(" {}", self.rng.pick(&["\"s\"", "'s'", "[[s]]"])),
            1 => { let t = self.table(); format!(" {}", t) }
            _ => {
                let n = self.rng.below(4);
                let mut v = vec![];
                for _ in 0..n { v.push(self.expr(2)); }
                let mut out = String::from("(");
                for (i, e) in v.iter().enumerate() { if i > 0 { let c = self.comma(); out.push_str(&c); } out.push_str(e); }
                out.push(')');
                out
            }
        }
    }
    fn table(&mut self) -> String {
        let n = self.rng.below(5);
        if n == 0 { return "{}".to_string(); }
        let multiline = self.rng.chance(1, 3);
        let mut s = String::from("{");
        if multiline { s.push_str(self.nl()); }
        // in a table written over several lines: comments on lines of their own between the fields and before the closing
        // brace, and comments that trail a field on its line
        let tc = multiline && self.k.comments != Comments::None;
        for i in 0..n {
            if tc && self.rng.chance(1, 8) { self.stats[0] += 1; s.push_str(&format!(" -- t{}{}", self.rng.below(1000), self.nl())); }
            let sp = self.sp();
            s.push_str(&sp);
            match self.rng.below(4) {
                0 => { let k = self.name(); let e = self.expr(1); s.push_str(&format!("{} = {}", k, e)); }
                1 => { let k = self.expr(0); let e = self.expr(1); s.push_str(&format!("[{}] = {}", if k.starts_with('[') { format!(" {} ", k) } else { k }, e)); }
                _ => { let e = self.expr(1); s.push_str(&e); }
            }
            if i + 1 < n || self.rng.chance(1, 3) { s.push_str(if self.rng.chance(1, 6) { ";" } else { "," }); }
            if tc && self.rng.chance(1, 5) { self.stats[0] += 1; s.push_str(&format!(" -- f{}", self.rng.below(1000))); }
            if multiline { s.push_str(self.nl()); }
            // a table that starts on the line of its brace may still hold an empty line between two fields or before the closing brace
            else if self.rng.chance(1, 10) { s.push_str(self.nl()); s.push_str(self.nl()); }
        }
        if tc && self.rng.chance(1, 10) { self.stats[0] += 1; s.push_str(&format!(" -- e{}{}", self.rng.below(1000), self.nl())); }
        s.push_str(" }");
        s
    }
    pub fn expr(&mut self, d: usize) -> String {
        if d == 0 || self.rng.chance(1, 3) { return self.atom(); }
        match self.rng.below(14) {
            0 | 1 | 2 | 3 => {
                let l = self.expr(d - 1);
                let mut ops: Vec<&str> = BINOPS51.to_vec();
                if self.is53() { ops.extend_from_slice(BINOPS53); }
                if self.luau() { ops.push("//"); }
                let op = *self.rng.pick(&ops);
                let r = self.expr(d - 1);
                let (a, b) = (self.sp(), self.sp());
                // `x :: number < y` is not Luau (`number<` opens type arguments; full_moon accepts it silently and drops tokens:
                // the listed silent-recovery finding of C07): a type assertion in front of `<` is parenthesised
                let l = if op.starts_with('<') && l.trim_end().ends_with(":: number") { format!("({})", l) } else { l };
                format!("{}{}{}{}{}", l, a, op, b, r)
            }
            4 => { let e = self.expr(d - 1); let u = *self.rng.pick(&["-", "not ", "#"]); if u == "-" && e.starts_with('-') { format!("- {}", e) } else { format!("{}{}", u, e) } }
            5 | 6 => { let e = self.expr(d - 1); format!("({})", e) }
            7 => self.prefix_chain(true),
            8 => self.prefix_chain(false),
            9 => self.table(),
            10 => {
                let saved = self.in_vararg; self.in_vararg = self.rng.chance(1, 3);
                let params = if self.in_vararg { "a, ..." } else { "a, b" };
                self.depth += 1; let body = self.block(2); self.depth -= 1; self.in_vararg = saved;
                format!("function({}){}{}{}end", params, self.nl(), body, self.indent())
            }
            11 if self.luau() => { let c = self.expr(d - 1); let a = self.expr(d - 1); let b = self.expr(d - 1); format!("if {} then {} else {}", c, a, b) }
            12 if self.luau() => { let e = self.atom(); format!("{} :: number", if e == "..." { "x".to_string() } else { e }) }
            _ => self.atom(),
        }
    }
    fn exprs(&mut self, max: usize) -> String {
        let n = 1 + self.rng.below(max);
        let mut v = vec![];
        for _ in 0..n { let d = if self.rng.chance(1, 4) { 3 } else { 2 }; v.push(self.expr(d)); }
        let mut out = String::new();
        for (i, e) in v.iter().enumerate() { if i > 0 { let c = self.comma(); out.push_str(&c); } out.push_str(e); }
        out
    }
    fn stmt(&mut self) -> String {
        if self.budget > 0 { self.budget -= 1; }
        let ind = self.indent();
        let nl = self.nl();
        let deep = self.depth >= 3 || self.budget == 0;
        let body = |g: &mut Gen, n: usize| -> String { g.depth += 1; let b = g.block(n); g.depth -= 1; b };
        let kind = self.rng.below(if deep { 6 } else { 16 });
        self.stats[1] += 1;
        let s = match kind {
            0 | 1 => { let names = if self.rng.chance(1, 4) { format!("{}, {}", self.name(), self.name()) } else { self.name() };
                       let attr = if self.k.syn == "Lua54" && self.rng.chance(1, 6) { " <const>" } else { "" };
                       if self.rng.chance(1, 6) { format!("local {}{}", names, attr) }
                       // where comments go into lists: one local in ten takes a chain of fields and method calls with a line comment behind a link that is not the last
                       else if matches!(self.k.comments, Comments::Lists | Comments::Anywhere) && self.rng.chance(1, 10) { let e = self.chain_with_comment(); format!("local {}{} = {}", names, attr, e) }
                       else { let a = self.sp(); let b = self.sp(); let e = self.exprs(2); format!("local {}{}{}={}{}", names, attr, a, b, e) } }
            2 => { let t = self.prefix_chain(false); let t = if t.ends_with(')') || t.ends_with('"') || t.ends_with('\'') || t.ends_with('}') || t.ends_with("]]") || (t.starts_with('(') && self.rng.chance(1, 2)) { self.name() } else { t };
                   let a = self.sp(); let b = self.sp(); let e = self.exprs(2);
                   if self.luau() && self.rng.chance(1, 6) { format!("{}{}+={}{}", t, a, b, self.expr(1)) } else { format!("{}{}={}{}", t, a, b, e) } }
            3 | 4 => { let c = self.prefix_chain(true); if c.starts_with('(') && self.rng.chance(1, 2) { format!("{}()", self.name()) } else { c } }
            5 => { let o = self.open_nl(); format!("local function {}(a){}{}{}end", self.name(), o, { self.depth += 1; let b = self.block(2); self.depth -= 1; b }, ind) }
            6 => { let o = self.open_nl(); let b = body(self, 3); format!("do{}{}{}end", o, b, ind) }
            7 => { let c = self.expr(2); let ce = self.cond_end(); let o = self.open_nl(); let b = body(self, 3); format!("while {}{}do{}{}{}end", c, ce, o, b, ind) }
            8 => { let o = self.open_nl(); let b = body(self, 2); let c = self.expr(2); format!("repeat{}{}{}until {}", o, b, ind, c) }
            // one `if` in four has the shape the option collapse_simple_statement writes on one line: a single simple statement, no else
            // (a comment may trail `then`, an empty line may precede `end`)
            9 | 10 if self.rng.chance(1, 4) => {
                let c = self.expr(2); let o = self.open_nl();
                let st = match self.rng.below(4) { 0 => "return".to_string(), 1 => format!("return {}", self.expr(1)), 2 => format!("{}()", self.name()), _ => format!("{} = {}", self.name(), self.expr(1)) };
                let gap = if self.rng.chance(1, 6) { format!("{}{}", self.nl(), self.nl()) } else { self.nl().to_string() };
                format!("if {} then{}{}\t{}{}{}end", c, o, ind, st, gap, ind)
            }
            9 | 10 => {
                let c = self.expr(2); let ce = self.cond_end(); let o = self.open_nl(); let b = body(self, 3);
                let mut s = format!("if {}{}then{}{}", c, ce, o, b);
                if self.rng.chance(1, 3) { let c2 = self.expr(1); let ce2 = self.cond_end(); let o2 = self.open_nl(); let b2 = body(self, 2); s.push_str(&format!("{}elseif {}{}then{}{}", ind, c2, ce2, o2, b2)); }
                if self.rng.chance(1, 3) { let o3 = self.open_nl(); let b3 = body(self, 2); s.push_str(&format!("{}else{}{}", ind, o3, b3)); }
                s.push_str(&format!("{}end", ind)); s
            }
            11 => { let a = self.expr(1); let b2 = self.expr(1); let o = self.open_nl(); let b = body(self, 2); format!("for i = {}, {} do{}{}{}end", a, b2, o, b, ind) }
            12 => { let e = self.exprs(2); let o = self.open_nl(); let b = body(self, 2); format!("for k, v in {} do{}{}{}end", e, o, b, ind) }
            13 => { let nl = self.open_nl(); let b = body(self, 3); let nm = match self.rng.below(3) { 0 => format!("{}.{}", self.name(), self.name()), 1 => format!("{}:{}", self.name(), self.name()), _ => self.name() }; format!("function {}(a, b){}{}{}end", nm, nl, b, ind) }
            14 if matches!(self.k.syn, "Lua52" | "Lua53" | "Lua54" | "LuaJIT") => { let l = format!("lbl{}", self.rng.below(1000)); format!("::{}::{}{}goto {}", l, nl, ind, l) }
            _ => format!("{}()", self.name()),
        };
        s
    }
    pub fn block(&mut self, max: usize) -> String {
        let n = if self.budget == 0 { 0 } else { self.rng.below(max + 1) };
        let mut out = String::new();
        let mut prev_ends_expr = self.depth == 0;   // top level blocks follow one another
        for _ in 0..n {
            if self.rng.chance(1, 8) { out.push_str(self.nl()); }
            if self.k.comments != Comments::None && self.rng.chance(1, 6) { let i = self.indent(); let c = self.comment(true); out.push_str(&i); out.push_str(&c); }
            if self.k.directives && self.rng.chance(1, 25) { out.push_str(&format!("{}-- stylua: ignore{}", self.indent(), self.nl())); self.stats[2] += 1; }
            let s = self.stmt();
            // a statement that begins with `(` after one that can end in an expression needs a semicolon in between
            if prev_ends_expr && s.starts_with('(') { out.push(';'); }
            out.push_str(&self.indent());
            out.push_str(&s);
            prev_ends_expr = true;
            if self.rng.chance(1, 10) { out.push_str(if self.rng.chance(1, 2) { ";" } else { " ;" }); self.stats[3] += 1; }
            if self.k.comments != Comments::None && self.rng.chance(1, 8) { out.push(' '); let c = self.comment(false); out.push_str(&c); if !c.ends_with('\n') { out.push_str(self.nl()); } } else { out.push_str(self.nl()); }
        }
        let last = if self.depth > 0 && self.rng.chance(1, 5) { 1 } else if self.depth > 1 && self.rng.chance(1, 12) { 2 } else { 0 };
        // an empty line in front of the last statement (it may be the only statement of its block)
        if last != 0 && self.rng.chance(1, 6) { out.push_str(self.nl()); }
        if last == 1 {
            let e = if self.rng.chance(1, 3) { String::new() } else { format!(" {}", self.exprs(2)) };
            out.push_str(&format!("{}return{}{}{}", self.indent(), e, if self.rng.chance(1, 8) { ";" } else { "" }, self.nl()));
        } else if last == 2 { out.push_str(&format!("{}break{}", self.indent(), self.nl())); }
        // a comment on its own line at the end of the block (it belongs to the closing `end` / `else` / `elseif` / `until`),
        // indented as the block, as the closing token, or not at all
        if self.depth > 0 && self.k.comments != Comments::None && self.rng.chance(1, 8) {
            let ind = match self.rng.below(4) { 0 => String::new(), 1 => "\t".repeat(self.depth - 1), 2 => " ".repeat(self.rng.below(9)), _ => self.indent() };
            let c = self.comment(true);
            out.push_str(&ind); out.push_str(&c);
        }
        out
    }
    pub fn program(&mut self) -> String {
        let mut out = String::new();
        if self.rng.chance(1, 30) { out.push_str("#!/usr/bin/env lua"); out.push_str(self.nl()); }
        if self.k.requires && self.rng.chance(1, 2) {
            for i in 0..(2 + self.rng.below(4)) { out.push_str(&format!("local {} = require(\"m{}\"){}", ["zz", "aa", "Mm", "b"][i % 4], i, self.nl())); }
            out.push_str(self.nl());
        }
        while self.budget > 0 { let b = self.block(4); out.push_str(&b); if b.is_empty() { break; } }
        if self.rng.chance(1, 4) { out.push_str(&format!("return {}{}", self.exprs(2), self.nl())); }
        if self.rng.chance(1, 10) { while out.ends_with('\n') || out.ends_with('\r') { out.pop(); } }
        out
    }
}

pub const SYN_FOR_GEN: [&str; 6] = ["Lua51", "Lua52", "Lua53", "Lua54", "LuaJIT", "Luau"];
/// the k-th program of a seed: knobs are drawn from the same PRNG
pub fn nth_program(seed: u64, k: usize, mode: &str) -> (String, Knobs) {
    let mut rng = Rng(seed.wrapping_mul(0x9E3779B97F4A7C15) ^ (k as u64).wrapping_mul(0xD1B54A32D192ED03) ^ 0x6E6);
    let wild = mode.starts_with("wild");
    let nodirectives = mode.ends_with("-nodirectives");
    let knobs = Knobs {
        syn: SYN_FOR_GEN[rng.below(6)],
        comments: if wild { [Comments::None, Comments::Boundaries, Comments::Anywhere, Comments::Anywhere][rng.below(4)] }
                  else if mode.starts_with("lists") { Comments::Lists }
                  else { [Comments::None, Comments::Boundaries][rng.below(2)] },
        crlf: rng.chance(1, 4),
        wild_ws: wild && rng.chance(2, 3),
        directives: rng.chance(1, 3) && !nodirectives,
        requires: rng.chance(1, 4),
        size: 3 + rng.below(if wild { 25 } else { 12 }),
    };
    let mut g = Gen::new(&mut rng, knobs);
    (g.program(), knobs)
}

pub fn main(args: &[String]) {
    // svh gen <seed> <n> <mode>: prints `P <k> <syntax> <parses 0|1> <srchex>`
    let seed: u64 = args[0].parse().unwrap();
    let n: usize = args[1].parse().unwrap();
    let mode = args.get(2).map(|s| s.as_str()).unwrap_or("plain");
    for k in 0..n {
        let (src, knobs) = nth_program(seed, k, mode);
        println!("P {} {} {} {}", k, knobs.syn, if parses(&src, syntax(knobs.syn)) { 1 } else { 0 }, hex(src.as_bytes()));
    }
}
