(* Tie 1 for C13/C14/C19: the accesses to EXIT_CODE found in /repo's src/cli/main.rs by rs2v (SVgen.ExitOps). *)
From Coq Require Import List Arith Lia Bool.
Import ListNotations.
From SV Require Import Sched SchedProof.
From SVgen Require Import ExitOps.

Definition protocol_monotone : bool := forallb mono_prog exit_programs.
(* threads that only run programs of the generated list *)
Definition runs_protocol (ts : list thread) : Prop := Forall (fun t => exists p s, In p exit_programs /\ p = s ++ code t) ts.

Lemma mono_suffix s c : mono_prog (s ++ c) = true -> mono_prog c = true.
Proof. unfold mono_prog. rewrite forallb_app. intros H. apply andb_true_iff in H. tauto. Qed.
Lemma runs_protocol_monotone ts : protocol_monotone = true -> runs_protocol ts -> monotone ts.
Proof.
  unfold protocol_monotone, runs_protocol, monotone. intros P H. eapply Forall_impl; [|exact H].
  intros t (p & s & Hin & E). rewrite forallb_forall in P. specialize (P p Hin). subst p. eapply mono_suffix. exact P.
Qed.

Theorem exit_status_schedule_independent : protocol_monotone = true ->
  forall sched ts, runs_protocol ts -> finished (snd (run sched (0, ts))) -> fst (run sched (0, ts)) = pending ts.
Proof.
  intros P sched ts H F. rewrite (monotone_protocol sched 0 ts (runs_protocol_monotone ts P H) F). lia.
Qed.
