(* C18 - diffs printed by --check reconstruct the formatted file.  Statements only.
   An edit script is valid by construction (segments carry their lines); which script `similar` picks is arbitrary. *)
From Coq Require Import List.
From SV Require DiffJson DiffJsonProof DiffUnified.
Import ListNotations.

Theorem C18_json_reconstructs : forall line (ss : list (DiffJson.seg line)),
  DiffJson.apply_json line (DiffJson.mismatches line false 0 0 ss) (DiffJson.olds line ss) = DiffJson.news line ss.
Proof. exact DiffJsonProof.json_reconstructs. Qed.
Check C18_json_reconstructs : forall line (ss : list (DiffJson.seg line)),
  DiffJson.apply_json line (DiffJson.mismatches line false 0 0 ss) (DiffJson.olds line ss) = DiffJson.news line ss.
Print Assumptions C18_json_reconstructs.
(* the Rust builder copies the indices of the DiffOps; on a script indexed by its running positions that is [mismatches] *)
Theorem C18_literal_builder : forall line fo (ss : list (DiffJson.seg line)) oi ni,
  DiffJson.mismatches_at line fo (DiffJson.annotate line oi ni ss) = DiffJson.mismatches line fo oi ni ss.
Proof. exact DiffJsonProof.mismatches_at_annotate. Qed.
Print Assumptions C18_literal_builder.
(* the builder as it stood before the repair (only the first line of an inserted or deleted block): refuted *)
Theorem C18_json_first_line_only_refuted : exists ss : list (DiffJson.seg nat),
  DiffJson.apply_json nat (DiffJson.mismatches nat true 0 0 ss) (DiffJson.olds nat ss) <> DiffJson.news nat ss.
Proof. exact DiffJsonProof.json_reconstructs_refuted. Qed.
Print Assumptions C18_json_first_line_only_refuted.
Theorem C18_no_mismatch_iff_no_change : forall line fo (ss : list (DiffJson.seg line)) oi ni,
  DiffJson.mismatches line fo oi ni ss = [] <-> forallb DiffJsonProof.is_keep ss = true.
Proof. exact DiffJsonProof.no_mismatch_iff_all_keep. Qed.
Print Assumptions C18_no_mismatch_iff_no_change.
Theorem C18_no_change_same_file : forall line (ss : list (DiffJson.seg line)),
  forallb DiffJsonProof.is_keep ss = true -> DiffJson.olds line ss = DiffJson.news line ss.
Proof. exact DiffJsonProof.all_keep_equal. Qed.
Print Assumptions C18_no_change_same_file.

(* unified format: every changed line is shown, ANY subset of the unchanged lines may be shown as context *)
Theorem C18_unified_reconstructs : forall line (s : DiffUnified.stream line) mask,
  DiffUnified.apply line (DiffUnified.view line mask s) (DiffUnified.olds line s) = DiffUnified.news line s.
Proof. exact DiffUnified.unified_reconstructs. Qed.
Check C18_unified_reconstructs : forall line (s : DiffUnified.stream line) mask,
  DiffUnified.apply line (DiffUnified.view line mask s) (DiffUnified.olds line s) = DiffUnified.news line s.
Print Assumptions C18_unified_reconstructs.
Theorem C18_hunk_boundaries_irrelevant : forall line v old,
  DiffUnified.apply line (DiffUnified.merge line v) old = DiffUnified.apply line v old.
Proof. exact DiffUnified.merge_same. Qed.
Print Assumptions C18_hunk_boundaries_irrelevant.
