From Coq Require Import List Ascii NArith Lia Bool Arith.
Import ListNotations.
Open Scope char_scope.
From SV Require Import Quote Bracket.

Lemma eqc_refl c : eqc c c = true. Proof. apply Ascii.eqb_refl. Qed.
Lemma eqc_true c d : eqc c d = true -> c = d. Proof. apply Ascii.eqb_eq. Qed.

Lemma crlf_no_cr : forall s, no_lone_cr s = true -> no_cr (crlf_to_lf s) = true.
Proof.
  induction s as [s IH] using strong_list_ind. intros H.
  destruct s as [|c r]; [reflexivity|]. cbn [crlf_to_lf]. cbn [no_lone_cr] in H.
  destruct (eqc c CR) eqn:C.
  - destruct r as [|d r']; [discriminate|]. apply andb_true_iff in H. destruct H as [D H]. rewrite D. cbn [andb no_cr].
    apply IH; [cbn; lia|exact H].
  - destruct r as [|d r']; [cbn; rewrite C; reflexivity|]. cbn [andb].
    change (no_cr (c :: crlf_to_lf (d :: r')) = true). cbn [no_cr]. rewrite C. cbn [negb andb].
    apply IH; [cbn; lia|exact H].
Qed.

(* under the class hypothesis both denotations coincide with crlf_to_lf *)
Lemma lua_nl_crlf : forall s, no_lone_cr s = true -> lua_nl s = crlf_to_lf s.
Proof.
  induction s as [s IH] using strong_list_ind. intros H.
  destruct s as [|c r]; [reflexivity|]. cbn [lua_nl crlf_to_lf]. cbn [no_lone_cr] in H.
  destruct (eqc c CR) eqn:C.
  - apply eqc_true in C. subst c. destruct r as [|d r']; [discriminate|].
    apply andb_true_iff in H. destruct H as [D H]. apply eqc_true in D. subst d.
    cbn. f_equal. apply IH; [cbn; lia|exact H].
  - unfold nlc at 1. rewrite C. cbn [orb].
    destruct (eqc c LF) eqn:L.
    + apply eqc_true in L. subst c. destruct r as [|d r']; [reflexivity|].
      change (eqc LF CR && eqc d LF) with false. cbn iota.
      unfold nlc. destruct (eqc d CR) eqn:DC.
      * apply eqc_true in DC. subst d. cbn [orb andb negb]. change (eqc LF CR) with false. cbn [negb].
        (* LF CR: the CR must be followed by LF *)
        cbn [no_lone_cr] in H. change (eqc CR CR) with true in H. cbn iota in H.
        destruct r' as [|e r'']; [discriminate|]. apply andb_true_iff in H. destruct H as [E H]. apply eqc_true in E. subst e.
        f_equal. rewrite (IH (LF :: r'')); [|cbn; lia|exact H].
        cbn [crlf_to_lf]. change (eqc CR CR && eqc LF LF) with true. cbn iota.
        destruct r'' as [|x r3]; reflexivity.
      * cbn [orb]. destruct (eqc d LF) eqn:DL.
        -- apply eqc_true in DL. subst d. rewrite eqc_refl. cbn [andb negb]. f_equal. apply IH; [cbn; lia|exact H].
        -- cbn [andb]. f_equal. apply IH; [cbn; lia|exact H].
    + destruct r as [|d r']; [reflexivity|]. cbn [andb]. f_equal. apply IH; [cbn; lia|exact H].
Qed.

Lemma lf_to_unix t : lf_to Unix t = t.
Proof.
  induction t as [|c r IH]; [reflexivity|]. unfold lf_to. cbn [flat_map]. fold (lf_to Unix r). rewrite IH.
  destruct (eqc c LF) eqn:L; [apply eqc_true in L; subst c|]; reflexivity.
Qed.
Lemma lua_nl_no_cr : forall t, no_cr t = true -> lua_nl t = t.
Proof.
  induction t as [|c r IH]; [reflexivity|]. cbn [no_cr]. intros H. apply andb_true_iff in H. destruct H as [C H].
  apply negb_true_iff in C. cbn [lua_nl]. unfold nlc at 1. rewrite C. cbn [orb].
  destruct (eqc c LF) eqn:L.
  - apply eqc_true in L. subst c. destruct r as [|d r']; [reflexivity|].
    pose proof H as H2. cbn [no_cr] in H2. apply andb_true_iff in H2. destruct H2 as [D _]. apply negb_true_iff in D.
    unfold nlc. rewrite D. cbn [orb]. destruct (eqc d LF) eqn:DL.
    + apply eqc_true in DL. subst d. rewrite eqc_refl. cbn [andb negb]. f_equal. apply IH. exact H.
    + cbn [andb]. f_equal. apply IH. exact H.
  - f_equal. apply IH. exact H.
Qed.
Lemma lua_nl_lf_to_win : forall t, no_cr t = true -> lua_nl (lf_to Windows t) = t.
Proof.
  induction t as [|c r IH]; [reflexivity|]. cbn [no_cr]. intros H. apply andb_true_iff in H. destruct H as [C H].
  apply negb_true_iff in C. unfold lf_to. cbn [flat_map]. fold (lf_to Windows r).
  destruct (eqc c LF) eqn:L.
  - apply eqc_true in L. subst c. cbn [le_chars app lua_nl]. change (nlc CR) with true. cbn iota.
    change (nlc LF && negb (eqc CR LF)) with true. cbn iota. f_equal. apply IH. exact H.
  - cbn [app lua_nl]. unfold nlc. rewrite C, L. cbn [orb]. f_equal. apply IH. exact H.
Qed.
Lemma lua_nl_lf_to e t : no_cr t = true -> lua_nl (lf_to e t) = t.
Proof. destruct e; [rewrite lf_to_unix; apply lua_nl_no_cr|apply lua_nl_lf_to_win]. Qed.

Lemma crlf_cons_other c X : eqc c CR = false -> crlf_to_lf (c :: X) = c :: crlf_to_lf X.
Proof. intros C. destruct X as [|d r]; cbn [crlf_to_lf]; rewrite ?C; reflexivity. Qed.
Lemma crlf_cons_crlf X : crlf_to_lf (CR :: LF :: X) = LF :: crlf_to_lf X.
Proof. reflexivity. Qed.
Lemma crlf_lf_to e : forall t, no_cr t = true -> crlf_to_lf (lf_to e t) = t.
Proof.
  induction t as [|c r IH]; [reflexivity|]. cbn [no_cr]. intros H. apply andb_true_iff in H. destruct H as [C H].
  apply negb_true_iff in C. unfold lf_to. cbn [flat_map]. fold (lf_to e r).
  destruct (eqc c LF) eqn:L.
  - apply eqc_true in L. subst c. destruct e; cbn [le_chars app].
    + rewrite (crlf_cons_other LF _ eq_refl). f_equal. apply IH. exact H.
    + rewrite crlf_cons_crlf. f_equal. apply IH. exact H.
  - cbn [app]. rewrite (crlf_cons_other c _ C). f_equal. apply IH. exact H.
Qed.

(* C04 for long brackets: outside the known class the value is unchanged in every dialect *)
Theorem bracket_value_preserved e s : no_lone_cr s = true ->
  lua_nl (conv e s) = lua_nl s /\ luau_nl (conv e s) = luau_nl s.
Proof.
  intros H. unfold conv, luau_nl. pose proof (crlf_no_cr s H) as N. split.
  - rewrite (lua_nl_lf_to e _ N). symmetry. apply lua_nl_crlf. exact H.
  - apply crlf_lf_to. exact N.
Qed.
(* ... and inside the class it is not: CR CR LF is two newlines, its conversion is one *)
Theorem bracket_lone_cr_refuted : exists s, lua_nl (conv Unix s) <> lua_nl s /\ luau_nl (conv Unix s) <> luau_nl s.
Proof. exists [CR; CR; LF]. split; vm_compute; discriminate. Qed.
Example class_inhabited : no_lone_cr [CR; CR; LF] = false /\ no_lone_cr ["a"; CR; LF; LF; "b"] = true.
Proof. split; reflexivity. Qed.

(* the conversion is idempotent and produces only the configured ending *)
Lemma no_cr_no_lone t : no_cr t = true -> no_lone_cr t = true.
Proof. induction t as [|c r IH]; [reflexivity|]. cbn. intros H. apply andb_true_iff in H. destruct H as [C H]. apply negb_true_iff in C. rewrite C. auto. Qed.
Theorem conv_idem e s : no_lone_cr s = true -> conv e (conv e s) = conv e s.
Proof. intros H. unfold conv. rewrite (crlf_lf_to e _ (crlf_no_cr s H)). reflexivity. Qed.
