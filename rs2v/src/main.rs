//! rs2v: translates named pure functions of /repo's Rust source into Gallina, on every run.
//!
//! Accepted subset (anything else is reported as "outside the verified subset" and the translation fails):
//!   fn over references to enums returning bool; `match` with tuple-struct / struct / path / wildcard / or-patterns
//!   and guards (a guarded arm falls through to the remaining arms); `matches!`; `if` / `else if` / `if let`
//!   in statement position with early `return`; `!`, `&&`, `||`; `&`/`*` erased; calls of translated functions;
//!   `x.token_type()`; `#[cfg(feature = ...)]` arms are included (the harness builds with every syntax feature).
//! Mapping: a path `A::B` becomes the identifier `A_B`; struct patterns are filled with `_` in the field order of
//! the mirror type declared in coq/theories/FmAst.v (table `fields` below).
use quote::ToTokens;
use std::fmt::Write as _;
use syn::parse::Parser;
use syn::*;

type R<T> = std::result::Result<T, String>;

fn path_name(p: &Path) -> String {
    p.segments.iter().map(|s| s.ident.to_string()).collect::<Vec<_>>().join("_")
}

/// field order of the mirrored constructors (FmAst.v)
fn fields(ctor: &str) -> Option<Vec<&'static str>> {
    Some(match ctor {
        "Expression_Parentheses" => vec!["contained", "expression"],
        "Expression_UnaryOperator" => vec!["unop", "expression"],
        "Expression_BinaryOperator" => vec!["lhs", "binop", "rhs"],
        "Expression_TypeAssertion" => vec!["expression", "type_assertion"],
        "TokenType_Symbol" => vec!["symbol"],
        "TokenType_StringLiteral" => vec!["literal", "multi_line_depth", "quote_type"],
        _ => return None,
    })
}

fn pat(p: &Pat) -> R<String> {
    Ok(match p {
        Pat::Wild(_) => "_".into(),
        Pat::Ident(i) if i.subpat.is_none() => i.ident.to_string(),
        Pat::Path(pp) => path_name(&pp.path),
        Pat::TupleStruct(ts) => {
            let mut a = vec![];
            for e in &ts.elems {
                a.push(pat(e)?);
            }
            format!("({} {})", path_name(&ts.path), a.join(" "))
        }
        Pat::Struct(s) => {
            let name = path_name(&s.path);
            let fs = fields(&name).ok_or(format!("struct pattern on unknown constructor {}", name))?;
            let mut slots: Vec<String> = fs.iter().map(|_| "_".to_string()).collect();
            for f in &s.fields {
                if let Member::Named(id) = &f.member {
                    let idx = fs.iter().position(|x| *x == id.to_string()).ok_or(format!("unknown field {} of {}", id, name))?;
                    slots[idx] = pat(&f.pat)?;
                }
            }
            format!("({} {})", name, slots.join(" "))
        }
        Pat::Or(o) => {
            let mut a = vec![];
            for c in &o.cases {
                a.push(pat(c)?);
            }
            a.join(" | ")
        }
        Pat::Reference(r) => pat(&r.pat)?,
        Pat::Paren(r) => pat(&r.pat)?,
        other => return Err(format!("pattern outside subset: {}", other.to_token_stream())),
    })
}

fn is_match(scrut: &str, p: &str) -> String {
    format!("(match {} with {} => true | _ => false end)", scrut, p)
}

fn expr(e: &Expr) -> R<String> {
    Ok(match e {
        Expr::Lit(l) => match &l.lit {
            Lit::Bool(b) => b.value.to_string(),
            _ => return Err("literal outside subset".into()),
        },
        Expr::Path(p) => path_name(&p.path),
        Expr::Paren(p) => expr(&p.expr)?,
        Expr::Reference(r) => expr(&r.expr)?,
        Expr::Unary(u) => match u.op {
            UnOp::Not(_) => format!("(negb {})", expr(&u.expr)?),
            UnOp::Deref(_) => expr(&u.expr)?,
            _ => return Err("unary operator outside subset".into()),
        },
        Expr::Binary(b) => match b.op {
            BinOp::And(_) => format!("(andb {} {})", expr(&b.left)?, expr(&b.right)?),
            BinOp::Or(_) => format!("(orb {} {})", expr(&b.left)?, expr(&b.right)?),
            _ => return Err(format!("binary operator outside subset: {}", b.to_token_stream())),
        },
        Expr::Call(c) => {
            let mut a = vec![];
            for x in &c.args {
                a.push(expr(x)?);
            }
            format!("({} {})", expr(&c.func)?, a.join(" "))
        }
        Expr::MethodCall(m) if m.method == "token_type" && m.args.is_empty() => format!("(token_type {})", expr(&m.receiver)?),
        Expr::Macro(m) if m.mac.path.is_ident("matches") => {
            let ts = m.mac.tokens.to_string();
            let (scrut, pats) = ts.split_once(',').ok_or("matches! without pattern")?;
            let p: Pat = Pat::parse_multi_with_leading_vert.parse_str(pats).map_err(|e| e.to_string())?;
            let s: Expr = parse_str(scrut).map_err(|e| e.to_string())?;
            is_match(&expr(&s)?, &pat(&p)?)
        }
        Expr::Match(m) => arms(&expr(&m.expr)?, &m.arms)?,
        Expr::Block(b) => block(&b.block.stmts)?,
        Expr::If(i) => {
            let els = i.else_branch.as_ref().ok_or("if without else in value position")?;
            format!("(if {} then {} else {})", cond(&i.cond)?, block(&i.then_branch.stmts)?, expr(&els.1)?)
        }
        other => return Err(format!("expression outside subset: {}", other.to_token_stream())),
    })
}

fn cond(c: &Expr) -> R<String> {
    match c {
        Expr::Let(l) => Ok(is_match(&expr(&l.expr)?, &pat(&l.pat)?)),
        other => expr(other),
    }
}

/// a block in value position; statements with early returns take the rest as their continuation
fn block(stmts: &[Stmt]) -> R<String> {
    match stmts.split_first() {
        None => Err("empty block in value position".into()),
        Some((Stmt::Expr(e, None), [])) => expr(e),
        Some((Stmt::Expr(Expr::Return(r), _), _)) => expr(r.expr.as_ref().ok_or("return without value")?),
        Some((Stmt::Expr(Expr::If(i), _), rest)) => if_stmt(i, &block(rest)?),
        Some((other, _)) => Err(format!("statement outside subset: {}", other.to_token_stream())),
    }
}
fn stmts_k(stmts: &[Stmt], k: &str) -> R<String> {
    match stmts.split_first() {
        None => Ok(k.to_string()),
        Some((Stmt::Expr(Expr::Return(r), _), _)) => expr(r.expr.as_ref().ok_or("return without value")?),
        Some((Stmt::Expr(Expr::If(i), _), rest)) => if_stmt(i, &stmts_k(rest, k)?),
        Some((other, _)) => Err(format!("statement outside subset: {}", other.to_token_stream())),
    }
}
fn if_stmt(i: &ExprIf, k: &str) -> R<String> {
    let els = match &i.else_branch {
        None => k.to_string(),
        Some((_, e)) => match &**e {
            Expr::If(j) => if_stmt(j, k)?,
            Expr::Block(b) => stmts_k(&b.block.stmts, k)?,
            _ => return Err("else branch outside subset".into()),
        },
    };
    Ok(format!("(if {} then {} else {})", cond(&i.cond)?, stmts_k(&i.then_branch.stmts, k)?, els))
}

fn arms(scrut: &str, arms_: &[Arm]) -> R<String> {
    let mut out = format!("match {} with", scrut);
    for (idx, a) in arms_.iter().enumerate() {
        let body = expr(&a.body)?;
        match &a.guard {
            None => {
                write!(out, "\n  | {} => {}", pat(&a.pat)?, body).unwrap();
                if matches!(a.pat, Pat::Wild(_)) {
                    break;
                }
            }
            Some((_, g)) => {
                let rest = arms(scrut, &arms_[idx + 1..])?;
                write!(out, "\n  | {} => if {} then {} else ({})", pat(&a.pat)?, expr(g)?, body, rest).unwrap();
            }
        }
    }
    Ok(out + "\n  end")
}

struct Kernel {
    file: &'static str,
    func: &'static str,
    /// Gallina header: name, binders, struct argument, result type
    header: &'static str,
    module: &'static str,
}

const KERNELS: &[Kernel] = &[Kernel {
    file: "src/formatters/expression.rs",
    func: "check_excess_parentheses",
    header: "Fixpoint check_excess_parentheses (internal_expression : Expression) (context : ExpressionContext) {struct internal_expression} : bool :=",
    module: "CheckExcess",
}];

fn find_fn<'a>(f: &'a File, name: &str) -> Option<&'a ItemFn> {
    f.items.iter().find_map(|it| match it {
        Item::Fn(func) if func.sig.ident == name => Some(func),
        _ => None,
    })
}


// ---------------------------------------------------------------------------------------------------------
// Special extractor: every access to the static EXIT_CODE in src/cli/main.rs, grouped by the innermost closure or
// match arm (or function body) it is written in, in source order.  Accesses inside closures form the programs that may run on any thread,
// any number of times; accesses directly in a function body are run by the main thread.
// A conditional access is translated as an unconditional one (conservative: more behaviours, never fewer).
struct ExitOps {
    stack: Vec<usize>,               // ids of the enclosing closures (empty = function body)
    next_id: usize,
    fn_name: String,
    found: Vec<(String, usize, String)>, // (function, closure id or 0, instr)
    errors: Vec<String>,
}
fn int_arg(e: &Expr) -> Option<u64> {
    match e {
        Expr::Lit(ExprLit { lit: Lit::Int(i), .. }) => i.base10_parse().ok(),
        _ => None,
    }
}
impl<'ast> syn::visit::Visit<'ast> for ExitOps {
    fn visit_item_fn(&mut self, f: &'ast ItemFn) {
        let old = std::mem::replace(&mut self.fn_name, f.sig.ident.to_string());
        syn::visit::visit_item_fn(self, f);
        self.fn_name = old;
    }
    fn visit_expr_closure(&mut self, c: &'ast ExprClosure) {
        self.next_id += 1;
        self.stack.push(self.next_id);
        syn::visit::visit_expr_closure(self, c);
        self.stack.pop();
    }
    fn visit_arm(&mut self, a: &'ast Arm) {
        // the arms of a match are alternatives, not a sequence: each is its own program
        self.next_id += 1;
        self.stack.push(self.next_id);
        syn::visit::visit_arm(self, a);
        self.stack.pop();
    }
    fn visit_expr_method_call(&mut self, m: &'ast ExprMethodCall) {
        // arguments (and receiver) first: evaluation order
        syn::visit::visit_expr_method_call(self, m);
        if let Expr::Path(p) = &*m.receiver {
            if p.path.is_ident("EXIT_CODE") {
                let args: Vec<&Expr> = m.args.iter().collect();
                let instr = match (m.method.to_string().as_str(), args.as_slice()) {
                    ("load", [_]) => Some("Load".to_string()),
                    ("store", [v, _]) => int_arg(v).map(|k| format!("Store {}", k)),
                    ("fetch_max", [v, _]) => int_arg(v).map(|k| format!("FetchMax {}", k)),
                    ("compare_exchange", [a, b, _, _]) => match (int_arg(a), int_arg(b)) { (Some(x), Some(y)) => Some(format!("Cas {} {}", x, y)), _ => None },
                    ("swap", [v, _]) => int_arg(v).map(|k| format!("Store {}", k)),
                    _ => None,
                };
                match instr {
                    Some(i) => self.found.push((self.fn_name.clone(), self.stack.last().copied().unwrap_or(0), i)),
                    None => self.errors.push(format!("EXIT_CODE access outside subset: {}", m.to_token_stream())),
                }
            }
        }
    }
    fn visit_macro(&mut self, m: &'ast Macro) {
        // accesses hidden in macro arguments (e.g. inside error!(...)) would be invisible: refuse them
        if m.tokens.to_string().contains("EXIT_CODE") {
            self.errors.push(format!("EXIT_CODE inside a macro invocation: {}", m.path.to_token_stream()));
        }
    }
}
fn exit_ops(repo: &str) -> R<String> {
    let path = format!("{}/src/cli/main.rs", repo);
    let src = std::fs::read_to_string(&path).map_err(|e| format!("{}: {}", path, e))?;
    let f = parse_file(&src).map_err(|e| format!("{}: {}", path, e))?;
    let mut v = ExitOps { stack: vec![], next_id: 0, fn_name: String::new(), found: vec![], errors: vec![] };
    syn::visit::visit_file(&mut v, &f);
    if !v.errors.is_empty() {
        return Err(v.errors.join("; "));
    }
    let mut programs: Vec<(String, usize, Vec<String>)> = vec![];
    for (func, id, instr) in v.found {
        match programs.iter_mut().find(|(f2, i2, _)| *f2 == func && *i2 == id) {
            Some(p) => p.2.push(instr),
            None => programs.push((func, id, vec![instr])),
        }
    }
    let mut out = String::from("(* GENERATED by rs2v from src/cli/main.rs :: every access to EXIT_CODE -- do not edit; regenerated on every run *)\nFrom Coq Require Import List.\nImport ListNotations.\nFrom SV Require Import Sched.\n");
    let show = |ps: Vec<&(String, usize, Vec<String>)>| ps.iter().map(|p| format!("[{}] (* fn {}{} *)", p.2.join("; "), p.0, if p.1 > 0 { format!(", closure/arm #{}", p.1) } else { String::new() })).collect::<Vec<_>>().join(";\n  ");
    out += &format!("Definition exit_programs : list (list instr) :=\n  [{}].\n", show(programs.iter().filter(|p| p.1 > 0).collect()));
    out += &format!("Definition exit_main : list (list instr) :=\n  [{}].\n", show(programs.iter().filter(|p| p.1 == 0).collect()));
    Ok(out)
}

fn main() {
    let args: Vec<String> = std::env::args().collect();
    let repo = args.get(1).map(|s| s.as_str()).unwrap_or("/repo");
    let outdir = args.get(2).map(|s| s.as_str()).unwrap_or("gen");
    std::fs::create_dir_all(outdir).unwrap();
    let mut failed = false;
    for k in KERNELS {
        let path = format!("{}/{}", repo, k.file);
        let result: R<String> = (|| {
            let src = std::fs::read_to_string(&path).map_err(|e| format!("{}: {}", path, e))?;
            let f = parse_file(&src).map_err(|e| format!("{}: {}", path, e))?;
            let func = find_fn(&f, k.func).ok_or(format!("function {} not found in {}", k.func, k.file))?;
            let body = block(&func.block.stmts)?;
            Ok(format!(
                "(* GENERATED by rs2v from {} :: {} -- do not edit; regenerated on every run *)\nFrom SV Require Import FmAst.\n{}\n  {}.\n",
                k.file, k.func, k.header, body
            ))
        })();
        match result {
            Ok(text) => {
                let out = format!("{}/{}.v", outdir, k.module);
                // keep the file's mtime when nothing changed, so that make does not rebuild the proofs
                if std::fs::read_to_string(&out).ok().as_deref() != Some(text.as_str()) {
                    std::fs::write(&out, text).unwrap();
                }
                println!("TRANSLATED {} {}", k.func, out);
            }
            Err(e) => {
                println!("UNTRANSLATABLE {} {}", k.func, e.replace('\n', " "));
                failed = true;
            }
        }
    }
    match exit_ops(repo) {
        Ok(text) => {
            let out = format!("{}/ExitOps.v", outdir);
            if std::fs::read_to_string(&out).ok().as_deref() != Some(text.as_str()) {
                std::fs::write(&out, text).unwrap();
            }
            println!("TRANSLATED exit_ops {}", out);
        }
        Err(e) => {
            println!("UNTRANSLATABLE exit_ops {}", e.replace('\n', " "));
            failed = true;
        }
    }
    std::process::exit(if failed { 1 } else { 0 });
}
