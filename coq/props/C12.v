(* C12 - require sorting only permutes statements inside a require block.  Statements only.
   Instantiated with the byte-wise order of Rust's String (total and transitive: proved). *)
From Coq Require Import List Bool Permutation Sorted Ascii.
From SV Require SortReq SortReqProof.
Import ListNotations SortReq.

Section C12.
Variables body trivia : Type.
Notation key := (list ascii).
Notation sortr := (sort_requires key str_leb body trivia).
Notation sortg := (sort_group key str_leb body trivia).

Theorem C12_statements_permuted : forall l, Permutation (map (body_of key body trivia) l) (map (body_of key body trivia) (sortr l)).
Proof. exact (SortReqProof.sort_perm key str_leb body trivia). Qed.
Theorem C12_leading_trivia_all_kept : forall l,
  Permutation (concat (map (lead_of key body trivia) l)) (concat (map (lead_of key body trivia) (sortr l))).
Proof. exact (SortReqProof.leads_perm key str_leb body trivia). Qed.
Theorem C12_other_statements_fixed : forall l, map (other_slot key body trivia) (sortr l) = map (other_slot key body trivia) l.
Proof. exact (SortReqProof.others_fixed key str_leb body trivia). Qed.
(* the output is the input's groups, each sorted on its own: groups never merge and never exchange members *)
Theorem C12_groupwise : forall l, sortr l = flatten key body trivia (sort_groups key str_leb body trivia (groups key body trivia [] l))
  /\ flatten key body trivia (groups key body trivia [] l) = l.
Proof. intros l. split; [reflexivity|exact (SortReqProof.off_is_identity key body trivia l)]. Qed.
Theorem C12_group_sorted : forall g, forallb (normal key body trivia) g = true ->
  Sorted (SortReqProof.le_req key str_leb body trivia) (sortg g).
Proof. exact (SortReqProof.group_sorted key str_leb SortReqProof.str_leb_total body trivia). Qed.
Theorem C12_group_stable : forall k g, forallb (normal key body trivia) g = true ->
  map (rbody key body trivia) (filter (fun r => SortReqProof.eqk key str_leb (name key body trivia r) k) (sortg g)) =
  map (rbody key body trivia) (filter (fun r => SortReqProof.eqk key str_leb (name key body trivia r) k) g).
Proof. exact (SortReqProof.group_stable key str_leb SortReqProof.str_leb_trans body trivia). Qed.
Theorem C12_ignored_group_untouched : forall g, forallb (normal key body trivia) g = false -> sortg g = g.
Proof. exact (SortReqProof.ignored_group_untouched key str_leb body trivia). Qed.
Theorem C12_group_idempotent : forall g, sortg (sortg g) = sortg g.
Proof. exact (SortReqProof.sort_group_idem key str_leb SortReqProof.str_leb_total body trivia). Qed.
End C12.
Print Assumptions C12_statements_permuted.
Print Assumptions C12_leading_trivia_all_kept.
Print Assumptions C12_other_statements_fixed.
Print Assumptions C12_groupwise.
Print Assumptions C12_group_sorted.
Print Assumptions C12_group_stable.
Print Assumptions C12_ignored_group_untouched.
Print Assumptions C12_group_idempotent.
