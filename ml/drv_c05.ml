(* C05 judge.  For every record (context, input tree as parsed by full_moon, output tree as re-parsed by full_moon):
   (P) the parser model agrees with full_moon:  Expr.parse (Expr.tokens e) = Some e and Expr.can e   [input and output]
   (K) the output is a member of the relation R of Parens.v:  Parens.inR ctx e o = true
   (S) the property itself, judged on the implementation's output: Sm o = Sm e, no_double_minus o *)
open Util
open Expr

let bop_of = function
  | "Or" -> Or | "And" -> And | "Lt" -> Lt | "Gt" -> Gt | "Le" -> Le | "Ge" -> Ge | "Ne" -> Ne | "Eq" -> Eq
  | "BOr" -> BOr | "BXor" -> BXor | "BAnd" -> BAnd | "Shl" -> Shl | "Shr" -> Shr | "Concat" -> Concat
  | "Add" -> Add | "Sub" -> Sub | "Mul" -> Mul | "Div" -> Div | "IDiv" -> IDiv | "Mod" -> Mod | "Pow" -> Pow
  | s -> failwith ("bop " ^ s)
let uop_of = function "Neg" -> Neg | "Not" -> Not | "Len" -> Len | "BNot" -> BNot | s -> failwith ("uop " ^ s)
let rec expr_of = function
  | Sexp.A "atom" -> Atom | Sexp.A "multi" -> Multi
  | Sexp.Lst [Sexp.A "par"; x] -> Paren (expr_of x)
  | Sexp.Lst [Sexp.A "un"; Sexp.A u; x] -> Un (uop_of u, expr_of x)
  | Sexp.Lst [Sexp.A "bin"; Sexp.A b; l; r] -> Bin (bop_of b, expr_of l, expr_of r)
  | Sexp.Lst [Sexp.A "as"; x] -> Assert (expr_of x)
  | Sexp.Lst [Sexp.A "if"; x] -> IfE (expr_of x)
  | _ -> failwith "expr_of"
let ctx_of = function "Std" | "Cond" -> Parens.Std | "Prefix" -> Parens.Prefix | s -> failwith ("ctx " ^ s)

(* `x :: T :: U` (an assertion whose operand is not a closed primary) is accepted by full_moon but left out of [can] *)
let rec outside = function
  | Atom | Multi -> false | Paren x | Un (_, x) | IfE x -> outside x | Bin (_, l, r) -> outside l || outside r
  | Assert x -> (match x with Atom | Multi | Paren _ -> outside x | _ -> true)
let outside_domain = ref 0
let noncanonical = ref 0
let records = ref 0 and bad = ref 0 and nontrivial = ref 0 and samples = ref 0 and hung = ref 0
let distinct = Hashtbl.create 100000
let report kind line = incr bad; Printf.printf "BAD %s %s\n" kind line

let handle line =
  match words line with
  | "E" :: _syn :: _cname :: mctx :: _w :: _text :: tin :: status :: rest ->
    incr records;
    if status <> "ok" then report ("status-" ^ status) line
    else begin
      let e = expr_of (Sexp.parse tin) and o = expr_of (Sexp.parse (L.hd rest)) in
      (* conditions lose every outer pair of parentheses before the rule applies (remove_condition_parentheses, all layers
         since the repair D42); a condition uses one value only, so those pairs cannot truncate anything
         (ParensIdem.condition_rule_keeps_first_value) *)
      let e = if mctx = "Cond" then Parens.strip e else e in
      let c = ctx_of mctx in
      Hashtbl.replace distinct (mctx, e, o) ();
      if e <> o then incr nontrivial;
      if outside e then incr outside_domain
      (* a tree full_moon returns that is not in canonical form (seen only for Luau `x :: T < y`, where full_moon's type
         parser takes the `<`): outside the hypothesis of the theorems; counted, and judged by the runner if frequent *)
      else if not (can e) then incr noncanonical
      else if parse (tokens e) <> Some e then report "parser-model-input" line
      else if not (Parens.inR c e o) then report "output-not-in-R" line
      else begin
        if coq_Sm o <> coq_Sm e then report "tree-changed" line;
        if not (can o) then report "output-not-canonical" line;
        if parse (tokens o) <> Some o then report "parser-model-output" line;
        if not (no_double_minus o) then report "double-minus" line;
        if o <> Parens.fmt_single c e then incr hung
      end;
      if !samples < 6 && !records mod 50021 = 7 then (incr samples; Printf.printf "SAMPLE %s\n" line)
    end
  | "STATS" :: _ -> print_endline line
  | [] -> ()
  | _ -> report "unreadable-record" line

let () =
  iter_lines handle;
  Printf.printf "SUMMARY records=%d noncanonical_inputs=%d outside_domain=%d distinct=%d nontrivial=%d differs_from_single_line=%d bad=%d\n"
    !records !noncanonical !outside_domain (Hashtbl.length distinct) !nontrivial !hung !bad
