(* C20 - an option means the same thing wherever it is written.  Statements only: finite facts about the tables that
   rs2v regenerates from src/lib.rs, src/cli/opt.rs, src/cli/config.rs, src/editorconfig.rs and README.md on every run. *)
From SV Require Options.
Theorem C20_cli_enums_are_the_library_enums : Options.cli_matches_lib = true.
Proof. vm_compute. reflexivity. Qed.
Print Assumptions C20_cli_enums_are_the_library_enums.
Theorem C20_every_enum_option_has_a_flag : Options.every_enum_field_has_cli = true.
Proof. vm_compute. reflexivity. Qed.
Print Assumptions C20_every_enum_option_has_a_flag.
Theorem C20_command_line_carries_every_option : Options.cli_carries_all_fields = true.
Proof. vm_compute. reflexivity. Qed.
Print Assumptions C20_command_line_carries_every_option.
Theorem C20_overrides_apply_every_flag : Options.overrides_apply_all = true.
Proof. vm_compute. reflexivity. Qed.
Print Assumptions C20_overrides_apply_every_flag.
Theorem C20_readme_values_and_defaults_match : Options.readme_consistent = true.
Proof. vm_compute. reflexivity. Qed.
Print Assumptions C20_readme_values_and_defaults_match.
Theorem C20_readme_documents_every_option : Options.readme_complete = true.
Proof. vm_compute. reflexivity. Qed.
Print Assumptions C20_readme_documents_every_option.
Theorem C20_editorconfig_vocabulary_consistent : Options.editorconfig_consistent = true /\ Options.editorconfig_fields_exist = true.
Proof. split; vm_compute; reflexivity. Qed.
Print Assumptions C20_editorconfig_vocabulary_consistent.
