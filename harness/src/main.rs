//! svh: the implementation side of every correspondence check.  Always built against /repo.
mod c04;
mod c05;
mod c07;
mod c0809;
mod c12;
mod c18;
mod calls;
mod common;
mod fmt;
mod gen;
mod l0;
mod nf;
mod run;
mod semi;
mod stmts;
mod tree;

fn main() {
    let args: Vec<String> = std::env::args().collect();
    if args.len() < 2 {
        eprintln!("usage: svh <subcommand> ...");
        std::process::exit(2);
    }
    match args[1].as_str() {
        "c04" => c04::main(&args[2..]),
        "c05" => c05::main(&args[2..]),
        "c07" => c07::main(&args[2..]),
        "c08" | "c09" => c0809::main(&args[1..]),
        "c12" => c12::main(&args[2..]),
        "c18" => c18::main(&args[2..]),
        "fmt" => fmt::main(&args[2..]),
        "gen" => gen::main(&args[2..]),
        "l0" => l0::main(&args[2..]),
        "run" => run::main(&args[2..]),
        "semi" => semi::main(&args[2..]),
        other => {
            eprintln!("svh: unknown subcommand {}", other);
            std::process::exit(2);
        }
    }
}
