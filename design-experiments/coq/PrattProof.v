From Coq Require Import List Arith Bool Lia Wf_nat.
Import ListNotations.

Inductive bop := Or | Add | Mul | Concat | Pow.
Definition prec (b : bop) : nat := match b with Or => 1 | Add => 9 | Mul => 10 | Concat => 8 | Pow => 12 end.
Definition rassoc (b : bop) : bool := match b with Concat | Pow => true | _ => false end.
Definition q (b : bop) : nat := if rassoc b then prec b else S (prec b).
Definition uprec := 11.

Inductive expr := Atom | Paren (e : expr) | Un (e : expr) | Bin (b : bop) (l r : expr).
Inductive tok := TA | TL | TR | TU | TB (b : bop).

Fixpoint tokens (e : expr) : list tok :=
  match e with
  | Atom => [TA] | Paren e => TL :: tokens e ++ [TR] | Un e => TU :: tokens e
  | Bin b l r => tokens l ++ TB b :: tokens r
  end.

Fixpoint pexpr (f p : nat) (ts : list tok) {struct f} : option (expr * list tok) :=
  match f with O => None | S f =>
    match pprim f ts with Some (l, r) => ploop f l p r | None => None end end
with ploop (f : nat) (lhs : expr) (p : nat) (ts : list tok) {struct f} : option (expr * list tok) :=
  match f with O => None | S f =>
    match ts with
    | TB b :: r => if p <=? prec b then
                     match pexpr f (q b) r with
                     | Some (rhs, r') => ploop f (Bin b lhs rhs) p r'
                     | None => None end
                   else Some (lhs, ts)
    | _ => Some (lhs, ts)
    end end
with pprim (f : nat) (ts : list tok) {struct f} : option (expr * list tok) :=
  match f with O => None | S f =>
    match ts with
    | TA :: r => Some (Atom, r)
    | TL :: r => match pexpr f 0 r with Some (e, TR :: r') => Some (Paren e, r') | _ => None end
    | TU :: r => match pexpr f uprec r with Some (e, r') => Some (Un e, r') | None => None end
    | _ => None
    end end.

Definition inf := 100.
Fixpoint rmin (e : expr) : nat :=
  match e with Atom | Paren _ => inf | Un a => Nat.min uprec (rmin a) | Bin b _ r => Nat.min (q b) (rmin r) end.
Definition top_ge (k : nat) (e : expr) : Prop := match e with Bin c _ _ => k <= prec c | _ => True end.
Fixpoint can (e : expr) : Prop :=
  match e with
  | Atom => True | Paren e => can e | Un a => can a /\ top_ge uprec a
  | Bin b l r => can l /\ can r /\ prec b < rmin l /\ top_ge (q b) r
  end.
Definition follow_lt (k : nat) (rest : list tok) : Prop :=
  match rest with TB c :: _ => prec c < k | _ => True end.

Fixpoint size (e : expr) : nat :=
  match e with Atom => 1 | Paren e => S (size e) | Un e => S (size e) | Bin _ l r => S (size l + size r) end.
Definition need (e : expr) : nat := 4 * size e.
Definition needA (e : expr) : nat := 4 * size e - 4.
Definition needP (e : expr) : nat := 4 * size e - 2.

Fixpoint lp (e : expr) : expr := match e with Bin _ l _ => lp l | _ => e end.
Fixpoint tail (e : expr) : list tok := match e with Bin b l r => tail l ++ TB b :: tokens r | _ => [] end.

Lemma tokens_lp_tail e : tokens e = tokens (lp e) ++ tail e.
Proof. induction e as [| |a IH|b l IHl r IHr]; cbn; rewrite ?app_nil_r; try reflexivity.
  rewrite IHl at 1. rewrite <- app_assoc. reflexivity. Qed.

Lemma prec_lt_inf b : prec b < inf. Proof. destruct b; cbn; unfold inf; lia. Qed.
Lemma q_ge b : prec b <= q b. Proof. unfold q; destruct (rassoc b); lia. Qed.

Lemma follow_lt_mono k k' rest : k <= k' -> follow_lt k rest -> follow_lt k' rest.
Proof. destruct rest as [|[| | | |c] r]; cbn; auto; lia. Qed.

(* the first thing after the leftmost primary does not get swallowed by it *)
Lemma follow_lp e rest : can e -> follow_lt (rmin e) rest -> follow_lt (rmin (lp e)) (tail e ++ rest).
Proof.
  revert rest. induction e as [| |a IH|b l IHl r IHr]; intros rest Hc Hf; cbn in *; auto.
  destruct Hc as (Hl & Hr & Hlt & Hq).
  rewrite <- app_assoc. cbn. apply IHl; auto.
Qed.

Lemma size_pos e : 1 <= size e. Proof. destruct e; cbn; lia. Qed.

(* ploop stops when the next token is not a binary operator of sufficient precedence *)
Lemma ploop_stop f e p rest : 1 <= f -> follow_lt p rest -> ploop f e p rest = Some (e, rest).
Proof.
  intros Hf H. destruct f as [|f]; [lia|]. cbn. destruct rest as [|[| | | |c] r]; try reflexivity.
  cbn in H. destruct (p <=? prec c) eqn:E; [apply Nat.leb_le in E; lia|reflexivity].
Qed.

Definition MAIN (e : expr) : Prop :=
  forall p rest f, can e -> top_ge p e -> follow_lt (Nat.min p (rmin e)) rest -> need e <= f ->
    pexpr f p (tokens e ++ rest) = Some (e, rest).
Definition ABS (e : expr) : Prop :=
  forall p rest R g, can e -> top_ge p e -> follow_lt (rmin e) rest ->
    (forall f, g <= f -> ploop f e p rest = R) ->
    (forall f, g + needA e <= f -> ploop f (lp e) p (tail e ++ rest) = R).

Lemma top_ge_left p b l r : can (Bin b l r) -> top_ge p (Bin b l r) -> top_ge p l.
Proof.
  cbn. intros (Hl & Hr & Hlt & Hq) Hp. destruct l as [| | |c l1 l2]; cbn; auto.
  cbn in Hlt. pose proof (q_ge c). unfold q in *. destruct (rassoc c); lia.
Qed.

Lemma both : forall n e, size e <= n -> MAIN e /\ ABS e.
Proof.
  induction n as [|n IH]; intros e Hn; [pose proof (size_pos e); lia|].
  assert (HABS : ABS e).
  { destruct e as [| |a|b l r]; unfold ABS; cbn [lp tail app]; intros p rest R g Hc Hp Hf HR f Hfuel.
    - apply HR. lia.
    - apply HR. lia.
    - apply HR. lia.
    - cbn in Hn. destruct (IH l ltac:(lia)) as [_ ABSl]. destruct (IH r ltac:(lia)) as [MAINr _].
      pose proof Hc as Hc'. cbn in Hc. destruct Hc as (Hl & Hr & Hlt & Hq).
      rewrite <- app_assoc. cbn [app].
      apply (ABSl p (TB b :: tokens r ++ rest) R (S (g + need r))); auto.
      + eapply top_ge_left; eauto.
      + intros f' Hf'. destruct f' as [|f']; [lia|]. cbn [ploop].
        cbn in Hp. destruct (p <=? prec b) eqn:E; [|apply Nat.leb_gt in E; lia].
        assert (HM : pexpr f' (q b) (tokens r ++ rest) = Some (r, rest)).
        { apply MAINr; auto. lia. }
        rewrite HM. apply HR; lia.
      + unfold need, needA in *. cbn [size] in *. pose proof (size_pos l). pose proof (size_pos r). lia. }
  split; [|exact HABS].
  unfold MAIN. intros p rest f Hc Hp Hf Hfuel.
  destruct f as [|f]; [unfold need in Hfuel; pose proof (size_pos e); lia|].
  cbn [pexpr]. rewrite tokens_lp_tail, <- app_assoc.
  assert (Hfl : follow_lt (rmin (lp e)) (tail e ++ rest)).
  { apply follow_lp; auto. eapply follow_lt_mono; [|exact Hf]. lia. }
  assert (Hsz : size (lp e) <= size e). { clear. induction e; cbn; lia. }
  (* parse the leftmost primary *)
  assert (Hprim : forall f', needP (lp e) <= f' -> pprim f' (tokens (lp e) ++ tail e ++ rest) = Some (lp e, tail e ++ rest)).
  { assert (Hcl : can (lp e)). { clear - Hc. induction e; cbn in *; tauto. }
    assert (Hnb : match lp e with Bin _ _ _ => False | _ => True end). { clear. induction e; cbn; auto. }
    destruct (lp e) as [| a | a | ? ? ?] eqn:Elp; [| | |contradiction]; intros f' Hf'.
    - destruct f'; [unfold needP in Hf'; cbn in Hf'; lia|]. reflexivity.
    - destruct f'; [unfold needP in Hf'; cbn in Hf'; lia|]. cbn [tokens app pprim]. rewrite <- app_assoc.
      cbn in Hsz. destruct (IH a ltac:(lia)) as [MAINa _].
      assert (HM : pexpr f' 0 (tokens a ++ [TR] ++ tail e ++ rest) = Some (a, [TR] ++ tail e ++ rest)).
      { apply MAINa.
        - exact Hcl.
        - destruct a; cbn; auto; lia.
        - cbn. exact I.
        - unfold need, needP in *; cbn [size] in *; lia. }
      rewrite HM. reflexivity.
    - destruct f'; [unfold needP in Hf'; cbn in Hf'; lia|]. cbn [tokens app pprim].
      cbn in Hsz. destruct (IH a ltac:(lia)) as [MAINa _]. cbn in Hcl. destruct Hcl as [Hca Hta].
      assert (HM : pexpr f' uprec (tokens a ++ tail e ++ rest) = Some (a, tail e ++ rest)).
      { apply MAINa; auto. unfold need, needP in *; cbn [size] in *; lia. }
      rewrite HM. reflexivity. }
  rewrite Hprim by (unfold need, needP in *; lia).
  apply (HABS p rest (Some (e, rest)) 1); auto.
  - eapply follow_lt_mono; [|exact Hf]. lia.
  - intros f' Hf'. apply ploop_stop; auto. eapply follow_lt_mono; [|exact Hf]. lia.
  - unfold need, needA in *. pose proof (size_pos e). lia.
Qed.

Theorem pratt_roundtrip e : can e -> pexpr (need e) 0 (tokens e) = Some (e, []).
Proof.
  intros Hc. destruct (both (size e) e (le_n _)) as [M _].
  specialize (M 0 [] (need e) Hc). rewrite app_nil_r in M. apply M; auto.
  - destruct e; cbn; auto; lia.
  - cbn. auto.
Qed.
Print Assumptions pratt_roundtrip.
