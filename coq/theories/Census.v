(* (S) What the properties observe on a token list (the Coq lexer's output):
   the comment census (C03), the semantic erasure (C02), the whitespace discipline (C10). *)
From Coq Require Import List Ascii String NArith Bool Arith.
Import ListNotations.
From SV Require Import Lex Quote Quote51 QuoteX Bracket Number.
Local Open Scope char_scope.

(* ---------- C03: comments ---------- *)
Inductive com := LineC (text : bytes) | BlockC (depth : nat) (text : bytes) | Sheb (text : bytes).
Fixpoint rstrip_rev (r : bytes) : bytes := match r with c :: r' => if is_ascii_ws c then rstrip_rev r' else r | [] => [] end.
Definition trim_end (s : bytes) : bytes := rev (rstrip_rev (rev s)).
(* allowed changes: trailing whitespace of a line comment / shebang; the newline convention inside a block comment *)
Definition norm_com (t : tok) : option com :=
  match t with
  | TLineCom s => Some (LineC (trim_end s))
  | TBlockCom d b => Some (BlockC d (Bracket.crlf_to_lf b))
  | TShebang s => Some (Sheb (trim_end s))
  | _ => None
  end.
Fixpoint census (ts : list tok) : list com :=
  match ts with [] => [] | t :: r => match norm_com t with Some c => c :: census r | None => census r end end.
Definition com_eqb (a b : com) : bool :=
  match a, b with
  | LineC x, LineC y | Sheb x, Sheb y => beqb x y
  | BlockC d x, BlockC e y => Nat.eqb d e && beqb x y
  | _, _ => false
  end.
Definition count_com (c : com) (l : list com) : nat := List.length (filter (com_eqb c) l).
(* multiset equality *)
Definition census_eq (a b : list com) : bool :=
  Nat.eqb (List.length a) (List.length b) && forallb (fun c => Nat.eqb (count_com c a) (count_com c b)) a.
Definition first_missing (a b : list com) : option com :=
  find (fun c => negb (Nat.eqb (count_com c a) (count_com c b))) (a ++ b).

(* ---------- C02: semantic erasure of a token list ---------- *)
Inductive dial := D51 | DStrict | DLuau.
Inductive etok :=
| EWord (s : bytes)                      (* names, keywords, operators and the remaining punctuation *)
| ENum (v : Number.numv)
| EStr51 (v : option (list N)) | EStrX (v : option (list QuoteX.value)) | ELong (body : bytes).
Definition skip_first_nl (b : bytes) : bytes :=
  match b with
  | c :: r => if eqc c Lex.CR then match r with d :: r' => if eqc d Lex.LF then r' else r | [] => r end
              else if eqc c Lex.LF then match r with d :: r' => if eqc d Lex.CR then r' else r | [] => r end else b
  | [] => []
  end.
Definition str_den (d : dial) (q : qkind) (body : bytes) : etok :=
  match q with
  | QBrackets => ELong (match d with DLuau => Bracket.luau_nl (skip_first_nl body) | _ => Bracket.lua_nl (skip_first_nl body) end)
  | _ => match d with D51 => EStr51 (Quote51.decode51 body) | DStrict => EStrX (QuoteX.decode false body) | DLuau => EStrX (QuoteX.decode true body) end
  end.
Definition dropped_sym (s : bytes) : bool :=
  beqb s (str "(") || beqb s (str ")") || beqb s (str ";") || beqb s (str ",").
Fixpoint erase (d : dial) (ts : list tok) : list etok :=
  match ts with
  | [] => []
  | t :: r =>
    match t with
    | TIdent s => EWord s :: erase d r
    | TSym s => if dropped_sym s then erase d r else EWord s :: erase d r
    | TNum s => ENum (Number.numval s) :: erase d r
    | TStr q _ body => str_den d q body :: erase d r
    | _ => erase d r
    end
  end.

(* ---------- C10: whitespace discipline ---------- *)
Record wscfg := { windows : bool; spaces : bool; width : nat; eof_formatted : bool }.
Inductive wsbad := BadNewline | BadIndent | BadCRInComment | BadEOF.
(* the newlines of a whitespace token or of a block comment body: every LF preceded by CR iff Windows, no other CR *)
Fixpoint newlines_ok (win : bool) (s : bytes) : bool :=
  match s with
  | [] => true
  | c :: r =>
    if eqc c Lex.CR then match r with d :: r' => win && eqc d Lex.LF && newlines_ok win r' | [] => false end
    else if eqc c Lex.LF then negb win && newlines_ok win r
    else newlines_ok win r
  end.
(* the blanks after the last newline of a whitespace token = the indentation of the next line *)
Fixpoint after_last_nl (acc : option bytes) (s : bytes) : option bytes :=
  match s with
  | [] => acc
  | c :: r => if eqc c Lex.LF then after_last_nl (Some []) r
              else after_last_nl (match acc with Some a => Some (a ++ [c]) | None => None end) r
  end.
Definition indent_ok (cfg : wscfg) (ind : bytes) : bool :=
  if spaces cfg then forallb (fun c => eqc c Lex.SP) ind && (match width cfg with O => true | w => Nat.eqb (Nat.modulo (List.length ind) w) 0 end)
  else forallb (fun c => eqc c Lex.TAB) ind.
Definition has_cr (s : bytes) : bool := existsb (fun c => eqc c Lex.CR) s.
(* a line comment or shebang that ends in CR: the tokenizer splits a CR LF line ending between the comment and the
   whitespace after it; [pend] carries that CR into the next token *)
Definition split_cr (s : bytes) : bytes * bool :=
  match rev s with c :: r => if eqc c Lex.CR then (rev r, true) else (s, false) | [] => (s, false) end.
(* [at_start]: the token begins a line (start of the text, or the whitespace token before it ended in a line break:
   full_moon's whitespace tokens are blanks followed by at most one line break, so the indentation of a line is the
   whitespace token that follows the one holding the break). *)
Definition ends_in_lf (s : bytes) : bool := match rev s with c :: _ => eqc c Lex.LF | [] => false end.
Fixpoint ws_scan (cfg : wscfg) (at_start pend : bool) (ts : list tok) : option wsbad :=
  match ts with
  | [] => if pend then Some BadNewline else None
  | t :: r =>
    match t with
    | TWs s0 =>
      let s := if pend then Lex.CR :: s0 else s0 in
      if negb (newlines_ok (windows cfg) s) then Some BadNewline
      else if ends_in_lf s then ws_scan cfg true false r          (* nothing follows on this line *)
      else if at_start then
        (* indentation only matters when something follows on that line *)
        match r with
        | [] => ws_scan cfg false false r
        | _ => if indent_ok cfg s then ws_scan cfg false false r else Some BadIndent
        end
      else ws_scan cfg false false r
    | TLineCom s | TShebang s =>
      if pend then Some BadNewline
      else let '(body, cr) := split_cr s in
           if has_cr body then Some BadCRInComment else ws_scan cfg false cr r
    | TBlockCom _ b => if pend then Some BadNewline else if newlines_ok (windows cfg) b then ws_scan cfg false false r else Some BadNewline
    | _ => if pend then Some BadNewline else ws_scan cfg false false r
    end
  end.
(* exactly one line ending at the end of a non-empty output, when the end of the file is formatted *)
Definition ends_with (suffix s : bytes) : bool := beqb (skipn (List.length s - List.length suffix) s) suffix.
Definition eof_ok (cfg : wscfg) (out : bytes) : bool :=
  match out with
  | [] => true
  | _ => let le := if windows cfg then [Lex.CR; Lex.LF] else [Lex.LF] in
         ends_with le out && negb (ends_with (le ++ le) out) && negb (ends_with (Lex.LF :: le) out)
  end.
Definition ws_check (cfg : wscfg) (out : bytes) (ts : list tok) : option wsbad :=
  match ws_scan cfg true false ts with
  | Some b => Some b
  | None => if eof_formatted cfg && negb (eof_ok cfg out) then Some BadEOF else None
  end.
