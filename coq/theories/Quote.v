From Coq Require Import List Ascii NArith Lia Bool Arith Wf_nat.
Import ListNotations.
Open Scope char_scope.

Definition bs : ascii := "\".
Definition sq : ascii := "'".
Definition dq : ascii := """".
Definition eqc (a b : ascii) : bool := Ascii.eqb a b.
Inductive quote := QS | QD.
Definition qchar (q : quote) : ascii := match q with QS => sq | QD => dq end.
Definition is_quote (c : ascii) : bool := eqc c sq || eqc c dq.
Definition is_digit (c : ascii) : bool := let n := N_of_ascii c in (N.leb 48 n && N.leb n 57)%bool.
Definition keep_escaped (c : ascii) : bool :=
  eqc c "010" || eqc c "013" || eqc c " " || eqc c "009" || eqc c "011" || eqc c "012" || is_quote c || is_digit c || eqc c bs ||
  eqc c "a" || eqc c "b" || eqc c "f" || eqc c "n" || eqc c "r" || eqc c "t" ||
  eqc c "u" || eqc c "v" || eqc c "x" || eqc c "z".
Definition emit_quote (q : quote) (c : ascii) : list ascii :=
  if eqc c (qchar q) then [bs; c] else [c].

Fixpoint rewrite (q : quote) (s : list ascii) : list ascii :=
  match s with
  | [] => []
  | c :: r =>
    if eqc c bs then
      match r with
      | [] => [c]
      | d :: r' =>
        if is_quote d then emit_quote q d ++ rewrite q r'
        else if keep_escaped d then c :: d :: rewrite q r'
        else d :: rewrite q r'
      end
    else if is_quote c then emit_quote q c ++ rewrite q r
    else c :: rewrite q r
  end.

(* units *)
Inductive unit_ := Plain (c : ascii) | Esc (c : ascii) | Dangling.
Fixpoint units (s : list ascii) : list unit_ :=
  match s with
  | [] => []
  | c :: r => if eqc c bs then match r with [] => [Dangling] | d :: r' => Esc d :: units r' end
              else Plain c :: units r
  end.
Definition show_unit (u : unit_) : list ascii :=
  match u with Plain c => [c] | Esc c => [bs; c] | Dangling => [bs] end.

Definition rewrite_u (q : quote) (u : unit_) : list unit_ :=
  match u with
  | Plain c => if is_quote c then (if eqc c (qchar q) then [Esc c] else [Plain c]) else [Plain c]
  | Esc d => if is_quote d then (if eqc d (qchar q) then [Esc d] else [Plain d])
             else if keep_escaped d then [Esc d] else [Plain d]
  | Dangling => [Dangling]
  end.

Lemma eqc_bs_quote c : is_quote c = true -> eqc c bs = false.
Proof. unfold is_quote, eqc, bs, sq, dq. intros H. apply orb_true_iff in H. destruct H as [H|H]; apply Ascii.eqb_eq in H; subst; reflexivity. Qed.

Lemma strong_list_ind (P : list ascii -> Prop) :
  (forall s, (forall t, length t < length s -> P t) -> P s) -> forall s, P s.
Proof.
  intros H s. remember (length s) as n eqn:Hn. revert s Hn.
  induction n as [n IH] using lt_wf_ind. intros s Hn. apply H. intros t Ht. apply (IH (length t)); [lia|reflexivity].
Qed.

Lemma units_rewrite q s : units (rewrite q s) = flat_map (rewrite_u q) (units s).
Proof.
  induction s as [s IH] using strong_list_ind.
  destruct s as [|c r]; [reflexivity|].
  cbn [rewrite units].
  destruct (eqc c bs) eqn:Hc.
  - destruct r as [|d r']; [cbn; rewrite Hc; reflexivity|].
    cbn [flat_map rewrite_u].
    destruct (is_quote d) eqn:Hq.
    + unfold emit_quote. destruct (eqc d (qchar q)) eqn:Hd; cbn [app units].
      * assert (Hb : eqc bs bs = true) by reflexivity. rewrite Hb. rewrite IH by (cbn; lia). reflexivity.
      * rewrite (eqc_bs_quote d Hq). rewrite IH by (cbn; lia). reflexivity.
    + destruct (keep_escaped d) eqn:Hk; cbn [units app].
      * rewrite Hc. rewrite IH by (cbn; lia). reflexivity.
      * assert (Hdb : eqc d bs = false).
        { destruct (eqc d bs) eqn:E; [|reflexivity]. unfold keep_escaped in Hk. rewrite E in Hk. rewrite !orb_true_r in Hk. cbn in Hk. discriminate. }
        rewrite Hdb. rewrite IH by (cbn; lia). reflexivity.
  - cbn [flat_map rewrite_u]. destruct (is_quote c) eqn:Hq.
    + unfold emit_quote. destruct (eqc c (qchar q)) eqn:Hd; cbn [app units].
      * assert (Hb : eqc bs bs = true) by reflexivity. rewrite Hb. rewrite IH by (cbn; lia). reflexivity.
      * rewrite Hc. rewrite IH by (cbn; lia). reflexivity.
    + cbn [units app]. rewrite Hc. rewrite IH by (cbn; lia). reflexivity.
Qed.
Print Assumptions units_rewrite.
