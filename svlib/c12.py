"""C12 - require sorting only permutes statements inside a require block (DESIGN 5/C12)."""
from .core import *

def run(res):
    t_ok, t_log = rs2v("require_kind")       # Tie 1: which statements are members is decided by get_expression_kind
    proof = proof_stage(res, "C12", extra_obligations=3) if t_ok else dict(ok=False, discharged=0, theorems=[], log=t_log, broken_at="rs2v: " + t_log.strip()[-300:])
    if not t_ok: res.coverage.update(obligations=3, discharged=0, checker_cmd="rs2v /repo coq/gen", trusted_base=list(TRUSTED_BASE))
    build_harness(); gen_ok = build_ml()
    n = 20000 if res.tier == "quick" else 400000
    def cmds(i, k):
        return [SVH, "c12", "--n", str(n), "--seed", str(res.seed), "--shard", "%d/%d" % (i, k), "--dir", os.path.join(REPO, "tests", "inputs-sort-requires")], [driver("drv_c12")]
    lines, errs = run_pipeline_sharded(cmds)
    tot, stats, bads, samples = {}, {}, [], []
    for l in lines:
        if l.startswith("SUMMARY"):
            for k, v in parse_kv(l).items(): tot[k] = tot.get(k, 0) + int(v)
        elif l.startswith("STATS"):
            for k, v in parse_kv(l).items(): stats[k] = stats.get(k, 0) + int(v)
        elif l.startswith("BAD"): bads.append(l)
        elif l.startswith("SAMPLE") and len(samples) < 6: samples.append(l[7:])
    # the regenerated classification kernel against the harness's classification (which the judge above uses)
    rq = {}
    if gen_ok and os.path.exists(driver("drv_req")):
        r = sh([SVH, "c12", "--n", str(min(n, 4000)), "--seed", str(res.seed + 3)], check=False)
        j = subprocess.run([driver("drv_req")], input="\n".join(l for l in r.stdout.splitlines() if l.startswith("RQ")) + "\n", stdout=subprocess.PIPE, stderr=subprocess.PIPE, text=True)
        for l in j.stdout.splitlines():
            if l.startswith("SUMMARY"): rq = {k: int(v) for k, v in parse_kv(l).items()}
            elif l.startswith("BAD"): bads.append("BAD classification:%s %s" % (l.split()[1], "-".join(l.split()[3:5])))
        if r.returncode != 0 or j.returncode != 0 or not rq.get("records"): errs.append("classification tie did not run")
    else: errs.append("the regenerated kernel gen/RequireKind.v could not be extracted")
    tie_ok = not errs and not bads and tot.get("cases", 0) > 0 and tot.get("cases") == stats.get("cases")
    if proof["ok"] and tie_ok: res.coverage["discharged"] = proof["discharged"] + 3
    res.coverage["kernels_translated"] = ["src/sort_requires.rs :: extract_identifier_from_token, get_expression_kind -> coq/gen/RequireKind.v (rs2v)"]
    res.coverage.update(
        evaluations=tot.get("cases", 0), distinct_nontrivial=tot.get("reordered", 0),
        rule="%d seeded random programs (2-15 top-level statements drawn from: require in 5 spellings incl. call sugar, a multi-line call and a Luau `:: any` assertion, game:GetService, two-name locals, plain assignments, other statements; "
             "names from a pool with duplicates and mixed case; blank lines, comment lines, same-line block comments, trailing comments, semicolons, `stylua: ignore`, `ignore start`/`end`) plus the repository's sort-requires inputs; "
             "near misses of the classification (game.GetService, game:FindFirstChild, (require)(..), require(..).field, requirex, bare game / require); each formatted with sort_requires on and off; non-trivial = the model moves at least one statement (cases are generated from consecutive PRNG draws, not deduplicated: counted conservatively as reordered cases)" % n,
        samples=samples or ["-"], input_distribution=dict(tot, classification_tie=rq, **stats),
        correspondence="per case: statement bodies and leading comments of the formatted output, slot by slot, = SortReq.sort_requires (extracted, with the byte-wise string order) on the input's statement list; "
                       "sort off = input order; and directly: permutation of statements, permutation of comments, non-require statements keep their slots")
    res.assumptions = ["statements are identified by their erased token sequence (quotes normalised, parentheses and semicolons dropped) plus trailing comments",
                       "whether a statement is ignored is computed in the harness by an independent transcription of context.rs (directive comments in leading trivia, start/end state per block)",
                       "line numbers that decide group boundaries come from full_moon's token positions"]
    if not proof["ok"] or not tie_ok:
        if bads:
            seen = set()
            for l in bads:
                w = l.split()
                if w[1] in seen or len(seen) >= 4: continue
                seen.add(w[1])
                res.violation(dict(kind="input", check=w[1], case=w[2], seed=res.seed, n=n, expected="SortReq.sort_requires on the input's statement list (C12 theorems)"))
        else:
            res.violation(dict(kind="obligation", obligation=dict(theorem=proof.get("broken_at", "C12 correspondence"), log=proof["log"][-2500:] + "; ".join(errs))), no_input=True)
    return res

def replay(payload):
    build_harness(); build_ml()
    # regenerate the case from its seed and index
    case = payload["case"]
    if case.startswith("g"):
        k = int(case[1:])
        h = [SVH, "c12", "--n", str(k + 1), "--seed", str(payload["seed"]), "--shard", "%d/%d" % (k % 100003, 100003)]
    else:
        h = [SVH, "c12", "--n", "0", "--dir", os.path.join(REPO, "tests", "inputs-sort-requires")]
    lines, errs = run_pipeline_sharded(lambda i, n: (h, [driver("drv_c12")]), shards=1)
    print("\n".join(lines))
    return 1 if errs or any(l.startswith("BAD") for l in lines) else 0
