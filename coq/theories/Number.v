(* Numeric literals: the only rewrite is .5 -> 0.5 (general.rs format_token, Number arm) *)
From Coq Require Import List Ascii NArith ZArith Lia Bool Arith.
Import ListNotations.
Open Scope char_scope.
From SV Require Import Quote.

Definition starts_with_dot (s : list ascii) : bool := match s with c :: _ => eqc c "." | [] => false end.
Definition number_rewrite (s : list ascii) : list ascii :=
  match s with
  | c :: r => if eqc c "." then "0" :: s
              else match r with
                   | d :: r' => if eqc c "-" && eqc d "." then "-" :: "0" :: r else s
                   | [] => s
                   end
  | [] => s
  end.

(* Denotation of a decimal literal: (all digits read as one natural, number of fraction digits, exponent);
   the number is mant * 10^(exp - nfrac).  Anything else (hex, binary, suffixes, separators) denotes its own text. *)
Fixpoint digits (acc : N) (n : nat) (s : list ascii) : N * nat * list ascii :=
  match s with
  | c :: r => if is_digit c then digits (acc * 10 + (N_of_ascii c - 48)) (S n) r else (acc, n, s)
  | [] => (acc, n, [])
  end.
Definition exponent (s : list ascii) : option Z :=
  match s with
  | [] => Some 0%Z
  | e :: r =>
    if eqc e "e" || eqc e "E" then
      let '(neg, r1) := match r with
                        | c :: r' => if eqc c "-" then (true, r') else if eqc c "+" then (false, r') else (false, r)
                        | [] => (false, r) end in
      match digits 0 0 r1 with
      | (v, S _, []) => Some (if neg then (- Z.of_N v)%Z else Z.of_N v)
      | _ => None
      end
    else None
  end.
Inductive numv := Dec (mant : N) (nfrac : nat) (exp : Z) | Raw (text : list ascii).
Definition decval (s : list ascii) : option numv :=
  let '(i, ni, r1) := digits 0 0 s in
  let '(m, nf, r2) := match r1 with
                      | c :: r => if eqc c "." then let '(m, n2, r2) := digits i 0 r in (m, n2, r2) else (i, 0, r1)
                      | [] => (i, 0, r1) end in
  match ni + nf with
  | O => None
  | _ => match exponent r2 with Some e => Some (Dec m nf e) | None => None end
  end.
Definition numval (s : list ascii) : numv := match decval s with Some v => v | None => Raw s end.

Lemma dot_not_digit c : eqc c "." = true -> is_digit c = false.
Proof. intros H. apply Ascii.eqb_eq in H. subst. reflexivity. Qed.

Lemma digits_dot acc n r : digits acc n ("." :: r) = (acc, n, "." :: r). Proof. reflexivity. Qed.
Lemma digits_zero r : digits 0 0 ("0" :: r) = digits 0 1 r. Proof. reflexivity. Qed.
(* .5 and 0.5 denote the same number, for every fraction and exponent *)
Theorem number_rewrite_value s v : decval s = Some v -> decval (number_rewrite s) = Some v.
Proof.
  destruct s as [|c r]; [discriminate|]. cbn [number_rewrite].
  destruct (eqc c ".") eqn:D.
  - apply Ascii.eqb_eq in D. subst c. unfold decval.
    rewrite (digits_zero ("." :: r)), !digits_dot. change (eqc "." ".") with true. cbn iota.
    destruct (digits 0 0 r) as [[m n2] r2]. cbn [Nat.add].
    destruct n2; [discriminate|]. intros H. exact H.
  - destruct r as [|d r']; [auto|]. destruct (eqc c "-") eqn:M; cbn [andb]; [|auto].
    (* a literal never starts with a minus sign: such a text has no decimal value *)
    apply Ascii.eqb_eq in M. subst c. unfold decval. cbn [digits]. change (is_digit "-") with false. cbn iota.
    change (eqc "-" ".") with false. cbn iota. discriminate.
Qed.
(* every other spelling is left byte for byte *)
Theorem number_rewrite_other s : starts_with_dot s = false ->
  (forall r, s <> "-" :: "." :: r) -> number_rewrite s = s.
Proof.
  destruct s as [|c r]; [reflexivity|]. cbn. intros D H. rewrite D.
  destruct r as [|d r']; [reflexivity|]. destruct (eqc c "-") eqn:M; [|reflexivity].
  destruct (eqc d ".") eqn:E; [|reflexivity].
  apply Ascii.eqb_eq in M, E. subst. exfalso. eapply H. reflexivity.
Qed.
Example number_examples :
  numval (number_rewrite ["."; "5"; "e"; "-"; "3"]) = Dec 5 1 (-3) /\ numval ["."; "5"; "e"; "-"; "3"] = Dec 5 1 (-3) /\
  number_rewrite ["0"; "x"; "."; "8"] = ["0"; "x"; "."; "8"].
Proof. repeat split. Qed.
