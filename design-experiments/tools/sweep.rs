use stylua_lib::*;
use std::fs;
fn main() {
    let dirs = [("/repo/tests/inputs", LuaVersion::Lua51), ("/repo/tests/inputs-luau", LuaVersion::Luau), ("/repo/tests/inputs-lua52", LuaVersion::Lua52), ("/repo/tests/inputs-lua53", LuaVersion::Lua53), ("/repo/tests/inputs-lua54", LuaVersion::Lua54), ("/repo/tests/inputs-full_moon", LuaVersion::Lua51), ("/repo/tests/inputs-luau-full_moon", LuaVersion::Luau), ("/repo/tests/inputs-ignore", LuaVersion::Lua51), ("/repo/tests/inputs-sort-requires", LuaVersion::Luau), ("/repo/tests/inputs-collapse-single-statement", LuaVersion::Luau)];
    let widths = [1usize, 20, 40, 80, 120, 100000];
    let (mut n, mut parse_fail, mut nonidem, mut panics, mut unparse_in) = (0, 0, 0, 0, 0);
    std::panic::set_hook(Box::new(|_| {}));
    for (d, syn) in dirs.iter() {
        let mut files: Vec<_> = fs::read_dir(d).unwrap().map(|e| e.unwrap().path()).collect();
        files.sort();
        for f in files {
            let src = match fs::read_to_string(&f) { Ok(s) => s, Err(_) => continue };
            for &w in widths.iter() {
                for collapse in [false, true] {
                let mut cfg = Config::default();
                cfg.syntax = *syn; cfg.column_width = w;
                if collapse { cfg.collapse_simple_statement = CollapseSimpleStatement::Always; cfg.call_parentheses = CallParenType::None; cfg.quote_style = QuoteStyle::AutoPreferSingle; cfg.line_endings = LineEndings::Windows; cfg.indent_type = IndentType::Spaces; cfg.indent_width = 2; }
                n += 1;
                let s2 = src.clone();
                let r = std::panic::catch_unwind(move || format_code(&s2, cfg, None, OutputVerification::None));
                match r {
                    Err(_) => { panics += 1; println!("PANIC {} w={} c={}", f.display(), w, collapse); }
                    Ok(Err(_)) => { unparse_in += 1; }
                    Ok(Ok(out)) => {
                        let o2 = out.clone();
                        match std::panic::catch_unwind(move || format_code(&o2, cfg, None, OutputVerification::None)) {
                            Err(_) => { panics += 1; println!("PANIC2 {} w={} c={}", f.display(), w, collapse); }
                            Ok(Err(_)) => { parse_fail += 1; println!("REPARSE-FAIL {} w={} c={}", f.display(), w, collapse); }
                            Ok(Ok(out2)) => if out2 != out { nonidem += 1; if nonidem < 60 { println!("NONIDEM {} w={} c={}", f.display(), w, collapse); } }
                        }
                    }
                }
                }
            }
        }
    }
    println!("runs={} input-parse-fail={} reparse-fail={} nonidem={} panics={}", n, unparse_in, parse_fail, nonidem, panics);
}
