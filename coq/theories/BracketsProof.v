(* Tie 1 for the blank that keeps a long-bracket string away from `[`: the function generated from /repo's is_brackets_string
   (src/formatters/expression.rs) by rs2v is the L0 model's [bstr] on the image of L0 expressions.  Re-proved on every run
   against the regenerated SVgen.BracketsString. *)
From Coq Require Import List Bool String.
Import ListNotations.
Open Scope string_scope.
From SV Require Import FmAstBrk Fmt0.
From SVgen Require Import BracketsString.

Definition long_tok (n : nat) : TokenReference := TokenType_StringLiteral tt n StringLiteralQuoteType_Brackets.
Definition quoted_tok : TokenReference := TokenType_StringLiteral tt 0 StringLiteralQuoteType_Double.
Fixpoint emb (e : exp) : Expression :=
  match e with
  | EBrk n _ => Expression_String (long_tok n)
  | EStr _ => Expression_String quoted_tok
  | EParen x => Expression_Parentheses tt (emb x)
  | EBin _ l r => Expression_BinaryOperator (emb l) tt (emb r)
  | _ => Expression_Other
  end.
Theorem generated_is_brackets_string_is_bstr : forall e, is_brackets_string (emb e) = bstr e.
Proof. induction e; cbn [emb is_brackets_string bstr]; try reflexivity; assumption. Qed.
(* what the rule means: the leftmost leaf - through parentheses and left operands - is a long-bracket string *)
Fixpoint leftmost (e : exp) : exp := match e with EParen x => leftmost x | EBin _ l _ => leftmost l | _ => e end.
Theorem bstr_is_leftmost_long e : bstr e = match leftmost e with EBrk _ _ => true | _ => false end.
Proof. induction e; cbn [bstr leftmost]; try reflexivity; assumption. Qed.
(* ... and what the model does with it: blanks on both sides of the key exactly then *)
Theorem brackets_of_a_long_string c d n b : brk (bstr (EBrk n b)) (pexp c d (EBrk n b)) = [kw "["; sp; Lex.TStr Lex.QBrackets n b; sp; kw "]"].
Proof. reflexivity. Qed.
Theorem brackets_of_a_name c d x : brk (bstr (EName x)) (pexp c d (EName x)) = [kw "["; Lex.TIdent x; kw "]"].
Proof. reflexivity. Qed.

(* ---------- the point of the blanks: a long-bracket string never stands right behind the `[` of an index or a key ---------- *)
From SV Require Import Lex Fmt0Proof Fmt0Lex.
Definition hd_brk (ts : list Lex.tok) : bool := match ts with Lex.TStr Lex.QBrackets _ _ :: _ => true | _ => false end.
(* an expression (not a table field) along whose leftmost path what is indexed / called is a name, a parenthesised expression or a chain
   (what the parser returns) *)
Fixpoint lok (e : exp) : bool :=
  match e with
  | EField p _ | EIndex p _ | ECall p _ _ | EMethod p _ _ _ => prefixlike p && lok p
  | EBin _ l _ => lok l
  | FPos _ | FNamed _ _ | FKey _ _ | FLine _ _ _ | FCom _ _ => false      (* table fields are not expressions: never a key *)
  | _ => true
  end.
Lemma hd_brk_app xs ys : xs <> [] -> hd_brk (xs ++ ys) = hd_brk xs.
Proof. destruct xs; [contradiction|reflexivity]. Qed.
Lemma chain_head c d p rest : prefixlike p = true -> lok p = true ->
  (hd_brk (pexp c d p) = true -> bstr p = true) -> hd_brk (pexp c d p ++ rest) = false.
Proof.
  intros P L IH. rewrite hd_brk_app by apply pexp_ne. destruct (hd_brk (pexp c d p)) eqn:E; [|reflexivity].
  specialize (IH eq_refl). destruct p; discriminate.
Qed.
Theorem first_token_long_only_if_bstr c : forall e d, lok e = true -> hd_brk (pexp c d e) = true -> bstr e = true.
Proof.
  induction e using exp_ind'; intros d L Hh; cbn [Fmt0.pexp] in Hh; try discriminate; try reflexivity.
  - (* a quoted string *) unfold pstr in Hh. destruct (QuoteMore.choose (style0 c) s); discriminate.
  - cbn [lok] in L. apply andb_true_iff in L. destruct L as [P L]. rewrite (chain_head c d e _ P L (IHe d L)) in Hh. discriminate.
  - cbn [lok] in L. apply andb_true_iff in L. destruct L as [P L]. rewrite (chain_head c d e1 _ P L (IHe1 d L)) in Hh. discriminate.
  - cbn [lok] in L. apply andb_true_iff in L. destruct L as [P L]. rewrite (chain_head c d e _ P L (IHe d L)) in Hh. discriminate.
  - cbn [lok] in L. apply andb_true_iff in L. destruct L as [P L]. rewrite (chain_head c d e _ P L (IHe d L)) in Hh. discriminate.
  - destruct u; discriminate.
  - cbn [lok bstr] in *. rewrite hd_brk_app in Hh by apply pexp_ne. apply (IHe1 d L Hh).
  - destruct fs; discriminate.
  - destruct fs; discriminate.
Qed.
Theorem no_long_string_right_behind_the_bracket c d k : lok k = true ->
  match brk (bstr k) (pexp c d k) with _ :: rest => hd_brk rest = false | [] => True end.
Proof.
  intros L. unfold brk. destruct (bstr k) eqn:B; [reflexivity|]. rewrite hd_brk_app by apply pexp_ne.
  destruct (hd_brk (pexp c d k)) eqn:E; [|reflexivity]. rewrite (first_token_long_only_if_bstr c k d L E) in B. discriminate.
Qed.
