(* (K) load_token_trivia (general.rs): the gate most comments pass through, in its leading and trailing modes,
   over the Coq lexer's tokens.  Tied to the code by replaying every traced call (hook verif_hooks::record). *)
From Coq Require Import List Ascii Bool Arith Lia.
Import ListNotations.
From SV Require Import Lex Bracket Census.

Inductive otok := ONl | OIndent | OSpace | OTok (t : tok).
Definition has_nl (s : bytes) : bool := existsb (fun c => eqc c Lex.LF) s.
Definition ending_of (win : bool) : Bracket.ending := if win then Bracket.Windows else Bracket.Unix.
(* format_token on a comment: trailing blanks trimmed / newline convention converted *)
Definition fmt_comment (win : bool) (t : tok) : tok :=
  match t with
  | TLineCom s => TLineCom (trim_end s)
  | TShebang s => TShebang (trim_end s)
  | TBlockCom d b => TBlockCom d (Bracket.conv (ending_of win) b)
  | other => other
  end.
Definition is_ws_nl (t : tok) : bool := match t with TWs s => has_nl s | _ => false end.

(* FormatTokenType::LeadingTrivia: at most one blank line is kept; every comment gets its indent and its newline *)
Fixpoint lead (win : bool) (cnt : nat) (l : list tok) : list otok :=
  match l with
  | [] => []
  | TWs s :: r => if has_nl s then (if Nat.eqb cnt 0 then ONl :: lead win 1 r else lead win (S cnt) r) else lead win cnt r
  | (TLineCom _ | TBlockCom _ _ | TShebang _) as c :: r =>
      let r' := match r with w :: r2 => if is_ws_nl w then r2 else r | [] => r end in
      match c with
      | TShebang _ => OTok (fmt_comment win c) :: ONl :: lead win 0 r'
      | _ => OIndent :: OTok (fmt_comment win c) :: ONl :: lead win 0 r'
      end
  | other :: r => OTok other :: lead win 0 r
  end.
(* FormatTokenType::TrailingTrivia: whitespace dropped, except one blank before a block comment on the same line;
   a line comment gets one blank in front *)
Fixpoint trail (win : bool) (l : list tok) : list otok :=
  match l with
  | [] => []
  | TWs s :: r => (match r with TBlockCom _ _ :: _ => if has_nl s then [] else [OSpace] | _ => [] end) ++ trail win r
  | TLineCom s :: r => OSpace :: OTok (fmt_comment win (TLineCom s)) :: trail win r
  | TShebang s :: r => OTok (fmt_comment win (TShebang s)) :: ONl :: trail win r
  | other :: r => OTok (fmt_comment win other) :: trail win r
  end.

Definition otoks (l : list otok) : list tok := flat_map (fun o => match o with OTok t => [t] | _ => [] end) l.
Definition trivia_ok (t : tok) : bool :=
  match t with TWs _ | TLineCom _ | TShebang _ => true | TBlockCom _ b => Bracket.no_lone_cr b | _ => false end.
