#!/bin/sh
# Compiles the extracted model (written by coq/theories/Extract.v and ExtractGen.v into .cache/ml) with the drivers of
# this directory.  A driver that does not compile (its extracted kernel is missing) is removed, not fatal: the check
# that needs it reports that.
HERE=$(cd "$(dirname "$0")" && pwd)
OUT="$HERE/../.cache/ml"
cp "$HERE"/*.ml "$OUT"/ || exit 1
cd "$OUT" || exit 1
MODEL=$(ocamlfind ocamldep -sort $(ls *.ml | grep -v '^drv_') $(ls *.mli))
rc=0
for d in drv_*.ml; do
  ocamlfind ocamlopt -O3 -w -a -o "${d%.ml}" $MODEL "$d" 2>/dev/null || ocamlfind ocamlopt -w -a -o "${d%.ml}" $MODEL "$d" 2>/dev/null || { rm -f "${d%.ml}"; case "$d" in drv_semi.ml|drv_pos.ml|drv_req.ml) ;; *) rc=1;; esac; }
done
exit $rc
