(* C17 judge: CliModel.stdin_run (extracted) against runs of `stylua -`.
   Records: RUN id <skip 0|1> <check 0|1> <inputhash> <lib: ok:<hash> | parsefail> <observed stdout hash | - (empty)> <status> <fs_changed 0|1> <stdout_is_diff 0|1> *)
open Util
let empty = "e3b0c44298fc1c14"   (* first 16 hex digits of sha256 of the empty string *)
let runs = ref 0 and bad = ref 0 and nontrivial = ref 0
let report k id = incr bad; Printf.printf "BAD %s %s\n" k id
let handle line = match words line with
  | ["RUN"; id; skip; check; inp; lib; obs; status; fsch; isdiff] ->
    incr runs;
    let verdict = if lib = "parsefail" then CliModel.ParseFail else CliModel.Ok_ (SS.sub lib 3 (SS.length lib - 3)) in
    let r = CliModel.stdin_run inp verdict (skip = "1") (check = "1") (fun a b -> a = b) in
    if lib <> "ok:" ^ inp then incr nontrivial;
    if nat_to_int r.CliModel.status <> int_of_string status then report (Printf.sprintf "status-%s-expected-%d" status (nat_to_int r.CliModel.status)) id;
    (match r.CliModel.out with
     | Some c -> if obs <> c then report "stdout-differs-from-model" id
     | None -> if check = "1" then (if nat_to_int r.CliModel.status = 1 && isdiff <> "1" then report "no-diff-printed" id
                                    else if nat_to_int r.CliModel.status <> 1 && obs <> empty then report "stdout-not-empty" id)
               else if obs <> empty then report "stdout-not-empty" id);
    if fsch = "1" || r.CliModel.wrote then report "file-system-changed" id
  | [] -> ()
  | _ -> incr bad; Printf.printf "BAD unreadable-record %s\n" line
let () = iter_lines handle; Printf.printf "SUMMARY runs=%d nontrivial=%d bad=%d\n" !runs !nontrivial !bad
