(* string helpers for the drivers *)
open Util
let str_of_hex h = let cl = unhex h in let b = Buffer.create 64 in L.iter (Buffer.add_char b) cl; Buffer.contents b
let chars (s : string) : char list = L.init (SS.length s) (SS.get s)
