from . import c08
def run(res): return c08.run(res, "C09")
def replay(payload): return c08.replay(payload, "C09")
