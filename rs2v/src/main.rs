//! rs2v: translates named pure functions of /repo's Rust source into Gallina, on every run.
//!
//! Accepted subset (anything else is reported as "outside the verified subset" and the translation fails):
//!   fn over references to enums returning bool; `match` with tuple-struct / struct / path / wildcard / or-patterns
//!   and guards (a guarded arm falls through to the remaining arms); `matches!`; `if` / `else if` / `if let`
//!   in statement position with early `return`; `!`, `&&`, `||`; `&`/`*` erased; calls of translated functions;
//!   `x.token_type()`; `#[cfg(feature = ...)]` arms are included (the harness builds with every syntax feature).
//! Mapping: a path `A::B` becomes the identifier `A_B`; struct patterns are filled with `_` in the field order of
//! the mirror type declared in coq/theories/FmAst.v (table `fields` below).
use quote::ToTokens;
use std::fmt::Write as _;
use syn::parse::Parser;
use syn::*;

type R<T> = std::result::Result<T, String>;

fn path_name(p: &Path) -> String {
    p.segments.iter().map(|s| ident_name(&s.ident.to_string())).collect::<Vec<_>>().join("_")
}
/// a raw identifier `r#return` becomes `return_` (the bare word is a Gallina keyword)
fn ident_name(n: &str) -> String { match n.strip_prefix("r#") { Some(x) => format!("{}_", x), None => n.to_string() } }

/// field order of the mirrored constructors (FmAst.v)
fn fields(ctor: &str) -> Option<Vec<&'static str>> {
    Some(match ctor {
        "Expression_Parentheses" => vec!["contained", "expression"],
        "Expression_UnaryOperator" => vec!["unop", "expression"],
        "Expression_BinaryOperator" => vec!["lhs", "binop", "rhs"],
        "Expression_TypeAssertion" => vec!["expression", "type_assertion"],
        "TokenType_Symbol" => vec!["symbol"],
        "TokenType_Identifier" => vec!["identifier"],
        "TokenType_StringLiteral" => vec!["literal", "multi_line_depth", "quote_type"],
        "FunctionArgs_Parentheses" => vec!["parentheses", "arguments"],
        _ => return None,
    })
}

fn pat(p: &Pat) -> R<String> {
    Ok(match p {
        Pat::Wild(_) => "_".into(),
        Pat::Ident(i) if i.subpat.is_none() => ident_name(&i.ident.to_string()),
        Pat::Path(pp) => path_name(&pp.path),
        Pat::TupleStruct(ts) => {
            let mut a = vec![];
            for e in &ts.elems {
                a.push(pat(e)?);
            }
            format!("({} {})", path_name(&ts.path), a.join(" "))
        }
        Pat::Struct(s) => {
            let name = path_name(&s.path);
            let fs = fields(&name).ok_or(format!("struct pattern on unknown constructor {}", name))?;
            let mut slots: Vec<String> = fs.iter().map(|_| "_".to_string()).collect();
            for f in &s.fields {
                if let Member::Named(id) = &f.member {
                    let idx = fs.iter().position(|x| *x == id.to_string()).ok_or(format!("unknown field {} of {}", id, name))?;
                    slots[idx] = pat(&f.pat)?;
                }
            }
            format!("({} {})", name, slots.join(" "))
        }
        Pat::Or(o) => {
            let mut a = vec![];
            for c in &o.cases {
                a.push(pat(c)?);
            }
            a.join(" | ")
        }
        Pat::Reference(r) => pat(&r.pat)?,
        Pat::Paren(r) => pat(&r.pat)?,
        Pat::Tuple(t) => {
            let mut a = vec![];
            for e in &t.elems {
                a.push(pat(e)?);
            }
            format!("({})", a.join(", "))
        }
        other => return Err(format!("pattern outside subset: {}", other.to_token_stream())),
    })
}

thread_local! { static FOR_LOOPS: std::cell::Cell<usize> = std::cell::Cell::new(0); }
/// Coq keywords that are field names in the Rust source
fn field_name(n: &str) -> String { if ["end", "in", "at", "with", "as", "type"].contains(&n) { format!("{}_", n) } else { n.to_string() } }
/// does the identifier occur in the Gallina text?
fn mentions(text: &str, id: &str) -> bool {
    text.split(|c: char| !(c.is_alphanumeric() || c == '_' || c == '\'')).any(|w| w == id)
}

fn is_match(scrut: &str, p: &str) -> String {
    format!("(match {} with {} => true | _ => false end)", scrut, p)
}

fn expr(e: &Expr) -> R<String> {
    Ok(match e {
        Expr::Lit(l) => match &l.lit {
            Lit::Bool(b) => b.value.to_string(),
            Lit::Int(i) => i.base10_digits().to_string(),
            // a string literal is the list of its bytes
            Lit::Str(st) if st.value().is_ascii() => format!("(map Ascii.ascii_of_nat ({}nil))", st.value().bytes().map(|b| format!("{} :: ", b)).collect::<String>()),
            Lit::Char(c) if c.value().is_ascii() && !c.value().is_ascii_control() => if c.value() == '"' { "\"\"\"\"%char".to_string() } else { format!("\"{}\"%char", c.value()) },
            _ => return Err("literal outside subset".into()),
        },
        Expr::Path(p) => path_name(&p.path),
        Expr::Tuple(t) if !t.elems.is_empty() => {
            let mut a = vec![];
            for e in &t.elems {
                a.push(expr(e)?);
            }
            format!("({})", a.join(", "))
        }
        // `self.field`: the fields of the receiver a kernel reads are its parameters; `x.field`: a record projection
        Expr::Field(f) if matches!(&*f.base, Expr::Path(p) if p.path.is_ident("self")) => match &f.member {
            Member::Named(id) => field_name(&id.to_string()),
            _ => return Err("tuple field outside subset".into()),
        },
        Expr::Field(f) if matches!(&*f.base, Expr::Path(_)) => match &f.member {
            Member::Named(id) => format!("({} {})", field_name(&id.to_string()), expr(&f.base)?),
            _ => return Err("tuple field outside subset".into()),
        },
        // `.0` / `.1` of a pair
        Expr::Field(f) if matches!(&f.member, Member::Unnamed(i) if i.index <= 1) && matches!(&*f.base, Expr::MethodCall(_)) => match &f.member {
            Member::Unnamed(i) => format!("({} {})", if i.index == 0 { "fst" } else { "snd" }, expr(&f.base)?),
            _ => unreachable!(),
        },
        Expr::Paren(p) => expr(&p.expr)?,
        Expr::Reference(r) => expr(&r.expr)?,
        Expr::Unary(u) => match u.op {
            UnOp::Not(_) => format!("(negb {})", expr(&u.expr)?),
            UnOp::Deref(_) => expr(&u.expr)?,
            _ => return Err("unary operator outside subset".into()),
        },
        Expr::Binary(b) => match b.op {
            BinOp::And(_) => format!("(andb {} {})", expr(&b.left)?, expr(&b.right)?),
            BinOp::Or(_) => format!("(orb {} {})", expr(&b.left)?, expr(&b.right)?),
            // comparisons of naturals (byte offsets)
            BinOp::Mul(_) => format!("(Nat.mul {} {})", expr(&b.left)?, expr(&b.right)?),
            BinOp::Add(_) => format!("(Nat.add {} {})", expr(&b.left)?, expr(&b.right)?),
            // `x == "text"` on strings
            BinOp::Eq(_) if matches!(&*b.right, Expr::Lit(ExprLit { lit: Lit::Str(_), .. })) => format!("(str_eqb {} {})", expr(&b.left)?, expr(&b.right)?),
            // `n == 1` on naturals
            BinOp::Eq(_) if matches!(&*b.right, Expr::Lit(ExprLit { lit: Lit::Int(_), .. })) => format!("(Nat.eqb {} {})", expr(&b.left)?, expr(&b.right)?),
            // `x == Enum::Variant`
            BinOp::Eq(_) if matches!(&*b.right, Expr::Path(p) if p.path.segments.len() >= 2) => is_match(&expr(&b.left)?, &expr(&b.right)?),
            BinOp::Lt(_) => format!("(Nat.ltb {} {})", expr(&b.left)?, expr(&b.right)?),
            BinOp::Gt(_) => format!("(Nat.ltb {} {})", expr(&b.right)?, expr(&b.left)?),
            BinOp::Le(_) => format!("(Nat.leb {} {})", expr(&b.left)?, expr(&b.right)?),
            BinOp::Ge(_) => format!("(Nat.leb {} {})", expr(&b.right)?, expr(&b.left)?),
            _ => return Err(format!("binary operator outside subset: {}", b.to_token_stream())),
        },
        Expr::Call(c) if c.args.len() == 1 && matches!(&*c.func, Expr::Path(p) if path_name(&p.path) == "String_from") => expr(&c.args[0])?,
        Expr::MethodCall(m) if (m.method == "into" || m.method == "to_string" || m.method == "to_owned") && m.args.is_empty() => expr(&m.receiver)?,
        // trivia updates: functions of the mirror (which holds no trivia, so they return their receiver)
        Expr::MethodCall(m) if (m.method == "update_trailing_trivia" || m.method == "update_leading_trivia") && m.args.len() == 1 => format!("({} {} {})", m.method, expr(&m.receiver)?, expr(&m.args[0])?),
        Expr::Call(c) if c.args.len() == 1 && matches!(&*c.func, Expr::Path(p) if path_name(&p.path) == "Box_new") => expr(&c.args[0])?,
        // `Enum::Variant { field: e, .. }` with every field given, in the order of the mirror's constructor; a field the mirror
        // keeps no content of (OPAQUE_FIELDS: spans of tokens with their trivia) is `tt`
        Expr::Struct(st) if st.rest.is_none() && st.qself.is_none() => {
            let name = path_name(&st.path);
            let fs = fields(&name).ok_or(format!("struct literal of unknown constructor {}", name))?;
            let mut slots: Vec<Option<String>> = fs.iter().map(|_| None).collect();
            for f in &st.fields {
                let id = match &f.member { Member::Named(id) => id.to_string(), _ => return Err("tuple struct literal outside subset".into()) };
                let idx = fs.iter().position(|x| *x == id).ok_or(format!("unknown field {} of {}", id, name))?;
                slots[idx] = Some(if OPAQUE_FIELDS.contains(&id.as_str()) { "tt".to_string() } else { expr(&f.expr)? });
            }
            if slots.iter().any(|x| x.is_none()) { return Err(format!("struct literal of {} does not give every field", name)); }
            format!("({} {})", name, slots.into_iter().map(|x| x.unwrap()).collect::<Vec<_>>().join(" "))
        }
        // `self.config().field` as well as `ctx.config().field`
        Expr::Call(c) => {
            let mut a = vec![];
            for x in &c.args {
                a.push(expr(x)?);
            }
            format!("({} {})", expr(&c.func)?, a.join(" "))
        }
        Expr::MethodCall(m) if m.method == "token_type" && m.args.is_empty() => format!("(token_type {})", expr(&m.receiver)?),
        // options and lists: `.is_none()`, `.is_some()`, `.unwrap()` (the mirror supplies a default: reached only behind a test),
        // `.is_empty()`, `.len()` / `.count()`, `.all(f)` with a function name or a closure
        Expr::MethodCall(m) if m.args.is_empty() && m.method == "is_none" => format!("(match {} with None => true | Some _ => false end)", expr(&m.receiver)?),
        Expr::MethodCall(m) if m.args.is_empty() && m.method == "is_some" => format!("(match {} with None => false | Some _ => true end)", expr(&m.receiver)?),
        Expr::MethodCall(m) if m.args.is_empty() && m.method == "unwrap" => format!("(rs_unwrap {})", expr(&m.receiver)?),
        Expr::MethodCall(m) if m.args.is_empty() && m.method == "is_empty" => format!("(match {} with nil => true | _ => false end)", expr(&m.receiver)?),
        Expr::MethodCall(m) if m.args.is_empty() && (m.method == "len" || (m.method == "count" && !matches!(&*m.receiver, Expr::MethodCall(r) if r.method == "matches"))) => format!("(List.length {})", expr(&m.receiver)?),
        Expr::MethodCall(m) if m.args.len() == 1 && m.method == "all" => format!("(forallb {} {})", expr(&m.args[0])?, expr(&m.receiver)?),
        Expr::Closure(c) if c.inputs.len() == 1 => format!("(fun {} => {})", pat(&c.inputs[0])?, expr(&c.body)?),
        // an oracle method of the mirror with one argument: `token.has_leading_comments(CommentSearch::All)`
        Expr::MethodCall(m) if m.args.len() == 1 && m.method == "has_leading_comments" => format!("(has_leading_comments {} {})", expr(&m.receiver)?, expr(&m.args[0])?),
        // strings are lists of characters: `s.contains(c)`, `s.matches(c).count()`, and `a.cmp(&b)` on naturals
        Expr::MethodCall(m) if m.method == "contains" && m.args.len() == 1 && matches!(&m.args[0], Expr::Lit(ExprLit { lit: Lit::Char(_), .. })) =>
            format!("(str_contains {} {})", expr(&m.receiver)?, expr(&m.args[0])?),
        Expr::MethodCall(m) if m.method == "count" && m.args.is_empty() && matches!(&*m.receiver, Expr::MethodCall(r) if r.method == "matches" && r.args.len() == 1 && matches!(&r.args[0], Expr::Lit(ExprLit { lit: Lit::Char(_), .. }))) => {
            if let Expr::MethodCall(r) = &*m.receiver { format!("(str_count {} {})", expr(&r.receiver)?, expr(&r.args[0])?) } else { unreachable!() }
        }
        Expr::MethodCall(m) if m.method == "cmp" && m.args.len() == 1 => format!("(nat_cmp {} {})", expr(&m.receiver)?, expr(&m.args[0])?),
        // `ctx.config().field`: the configuration fields a kernel reads are its parameters
        Expr::Field(f) if matches!(&*f.base, Expr::MethodCall(c) if c.method == "config" && c.args.is_empty()) => match &f.member {
            Member::Named(id) => id.to_string(),
            _ => return Err("tuple field outside subset".into()),
        },
        // a panic is a distinguished value of the mirrored result type (FmAst.rs_unreachable); the theorems show it is never returned
        Expr::Macro(m) if m.mac.path.is_ident("unreachable") => "rs_unreachable".to_string(),
        // accessors mirrored as functions of FmAst.v; `.iter().next()` is the head of a list
        Expr::MethodCall(m) if m.args.is_empty() && ["prefix", "variables", "lhs", "start_position", "end_position", "bytes", "suffixes", "stmts", "last_stmt", "names", "expressions", "returns", "args", "else_if", "else_block", "block", "then_token", "end_token", "tokens"].contains(&m.method.to_string().as_str()) => format!("({} {})", m.method, expr(&m.receiver)?),
        // `.name()` would be captured by a Rust variable called `name`: the mirror calls the projection method_name
        Expr::MethodCall(m) if m.args.is_empty() && m.method == "name" => format!("(method_name {})", expr(&m.receiver)?),
        Expr::MethodCall(m) if m.args.is_empty() && m.method == "iter" => expr(&m.receiver)?,
        Expr::MethodCall(m) if m.args.is_empty() && m.method == "next" => format!("(hd_error {})", expr(&m.receiver)?),
        Expr::Macro(m) if m.mac.path.is_ident("matches") => {
            let ts = m.mac.tokens.to_string();
            let (scrut, pats) = ts.split_once(',').ok_or("matches! without pattern")?;
            let p: Pat = Pat::parse_multi_with_leading_vert.parse_str(pats).map_err(|e| e.to_string())?;
            let s: Expr = parse_str(scrut).map_err(|e| e.to_string())?;
            is_match(&expr(&s)?, &pat(&p)?)
        }
        Expr::Match(m) => arms(&expr(&m.expr)?, &m.arms)?,
        Expr::Block(b) => block(&b.block.stmts)?,
        Expr::If(i) => {
            let els = i.else_branch.as_ref().ok_or("if without else in value position")?;
            format!("(if {} then {} else {})", cond(&i.cond)?, block(&i.then_branch.stmts)?, expr(&els.1)?)
        }
        other => return Err(format!("expression outside subset: {}", other.to_token_stream())),
    })
}

fn cond(c: &Expr) -> R<String> {
    match c {
        Expr::Let(l) => Ok(is_match(&expr(&l.expr)?, &pat(&l.pat)?)),
        other => expr(other),
    }
}

/// a block in value position; statements with early returns take the rest as their continuation
fn block(stmts: &[Stmt]) -> R<String> {
    match stmts.split_first() {
        None => Err("empty block in value position".into()),
        Some((Stmt::Expr(e, None), [])) => expr(e),
        Some((Stmt::Expr(Expr::Return(r), _), _)) => expr(r.expr.as_ref().ok_or("return without value")?),
        Some((Stmt::Expr(Expr::If(i), _), rest)) if !rest.is_empty() => if_stmt(i, &block(rest)?),
        Some((Stmt::Local(l), rest)) => local_stmt(l, &block(rest)?),
        // a function declared inside the body: translated on its own (the kernel lists it as `outer::inner`)
        Some((Stmt::Item(Item::Fn(_)), rest)) => block(rest),
        Some((Stmt::Expr(Expr::Match(m), Some(_)), rest)) => { let k2 = block(rest)?; arms_k(&expr(&m.expr)?, &m.arms, &k2) }
        Some((Stmt::Expr(Expr::ForLoop(_), _), rest)) => {
            let n = FOR_LOOPS.with(|c| { c.set(c.get() + 1); c.get() });
            Ok(format!("(match for_loop_{} with Some r => r | None => {} end)", n, block(rest)?))
        }
        Some((other, _)) => Err(format!("statement outside subset: {}", other.to_token_stream())),
    }
}
/// `let x = e;` with a plain identifier and no else branch
fn local_stmt(l: &Local, k: &str) -> R<String> {
    // `let PAT = e else { return x; };`
    if let Some(init) = &l.init {
        if let Some((_, div)) = &init.diverge {
            let alt = match &**div {
                Expr::Block(b) => block(&b.block.stmts)?,
                other => return Err(format!("let-else branch outside subset: {}", other.to_token_stream())),
            };
            return Ok(format!("(match {} with {} => {} | _ => {} end)", expr(&init.expr)?, pat(&l.pat)?, k, alt));
        }
        // `let x = e?;` on an Option
        if let (Pat::Ident(i), Expr::Try(t)) = (&l.pat, &*init.expr) {
            return Ok(format!("(match {} with Some {} => {} | None => None end)", expr(&t.expr)?, i.ident, k));
        }
    }
    let name = match &l.pat {
        Pat::Ident(i) if i.subpat.is_none() && i.by_ref.is_none() && i.mutability.is_none() => i.ident.to_string(),
        // `let (a, b) = e;`
        Pat::Tuple(_) => format!("'{}", pat(&l.pat)?),
        other => return Err(format!("let pattern outside subset: {}", other.to_token_stream())),
    };
    let init = l.init.as_ref().ok_or("let without initialiser")?;
    match expr(&init.expr) {
        Ok(e) => Ok(format!("(let {} := {} in {})", name, e, k)),
        // a binding that the translated continuation never reads (it feeds an untranslated `for` loop) is dropped;
        // assumption: its initialiser has no side effect
        Err(_) if !mentions(k, &name) => Ok(k.to_string()),
        Err(e) => Err(e),
    }
}
fn stmts_k(stmts: &[Stmt], k: &str) -> R<String> {
    match stmts.split_first() {
        None => Ok(k.to_string()),
        Some((Stmt::Expr(Expr::Return(r), _), _)) => expr(r.expr.as_ref().ok_or("return without value")?),
        Some((Stmt::Expr(Expr::If(i), _), rest)) => if_stmt(i, &stmts_k(rest, k)?),
        Some((Stmt::Local(l), rest)) => local_stmt(l, &stmts_k(rest, k)?),
        Some((Stmt::Expr(Expr::Match(m), _), rest)) => {
            let k2 = stmts_k(rest, k)?;
            arms_k(&expr(&m.expr)?, &m.arms, &k2)
        }
        // a `for` loop is not translated: it becomes an oracle parameter `for_loop_<n>` that says whether the loop returned
        // (and what) or fell through; the kernel's header declares it and the theorems quantify over it
        Some((Stmt::Expr(Expr::ForLoop(_), _), rest)) => {
            let n = FOR_LOOPS.with(|c| { c.set(c.get() + 1); c.get() });
            Ok(format!("(match for_loop_{} with Some r => r | None => {} end)", n, stmts_k(rest, k)?))
        }
        Some((other, _)) => Err(format!("statement outside subset: {}", other.to_token_stream())),
    }
}
/// a `match` in statement position: an arm is `()` (go on), a `return`, or a block of statements
fn arms_k(scrut: &str, arms_: &[Arm], k: &str) -> R<String> {
    let mut out = format!("match {} with", scrut);
    for (idx, a) in arms_.iter().enumerate() {
        let body = match &*a.body {
            Expr::Tuple(t) if t.elems.is_empty() => k.to_string(),
            Expr::Return(r) => expr(r.expr.as_ref().ok_or("return without value")?)?,
            Expr::Block(b) => stmts_k(&b.block.stmts, k)?,
            other => return Err(format!("arm of a statement match outside subset: {}", other.to_token_stream())),
        };
        match &a.guard {
            None => {
                write!(out, "\n  | {} => {}", pat(&a.pat)?, body).unwrap();
                if matches!(a.pat, Pat::Wild(_)) {
                    break;
                }
            }
            Some((_, g)) => {
                let rest = arms_k(scrut, &arms_[idx + 1..], k)?;
                write!(out, "\n  | {} => if {} then {} else ({})", pat(&a.pat)?, expr(g)?, body, rest).unwrap();
            }
        }
    }
    Ok(out + "\n  end")
}
fn if_stmt(i: &ExprIf, k: &str) -> R<String> {
    let els = match &i.else_branch {
        None => k.to_string(),
        Some((_, e)) => match &**e {
            Expr::If(j) => if_stmt(j, k)?,
            Expr::Block(b) => stmts_k(&b.block.stmts, k)?,
            _ => return Err("else branch outside subset".into()),
        },
    };
    if let Expr::Let(l) = &*i.cond {
        return Ok(format!("(match {} with {} => {} | _ => {} end)", expr(&l.expr)?, pat(&l.pat)?, stmts_k(&i.then_branch.stmts, k)?, els));
    }
    Ok(format!("(if {} then {} else {})", cond(&i.cond)?, stmts_k(&i.then_branch.stmts, k)?, els))
}

fn arms(scrut: &str, arms_: &[Arm]) -> R<String> {
    let mut out = format!("match {} with", scrut);
    for (idx, a) in arms_.iter().enumerate() {
        let body = expr(&a.body)?;
        match &a.guard {
            None => {
                write!(out, "\n  | {} => {}", pat(&a.pat)?, body).unwrap();
                if matches!(a.pat, Pat::Wild(_)) {
                    break;
                }
            }
            Some((_, g)) => {
                let rest = arms(scrut, &arms_[idx + 1..])?;
                write!(out, "\n  | {} => if {} then {} else ({})", pat(&a.pat)?, expr(g)?, body, rest).unwrap();
            }
        }
    }
    Ok(out + "\n  end")
}

/// fields that hold spans of tokens with their trivia: the mirrors give them the type unit
const OPAQUE_FIELDS: &[&str] = &["contained"];
struct Kernel {
    file: &'static str,
    /// name reported on the TRANSLATED / UNTRANSLATABLE line
    name: &'static str,
    /// (Rust function, Gallina header: name, binders, struct argument, result type), in dependency order
    funcs: &'static [(&'static str, &'static str)],
    module: &'static str,
    /// the module of coq/theories that mirrors the types this kernel inspects
    mirror: &'static str,
}

const KERNELS: &[Kernel] = &[
    Kernel {
        file: "src/formatters/expression.rs",
        name: "check_excess_parentheses",
        funcs: &[("check_excess_parentheses", "Fixpoint check_excess_parentheses (internal_expression : Expression) (context : ExpressionContext) {struct internal_expression} : bool :=")],
        module: "CheckExcess",
        mirror: "FmAst",
    },
    Kernel {
        file: "src/formatters/expression.rs",
        name: "double_minus_guard",
        funcs: &[
            ("parenthesise_double_minus::starts_with_minus", "Fixpoint starts_with_minus (expression : Expression) {struct expression} : bool :="),
            ("parenthesise_double_minus", "Definition parenthesise_double_minus (trivia_util_take_trailing_comments : Expression -> Expression * unit) (unop : UnOp) (expression : Expression) : Expression :="),
        ],
        module: "MinusGuard",
        mirror: "FmAst",
    },
    Kernel {
        file: "src/formatters/expression.rs",
        name: "brackets_string",
        funcs: &[("is_brackets_string", "Fixpoint is_brackets_string (expression : Expression) {struct expression} : bool :=")],
        module: "BracketsString",
        mirror: "FmAstBrk",
    },
    Kernel {
        file: "src/formatters/block.rs",
        name: "semicolon_rule",
        funcs: &[
            ("var_has_parentheses", "Definition var_has_parentheses (var : Var) : bool :="),
            ("check_stmt_requires_semicolon", "Definition check_stmt_requires_semicolon (stmt : Stmt) (next_stmt : option (Stmt * option TokenReference)) : bool :="),
        ],
        module: "SemiRule",
        mirror: "FmAst",
    },
    Kernel {
        file: "src/context.rs",
        name: "should_format_node",
        funcs: &[("should_format_node", "Definition should_format_node (formatting_disabled : bool) (for_loop_1 : option FormatNode) (range : option FormatRange) (node : NodePos) : FormatNode :=")],
        module: "ShouldFormat",
        mirror: "FmAst",
    },
    Kernel {
        file: "src/context.rs",
        name: "whitespace_and_call_options",
        funcs: &[
            ("line_ending_character", "Definition line_ending_character (line_endings : LineEndings) : list Ascii.ascii :="),
            ("create_plain_indent_trivia", "Definition create_plain_indent_trivia (indent_type : IndentType) (indent_width : nat) (indent_level : nat) : WsToken :="),
            ("create_function_definition_trivia", "Definition create_function_definition_trivia (space_after_function_names : SpaceAfterFunctionNames) : WsToken :="),
            ("create_function_call_trivia", "Definition create_function_call_trivia (space_after_function_names : SpaceAfterFunctionNames) : WsToken :="),
            ("should_omit_string_parens", "Definition should_omit_string_parens (no_call_parentheses : bool) (call_parentheses : CallParenType) : bool :="),
            ("should_omit_table_parens", "Definition should_omit_table_parens (no_call_parentheses : bool) (call_parentheses : CallParenType) : bool :="),
            ("should_collapse_simple_functions", "Definition should_collapse_simple_functions (collapse_simple_statement : CollapseSimpleStatement) : bool :="),
            ("should_collapse_simple_conditionals", "Definition should_collapse_simple_conditionals (collapse_simple_statement : CollapseSimpleStatement) : bool :="),
        ],
        module: "CtxOptions",
        mirror: "FmAst",
    },
    Kernel {
        file: "src/formatters/general.rs",
        name: "quote_choice",
        funcs: &[("get_quote_to_use", "Definition get_quote_to_use (quote_style : QuoteStyle) (literal : list Ascii.ascii) : StringLiteralQuoteType :=")],
        module: "QuoteChoice",
        mirror: "FmAst",
    },
    Kernel {
        file: "src/sort_requires.rs",
        name: "require_kind",
        funcs: &[
            ("extract_identifier_from_token", "Definition extract_identifier_from_token (token : TokenReference) : option (list Ascii.ascii) :="),
            ("get_expression_kind", "Fixpoint get_expression_kind (expression : Expression) {struct expression} : option GroupKind :="),
        ],
        module: "RequireKind",
        mirror: "FmAstReq",
    },
    Kernel {
        file: "src/formatters/trivia_util.rs",
        name: "collapse_rule",
        funcs: &[
            ("is_expression_simple", "Fixpoint is_expression_simple (expression : Expression) {struct expression} : bool :="),
            ("is_last_stmt_simple", "Definition is_last_stmt_simple (last_stmt : LastStmt) : bool :="),
            ("is_block_simple", "Definition is_block_simple (block : Block) : bool :="),
        ],
        module: "CollapseRule",
        mirror: "FmAstCol",
    },
    Kernel {
        file: "src/formatters/stmt.rs",
        name: "condition_parentheses",
        funcs: &[("remove_condition_parentheses", "Section Oracles.\nVariable parentheses_contain_comments : ContainedSpan -> bool.\nVariable has_leading_comments : TokenReference -> CommentSearch -> bool.\nFixpoint remove_condition_parentheses (expression : Expression) {struct expression} : Expression := ||| End Oracles.")],
        module: "CondParens",
        mirror: "FmAstCond",
    },
    Kernel {
        file: "src/formatters/stmt.rs",
        name: "if_guard",
        funcs: &[("is_if_guard", "Definition is_if_guard (trivia_util_contains_comments : forall {A : Type}, A -> bool) (has_leading_comments : TokenReference -> CommentSearch -> bool) (if_node : If) : bool :=")],
        module: "IfGuard",
        mirror: "FmAstIf",
    },
];

/// body of a free function or of a method of any impl block
fn find_body<'a>(f: &'a File, name: &str) -> Option<&'a Block> {
    // `outer::inner`: a function declared inside the body of another
    if let Some((outer, inner)) = name.split_once("::") {
        return find_body(f, outer)?.stmts.iter().find_map(|st| match st {
            Stmt::Item(Item::Fn(func)) if func.sig.ident == inner => Some(&*func.block),
            _ => None,
        });
    }
    f.items.iter().find_map(|it| match it {
        Item::Fn(func) if func.sig.ident == name => Some(&*func.block),
        Item::Impl(im) => im.items.iter().find_map(|ii| match ii {
            ImplItem::Fn(m) if m.sig.ident == name => Some(&m.block),
            _ => None,
        }),
        _ => None,
    })
}
fn find_fn<'a>(f: &'a File, name: &str) -> Option<&'a ItemFn> {
    f.items.iter().find_map(|it| match it {
        Item::Fn(func) if func.sig.ident == name => Some(func),
        _ => None,
    })
}


// ---------------------------------------------------------------------------------------------------------
// Special extractor: every access to the static EXIT_CODE in src/cli/main.rs, grouped by the innermost closure or
// match arm (or function body) it is written in, in source order.  Accesses inside closures form the programs that may run on any thread,
// any number of times; accesses directly in a function body are run by the main thread.
// A conditional access is translated as an unconditional one (conservative: more behaviours, never fewer).
struct ExitOps {
    stack: Vec<usize>,               // ids of the enclosing closures (empty = function body)
    next_id: usize,
    fn_name: String,
    found: Vec<(String, usize, String)>, // (function, closure id or 0, instr)
    errors: Vec<String>,
}
fn int_arg(e: &Expr) -> Option<u64> {
    match e {
        Expr::Lit(ExprLit { lit: Lit::Int(i), .. }) => i.base10_parse().ok(),
        _ => None,
    }
}
impl<'ast> syn::visit::Visit<'ast> for ExitOps {
    fn visit_item_fn(&mut self, f: &'ast ItemFn) {
        let old = std::mem::replace(&mut self.fn_name, f.sig.ident.to_string());
        syn::visit::visit_item_fn(self, f);
        self.fn_name = old;
    }
    fn visit_expr_closure(&mut self, c: &'ast ExprClosure) {
        self.next_id += 1;
        self.stack.push(self.next_id);
        syn::visit::visit_expr_closure(self, c);
        self.stack.pop();
    }
    fn visit_arm(&mut self, a: &'ast Arm) {
        // the arms of a match are alternatives, not a sequence: each is its own program
        self.next_id += 1;
        self.stack.push(self.next_id);
        syn::visit::visit_arm(self, a);
        self.stack.pop();
    }
    fn visit_expr_method_call(&mut self, m: &'ast ExprMethodCall) {
        // arguments (and receiver) first: evaluation order
        syn::visit::visit_expr_method_call(self, m);
        if let Expr::Path(p) = &*m.receiver {
            if p.path.is_ident("EXIT_CODE") {
                let args: Vec<&Expr> = m.args.iter().collect();
                let instr = match (m.method.to_string().as_str(), args.as_slice()) {
                    ("load", [_]) => Some("Load".to_string()),
                    ("store", [v, _]) => int_arg(v).map(|k| format!("Store {}", k)),
                    ("fetch_max", [v, _]) => int_arg(v).map(|k| format!("FetchMax {}", k)),
                    ("compare_exchange", [a, b, _, _]) => match (int_arg(a), int_arg(b)) { (Some(x), Some(y)) => Some(format!("Cas {} {}", x, y)), _ => None },
                    ("swap", [v, _]) => int_arg(v).map(|k| format!("Store {}", k)),
                    _ => None,
                };
                match instr {
                    Some(i) => self.found.push((self.fn_name.clone(), self.stack.last().copied().unwrap_or(0), i)),
                    None => self.errors.push(format!("EXIT_CODE access outside subset: {}", m.to_token_stream())),
                }
            }
        }
    }
    fn visit_macro(&mut self, m: &'ast Macro) {
        // accesses hidden in macro arguments (e.g. inside error!(...)) would be invisible: refuse them
        if m.tokens.to_string().contains("EXIT_CODE") {
            self.errors.push(format!("EXIT_CODE inside a macro invocation: {}", m.path.to_token_stream()));
        }
    }
}
fn exit_ops(repo: &str) -> R<String> {
    let path = format!("{}/src/cli/main.rs", repo);
    let src = std::fs::read_to_string(&path).map_err(|e| format!("{}: {}", path, e))?;
    let f = parse_file(&src).map_err(|e| format!("{}: {}", path, e))?;
    let mut v = ExitOps { stack: vec![], next_id: 0, fn_name: String::new(), found: vec![], errors: vec![] };
    syn::visit::visit_file(&mut v, &f);
    if !v.errors.is_empty() {
        return Err(v.errors.join("; "));
    }
    let mut programs: Vec<(String, usize, Vec<String>)> = vec![];
    for (func, id, instr) in v.found {
        match programs.iter_mut().find(|(f2, i2, _)| *f2 == func && *i2 == id) {
            Some(p) => p.2.push(instr),
            None => programs.push((func, id, vec![instr])),
        }
    }
    let mut out = String::from("(* GENERATED by rs2v from src/cli/main.rs :: every access to EXIT_CODE -- do not edit; regenerated on every run *)\nFrom Coq Require Import List.\nImport ListNotations.\nFrom SV Require Import Sched.\n");
    let show = |ps: Vec<&(String, usize, Vec<String>)>| ps.iter().map(|p| format!("[{}] (* fn {}{} *)", p.2.join("; "), p.0, if p.1 > 0 { format!(", closure/arm #{}", p.1) } else { String::new() })).collect::<Vec<_>>().join(";\n  ");
    out += &format!("Definition exit_programs : list (list instr) :=\n  [{}].\n", show(programs.iter().filter(|p| p.1 > 0).collect()));
    out += &format!("Definition exit_main : list (list instr) :=\n  [{}].\n", show(programs.iter().filter(|p| p.1 == 0).collect()));
    Ok(out)
}

// ---------------------------------------------------------------------------------------------------------
// Special extractor: the option tables (C20).  Everything a reader of the README, a stylua.toml, the command line or
// an .editorconfig can name: enum variants and defaults of the library, the clap mirror enums, which fields
// load_overrides / editorconfig::load assign, and the README option table.
fn coq_str(s: &str) -> String { format!("\"{}\"%string", s.replace('"', "\"\"")) }
fn coq_list(v: &[String]) -> String { format!("[{}]", v.join("; ")) }
fn has_attr(attrs: &[Attribute], name: &str) -> bool { attrs.iter().any(|a| a.path().is_ident(name)) }

struct FieldAssigns { var: String, fields: Vec<String> }
impl<'ast> syn::visit::Visit<'ast> for FieldAssigns {
    fn visit_expr_assign(&mut self, a: &'ast ExprAssign) {
        if let Expr::Field(f) = &*a.left {
            if let (Expr::Path(p), Member::Named(id)) = (&*f.base, &f.member) {
                if p.path.is_ident(&self.var) && !self.fields.contains(&id.to_string()) { self.fields.push(id.to_string()); }
            }
        }
        syn::visit::visit_expr_assign(self, a);
    }
}
fn fn_assigns(f: &File, func: &str, var: &str) -> R<Vec<String>> {
    let item = find_fn(f, func).ok_or(format!("function {} not found", func))?;
    let mut v = FieldAssigns { var: var.to_string(), fields: vec![] };
    syn::visit::visit_item_fn(&mut v, item);
    Ok(v.fields)
}
fn macro_tokens(f: &File, name: &str) -> Vec<proc_macro2::TokenStream> {
    f.items.iter().filter_map(|it| match it { Item::Macro(m) if m.mac.path.is_ident(name) => Some(m.mac.tokens.clone()), _ => None }).collect()
}
fn option_tables(repo: &str) -> R<String> {
    use proc_macro2::TokenTree;
    let read = |rel: &str| -> R<File> {
        let path = format!("{}/{}", repo, rel);
        let src = std::fs::read_to_string(&path).map_err(|e| format!("{}: {}", path, e))?;
        parse_file(&src).map_err(|e| format!("{}: {}", path, e))
    };
    let lib = read("src/lib.rs")?;
    let mut lib_enums = vec![]; let mut lib_defaults = vec![]; let mut config_fields = vec![]; let mut numeric_defaults = vec![];
    for it in &lib.items {
        match it {
            Item::Enum(e) if has_attr(&e.attrs, "derive") => {
                let vs: Vec<String> = e.variants.iter().map(|v| coq_str(&v.ident.to_string())).collect();
                lib_enums.push(format!("({}, {})", coq_str(&e.ident.to_string()), coq_list(&vs)));
                if let Some(d) = e.variants.iter().find(|v| has_attr(&v.attrs, "default")) {
                    lib_defaults.push(format!("({}, {})", coq_str(&e.ident.to_string()), coq_str(&d.ident.to_string())));
                }
            }
            Item::Struct(st) if st.ident == "Config" => {
                for fld in &st.fields {
                    let ty = fld.ty.to_token_stream().to_string();
                    config_fields.push(format!("({}, {}, {})", coq_str(&fld.ident.as_ref().unwrap().to_string()), coq_str(&ty), if has_attr(&fld.attrs, "deprecated") { "true" } else { "false" }));
                }
            }
            Item::Impl(im) if im.trait_.as_ref().map_or(false, |t| t.1.is_ident("Default")) && im.self_ty.to_token_stream().to_string() == "Config" => {
                struct Lits(Vec<String>);
                impl<'ast> syn::visit::Visit<'ast> for Lits {
                    fn visit_field_value(&mut self, fv: &'ast FieldValue) {
                        if let (Member::Named(id), Expr::Lit(ExprLit { lit: Lit::Int(i), .. })) = (&fv.member, &fv.expr) {
                            self.0.push(format!("({}, {})", coq_str(&id.to_string()), coq_str(&i.base10_digits().to_string())));
                        }
                    }
                }
                let mut l = Lits(vec![]); syn::visit::visit_item_impl(&mut l, im); numeric_defaults = l.0;
            }
            _ => {}
        }
    }
    let opt = read("src/cli/opt.rs")?;
    let mut cli_enums = vec![];
    for ts in macro_tokens(&opt, "convert_enum") {
        let tt: Vec<TokenTree> = ts.into_iter().collect();
        let idents: Vec<String> = tt.iter().filter_map(|t| if let TokenTree::Ident(i) = t { Some(i.to_string()) } else { None }).collect();
        let group = tt.iter().find_map(|t| if let TokenTree::Group(g) = t { Some(g.stream()) } else { None }).ok_or("convert_enum! without a variant list")?;
        let vs: Vec<String> = group.into_iter().filter_map(|t| if let TokenTree::Ident(i) = t { Some(coq_str(&i.to_string())) } else { None }).collect();
        if idents.len() < 2 { return Err("convert_enum! without two type names".into()); }
        cli_enums.push(format!("({}, {}, {})", coq_str(&idents[0]), coq_str(&idents[1]), coq_list(&vs)));
    }
    let mut format_opts = vec![];
    for it in &opt.items { if let Item::Struct(st) = it { if st.ident == "FormatOpts" { for fld in &st.fields { format_opts.push(coq_str(&fld.ident.as_ref().unwrap().to_string())); } } } }
    let cfgrs = read("src/cli/config.rs")?;
    let overrides: Vec<String> = fn_assigns(&cfgrs, "load_overrides", "new_config")?.iter().map(|s| coq_str(s)).collect();
    let ec = read("src/editorconfig.rs")?;
    let ec_fields: Vec<String> = fn_assigns(&ec, "load", "config")?.iter().map(|s| coq_str(s)).collect();
    let mut ec_choices = vec![];
    for ts in macro_tokens(&ec, "property_choice") {
        let tt: Vec<TokenTree> = ts.into_iter().collect();
        let key = tt.iter().find_map(|t| if let TokenTree::Literal(l) = t { Some(l.to_string().trim_matches('"').to_string()) } else { None }).ok_or("property_choice! without a key")?;
        let mut pairs = vec![];
        for t in &tt { if let TokenTree::Group(g) = t {
            let inner: Vec<TokenTree> = g.stream().into_iter().collect();
            let v = inner.iter().find_map(|t| if let TokenTree::Ident(i) = t { Some(i.to_string()) } else { None });
            let s = inner.iter().find_map(|t| if let TokenTree::Literal(l) = t { Some(l.to_string().trim_matches('"').to_string()) } else { None });
            if let (Some(v), Some(s)) = (v, s) { pairs.push(format!("({}, {})", coq_str(&v), coq_str(&s))); }
        } }
        ec_choices.push(format!("({}, {})", coq_str(&key), coq_list(&pairs)));
    }
    // README table
    let readme = std::fs::read_to_string(format!("{}/README.md", repo)).map_err(|e| e.to_string())?;
    let mut rows = vec![];
    for l in readme.lines() {
        if !l.starts_with("| `") { continue; }
        let cols: Vec<&str> = l.split('|').map(|c| c.trim()).collect();
        if cols.len() < 4 { continue; }
        let ticks = |s: &str| -> Vec<String> { s.split('`').enumerate().filter(|(i, _)| i % 2 == 1).map(|(_, x)| x.to_string()).collect() };
        let name = ticks(cols[1]).get(0).cloned().unwrap_or_default();
        let default = ticks(cols[2]).get(0).cloned().unwrap_or_default();
        let possible: Vec<String> = match cols[3].split_once("Possible options:") {
            // the list of values ends with the sentence that introduces it
            Some((_, rest)) => ticks(rest.split(". ").next().unwrap_or(rest)).iter().map(|s| coq_str(s)).collect(),
            None => vec![],
        };
        rows.push(format!("({}, {}, {})", coq_str(&name), coq_str(&default), coq_list(&possible)));
    }
    let mut out = String::from("(* GENERATED by rs2v from src/lib.rs, src/cli/opt.rs, src/cli/config.rs, src/editorconfig.rs, README.md -- do not edit *)\nFrom Coq Require Import List String.\nImport ListNotations.\n");
    out += &format!("Definition lib_enums : list (string * list string) :=\n  {}.\n", coq_list(&lib_enums));
    out += &format!("Definition lib_defaults : list (string * string) :=\n  {}.\n", coq_list(&lib_defaults));
    out += &format!("Definition config_fields : list (string * string * bool) :=\n  {}.\n", coq_list(&config_fields));
    out += &format!("Definition numeric_defaults : list (string * string) :=\n  {}.\n", coq_list(&numeric_defaults));
    out += &format!("Definition cli_enums : list (string * string * list string) :=\n  {}.\n", coq_list(&cli_enums));
    out += &format!("Definition format_opts_fields : list string :=\n  {}.\n", coq_list(&format_opts));
    out += &format!("Definition override_fields : list string :=\n  {}.\n", coq_list(&overrides));
    out += &format!("Definition editorconfig_fields : list string :=\n  {}.\n", coq_list(&ec_fields));
    out += &format!("Definition editorconfig_choices : list (string * list (string * string)) :=\n  {}.\n", coq_list(&ec_choices));
    out += &format!("Definition readme_options : list (string * string * list string) :=\n  {}.\n", coq_list(&rows));
    Ok(out)
}

fn main() {
    let args: Vec<String> = std::env::args().collect();
    let repo = args.get(1).map(|s| s.as_str()).unwrap_or("/repo");
    let outdir = args.get(2).map(|s| s.as_str()).unwrap_or("gen");
    std::fs::create_dir_all(outdir).unwrap();
    let mut failed = false;
    for k in KERNELS {
        let path = format!("{}/{}", repo, k.file);
        let result: R<String> = (|| {
            let src = std::fs::read_to_string(&path).map_err(|e| format!("{}: {}", path, e))?;
            let f = parse_file(&src).map_err(|e| format!("{}: {}", path, e))?;
            let mut text = format!(
                "(* GENERATED by rs2v from {} :: {} -- do not edit; regenerated on every run *)\nFrom Coq Require Import List Ascii.\nFrom SV Require Import {}.\n",
                k.file,
                k.funcs.iter().map(|f| f.0).collect::<Vec<_>>().join(", "),
                k.mirror
            );
            for (name, header) in k.funcs {
                let func = find_body(&f, name).ok_or(format!("function {} not found in {}", name, k.file))?;
                FOR_LOOPS.with(|c| c.set(0));
                let body = block(&func.stmts)?;
                // `header ||| footer`: oracle parameters of a recursive function are section variables, the section is closed behind the body
                match header.split_once("|||") {
                    Some((h, foot)) => text += &format!("{}\n  {}.\n{}\n", h.trim_end(), body, foot.trim_start()),
                    None => text += &format!("{}\n  {}.\n", header, body),
                }
            }
            Ok(text)
        })();
        match result {
            Ok(text) => {
                let out = format!("{}/{}.v", outdir, k.module);
                // keep the file's mtime when nothing changed, so that make does not rebuild the proofs
                if std::fs::read_to_string(&out).ok().as_deref() != Some(text.as_str()) {
                    std::fs::write(&out, text).unwrap();
                }
                println!("TRANSLATED {} {}", k.name, out);
            }
            Err(e) => {
                println!("UNTRANSLATABLE {} {}", k.name, e.replace('\n', " "));
                failed = true;
            }
        }
    }
    match exit_ops(repo) {
        Ok(text) => {
            let out = format!("{}/ExitOps.v", outdir);
            if std::fs::read_to_string(&out).ok().as_deref() != Some(text.as_str()) {
                std::fs::write(&out, text).unwrap();
            }
            println!("TRANSLATED exit_ops {}", out);
        }
        Err(e) => {
            println!("UNTRANSLATABLE exit_ops {}", e.replace('\n', " "));
            failed = true;
        }
    }
    match option_tables(repo) {
        Ok(text) => {
            let out = format!("{}/OptionTables.v", outdir);
            if std::fs::read_to_string(&out).ok().as_deref() != Some(text.as_str()) {
                std::fs::write(&out, text).unwrap();
            }
            println!("TRANSLATED option_tables {}", out);
        }
        Err(e) => {
            println!("UNTRANSLATABLE option_tables {}", e.replace('\n', " "));
            failed = true;
        }
    }
    std::process::exit(if failed { 1 } else { 0 });
}
