"""Shared machinery of the checks: build cache, Coq build and audit, sharded runs, evidence, findings, replays."""
import fcntl, glob, hashlib, json, os, re, subprocess, sys, time

ROOT = os.path.dirname(os.path.dirname(os.path.abspath(__file__)))
REPO = os.environ.get("SV_REPO", "/repo")
CACHE = os.path.join(ROOT, ".cache")
TARGET = os.path.join(CACHE, "target")
TARGET_CLI = os.path.join(CACHE, "target-cli")
MLDIR = os.path.join(CACHE, "ml")
COQ = os.path.join(ROOT, "coq")
SVH = os.path.join(TARGET, "release", "svh")
STYLUA = os.path.join(TARGET_CLI, "release", "stylua")
NCPU = min(16, os.cpu_count() or 4)
GUARD = "stylua_verif"
ENV = dict(os.environ, CARGO_NET_OFFLINE="true", RUSTFLAGS="--cfg " + GUARD, CARGO_TERM_COLOR="never")

TRUSTED_BASE = [
    "Coq 8.16.1 kernel incl. vm_compute (no native_compute)",
    "coqc Print Assumptions output; allow-list = closed under the global context unless listed per theorem",
    "extraction (ExtrOcamlBasic: bool/option/unit/list/prod/sumbool/comparison -> OCaml natives; ExtrOcamlString: ascii -> char, string -> char list) + OCaml 4.13.1 ocamlopt",
    "hand-written OCaml drivers ml/drv_*.ml (parse records, call extracted functions, compare)",
    "Rust harness /verif/harness (enumerates cases, calls stylua_lib / the stylua binary, dumps full_moon tokens)",
    "Python runner sv/svlib (orchestration, counting, evidence)",
    "modelled, not verified: full_moon tokenizer/parser/Display, regex, similar, ignore/globset, toml/serde, clap, ec4rs, threadpool, crossbeam-channel, libc, rustc",
]

def log(*a):
    print(*a, file=sys.stderr, flush=True)

def sh(cmd, cwd=None, env=None, timeout=None, check=True, inp=None):
    r = subprocess.run(cmd, cwd=cwd, env=env or ENV, timeout=timeout, input=inp,
                       stdout=subprocess.PIPE, stderr=subprocess.STDOUT, text=True)
    if check and r.returncode != 0:
        raise RuntimeError("command failed (%d): %s\n%s" % (r.returncode, " ".join(cmd), r.stdout[-4000:]))
    return r

class Lock:
    def __init__(self, name):
        os.makedirs(CACHE, exist_ok=True)
        self.path = os.path.join(CACHE, name + ".lock")
    def __enter__(self):
        self.f = open(self.path, "w")
        fcntl.flock(self.f, fcntl.LOCK_EX)
        return self
    def __exit__(self, *a):
        fcntl.flock(self.f, fcntl.LOCK_UN)
        self.f.close()

def repo_hash():
    h = hashlib.sha256()
    files = sorted(glob.glob(os.path.join(REPO, "src", "**", "*.rs"), recursive=True))
    files += [os.path.join(REPO, f) for f in ("Cargo.toml", "Cargo.lock", "README.md")]
    for f in files:
        h.update(f.encode())
        try:
            with open(f, "rb") as fh:
                h.update(fh.read())
        except OSError:
            h.update(b"<missing>")
    return h.hexdigest()

def _build_cargo(tag, manifest_dir, target, extra, pkg_clean):
    """Builds with cargo; when the content hash of /repo differs from the last build the stylua units are
    cleaned first, so a tree restored with old mtimes cannot be mistaken for fresh."""
    with Lock("cargo-" + tag):
        hv = repo_hash()
        stamp = os.path.join(CACHE, tag + ".hash")
        old = open(stamp).read().strip() if os.path.exists(stamp) else ""
        if old != hv and os.path.isdir(target):
            sh(["cargo", "clean", "--release", "--offline", "-p", pkg_clean, "--target-dir", target], cwd=manifest_dir, check=False)
        t0 = time.time()
        r = sh(["cargo", "build", "--release", "--offline", "--target-dir", target] + extra, cwd=manifest_dir, check=False, timeout=3000)
        if r.returncode != 0:
            raise RuntimeError("cargo build (%s) failed:\n%s" % (tag, r.stdout[-6000:]))
        with open(stamp, "w") as f:
            f.write(hv)
        return time.time() - t0

def build_harness():
    lock = os.path.join(ROOT, "harness", "Cargo.lock")
    if not os.path.exists(lock):
        import shutil
        shutil.copy(os.path.join(REPO, "Cargo.lock"), lock)
    return _build_cargo("harness", os.path.join(ROOT, "harness"), TARGET, [], "stylua")

def build_cli():
    return _build_cargo("cli", REPO, TARGET_CLI, ["--features", "luau,lua54,luajit", "--bin", "stylua"], "stylua")

# ---------------------------------------------------------------- Coq

FORBIDDEN = re.compile(r"\b(Admitted|admit|Axiom|Axioms|Parameter|Parameters|Conjecture|Conjectures|Unset\s+Guard|bypass_check|Admit\s+Obligations|type-in-type|impredicative-set)\b")
SECTION_ONLY = re.compile(r"^\s*(Variable|Variables|Hypothesis|Hypotheses|Context)\b")

def coq_sources():
    return sorted(glob.glob(os.path.join(COQ, "theories", "*.v")) + glob.glob(os.path.join(COQ, "props", "*.v")) + glob.glob(os.path.join(COQ, "gen", "*.v")))

def strip_comments(text):
    out, depth, i = [], 0, 0
    while i < len(text):
        if text.startswith("(*", i):
            depth += 1; i += 2
        elif text.startswith("*)", i) and depth > 0:
            depth -= 1; i += 2
        else:
            if depth == 0:
                out.append(text[i])
            elif text[i] == "\n":
                out.append("\n")
            i += 1
    return "".join(out)

def grep_forbidden():
    """No Admitted/admit/Axiom/Parameter/... anywhere; Variable/Hypothesis only inside a Section."""
    bad = []
    for f in coq_sources():
        text = strip_comments(open(f).read())
        depth = 0
        for n, line in enumerate(text.split("\n"), 1):
            if re.match(r"^\s*Section\b", line): depth += 1
            if re.match(r"^\s*End\b", line) and depth > 0: depth -= 1
            if FORBIDDEN.search(line):
                bad.append("%s:%d: %s" % (os.path.relpath(f, ROOT), n, line.strip()))
            if SECTION_ONLY.match(line) and depth == 0:
                bad.append("%s:%d: outside a Section: %s" % (os.path.relpath(f, ROOT), n, line.strip()))
    return bad

def rs2v(kernel=None):
    """Tie 1: regenerate coq/gen from /repo's current source.  Returns (ok, log) for the named kernel
    (check_excess_parentheses | exit_ops | option_tables), or for all of them when none is named: a kernel that leaves
    the translator's subset must only fail the checks that are built on it."""
    with Lock("cargo-rs2v"):
        lock = os.path.join(ROOT, "rs2v", "Cargo.lock")
        if not os.path.exists(lock):
            import shutil; shutil.copy(os.path.join(REPO, "Cargo.lock"), lock)
        sh(["cargo", "build", "--release", "--offline", "--target-dir", os.path.join(CACHE, "target-rs2v")], cwd=os.path.join(ROOT, "rs2v"), timeout=1500)
    with Lock("coq"):
        r = sh([os.path.join(CACHE, "target-rs2v", "release", "rs2v"), REPO, os.path.join(COQ, "gen")], check=False)
    if kernel is None:
        return r.returncode == 0, r.stdout
    for l in r.stdout.splitlines():
        w = l.split(" ", 2)
        if len(w) >= 2 and w[1] == kernel:
            return w[0] == "TRANSLATED", l
    return False, "rs2v did not report on %s: %s" % (kernel, r.stdout[-500:])

def coq_make(targets, timeout=1500):
    """Full .vo build (never -vos) of the given targets through the generated Makefile."""
    missing = [g for g in ("CheckExcess.v", "ExitOps.v", "OptionTables.v", "SemiRule.v", "QuoteChoice.v", "ShouldFormat.v", "CtxOptions.v", "RequireKind.v", "CollapseRule.v", "IfGuard.v", "MinusGuard.v", "CondParens.v", "BracketsString.v") if not os.path.exists(os.path.join(COQ, "gen", g))]
    if missing:
        os.makedirs(os.path.join(COQ, "gen"), exist_ok=True)
        rs2v()
        for g in missing:
            if not os.path.exists(os.path.join(COQ, "gen", g)):
                return False, "rs2v could not regenerate coq/gen/%s from /repo's source" % g
    with Lock("coq"):
        os.makedirs(MLDIR, exist_ok=True)
        mk = os.path.join(COQ, "Makefile")
        cp = os.path.join(COQ, "_CoqProject")
        if not os.path.exists(mk) or os.path.getmtime(mk) < os.path.getmtime(cp):
            sh(["coq_makefile", "-f", "_CoqProject", "-o", "Makefile"], cwd=COQ)
        r = sh(["timeout", str(timeout), "make", "-j%d" % NCPU] + targets, cwd=COQ, check=False)
        return r.returncode == 0, r.stdout

def coq_check_props(prop, allow=None):
    """Re-compiles props/<prop>.v (always, so that its Print Assumptions output is read from this very run)
    after making its dependencies.  Returns dict(ok, theorems, discharged, assumptions, log)."""
    allow = allow or {}
    src = os.path.join(COQ, "props", prop + ".v")
    text = strip_comments(open(src).read())
    theorems = re.findall(r"^\s*Theorem\s+([A-Za-z0-9_']+)", text, re.M)
    printed = re.findall(r"Print\s+Assumptions\s+([A-Za-z0-9_'.]+)\s*\.", text)
    res = dict(ok=False, theorems=theorems, discharged=0, assumptions={}, log="", missing_print=[t for t in theorems if t not in printed])
    bad = grep_forbidden()
    if bad:
        res["log"] = "forbidden constructs:\n" + "\n".join(bad)
        return res
    with Lock("coq-props-" + prop):
        vo = src[:-2] + ".vo"
        for ext in (".vo", ".glob", ".vos", ".vok"):
            try: os.remove(src[:-2] + ext)
            except OSError: pass
        ok, out = coq_make(["props/%s.vo" % prop])
    res["log"] = out[-6000:]
    if not ok or not os.path.exists(vo):
        # which theorem broke?  coqc reports the file and line of the first error
        m = re.search(r'File "\./(props|theories|gen)/([A-Za-z0-9_]+\.v)", line (\d+)', out)
        res["broken_at"] = "%s/%s:%s" % (m.group(1), m.group(2), m.group(3)) if m else "unknown"
        return res
    # Print Assumptions answers, in order
    blocks = re.split(r"(?m)^(?=Closed under the global context|Axioms:)", out)
    answers = [b for b in blocks if b.startswith("Closed under") or b.startswith("Axioms:")]
    ok_all = len(answers) == len(printed) and not res["missing_print"]
    for name, ans in zip(printed, answers):
        if ans.startswith("Closed under"):
            res["assumptions"][name] = []
        else:
            ax = re.findall(r"(?m)^([A-Za-z0-9_'.]+)\s*:", ans[len("Axioms:"):])
            res["assumptions"][name] = ax
            if any(a not in allow.get(name, []) and a not in allow.get("*", []) for a in ax):
                ok_all = False
    res["discharged"] = len([t for t in theorems if res["assumptions"].get(t, ["?"]) == [] or t in res["assumptions"]]) if ok_all else 0
    res["ok"] = ok_all
    return res

def build_ml():
    with Lock("ml"):
        ok, out = coq_make(["theories/Extract.vo"])
        if not ok:
            raise RuntimeError("extraction failed:\n" + out[-4000:])
        # kernels regenerated by rs2v are extracted apart: a kernel that no longer compiles must only fail the checks built on it
        okg, outg = coq_make(["theories/ExtractGen.vo"])
        if not okg:
            for f in ("SemiGen.ml", "SemiGen.mli", "drv_semi", "ShouldGen.ml", "ShouldGen.mli", "drv_pos", "ReqGen.ml", "ReqGen.mli", "drv_req"):
                try: os.remove(os.path.join(MLDIR, f))
                except OSError: pass
        sh([os.path.join(ROOT, "ml", "build.sh")])
        return okg

def driver(name):
    return os.path.join(MLDIR, name)

# ---------------------------------------------------------------- running

def run_pipeline_sharded(make_cmds, shards=NCPU, timeout=3000):
    """make_cmds(i, n) -> (harness argv, driver argv or None).  Runs `harness | driver` for every shard in parallel,
    returns the list of output lines of all shards."""
    procs = []
    for i in range(shards):
        h, d = make_cmds(i, shards)
        p1 = subprocess.Popen(h, stdout=subprocess.PIPE, stderr=subprocess.DEVNULL, env=ENV)
        if d:
            p2 = subprocess.Popen(d, stdin=p1.stdout, stdout=subprocess.PIPE, stderr=subprocess.PIPE, text=True, env=ENV)
            p1.stdout.close()
            procs.append((p1, p2))
        else:
            procs.append((p1, None))
    # all shards are drained concurrently: a shard whose output pipe fills up would otherwise stall until its turn
    from concurrent.futures import ThreadPoolExecutor
    def drain(pp):
        p1, p2 = pp
        e = []
        if p2:
            out, err = p2.communicate(timeout=timeout)
            p1.wait()
            if p2.returncode != 0: e.append("driver exit %d: %s" % (p2.returncode, err[-500:]))
        else:
            out = p1.stdout.read().decode("utf-8", "replace"); p1.wait()
        if p1.returncode != 0: e.append("harness exit %d" % p1.returncode)
        return out.splitlines(), e
    lines, errs = [], []
    with ThreadPoolExecutor(max(1, len(procs))) as ex:
        for out, e in ex.map(drain, procs):
            lines.extend(out); errs.extend(e)
    return lines, errs

def parse_kv(line):
    return {k: v for k, v in (w.split("=", 1) for w in line.split()[1:] if "=" in w)}

# ---------------------------------------------------------------- findings, replays, evidence

def known_findings(prop):
    path = os.path.join(ROOT, "known_findings.jsonl")
    out = []
    if os.path.exists(path):
        for l in open(path):
            l = l.strip()
            if l and not l.startswith("#"):
                e = json.loads(l)
                if e.get("property") == prop and e.get("kind") != "fixed":
                    out.append(e)
    return out

def write_replay(prop, payload):
    os.makedirs(os.path.join(ROOT, "replays"), exist_ok=True)
    blob = json.dumps(payload, sort_keys=True)
    name = "%s-%s.json" % (prop, hashlib.sha256(blob.encode()).hexdigest()[:12])
    path = os.path.join(ROOT, "replays", name)
    payload = dict(payload, property=prop, how_to_replay="./sv replay " + path)
    with open(path, "w") as f:
        json.dump(payload, f, indent=1, sort_keys=True)
    return path

class Result:
    """What a check hands back to the runner."""
    def __init__(self, prop, tier, seed):
        self.prop, self.tier, self.seed = prop, tier, seed
        self.level = "proof"
        self.coverage = {}
        self.assumptions = []
        self.violations = []      # list of (replay_path, suffix)
        self.known = []           # list of strings
        self.t0 = time.time()
    def violation(self, payload, no_input=False):
        path = write_replay(self.prop, payload)
        self.violations.append((path, " no-failing-input-found" if no_input else ""))
        return path
    def finish(self):
        ev = dict(property_id=self.prop, tier=self.tier, seed=self.seed, level=self.level, coverage=self.coverage,
                  assumptions=self.assumptions, wall_s=round(time.time() - self.t0, 2), violations=len(self.violations))
        os.makedirs(os.path.join(ROOT, "evidence"), exist_ok=True)
        with open(os.path.join(ROOT, "evidence", self.prop + ".json"), "w") as f:
            json.dump(ev, f, indent=1, sort_keys=True)
        for k in self.known:
            print("KNOWN-FINDING: property=%s %s" % (self.prop, k))
        for path, suffix in self.violations:
            print("VIOLATION property=%s replay=%s%s" % (self.prop, path, suffix))
        print("%s %s: %s in %.1fs (obligations %s/%s, evaluations %s)" % (
            self.prop, self.tier, "VIOLATED" if self.violations else "ok", time.time() - self.t0,
            self.coverage.get("discharged", "-"), self.coverage.get("obligations", "-"), self.coverage.get("evaluations", "-")))
        return 1 if self.violations else 0

def proof_stage(res, prop, allow=None, extra_obligations=0):
    """Runs the Coq side of a check; fills the proof keys of the coverage; on failure records an obligation violation.
    Returns the coq_check_props dict."""
    c = coq_check_props(prop, allow)
    n = len(c["theorems"])
    res.coverage.update(obligations=n + extra_obligations, discharged=c["discharged"],
                        checker_cmd="make -C coq props/%s.vo (coqc 8.16.1, full .vo build) + Print Assumptions allow-list + forbidden-construct grep" % prop,
                        trusted_base=list(TRUSTED_BASE), theorems=c["theorems"],
                        print_assumptions={k: (v or "Closed under the global context") for k, v in c["assumptions"].items()})
    if res.tier == "thorough" and c["ok"]:
        # independent re-check of the compiled property file and everything it depends on; lists axioms and unsafe flags
        r = sh(["timeout", "1500", "coqchk", "-o", "-silent", "-Q", "theories", "SV", "-Q", "gen", "SVgen", "-Q", "props", "SVP", "SVP." + prop], cwd=COQ, check=False)
        summary = r.stdout[r.stdout.find("CONTEXT SUMMARY"):] if "CONTEXT SUMMARY" in r.stdout else r.stdout[-1500:]
        clean = (r.returncode == 0 and all(("* %s: <none>" % k) in summary for k in
                 ("Axioms", "Constants/Inductives relying on type-in-type", "Constants/Inductives relying on unsafe (co)fixpoints", "Inductives whose positivity is assumed")))
        res.coverage["coqchk"] = "clean: Axioms <none>, no type-in-type, no unsafe fixpoints, no assumed positivity" if clean else summary[-1200:]
        res.coverage["checker_cmd"] += " + coqchk -o SVP.%s" % prop
        if not clean:
            c["ok"] = False; c["broken_at"] = "coqchk -o SVP.%s" % prop; c["log"] = summary[-2500:]; c["discharged"] = 0
            res.coverage["discharged"] = 0
    res.proof = c
    return c
