"""The validation halves of C01 C02 C03 C06 C10 C11 share one runner; this table says what differs."""
from .fmtrun import *

SPEC = {
 "C01": dict(judge="c01", flags_a=["--tokens", "--sort"], flags_b=["--tokens", "--sort", "--ranges"], mode_a="plain", mode_b="wild",
             rule="programs from the grammar-directed generator (6 dialects; every statement and expression kind; random blanks, tabs, newlines, CRLF; semicolons; require blocks; ignore directives), each under its default "
                  "configuration and 2 random configurations (6 column widths incl. 1 and usize::MAX, both indent types, 4 indent widths, both line endings, all quote / call-parentheses / collapse / space options, sort_requires); "
                  "region A (seeded): comments at statement boundaries, and (second half) also before and after the commas of expression and argument lists; region B (fixed seed, listed per input): comments at any token boundary, byte ranges, plus the repository's test inputs of every dialect; "
                  "and the operator-tree family of the C05 harness (operator pairs with parentheses at every position in 11 expression contexts at 4 widths, seeded)",
             corr="every output is re-parsed by full_moon under the same syntax; the Coq lexer model agrees with full_moon's tokenizer on every input and every output (token lists compared)"),
 "C02": dict(judge="c02", flags_a=["--nf", "--ranges"], flags_b=["--nf", "--ranges"], mode_a="plain", mode_b="wild",
             rule="same generator and configurations as C01, with byte ranges in region A too (sort_requires off, as the property says)",
             corr="Census.erase (Coq lexer + string / number denotations) of input and output are equal; the normal form N computed from full_moon's AST (independent of --verify), with literals mapped through the Coq denotations, is equal"),
 "C03": dict(judge="c03", flags_a=["--trace", "--ranges", "--sort"], flags_b=["--trace", "--ranges", "--sort"], mode_a="plain", mode_b="wild",
             rule="same generator and configurations as C01, ranges and sort_requires included",
             corr="Census.census (Coq lexer) of input and output are equal as multisets; every traced call of load_token_trivia is replayed through Trivia.lead / Trivia.trail and must give the same trivia"),
 "C06": dict(judge="c06", flags_a=["--idem"], flags_b=["--idem"], mode_a="plain", mode_b="plain", region_a=False,
             rule="fixed regression set only (no region is established clean for whole-program idempotence): generator in plain mode under a constant seed and the repository's test inputs, each under 3 configurations; second pass byte-compared",
             corr="format(format(p)) = format(p) byte for byte; failures are compared with the per-input list baselines/C06.json"),
 "C10": dict(judge="c10", flags_a=["--trace"], flags_b=["--trace", "--skip-directives"], mode_a="plain-nodirectives", mode_b="wild-nodirectives", dirs=[d for d in CORPUS_DIRS if d != "tests/inputs-ignore"],
             rule="same generator and configurations as C01 without ignore directives and ranges (their text is excluded by the property); CRLF, LF and mixed inputs; region A is clean, region B's failures (comments between two tokens of a statement) are listed per input",
             corr="Census.ws_check on the Coq lexer's tokens of the output: every newline of whitespace and block comments in the configured form, no other CR, indentation tabs-only or spaces in a multiple of indent_width, one final line ending"),
 "C11": dict(judge="c11", flags_a=["--calls"], flags_b=["--calls", "--skip-directives"], mode_a="plain-nodirectives", mode_b="wild-nodirectives", dirs=[d for d in CORPUS_DIRS if d != "tests/inputs-ignore"],
             rule="same generator and configurations as C01 without ignore directives",
             corr="every quoted string token of the output satisfies the quote rule for the configured style (QuoteMore.needs on the output body); every call of the output has the form CallForm.call_form gives for its input form, "
                  "satisfies CallForm.form_ok read off the output alone, and the blank between a function name and `(` is present exactly when CallForm.space_call / space_definition say so (calls and definitions matched in source order on full_moon's ASTs)"),
}

def expr_family(res):
    """C01 only: the operator-tree family of the C05 harness (every operator pair, parentheses at every position, 11
    expression contexts, 4 widths): each output must parse again.  Returns (records, payloads)."""
    import subprocess
    n = 4000 if res.tier == "quick" else 100000
    from concurrent.futures import ThreadPoolExecutor
    def shard(i):
        r = subprocess.run([SVH, "c05", "--depth", "1" if res.tier == "quick" else "2", "--random", str(n), "--seed", str(res.seed), "--shard", "%d/%d" % (i, NCPU)],
                           stdout=subprocess.PIPE, stderr=subprocess.DEVNULL, text=True, env=ENV)
        t, b = 0, []
        for l in r.stdout.splitlines():
            w = l.split()
            if len(w) < 8 or w[0] != "E": continue
            t += 1
            if w[7] in ("noparse", "panic", "error", "parseerror") and len(b) < 5: b.append(w)
        return t, b, r.returncode
    total, bad, errs = 0, [], []
    with ThreadPoolExecutor(NCPU) as ex:
        for t, b, rc in ex.map(shard, range(NCPU)):
            total += t; bad += b
            if rc != 0: errs.append("svh c05 exited %d" % rc)
    payloads = [dict(kind="input", check="output-does-not-parse" if w[7] == "noparse" else "formatter-" + w[7], region="A (seeded, operator-tree family)", family="expr",
                     syntax=w[1], context=w[2], width=w[4], source_hex=w[5], source=bytes.fromhex(w[5].lstrip("#")).decode("utf8", "replace"), observed=" ".join(w[7:])[:2000], seed=res.seed) for w in bad[:3]]
    if errs or total == 0: payloads.append(dict(kind="obligation", obligation=dict(correspondence="operator-tree family run", log="; ".join(errs) or "no records")))
    return total, payloads

def semi_tie(res):
    """C01, C02: the semicolon rule.  rs2v must have regenerated it (Tie 1); `svh semi` x drv_semi validate the grammar facts of
    Semicolon.v against full_moon and the regenerated kernel against the binary (Tie 2).  Returns (records, payloads)."""
    r = sh([SVH, "semi"], check=False)
    j = subprocess.run([driver("drv_semi")], input=r.stdout, stdout=subprocess.PIPE, stderr=subprocess.PIPE, text=True)
    tot, payloads = {}, []
    for l in j.stdout.splitlines():
        if l.startswith("SUMMARY"): tot = {k: int(v) for k, v in parse_kv(l).items()}
        elif l.startswith("BAD") and len(payloads) < 3:
            w = l.split()
            payloads.append(dict(kind="input", check="semicolon-rule:" + w[1], region="semicolon-rule tie (every statement kind x next statement, 6 dialects)", family="semi", syntax=w[3],
                                 source=bytes.fromhex(w[-2].lstrip("#")).decode() + ";\n" + bytes.fromhex(w[-1].lstrip("#")).decode() + "\n", record=" ".join(w[2:-2]),
                                 expected="SemiRule.check_stmt_requires_semicolon (regenerated) = Semicolon.needs_semicolon; the binary keeps the semicolon exactly then; the two statements stay two"))
    if r.returncode != 0 or j.returncode != 0 or not tot.get("records") or tot.get("bad", 0) != sum(1 for l in j.stdout.splitlines() if l.startswith("BAD")):
        payloads.append(dict(kind="obligation", obligation=dict(correspondence="semicolon-rule tie", log=(r.stderr + j.stderr)[-800:] or "no records")))
    return tot, payloads

L0_PROPS = ("C01", "C02", "C03", "C06", "C10", "C11")
def l0_tie(res):
    """C01 C02 C03 C06 C10 C11: the L0 whole-formatter model (Fmt0.format0, extracted) against the binary, byte for byte, on programs
    of the fragment in arbitrary layout (call sugar included) under four configurations each: line endings x indentation, with a
    quote style, a call_parentheses, a space_after_function_names and a collapse_simple_statement value drawn for each.  Returns (totals, payloads)."""
    n = 1500 if res.tier == "quick" else 40000
    lines, errs = run_pipeline_sharded(lambda i, k: ([SVH, "l0", "--seed", str(res.seed), "--n", str(n), "--shard", "%d/%d" % (i, k)], [driver("drv_l0")]))
    tot, stats, payloads, nonidem = {}, {}, [], []
    for l in lines:
        if l.startswith("SUMMARY"):
            for k, v in parse_kv(l).items(): tot[k] = tot.get(k, 0) + int(v)
        elif l.startswith("STATS"):
            for k, v in parse_kv(l).items(): stats[k] = stats.get(k, 0) + int(v)
        elif l.startswith("NONIDEM"): nonidem.append(l.split()[1])
        elif l.startswith("BAD") and len(payloads) < 3:
            w = l.split()
            payloads.append(dict(kind="input", check="L0:" + w[1], case=w[2], family="l0", seed=res.seed, n=n, region="L0 tie (programs of the fragment, 4 configurations: whitespace, quote style, call_parentheses, space_after_function_names, collapse_simple_statement)",
                                 expected="Fmt0.format0 (extracted) = the library's output, byte for byte"))
    if errs or not tot.get("records") or tot.get("records") != stats.get("records"):
        payloads.append(dict(kind="obligation", obligation=dict(correspondence="L0 tie", log="; ".join(errs) or "record count mismatch")))
    tot = dict(tot, generated=dict((k, v) for k, v in stats.items() if k != "records"))
    tot["second_pass"] = ("the library formats its own output once more; Fmt0.format0 on the tree it wrote (Fmt0.norm0) must give the same bytes. "
                          "Records on which the model's two passes differ fall outside the premise of C06_L0_both_passes_idempotent_without_a_double_minus: the listed finding")
    res.l0_nonidem = nonidem
    return tot, payloads

def c06_witness(res):
    """the witness of C06_L0_normalisation_not_idempotent_refuted, replayed on the library (a known finding while it reproduces)"""
    hexs = lambda b: "#" + b.hex()
    src = "local x = (- -f())\n"
    feed = "w1 - %s\n" % hexs(src.encode())
    out = sh([SVH, "fmt"], inp=feed, timeout=120).stdout.split()
    if len(out) > 2 and out[1] == "ok":
        first = bytes.fromhex(out[2][1:])
        out2 = sh([SVH, "fmt"], inp="w2 - %s\n" % hexs(first), timeout=120).stdout.split()
        if len(out2) > 2 and out2[1] == "ok" and bytes.fromhex(out2[2][1:]) != first:
            for e in known_findings("C06"):
                if e.get("id") == "F-C06-kept-parens-around-guarded-minus":
                    if not any(k.startswith(e["what"]) for k in res.known): res.known.append(e["what"])
                    return True
            return False
    return True

# Known classes that the generators do not write on purpose (they would fill every seeded region with instances): each is probed
# with one witness through the property's own judge; while it reproduces and is listed it prints its KNOWN-FINDING line, when it
# reproduces and is not listed it is a violation, when it no longer reproduces nothing is printed.
CLASS_WITNESSES = {
    "C06": [("F-C06-blank-line-inside-statement", "x = a\n\n + b\nf(a\n\n)\n", ["--idem"])],
    "C10": [("F-C10-blank-line-inside-statement", "x = a\n\n + b\n", ["--trace"])],
    "C03": [("F-C03-name-key-trailing-comment", "local t = { y --[[c]] = 2 }\n", ["--trace"]),
            ("F-C03-line-comments-on-both-sides-of-a-comma", "foo(\n    a -- c1\n    , -- c2\n    b\n)\n", ["--trace"])],
}
def class_witnesses(res, prop, judge):
    bad = []
    for fid, src, flags in CLASS_WITNESSES.get(prop, []):
        h = [SVH, "run", "--one", "Lua51", "syntax=Lua51", "-", "#" + src.encode().hex()] + flags
        lines, errs = run_pipeline_sharded(lambda i, n: (h, [driver("drv_fmt"), judge]), shards=1)
        if errs or any(l.startswith("BAD") for l in lines):
            kf = [e for e in known_findings(prop) if e.get("id") == fid]
            if kf: res.known.append(kf[0]["what"])
            else: bad.append(dict(kind="input", check="class-witness:" + fid, family="witness", syntax="Lua51", config="syntax=Lua51", range="-", source_hex="#" + src.encode().hex(), flags=flags, source=src))
    return bad

def run_prop(res, prop, extra_obligations=1):
    sp = SPEC[prop]
    semi = prop in ("C01", "C02")
    kernels = {"C01": ["semicolon_rule", "double_minus_guard", "brackets_string"], "C02": ["semicolon_rule", "collapse_rule"], "C06": ["double_minus_guard", "condition_parentheses"], "C03": ["collapse_rule", "if_guard", "condition_parentheses"], "C10": ["whitespace_and_call_options"], "C11": ["quote_choice", "whitespace_and_call_options"]}.get(prop, [])
    if prop in L0_PROPS: extra_obligations += 1     # the L0 tie
    t_ok, t_log = True, ""
    for kname in kernels:               # Tie 1: each kernel the theorems speak about is regenerated from /repo's source
        extra_obligations += 1
        k_ok, k_log = rs2v(kname)
        if not k_ok: t_ok, t_log = False, k_log
    if semi: extra_obligations += 1     # the semicolon rule's correspondence run
    proof = proof_stage(res, prop, extra_obligations=extra_obligations) if t_ok else dict(ok=False, discharged=0, theorems=[], log=t_log, broken_at="rs2v: " + t_log.strip()[-300:])
    if not t_ok:
        res.coverage.update(obligations=extra_obligations, discharged=0, checker_cmd="rs2v /repo coq/gen", trusted_base=list(TRUSTED_BASE))
    build_harness(); build_ml()
    ok, payloads = validate(res, prop, sp["judge"], sp["flags_a"], sp["flags_b"], sp["mode_a"], sp["mode_b"], region_a=sp.get("region_a", True), dirs=sp.get("dirs"))
    if semi:
        tot, more = semi_tie(res)
        payloads = more + payloads; ok = ok and not more
        res.coverage["evaluations"] = res.coverage.get("evaluations", 0) + tot.get("records", 0)
        res.coverage["input_distribution"]["semicolon_rule_tie"] = tot
        res.coverage["kernels_translated"] = ["src/formatters/block.rs :: var_has_parentheses, check_stmt_requires_semicolon -> coq/gen/SemiRule.v (rs2v)"]
    if prop in L0_PROPS:
        l0, more = l0_tie(res)
        payloads = more + payloads; ok = ok and not more
        res.coverage["evaluations"] = res.coverage.get("evaluations", 0) + l0.get("records", 0)
        res.coverage["input_distribution"]["L0_tie"] = l0
    if prop == "C06" and getattr(res, "l0_nonidem", None):
        # a second pass that differs exactly as the model predicts: an instance of the double-minus finding, if it is listed
        kf = [e for e in known_findings("C06") if e.get("id") == "F-C06-kept-parens-around-guarded-minus"]
        if kf: res.known.append(kf[0]["what"] + " (%d records of the L0 tie, predicted by the model)" % len(res.l0_nonidem))
        else:
            payloads.append(dict(kind="input", check="L0:second-pass-differs-as-the-model-predicts", case=res.l0_nonidem[0], family="l0", seed=res.seed, n=(1500 if res.tier == "quick" else 40000),
                                 expected="a second pass changes nothing (or the finding is listed)")); ok = False
    more = class_witnesses(res, prop, sp["judge"])
    payloads = more + payloads; ok = ok and not more
    if prop == "C06" and not c06_witness(res):
        payloads.append(dict(kind="input", check="second-pass-differs", family="witness", source="local x = (- -f())\n", expected="a second pass changes nothing (or the finding is listed)")); ok = False
    if prop == "C01":
        n_expr, more = expr_family(res)
        payloads = more + payloads; ok = ok and not more
        res.coverage["evaluations"] = res.coverage.get("evaluations", 0) + n_expr
        res.coverage["input_distribution"]["operator_tree_family"] = dict(records=n_expr, failures=len(more))
    if proof["ok"] and ok: res.coverage["discharged"] = proof["discharged"] + extra_obligations
    res.coverage["rule"] = sp["rule"] + "; distinct cases are not deduplicated across configurations: non-trivial counts cases whose output differs from the input"
    res.coverage["correspondence"] = sp["corr"]
    res.assumptions = ["full_moon's parser and Display are modelled, not verified; the Coq lexer model is compared with its tokenizer on every case of C01",
                       "Luau interpolated strings are outside the lexer model (not generated)",
                       "region B failures listed in baselines/%s.json are known findings identified by case (fixed seed, index, configuration); a failure not listed there is a violation" % prop]
    for p in payloads[:5]:
        if p.get("kind") == "obligation": res.violation(p, no_input=True)
        else: res.violation(dict(p, expected=sp["corr"]))
    if not proof["ok"] and not payloads:
        res.violation(dict(kind="obligation", obligation=dict(theorem=proof.get("broken_at", prop), log=proof["log"][-2500:])), no_input=True)
    return res

def replay(payload, prop):
    build_harness(); build_ml()
    sp = SPEC[prop]
    if payload.get("family") == "l0":
        k = int(payload["case"][1:])
        lines, errs = run_pipeline_sharded(lambda i, n: ([SVH, "l0", "--seed", str(payload["seed"]), "--n", str(k + 1), "--shard", "%d/%d" % (k % 1000003, 1000003)], [driver("drv_l0")]), shards=1)
        print("\n".join(l[:600] for l in lines))
        return 1 if errs or any(l.startswith("BAD") for l in lines) else 0
    if payload.get("family") == "semi":
        r = sh([SVH, "semi"], check=False)
        j = subprocess.run([driver("drv_semi")], input=r.stdout, stdout=subprocess.PIPE, text=True)
        bad = [l for l in j.stdout.splitlines() if l.startswith("BAD")]
        print("\n".join(l[:300] for l in bad[:10]) or j.stdout[-300:])
        return 1 if bad else 0
    if payload.get("family") == "expr":
        r = sh([SVH, "c05", "--one", payload["syntax"], payload["context"], payload["source_hex"], str(payload["width"])], check=False)
        print(r.stdout[:2000])
        return 1 if any(l.split()[7:8] != ["ok"] for l in r.stdout.splitlines() if l.startswith("E ")) else 0
    if payload.get("source_hex"):
        h = [SVH, "run", "--one", payload["syntax"], payload["config"], payload["range"], payload["source_hex"]] + [f for f in payload.get("flags", []) if f in ("--tokens", "--nf", "--idem", "--trace", "--calls")]
        lines, errs = run_pipeline_sharded(lambda i, n: (h, [driver("drv_fmt"), sp["judge"]]), shards=1)
        print("\n".join(l[:400] for l in lines))
        return 1 if errs or any(l.startswith("BAD") for l in lines) else 0
    print("corpus case: re-run the check"); return 1
