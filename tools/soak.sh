#!/bin/sh
# soak: run the quick tier of the given properties for a range of seeds; prints only alarms and a tally
# usage: tools/soak.sh <first seed> <last seed> C01 C02 ...
a=$1; b=$2; shift 2
./sv setup >/dev/null 2>&1
for s in $(seq $a $b); do
  for p in "$@"; do
    out=$(VERIF_SEED=$s ./sv check $p 2>&1 | grep -v "^KNOWN-FINDING" | tail -n 4 | cut -c1-220)
    case "$out" in *VIOL*) echo "seed=$s $out";; esac
  done
  echo "seed $s done"
done
