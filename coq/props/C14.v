(* C14 - a failing file is left untouched and does not stop the others.  Statements only. *)
From Coq Require Import List Arith.
From SV Require CliModel CliModelProof.
Import ListNotations CliModel.

Theorem C14_failing_untouched : forall path content eqb, (forall a b, eqb a b = true <-> a = b) ->
  forall check files f p, (forall o, In (p, o) files -> o = Failed \/ o = Formatted) -> fst (run path content eqb check files f) p = f p.
Proof. exact CliModelProof.failing_untouched. Qed.
Print Assumptions C14_failing_untouched.
Theorem C14_others_processed : forall path content eqb, (forall a b, eqb a b = true <-> a = b) ->
  forall files f p c, NoDup (map fst files) -> In (p, Unformatted c) files -> fst (run path content eqb false files f) p = Some c.
Proof. exact CliModelProof.others_processed. Qed.
Print Assumptions C14_others_processed.
Theorem C14_write_only_complete : forall path content eqb, (forall a b, eqb a b = true <-> a = b) ->
  forall check files f p, fst (run path content eqb check files f) p = f p \/
    exists c, In (p, Unformatted c) files /\ fst (run path content eqb check files f) p = Some c.
Proof. exact CliModelProof.write_only_complete. Qed.
Print Assumptions C14_write_only_complete.
Theorem C14_status_2_on_any_failure : forall path content eqb check files f,
  Exists (fun po => snd po = Failed) files -> snd (run path content eqb check files f) = 2.
Proof. intros. apply CliModelProof.status_2_iff_failure. assumption. Qed.
Print Assumptions C14_status_2_on_any_failure.
Theorem C14_write_mode_status_0_without_failure : forall path content eqb files f,
  ~ Exists (fun po => snd po = Failed) files -> snd (run path content eqb false files f) = 0.
Proof.
  intros path content eqb files f N. unfold run; cbn [snd]. induction files as [|[p o] r IH]; [reflexivity|].
  cbn [map fold_right snd]. rewrite IH by (intros X; apply N; right; exact X).
  destruct o; cbn; auto. exfalso. apply N. left. reflexivity.
Qed.
Print Assumptions C14_write_mode_status_0_without_failure.
