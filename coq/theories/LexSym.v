From Coq Require Import List Ascii String NArith Bool Arith Lia.
Import ListNotations.
From SV Require Import Lex LexRender.
Open Scope char_scope.

(* one lemma per symbol: with a concrete first character the if-chain of lex_one reduces at once *)
Ltac sym_start := intros; unfold single; cbn [show app str list_ascii_of_string]; unfold lex_one;
  cbn -[is_digit multi_line_body number_body hex_body bin_body qstring take_while ws_more v52 v53 v54 vluau vjit].
Ltac split_eq c x := let E := fresh "E" in destruct (eqc x c) eqn:E; [apply Ascii.eqb_eq in E; subst c|].

Definition hd_ne (x : ascii) (rest : bytes) : Prop := match rest with c :: _ => c <> x | [] => True end.
Lemma starts_none x rest : hd_ne x rest -> starts x rest = None.
Proof. destruct rest as [|c r]; cbn; auto. intros H. destruct (eqc x c) eqn:E; auto. apply Ascii.eqb_eq in E. congruence. Qed.

(* symbols that are complete after their last character in every dialect *)
Lemma single_lparen v rest : single v (TSym (str "(")) rest. Proof. sym_start. reflexivity. Qed.
Lemma single_rparen v rest : single v (TSym (str ")")) rest. Proof. sym_start. reflexivity. Qed.
Lemma single_rbracket v rest : single v (TSym (str "]")) rest. Proof. sym_start. reflexivity. Qed.
Lemma single_comma v rest : single v (TSym (str ",")) rest. Proof. sym_start. reflexivity. Qed.
Lemma single_hash v rest : single v (TSym (str "#")) rest. Proof. sym_start. reflexivity. Qed.
Lemma single_lbrace v rest : single v (TSym (str "{")) rest. Proof. sym_start. reflexivity. Qed.
Lemma single_rbrace v rest : single v (TSym (str "}")) rest. Proof. sym_start. reflexivity. Qed.
Lemma single_semi v rest : single v (TSym (str ";")) rest. Proof. sym_start. reflexivity. Qed.
Lemma single_eqeq v rest : single v (TSym (str "==")) rest. Proof. sym_start. reflexivity. Qed.
Lemma single_neq v rest : single v (TSym (str "~=")) rest. Proof. sym_start. reflexivity. Qed.
Lemma single_le v rest : hd_ne "<" ("=" :: rest) -> single v (TSym (str "<=")) rest.
Proof. sym_start. destruct (v53 v); reflexivity. Qed.
Lemma single_ge v rest : single v (TSym (str ">=")) rest.
Proof. sym_start. destruct (v53 v); reflexivity. Qed.
Lemma single_ellipsis v rest : single v (TSym (str "...")) rest. Proof. sym_start. reflexivity. Qed.

(* symbols with a follow condition *)
Lemma single_assign v rest : hd_ne "=" rest -> single v (TSym (str "=")) rest.
Proof. sym_start. rewrite starts_none; auto. Qed.
Lemma single_lt v rest : hd_ne "=" rest -> hd_ne "<" rest -> single v (TSym (str "<")) rest.
Proof. sym_start. rewrite (starts_none "=" rest), (starts_none "<" rest); auto. destruct (v53 v); reflexivity. Qed.
Lemma single_gt v rest : hd_ne "=" rest -> hd_ne ">" rest -> single v (TSym (str ">")) rest.
Proof. sym_start. rewrite (starts_none "=" rest), (starts_none ">" rest); auto. destruct (v53 v); reflexivity. Qed.
Lemma single_plus v rest : hd_ne "=" rest -> single v (TSym (str "+")) rest.
Proof. sym_start. rewrite starts_none; auto. destruct (vluau v); reflexivity. Qed.
Lemma single_star v rest : hd_ne "=" rest -> single v (TSym (str "*")) rest.
Proof. sym_start. rewrite starts_none; auto. destruct (vluau v); reflexivity. Qed.
Lemma single_percent v rest : hd_ne "=" rest -> single v (TSym (str "%")) rest.
Proof. sym_start. rewrite starts_none; auto. destruct (vluau v); reflexivity. Qed.
Lemma single_caret v rest : hd_ne "=" rest -> single v (TSym (str "^")) rest.
Proof. sym_start. rewrite starts_none; auto. destruct (vluau v); reflexivity. Qed.
Lemma single_slash v rest : hd_ne "=" rest -> hd_ne "/" rest -> single v (TSym (str "/")) rest.
Proof. sym_start. rewrite (starts_none "=" rest), (starts_none "/" rest); auto. destruct (v53 v), (vluau v); reflexivity. Qed.
Lemma single_colon v rest : hd_ne ":" rest -> single v (TSym (str ":")) rest.
Proof. sym_start. rewrite starts_none; auto. destruct (v52 v || vluau v || vjit v); reflexivity. Qed.
Lemma single_concat v rest : hd_ne "." rest -> hd_ne "=" rest -> single v (TSym (str "..")) rest.
Proof. sym_start. rewrite (starts_none "." rest), (starts_none "=" rest); auto. destruct (vluau v); reflexivity. Qed.
Lemma single_minus v rest : hd_ne "-" rest -> hd_ne "=" rest -> hd_ne ">" rest -> single v (TSym (str "-")) rest.
Proof. sym_start. rewrite (starts_none "-" rest), (starts_none "=" rest), (starts_none ">" rest); auto. destruct (vluau v); reflexivity. Qed.
Lemma single_dot v rest : hd_ne "." rest -> (match rest with c :: _ => is_digit c = false | [] => True end) ->
  single v (TSym (str ".")) rest.
Proof. sym_start. rewrite (starts_none "." rest); auto. destruct rest as [|c r]; [reflexivity|]. rewrite H0. reflexivity. Qed.
Lemma single_lbracket v rest : hd_ne "[" rest -> hd_ne "=" rest -> single v (TSym (str "[")) rest.
Proof.
  sym_start. destruct rest as [|c r]; [reflexivity|]. cbn in H, H0.
  destruct (eqc c "[") eqn:E1; [apply Ascii.eqb_eq in E1; congruence|].
  destruct (eqc c "=") eqn:E2; [apply Ascii.eqb_eq in E2; congruence|]. reflexivity.
Qed.
