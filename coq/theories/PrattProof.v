(* canonical trees are fixpoints of print-then-parse:  can e -> parse (tokens e) = Some e *)
From Coq Require Import List Arith Bool Lia Wf_nat.
Import ListNotations.
From SV Require Import Expr.

Definition follow_lt (k : nat) (rest : list tok) : Prop :=
  match rest with TB c :: _ => prec c < k | TAs :: _ => False | _ => True end.
(* what may follow a tree that is not closed on the right: no type assertion either way; a binary operator
   only if it is not swallowed *)
Definition need (e : expr) : nat := 4 * size e.
Definition needA (e : expr) : nat := 4 * size e - 4.
Definition needP (e : expr) : nat := 4 * size e - 2.

Fixpoint lp (e : expr) : expr := match e with Bin _ l _ => lp l | _ => e end.
Fixpoint tail (e : expr) : list tok := match e with Bin b l r => tail l ++ TB b :: tokens r | _ => [] end.

Lemma tokens_lp_tail e : tokens e = tokens (lp e) ++ tail e.
Proof. induction e as [| |a IH|u a IH|b l IHl r IHr|a IH|a IH]; cbn; rewrite ?app_nil_r; try reflexivity.
  rewrite IHl at 1. rewrite <- app_assoc. reflexivity. Qed.

Lemma prec_lt_inf b : prec b < inf. Proof. destruct b; cbn; unfold inf; lia. Qed.
Lemma q_ge b : prec b <= q b. Proof. unfold q; destruct (rassoc b); lia. Qed.
Lemma q_le b : q b <= 13. Proof. destruct b; cbn; lia. Qed.
Lemma size_pos e : 1 <= size e. Proof. destruct e; cbn; lia. Qed.

Lemma follow_lt_mono k k' rest : k <= k' -> follow_lt k rest -> follow_lt k' rest.
Proof. destruct rest as [|[| | | | |c| |] r]; cbn; auto; lia. Qed.

Lemma can_bin b l r : can (Bin b l r) = true -> can l = true /\ can r = true /\ prec b < rmin l /\ top_ge (q b) r = true.
Proof. cbn. intros H. repeat (apply andb_true_iff in H; destruct H as [H ?]). apply Nat.ltb_lt in H1. auto. Qed.

Lemma follow_lp e rest : can e = true -> follow_lt (rmin e) rest -> follow_lt (rmin (lp e)) (tail e ++ rest).
Proof.
  revert rest. induction e as [| |a IH|u a IH|b l IHl r IHr|a IH|a IH]; intros rest Hc Hf; cbn [lp tail app]; auto.
  apply can_bin in Hc. destruct Hc as (Hl & Hr & Hlt & Hq).
  rewrite <- app_assoc. cbn [app]. apply IHl; auto.
Qed.

Lemma ploop_stop f e p rest : 1 <= f -> follow_lt p rest -> ploop f e p rest = Some (e, rest).
Proof.
  intros Hf H. destruct f as [|f]; [lia|]. cbn. destruct rest as [|[| | | | |c| |] r]; try reflexivity.
  cbn in H. destruct (p <=? prec c) eqn:E; [apply Nat.leb_le in E; lia|reflexivity].
Qed.

Definition top_geP (p : nat) (e : expr) : Prop := top_ge p e = true.
Lemma top_ge_bin p b l r : top_geP p (Bin b l r) <-> p <= prec b.
Proof. unfold top_geP. cbn. rewrite Nat.leb_le. tauto. Qed.

Definition MAIN (e : expr) : Prop :=
  forall p rest f, can e = true -> top_geP p e -> follow_lt (Nat.min p (rmin e)) rest -> need e <= f ->
    pexpr f p (tokens e ++ rest) = Some (e, rest).
Definition ABS (e : expr) : Prop :=
  forall p rest R g, can e = true -> top_geP p e -> follow_lt (rmin e) rest ->
    (forall f, g <= f -> ploop f e p rest = R) ->
    (forall f, g + needA e <= f -> ploop f (lp e) p (tail e ++ rest) = R).
(* a primary: what pprim returns *)
Definition PRIM (e : expr) : Prop :=
  match e with Bin _ _ _ => True | _ =>
  forall rest f, can e = true -> follow_lt (rmin e) rest -> needP e <= f -> pprim f (tokens e ++ rest) = Some (e, rest) end.

Lemma top_ge_left p b l r : can (Bin b l r) = true -> top_geP p (Bin b l r) -> top_geP p l.
Proof.
  intros Hc Hp. apply can_bin in Hc. destruct Hc as (Hl & Hr & Hlt & Hq). apply top_ge_bin in Hp.
  destruct l as [| |a|u a|c l1 l2|a|a]; try reflexivity. apply top_ge_bin.
  cbn in Hlt. pose proof (q_ge c). unfold q in *. destruct (rassoc c); lia.
Qed.

Lemma not_tas_follow k rest : follow_lt k rest -> wrap_assert (Some (Atom, rest)) = Some (Atom, rest).
Proof. destruct rest as [|[| | | | | | |] r]; cbn; auto; contradiction. Qed.
Lemma wrap_id e k rest : follow_lt k rest -> wrap_assert (Some (e, rest)) = Some (e, rest).
Proof. destruct rest as [|[| | | | | | |] r]; cbn; auto; contradiction. Qed.

Lemma all3 : forall n e, size e <= n -> MAIN e /\ ABS e /\ PRIM e.
Proof.
  induction n as [|n IH]; intros e Hn; [pose proof (size_pos e); lia|].
  assert (HABS : ABS e).
  { destruct e as [| |a|u a|b l r|a|a]; unfold ABS; cbn [lp tail app]; intros p rest R g Hc Hp Hf HR f Hfuel;
      try (apply HR; lia).
    cbn in Hn. destruct (IH l ltac:(lia)) as (_ & ABSl & _). destruct (IH r ltac:(lia)) as (MAINr & _ & _).
    pose proof Hc as Hc'. apply can_bin in Hc. destruct Hc as (Hl & Hr & Hlt & Hq).
    rewrite <- app_assoc. cbn [app].
    apply (ABSl p (TB b :: tokens r ++ rest) R (S (g + need r))); auto.
    + eapply top_ge_left; eauto.
    + intros f' Hf'. destruct f' as [|f']; [lia|]. cbn [ploop].
      apply top_ge_bin in Hp. destruct (p <=? prec b) eqn:E; [|apply Nat.leb_gt in E; lia].
      assert (HM : pexpr f' (q b) (tokens r ++ rest) = Some (r, rest)).
      { apply MAINr; auto. lia. }
      rewrite HM. apply HR; lia.
    + unfold need, needA in *. cbn [size] in *. pose proof (size_pos l). pose proof (size_pos r). lia. }
  assert (HMAIN_of_PRIM : PRIM (lp e) -> MAIN e).
  { intros HP. unfold MAIN. intros p rest f Hc Hp Hf Hfuel.
    destruct f as [|f]; [unfold need in Hfuel; pose proof (size_pos e); lia|].
    cbn [pexpr]. rewrite tokens_lp_tail, <- app_assoc.
    assert (Hfl : follow_lt (rmin (lp e)) (tail e ++ rest)).
    { apply follow_lp; auto. eapply follow_lt_mono; [|exact Hf]. lia. }
    assert (Hsz : size (lp e) <= size e). { clear. induction e; cbn; lia. }
    assert (Hcl : can (lp e) = true). { clear - Hc. induction e; try exact Hc. apply can_bin in Hc. apply IHe1. tauto. }
    assert (Hnb : match lp e with Bin _ _ _ => False | _ => True end). { clear. induction e; cbn; auto. }
    assert (Hprim : pprim f (tokens (lp e) ++ tail e ++ rest) = Some (lp e, tail e ++ rest)).
    { unfold PRIM in HP. destruct (lp e) eqn:Elp; try contradiction; apply HP; auto; unfold need, needP in *; lia. }
    rewrite Hprim.
    apply (HABS p rest (Some (e, rest)) 1); auto.
    - eapply follow_lt_mono; [|exact Hf]. lia.
    - intros f' Hf'. apply ploop_stop; auto. eapply follow_lt_mono; [|exact Hf]. lia.
    - unfold need, needA in *. pose proof (size_pos e). lia. }
  (* primaries; for a Bin the statement is trivial *)
  assert (HPRIM : PRIM e).
  { destruct e as [| |a|u a|b l r|a|a]; unfold PRIM; try exact I; intros rest f Hc Hf Hfuel;
      (destruct f as [|f]; [unfold needP in Hfuel; cbn [size] in Hfuel; lia|]).
    - cbn. eapply wrap_id; eauto.
    - cbn. eapply wrap_id; eauto.
    - (* Paren *)
      cbn [tokens app pprim]. rewrite <- app_assoc. cbn in Hn. destruct (IH a ltac:(lia)) as (MAINa & _ & _).
      assert (HM : pexpr f 0 (tokens a ++ [TR] ++ rest) = Some (a, [TR] ++ rest)).
      { apply MAINa.
        - exact Hc.
        - destruct a; reflexivity.
        - cbn. exact I.
        - unfold need, needP in *; cbn [size] in *; lia. }
      rewrite HM. cbn [app]. eapply wrap_id; eauto.
    - (* Un: a primary, then the loop at unary precedence *)
      cbn [tokens app pprim]. cbn in Hn. cbn in Hc. apply andb_true_iff in Hc. destruct Hc as [Hca Hta].
      cbn [rmin] in Hf.
      destruct (IH a ltac:(lia)) as (_ & ABSa & _).
      destruct (IH (lp a) ltac:(assert (size (lp a) <= size a) by (clear; induction a; cbn; lia); lia)) as (_ & _ & PRIMl).
      rewrite tokens_lp_tail, <- app_assoc.
      assert (Hfl : follow_lt (rmin (lp a)) (tail a ++ rest)).
      { apply follow_lp; auto. eapply follow_lt_mono; [|exact Hf]. lia. }
      assert (Hsz : size (lp a) <= size a) by (clear; induction a; cbn; lia).
      assert (Hcl : can (lp a) = true). { clear - Hca. induction a; try exact Hca. apply can_bin in Hca. apply IHa1. tauto. }
      assert (Hprim : pprim f (tokens (lp a) ++ tail a ++ rest) = Some (lp a, tail a ++ rest)).
      { assert (Hnb : match lp a with Bin _ _ _ => False | _ => True end) by (clear; induction a; cbn; auto).
        unfold PRIM in PRIMl. destruct (lp a) eqn:Elp; try contradiction; apply PRIMl; auto; unfold needP in *; cbn [size] in *; lia. }
      rewrite Hprim.
      assert (HL : ploop f (lp a) uprec (tail a ++ rest) = Some (a, rest)).
      { apply (ABSa uprec rest (Some (a, rest)) 1); auto.
        - eapply follow_lt_mono; [|exact Hf]. lia.
        - intros f' Hf'. apply ploop_stop; auto. eapply follow_lt_mono; [|exact Hf]. lia.
        - unfold needP, needA in *. cbn [size] in *. pose proof (size_pos a). lia. }
      rewrite HL. eapply wrap_id; eauto.
    - (* Assert: the closed operand is read by the same call, which then wraps it *)
      cbn in Hc. apply andb_true_iff in Hc. destruct Hc as [Hca Hcl]. cbn in Hn.
      cbn [tokens]. rewrite <- app_assoc. cbn [app].
      destruct a as [| |a'|u a'|b l r|a'|a']; try discriminate.
      + cbn. eapply (f_equal (fun x => x)). destruct rest as [|[| | | | | | |] r0]; cbn in Hf |- *; auto; contradiction.
      + cbn. destruct rest as [|[| | | | | | |] r0]; cbn in Hf |- *; auto; contradiction.
      + cbn [tokens app pprim]. rewrite <- app_assoc.
        destruct (IH a' ltac:(cbn in Hn; lia)) as (MAINa & _ & _).
        assert (HM : pexpr f 0 (tokens a' ++ [TR] ++ TAs :: rest) = Some (a', [TR] ++ TAs :: rest)).
        { apply MAINa.
          - exact Hca.
          - destruct a'; reflexivity.
          - cbn. exact I.
          - unfold need, needP in *; cbn [size] in *; lia. }
        rewrite HM. cbn [app wrap_assert]. destruct rest as [|[| | | | | | |] r0]; cbn in Hf |- *; auto; contradiction.
    - (* IfE *)
      cbn [tokens app pprim]. cbn in Hn. destruct (IH a ltac:(lia)) as (MAINa & _ & _). cbn in Hc. cbn [rmin] in Hf.
      assert (HM : pexpr f 0 (tokens a ++ rest) = Some (a, rest)).
      { apply MAINa.
        - exact Hc.
        - destruct a; reflexivity.
        - cbn [Nat.min]. exact Hf.
        - unfold need, needP in *; cbn [size] in *; lia. }
      rewrite HM. eapply wrap_id; eauto. }
  split; [|split; [exact HABS|exact HPRIM]].
  apply HMAIN_of_PRIM.
  destruct e as [| |a|u a|b l r|a|a]; try exact HPRIM.
  cbn [lp]. cbn in Hn.
  destruct (IH (lp l) ltac:(assert (size (lp l) <= size l) by (clear; induction l; cbn; lia); lia)) as (_ & _ & P). exact P.
Qed.

Theorem pratt_roundtrip e : can e = true -> parse (tokens e) = Some e.
Proof.
  intros Hc. unfold parse. destruct (all3 (size e) e (le_n _)) as (M & _ & _).
  specialize (M 0 [] (4 * length (tokens e) + 4) Hc). rewrite app_nil_r in M. rewrite M; auto.
  - destruct e; reflexivity.
  - cbn. auto.
  - unfold need. assert (size e <= length (tokens e)).
    { clear. induction e; cbn; rewrite ?app_length; cbn; try lia. }
    lia.
Qed.
