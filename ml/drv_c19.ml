(* C19 helper: given the programs that touch the exit code (one per line: `P load store:1 ...`), run the extracted
   exhaustive interleaving search Sched.find_bad_schedule; prints the op-name order of a schedule on which the final
   status is not the maximum reported, or NOBAD.  Also prints whether each program is monotone. *)
open Util
open Sched
let instr_of w = match SS.split_on_char ':' w with
  | ["load"] -> Load
  | ["store"; v] -> Store (int_to_nat (int_of_string v))
  | ["fetch_max"; v] -> FetchMax (int_to_nat (int_of_string v))
  | ["compare_exchange"; a; b] -> Cas (int_to_nat (int_of_string a), int_to_nat (int_of_string b))
  | _ -> failwith ("instr " ^ w)
let name_of = function
  | Load -> "load" | Store v -> Printf.sprintf "store:%d" (nat_to_int v) | FetchMax v -> Printf.sprintf "fetch_max:%d" (nat_to_int v)
  | Cas (a, b) -> Printf.sprintf "compare_exchange:%d:%d" (nat_to_int a) (nat_to_int b)
let () =
  let progs = ref [] in
  iter_lines (fun l -> match words l with "P" :: ws -> progs := L.map instr_of ws :: !progs | _ -> ());
  let ps = L.rev !progs in
  L.iteri (fun i p -> Printf.printf "PROG %d monotone=%b %s\n" i (mono_prog p) (SS.concat " " (L.map name_of p))) ps;
  Printf.printf "PENDING %d\n" (nat_to_int (pending (threads_of ps)));
  match find_bad_schedule ps with
  | None -> print_endline "NOBAD"
  | Some sched ->
    (* replay the schedule to name the accesses in order *)
    let rest = Array.of_list ps in
    let names = L.filter_map (fun i -> let i = nat_to_int i in
      match rest.(i) with [] -> None | x :: r -> rest.(i) <- r; Some (name_of x)) sched in
    let (cell, _) = run sched (Datatypes.O, threads_of ps) in
    Printf.printf "BADSCHED final=%d %s\n" (nat_to_int cell) (SS.concat "," names)
