"""C17 - stdin mode writes the formatted text to stdout and nothing else (DESIGN 5/C17)."""
import hashlib, random
from .cli import *

def sha(b): return hashlib.sha256(b).hexdigest()[:16]
def tree_state(d):
    out = {}
    for root, _, files in os.walk(d):
        for f in files:
            p = os.path.join(root, f); st = os.stat(p)
            out[os.path.relpath(p, d)] = (sha(open(p, "rb").read()), st.st_mtime_ns)
    return out

def inputs(rng, tier):
    base = [b"", b"\n", b"local x = 1\n", b"local   x=1", b"local x = 1\r\nlocal  y = 2\r\n", b"local = = 1\n", b"x = = 1", b"-- only a comment", b"return 'a' .. \"b\"\n",
            b"\xef\xbb\xbflocal x = 1\n", b"local t = {\n1,2,\n3}\n", b"#!/usr/bin/lua\nprint( 1 )\n", b"f 'x'\n", b"local s = [[\r\nlong\r\n]]\n"]
    big = ("local v%d = { %s }\n" % (0, ", ".join(str(i) for i in range(40)))) * (7000 if tier == "quick" else 60000)
    base.append(big.encode())                               # several megabytes
    for f in corpus_files(limit=25 if tier == "quick" else 170):
        base.append(open(f, "rb").read())
    return base

def run(res):
    proof = proof_stage(res, "C17", extra_obligations=1)
    build_harness(); build_ml(); build_cli()
    rng = random.Random(res.seed * 977 + 17)
    ins = inputs(rng, res.tier)
    combos = []
    for i, b in enumerate(ins):
        opts = [dict(), dict(check="standard"), dict(filepath="sub/name.lua"), dict(filepath="ign/skip.lua", respect=True), dict(filepath="ign/skip.lua"),
                dict(check="json"), dict(verify=True), dict(cfg=True), dict(filepath="ign/skip.lua", respect=True, check="standard"), dict(filepath="sub/name.lua", subcfg=True), dict(filepath="./sub/other.lua", subcfg=True, check="standard"),
                dict(ecfg="cli"), dict(ecfg="only"), dict(ecfg="cli", filepath="sub/name.lua")]
        pick = opts if (len(b) < 4000 or res.tier != "quick") else opts[:2]
        if len(b) > 10**6: pick = [dict(), dict(check="summary")]
        for o in pick: combos.append((i, b, o))
    # library verdicts (default configuration, or the cwd configuration for cfg=True)
    feed = []
    for k, (i, b, o) in enumerate(combos):
        try: b.decode("utf-8")
        except UnicodeDecodeError: continue
        # an .editorconfig in the working directory says two spaces; command line options (three spaces) win over it
        cfgw = "indent_type=Spaces;indent_width=3" if (o.get("cfg") or o.get("subcfg") or o.get("ecfg") == "cli") else "indent_type=Spaces;indent_width=2" if o.get("ecfg") == "only" else ("__verify=1" if o.get("verify") else "-")
        feed.append("k%d %s %s" % (k, cfgw, hexs(b)))
    lib = {}
    for l in sh([SVH, "fmt"], inp="\n".join(feed) + "\n", timeout=900).stdout.splitlines():
        w = l.split(); lib[w[0]] = (bytes.fromhex(w[2][1:]) if len(w) > 2 and w[1] == "ok" else None)
    def one(kc):
        k, (i, b, o) = kc
        d = scratch("c17")
        try:
            os.makedirs(os.path.join(d, "sub")); os.makedirs(os.path.join(d, "ign"))
            open(os.path.join(d, ".styluaignore"), "w").write("ign/\n")
            open(os.path.join(d, "ign", "skip.lua"), "w").write("local   keep  =  1\n")
            open(os.path.join(d, "sub", "name.lua"), "w").write("local   keep  =  1\n")
            if o.get("cfg"): open(os.path.join(d, "stylua.toml"), "w").write('indent_type = "Spaces"\nindent_width = 3\n')
            if o.get("subcfg"): open(os.path.join(d, "sub", "stylua.toml"), "w").write('indent_type = "Spaces"\nindent_width = 3\n')
            if o.get("ecfg"): open(os.path.join(d, ".editorconfig"), "w").write("root = true\n[*.lua]\nindent_style = space\nindent_size = 2\n")
            before = tree_state(d)
            args = [] if o.get("ecfg") else ["--no-editorconfig"]
            if o.get("ecfg") == "cli": args += ["--indent-type", "Spaces", "--indent-width", "3"]
            if o.get("check"): args += ["--check", "--output-format=" + o["check"], "--color=never"]
            if o.get("filepath"): args += ["--stdin-filepath", o["filepath"]]
            if o.get("respect"): args += ["--respect-ignores"]
            if o.get("verify"): args += ["--verify"]
            code, out, err = stylua(args + ["-"], d, stdin=b, timeout=600)
            after = tree_state(d)
            want = lib.get("k%d" % k, None)
            skip = bool(o.get("respect") and o.get("filepath", "").startswith("ign/"))
            libs = "parsefail" if want is None else "ok:" + sha(want)
            isdiff = out.startswith(b"Diff in") or out.startswith(b"{") or out.startswith(b"--- old") or b"Checking formatting" in out
            return "RUN k%d %d %d %s %s %s %d %d %d" % (k, 1 if skip else 0, 1 if o.get("check") else 0, sha(b), libs, sha(out), code, 0 if before == after else 1, 1 if isdiff else 0)
        finally:
            cleanup(d)
    recs = pmap(one, [kc for kc in enumerate(combos) if ("k%d" % kc[0]) in lib])
    r = subprocess.run([driver("drv_c17")], input="\n".join(recs) + "\n", stdout=subprocess.PIPE, stderr=subprocess.PIPE, text=True)
    tot, bads = {}, []
    for l in r.stdout.splitlines():
        if l.startswith("SUMMARY"): tot = {k: int(v) for k, v in parse_kv(l).items()}
        elif l.startswith("BAD"): bads.append(l)
    # fixed regression case (repair D49): a --stdin-filepath without a parent directory under --respect-ignores ends with an error, not a panic
    d0 = scratch("c17reg")
    try:
        code, out, err = stylua(["--no-editorconfig", "--respect-ignores", "--stdin-filepath", "/", "-"], d0, stdin=b"x=1")
        if code not in (0, 2) or b"panicked" in err or (code == 2 and out):
            bads.append("BAD stdin-filepath-without-parent:status-%d reg-root" % code)
    finally:
        cleanup(d0)
    tie_ok = r.returncode == 0 and not bads and tot.get("runs") == len(recs) and len(recs) > 0
    if proof["ok"] and tie_ok: res.coverage["discharged"] = proof["discharged"] + 1
    sizes = sorted(len(b) for b in ins)
    res.coverage.update(
        evaluations=tot.get("runs", 0), distinct_nontrivial=tot.get("nontrivial", 0),
        rule="inputs: 14 hand cases (empty, newline only, no trailing newline, CRLF, two parse errors, comment only, BOM, shebang, call sugar, CRLF long string), one multi-megabyte program (%d bytes), %d repository test inputs; "
             "options: none, --check (standard/json/summary), --stdin-filepath (plain and ignored), --respect-ignores, --verify, a stylua.toml in the working directory, a stylua.toml in the directory --stdin-filepath points into, an .editorconfig in the working directory alone and against command line options (which win); the working directory holds an ignore file and two unformatted files "
             "whose bytes and mtimes are compared before/after. non-trivial = the library changes the text or rejects it" % (sizes[-1], len(ins) - 15),
        samples=recs[:3] + recs[-2:], input_distribution=dict(tot, input_sizes=dict(min=sizes[0], median=sizes[len(sizes)//2], max=sizes[-1])),
        correspondence="CliModel.stdin_run (extracted) gives stdout (as hash of the library's formatted text / the input passed through / nothing) and status; compared with the binary; the working directory must be unchanged")
    res.assumptions = ["pipe buffering, stdout locking and partial writes are runtime behaviour the model cannot exhibit; a multi-megabyte input is run to exercise them once",
                       "in check mode the diff printed on stdout is judged by C18; here only its presence and the status are compared"]
    if not proof["ok"] or not tie_ok:
        if bads:
            seen = set()
            for l in bads:
                w = l.split()
                if w[1] in seen or len(seen) >= 4: continue
                seen.add(w[1])
                if w[2] == "reg-root":
                    res.violation(dict(kind="input", check=w[1], cli=dict(stdin_hex=hexs(b"x=1"), options=dict(filepath="/", respect=True)), expected="an error message and status 2 (or the formatted text and status 0), never a panic"))
                    continue
                k = int(w[2][1:]); i, b, o = combos[k]
                res.violation(dict(kind="input", check=w[1], cli=dict(stdin_hex=hexs(b) if len(b) < 20000 else "(input #%d of the generator, %d bytes)" % (i, len(b)), options=o), expected="CliModel.stdin_run (C17 theorems)"))
        else:
            res.violation(dict(kind="obligation", obligation=dict(theorem=proof.get("broken_at", "C17 correspondence"), log=proof["log"][-2000:] + r.stderr[-500:])), no_input=True)
    return res

def replay(payload):
    from .core import Result
    r = Result("C17", "quick", 0); run(r); return r.finish()
