//! C11 observations: every call and every function definition of a program, in source order.
//!   call:        C<form P|S|T><kind of the single argument S|T|O><obscure 0|1><comments 0|1><gap 0|1|2>
//!   definition:  D<generics 0|1><gap 0|1|2>
//! form: `f(..)`, `f"s"`, `f{t}`; kind: the call has exactly one argument and it is a string / a table (looking through
//! comment-free redundant parentheses: K/U instead of S/T when the string / table is itself parenthesised); obscure: an
//! index or a method call follows; comments: a comment sits on or inside the call's parentheses; gap: what separates the
//! previous token from the arguments (0 nothing, 1 one blank, 3 a line break with indentation - the call hangs, 2 anything else).
use full_moon::ast::*;
use full_moon::node::Node;
use full_moon::tokenizer::{TokenReference, TokenType};
use full_moon::visitors::Visitor;

fn has_comment<'a>(it: impl Iterator<Item = &'a full_moon::tokenizer::Token>) -> bool {
    it.into_iter().any(|t| matches!(t.token_type(), TokenType::SingleLineComment { .. } | TokenType::MultiLineComment { .. }))
}
fn tok_comments(t: &TokenReference) -> bool { has_comment(t.leading_trivia()) || has_comment(t.trailing_trivia()) }

struct Cv { toks: Vec<(usize, usize, String, String)>, items: Vec<(usize, String)> }

impl Cv {
    /// whitespace between the token that ends right before `start` and the token starting at `start`
    fn gap(&self, start: usize) -> char {
        let i = match self.toks.binary_search_by_key(&start, |t| t.0) { Ok(i) => i, Err(_) => return '2' };
        if i == 0 { return '2'; }
        let s = format!("{}{}", self.toks[i - 1].3, self.toks[i].2);
        if s.is_empty() { '0' } else if s == " " { '1' } else if s.contains('\n') && s.trim().is_empty() { '3' } else { '2' }
    }
    fn suffixes<'a>(&mut self, sufs: impl Iterator<Item = &'a Suffix>) {
        let v: Vec<&Suffix> = sufs.collect();
        for (i, s) in v.iter().enumerate() {
            let args = match s { Suffix::Call(Call::AnonymousCall(a)) => a, Suffix::Call(Call::MethodCall(m)) => m.args(), _ => continue };
            let obscure = matches!(v.get(i + 1), Some(Suffix::Index(_)) | Some(Suffix::Call(Call::MethodCall(_))));
            let (form, kind, comments) = match args {
                FunctionArgs::Parentheses { parentheses, arguments } => {
                    let (a, b) = parentheses.tokens();
                    let mut k = 'O';
                    if arguments.len() == 1 {
                        let mut e = arguments.iter().next().unwrap();
                        let mut wrapped = false;
                        loop {
                            match e {
                                Expression::Parentheses { contained, expression } if !tok_comments(contained.tokens().0) && !tok_comments(contained.tokens().1) => { e = expression; wrapped = true; }
                                _ => break,
                            }
                        }
                        k = match e { Expression::String(_) => if wrapped { 'K' } else { 'S' }, Expression::TableConstructor(_) => if wrapped { 'U' } else { 'T' }, _ => 'O' };
                    }
                    ('P', k, tok_comments(a) || tok_comments(b))
                }
                FunctionArgs::String(_) => ('S', 'S', false),
                FunctionArgs::TableConstructor(_) => ('T', 'T', false),
                _ => continue,
            };
            let start = args.tokens().map(|t| t.token().start_position().bytes()).min().unwrap_or(0);
            let g = self.gap(start);
            self.items.push((start, format!("C{}{}{}{}{}", form, kind, obscure as u8, comments as u8, g)));
        }
    }
}

impl Visitor for Cv {
    fn visit_function_call(&mut self, n: &FunctionCall) { self.suffixes(n.suffixes()); }
    fn visit_var_expression(&mut self, n: &VarExpression) { self.suffixes(n.suffixes()); }
    fn visit_function_body(&mut self, n: &FunctionBody) {
        let start = n.parameters_parentheses().tokens().0.token().start_position().bytes();
        let g = self.gap(start);
        self.items.push((start, format!("D{}{}", n.generics().is_some() as u8, g)));
    }
}

pub fn observe(ast: &Ast) -> String {
    let mut toks: Vec<(usize, usize, String, String)> = ast.tokens().map(|t| {
        (t.token().start_position().bytes(), t.token().end_position().bytes(),
         t.leading_trivia().map(|x| x.to_string()).collect::<String>(), t.trailing_trivia().map(|x| x.to_string()).collect::<String>())
    }).collect();
    toks.sort_by_key(|t| t.0);
    let mut v = Cv { toks, items: vec![] };
    v.visit_ast(ast);
    v.items.sort_by_key(|i| i.0);
    let l: Vec<String> = v.items.into_iter().map(|i| i.1).collect();
    if l.is_empty() { "-".to_string() } else { l.join(",") }
}
