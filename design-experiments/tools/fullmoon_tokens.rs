use full_moon::tokenizer::{Lexer, LexerResult, TokenType, StringLiteralQuoteType};
use full_moon::LuaVersion;
fn hex(s: &str) -> String { s.bytes().map(|b| format!("{:02x}", b)).collect() }
fn main() {
    let args: Vec<String> = std::env::args().collect();
    let ver = match args[1].as_str() { "51" => LuaVersion::lua51(), "52" => LuaVersion::lua52(), "53" => LuaVersion::lua53(), "54" => LuaVersion::lua54(), "luau" => LuaVersion::luau(), "jit" => LuaVersion::luajit(), _ => LuaVersion::new() };
    let mut cases: Vec<(String, Option<String>)> = vec![];
    if args[2] == "--hexlines" {
        for (i, l) in std::fs::read_to_string(&args[3]).unwrap().lines().enumerate() {
            let bytes: Vec<u8> = (0..l.len()/2).map(|k| u8::from_str_radix(&l[2*k..2*k+2], 16).unwrap()).collect();
            cases.push((format!("case{}", i), String::from_utf8(bytes).ok()));
        }
    } else { for path in &args[2..] { cases.push((path.clone(), std::fs::read_to_string(path).ok())); } }
    for (path, src) in &cases {
        println!("FILE {}", path);
        let src = match src { Some(s) => s.clone(), None => { println!("SKIP"); continue } };
        if src.contains('`') { println!("SKIP"); continue; }
        match Lexer::new(&src, ver).collect() {
            LexerResult::Ok(tokens) => for t in tokens { match t.token_type() {
                TokenType::Eof => {}
                TokenType::Identifier { identifier } => println!("Ident {}", hex(identifier)),
                TokenType::Symbol { symbol } => println!("Sym {}", hex(&symbol.to_string())),
                TokenType::Number { text } => println!("Num {}", hex(text)),
                TokenType::StringLiteral { literal, multi_line_depth, quote_type } => println!("Str {} {} {}", match quote_type { StringLiteralQuoteType::Single => "s", StringLiteralQuoteType::Double => "d", StringLiteralQuoteType::Brackets => "b", _ => "?" }, multi_line_depth, hex(literal)),
                TokenType::Whitespace { characters } => println!("Ws {}", hex(characters)),
                TokenType::SingleLineComment { comment } => println!("LCom {}", hex(comment)),
                TokenType::MultiLineComment { blocks, comment } => println!("BCom {} {}", blocks, hex(comment)),
                TokenType::Shebang { line } => println!("Shebang {}", hex(line)),
                _ => println!("Other"),
            } },
            _ => println!("ERROR"),
        }
    }
}
