(* C08 / C09 judge: byte comparison of the slices the harness cut out of input, output and whole-file output.
   NODE <case> <path> <kind> <class> <expected hex> <observed hex | MISSING>
     class skip            : an ignored statement / table field: output slice = input slice
     class outside         : a statement not wholly inside the range (and containing no in-range statement): unchanged
     class inrange         : a statement wholly inside the range: equal to its text in the whole-file run
     class inrange-anon    : same, but inside an anonymous function that sits in an expression of an out-of-range statement (known class)
     class inrange-collapsed-parent: in range, differs from the whole-file run only because that run collapses its out-of-range parent (known class)
     class outside-endquirk: the range ends between what full_moon reports as the statement's end and its closing bracket (known class)
   EDGE <case> <prefix ok> <suffix ok> <affected statements>;  COUNT <case> <stmts in> <stmts out> <ignored> *)
open Util
let cases = ref 0 and nodes = Hashtbl.create 8 and bad = ref 0 and known = Hashtbl.create 4 and quirk_cases = Hashtbl.create 8 and samples = ref 0
let bump t k = Hashtbl.replace t k (1 + try Hashtbl.find t k with Not_found -> 0)
let report k id = incr bad; Printf.printf "BAD %s %s\n" k id
let edges = ref []
let handle line = match words line with
  | "CASE" :: id :: _ :: _ :: _ :: _ :: status :: _ -> incr cases; if status <> "ok" then report ("format-" ^ status) id
  | ["NODE"; id; path; _kind; cls; exp; obs] ->
    bump nodes cls;
    if exp <> obs then begin
      match cls with
      | "inrange-anon" -> bump known "anonymous-function"
      | "outside-endquirk" -> bump known "end-position"; Hashtbl.replace quirk_cases id ()
      | "inrange-collapsed-parent" -> bump known "collapsed-parent"
      | _ -> report (cls ^ ":" ^ path) id
    end else if !samples < 5 && cls <> "outside" && SS.length exp > 20 then (incr samples; Printf.printf "SAMPLE %s %s %s %s\n" id path cls exp)
  | ["EDGE"; id; p; s; _] -> edges := (id, p, s) :: !edges
  | ["COUNT"; id; a; b; _] -> if a <> b then report "statement-count" id
  | "STATS" :: _ -> print_endline line
  | [] -> ()
  | _ -> report "unreadable-record" "?"
let () =
  iter_lines handle;
  L.iter (fun (id, p, s) -> if (p <> "1" || s <> "1") && not (Hashtbl.mem quirk_cases id) then report ("bytes-outside-the-affected-statements-changed:" ^ (if p <> "1" then "before" else "after")) id) !edges;
  Printf.printf "SUMMARY cases=%d bad=%d %s %s\n" !cases !bad
    (SS.concat " " (Hashtbl.fold (fun k v acc -> ("nodes_" ^ k ^ "=" ^ string_of_int v) :: acc) nodes []))
    (SS.concat " " (Hashtbl.fold (fun k v acc -> ("known_" ^ k ^ "=" ^ string_of_int v) :: acc) known []))
