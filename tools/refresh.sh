#!/bin/sh
# re-runs the quick tier of every property on the (clean) tree so that the committed evidence files come from clean runs
git -C /repo status --short | grep -q . && { echo "/repo has uncommitted changes"; exit 2; }
rc=0
for p in C01 C02 C03 C04 C05 C06 C07 C08 C09 C10 C11 C12 C13 C14 C15 C16 C17 C18 C19 C20; do
  out=$(./sv check $p 2>&1 | grep -v "^KNOWN-FINDING" | tail -n 1 | cut -c1-200); echo "$out"
  case "$out" in *VIOL*) rc=1;; esac
done
exit $rc
