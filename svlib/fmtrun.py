"""Shared validation machinery of the whole-formatter properties (C01 C02 C03 C06 C10 C11): programs through
`svh run`, judged by ml/drv_fmt (functions extracted from Coq).
Region A: seed-driven generation where the property has been established clean (theorem on the model + clean soak).
Region B: a fixed, seed-independent regression set (generator in `wild` mode with a constant seed, the repository's
test inputs) whose known failures are listed per input in baselines/<prop>.json; any other failure is a violation."""
import hashlib
from .core import *

FIXED_SEED = 20260930
CORPUS_DIRS = ["tests/inputs", "tests/inputs-luau", "tests/inputs-lua52", "tests/inputs-lua53", "tests/inputs-lua54", "tests/inputs-ignore", "tests/inputs-sort-requires"]

def run_region(flags, judge, n, seed, mode, dirs=(), cfgs=3):
    def cmds(i, k):
        h = [SVH, "run", "--seed", str(seed), "--n", str(n), "--mode", mode, "--cfgs", str(cfgs), "--shard", "%d/%d" % (i, k)] + list(flags)
        for d in dirs: h += ["--dir", os.path.join(REPO, d)]
        return h, [driver("drv_fmt"), judge]
    lines, errs = run_pipeline_sharded(cmds)
    tot, stats, bads, samples, outside = {}, {}, [], [], []
    for l in lines:
        if l.startswith("SUMMARY"):
            for k, v in parse_kv(l).items(): tot[k] = tot.get(k, 0) + int(v)
        elif l.startswith("STATS"):
            for k, v in parse_kv(l).items(): stats[k] = stats.get(k, 0) + int(v)
        elif l.startswith("BAD"): bads.append(l.split()[1:3])
        elif l.startswith("SAMPLE") and len(samples) < 6: samples.append(l[7:])
        elif l.startswith("OUTSIDE") and len(outside) < 5: outside.append(l[8:])
    ok = not errs and tot.get("cases", 0) > 0 and tot.get("cases") == stats.get("cases")
    return dict(ok=ok, errs=errs, tot=tot, stats=stats, bads=bads, samples=samples, outside=outside)

def case_source(case_id, seed, mode, flags):
    """re-generates one case: returns the CASE record fields"""
    base = case_id.rsplit(".", 1)[0]
    if base.startswith("g"):
        k = int(base[1:])
        h = [SVH, "run", "--seed", str(seed), "--n", str(k + 1), "--mode", mode, "--cfgs", "3", "--shard", "%d/%d" % (k % 1000003, 1000003)] + list(flags)
    else:
        d, f = base[2:].split("/", 1)
        for cd in CORPUS_DIRS:
            if cd.rsplit("/", 1)[-1] == d:
                return dict(file=os.path.join(REPO, cd, f), config_index=case_id.rsplit(".", 1)[1], note="configuration %s of this file under fixed seed %d" % (case_id.rsplit(".", 1)[1], seed))
        return None
    out = sh(h, check=False).stdout
    for l in out.splitlines():
        w = l.split()
        if w and w[0] == "CASE" and w[1] == case_id:
            return dict(syntax=w[2], config=w[3], range=w[4], source_hex=w[5], status=w[6], observed=" ".join(w[7:])[:3000])
    return None

def baseline_path(prop): return os.path.join(ROOT, "baselines", prop + ".json")
def load_baseline(prop):
    p = baseline_path(prop)
    return json.load(open(p)) if os.path.exists(p) else {"cases": {}}

def validate(res, prop, judge, flags_a, flags_b, mode_a="plain", mode_b="wild", region_a=True, region_b=True, dirs=None):
    """runs both regions; records coverage; returns (tie_ok, violations-as-payload-list)"""
    n_a = 3000 if res.tier == "quick" else 60000
    n_b = 1500 if res.tier == "quick" else 6000
    # a property whose failures are known findings identified per input (C06) has no seeded region: a fresh seed would find
    # fresh instances of the same findings, which no committed list can name
    a = run_region(flags_a, judge, n_a, res.seed, mode_a) if region_a else dict(tot={}, stats={}, bads=[], ok=True, errs=[], samples=[])
    if region_a and mode_a.startswith("plain"):
        # second half of region A: comments also before and after the commas of expression lists and argument lists
        mode_a2 = mode_a.replace("plain", "lists")
        a2 = run_region(flags_a, judge, n_a // 2, res.seed + 1000003, mode_a2)
        a2["bads"] = [(k, "L" + c) for k, c in a2["bads"]]
        for k in ("cases", "nontrivial", "outside_model", "token_lists_compared", "trivia_calls_replayed", "comments_in_replayed_calls", "calls_judged", "calls_exempt_for_comments", "definitions_judged", "bad"):
            a["tot"][k] = a["tot"].get(k, 0) + a2["tot"].get(k, 0)
        for k, v in a2["stats"].items(): a["stats"][k] = a["stats"].get(k, 0) + v
        a["bads"] += a2["bads"]; a["ok"] = a["ok"] and a2["ok"]; a["errs"] += a2["errs"]; a["samples"] += a2["samples"][:2]
    payloads = []
    for kind, cid in a["bads"][:200]:
        if len(payloads) >= 3: break
        if cid.startswith("L"):
            m, sd, cid2 = mode_a.replace("plain", "lists"), res.seed + 1000003, cid[1:]
        else:
            m, sd, cid2 = mode_a, res.seed, cid
        src = case_source(cid2, sd, m, flags_a) or {}
        payloads.append(dict(kind="input", check=kind, case=cid2, region="A (seeded, %s)" % m, seed=sd, mode=m, flags=list(flags_a), **src))
    cov = dict(region_a=dict(a["tot"], **a["stats"]), samples=a["samples"])
    known_n = 0
    if region_b:
        b = run_region(flags_b, judge, n_b, FIXED_SEED, mode_b, dirs=dirs or CORPUS_DIRS)
        base = load_baseline(prop)["cases"]
        new = []
        for kind, cid in b["bads"]:
            if kind in base.get(cid, []): known_n += 1
            else: new.append((kind, cid))
        for kind, cid in new[:3]:
            src = case_source(cid, FIXED_SEED, mode_b, flags_b) or {}
            payloads.append(dict(kind="input", check=kind, case=cid, region="B (fixed regression set, not in baselines/%s.json)" % prop, seed=FIXED_SEED, mode=mode_b, flags=list(flags_b), **src))
        cov["region_b"] = dict(b["tot"], **b["stats"], baseline_listed=len(base), baseline_reproduced=known_n, new_failures=len(new))
        if not b["ok"]: payloads.append(dict(kind="obligation", obligation=dict(correspondence="region B run", log="; ".join(b["errs"]))))
        if known_n:
            for e in known_findings(prop):
                if e.get("id") == "F-%s-baseline" % prop:
                    res.known.append("%s (%d of the %d listed inputs reproduced)" % (e["what"], known_n, len(base)))
    if not a["ok"]: payloads.append(dict(kind="obligation", obligation=dict(correspondence="region A run", log="; ".join(a["errs"]))))
    res.coverage.update(
        evaluations=a["tot"].get("cases", 0) + cov.get("region_b", {}).get("cases", 0),
        distinct_nontrivial=a["tot"].get("nontrivial", 0) + cov.get("region_b", {}).get("nontrivial", 0),
        samples=a["samples"] or ["-"], input_distribution=cov)
    return not payloads, payloads

def make_baseline(prop, judge, flags_b, mode_b="wild", tier_n=6000, dirs=None):
    """maintenance command (./sv baseline): lists today's failures of the fixed regression set; never run by a check"""
    cases = {}
    for n in (1500, tier_n):
        b = run_region(flags_b, judge, n, FIXED_SEED, mode_b, dirs=dirs or CORPUS_DIRS)
        for kind, cid in b["bads"]:
            if kind not in cases.setdefault(cid, []): cases[cid].append(kind)
    os.makedirs(os.path.join(ROOT, "baselines"), exist_ok=True)
    json.dump({"property": prop, "fixed_seed": FIXED_SEED, "mode": mode_b, "flags": list(flags_b), "cases": dict(sorted(cases.items()))}, open(baseline_path(prop), "w"), indent=0)
    return len(cases)
