From Coq Require Import List Bool Arith Lia.
Import ListNotations.

(* C18, unified format.  A diff is a stream of tagged lines; a unified diff shows every changed line and ANY subset
   of the unchanged ones (the context), the rest being skipped by the hunk headers.  Whatever the context radius
   and however hunks are grouped, applying it to the old file gives the new file. *)
Section U.
Variable line : Type.
Inductive tag := Ctx | Del | Add.
Definition stream := list (tag * line).
Definition olds (s : stream) : list line := flat_map (fun '(t, l) => match t with Add => [] | _ => [l] end) s.
Definition news (s : stream) : list line := flat_map (fun '(t, l) => match t with Del => [] | _ => [l] end) s.

(* what the patch text contains: shown lines, and gaps (k unchanged old lines not printed) *)
Inductive vitem := Gap (k : nat) | Show (t : tag) (l : line).
(* [mask] says, for each unchanged line, whether it is printed as context; changed lines are always printed *)
Fixpoint view (mask : list bool) (s : stream) : list vitem :=
  match s with
  | [] => []
  | (Ctx, l) :: r => match mask with
                     | false :: m => Gap 1 :: view m r
                     | true :: m => Show Ctx l :: view m r
                     | [] => Show Ctx l :: view [] r
                     end
  | (t, l) :: r => Show t l :: view mask r
  end.

(* the patcher: walks the old file with a cursor *)
Fixpoint apply (v : list vitem) (old : list line) : list line :=
  match v with
  | [] => old
  | Gap k :: r => firstn k old ++ apply r (skipn k old)
  | Show Ctx l :: r => l :: apply r (tl old)
  | Show Del _ :: r => apply r (tl old)
  | Show Add l :: r => l :: apply r old
  end.

Theorem unified_reconstructs : forall s mask, apply (view mask s) (olds s) = news s.
Proof.
  induction s as [|[t l] r IH]; intros mask; [reflexivity|].
  destruct t; cbn [view olds news flat_map app].
  - destruct mask as [|[|] m]; cbn [apply firstn skipn tl app]; fold (olds r); fold (news r); rewrite IH; reflexivity.
  - cbn [apply tl]. fold (olds r); fold (news r). apply IH.
  - cbn [apply]. fold (olds r); fold (news r). rewrite IH. reflexivity.
Qed.

(* merging adjacent gaps (what hunk headers really encode) does not matter *)
Fixpoint merge (v : list vitem) : list vitem :=
  match v with
  | Gap a :: r => match merge r with Gap b :: r' => Gap (a + b) :: r' | r' => Gap a :: r' end
  | x :: r => x :: merge r
  | [] => []
  end.
Lemma firstn_add {A} a b (l : list A) : firstn (a + b) l = firstn a l ++ firstn b (skipn a l).
Proof. revert l; induction a as [|a IH]; intros l; cbn; auto. destruct l; cbn; [rewrite firstn_nil; reflexivity|]. rewrite IH. reflexivity. Qed.
Lemma skipn_add {A} a b (l : list A) : skipn (a + b) l = skipn b (skipn a l).
Proof. revert l; induction a as [|a IH]; intros l; cbn; auto. destruct l; cbn; [rewrite skipn_nil; reflexivity|]. apply IH. Qed.
Theorem merge_same : forall v old, apply (merge v) old = apply v old.
Proof.
  induction v as [|x r IH]; intros old; [reflexivity|]. destruct x as [a|t l].
  - cbn [merge]. destruct (merge r) as [|[b|t l] r'] eqn:E; cbn [apply]; rewrite <- IH; cbn [apply]; auto.
    rewrite firstn_add, skipn_add, <- app_assoc. reflexivity.
  - destruct t; cbn [merge apply]; rewrite IH; reflexivity.
Qed.
End U.
Print Assumptions unified_reconstructs.
Print Assumptions merge_same.
