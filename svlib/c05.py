"""C05 - parentheses are dropped only where they cannot matter (DESIGN 5/C05)."""
from .core import *

BOUNDS = {"quick": dict(depth=2, random=30000, all_ops=False), "thorough": dict(depth=2, random=600000, all_ops=True)}

def run(res):
    b = BOUNDS[res.tier]
    t_ok, t_log = rs2v("check_excess_parentheses")
    if t_ok: t_ok, t_log = rs2v("double_minus_guard")     # the guard that puts parentheses back (parenthesise_double_minus)
    proof = proof_stage(res, "C05", extra_obligations=2) if t_ok else dict(ok=False, discharged=0, theorems=[], log=t_log, broken_at="rs2v: " + t_log.strip()[-300:])
    if not t_ok:
        res.coverage.update(obligations=2, discharged=0, checker_cmd="rs2v /repo coq/gen", trusted_base=list(TRUSTED_BASE))
    build_harness(); build_ml()
    def cmds(i, n):
        h = [SVH, "c05", "--depth", str(b["depth"]), "--random", str(b["random"]), "--seed", str(res.seed), "--shard", "%d/%d" % (i, n)]
        if b["all_ops"]: h.append("--all-ops")
        return h, [driver("drv_c05")]
    lines, errs = run_pipeline_sharded(cmds)
    tot, stats, bads, samples = {}, {}, [], []
    for l in lines:
        if l.startswith("SUMMARY"):
            for k, v in parse_kv(l).items(): tot[k] = tot.get(k, 0) + int(v)
        elif l.startswith("STATS"):
            for k, v in parse_kv(l).items(): stats[k] = stats.get(k, 0) + int(v)
        elif l.startswith("BAD"): bads.append(l)
        elif l.startswith("SAMPLE") and len(samples) < 8: samples.append(l[7:])
    if tot.get("noncanonical_inputs", 0) * 200 > max(1, tot.get("records", 0)):
        bads.append("BAD parser-model-disagrees-with-full_moon-on-%d-inputs E - - - 0 # -" % tot["noncanonical_inputs"])
    tie_ok = not errs and not bads and tot.get("records", 0) > 0 and tot.get("records") == stats.get("records")
    if t_ok and proof["ok"]:
        res.coverage["discharged"] = proof["discharged"] + 1 + (1 if tie_ok else 0)
    res.coverage.update(
        evaluations=tot.get("records", 0), distinct_nontrivial=tot.get("distinct", 0),
        rule="every operator tree of depth <= %d over {atom, call, parentheses, %s} for Lua54 and over {.., ::T, if-expression} for Luau, plus %d seeded random trees of depth <= 4 over all 21 binary and 4 unary operators; "
             "each placed in 13 expression contexts (local, assignment, return, if/while/until condition, call and method argument, positional/named/computed table field, index, prefix) "
             "and formatted at column widths 400, 60, 24, 1 (fits / hangs at top level / hangs at every level); distinct = distinct (context class, input tree, output tree) triples, summed over shards"
             % (b["depth"], "4 unary and 21 binary operators" if b["all_ops"] else "3 unary and 12 binary operators (one per precedence level and associativity)", b["random"]),
        samples=samples, input_distribution=dict(stats, **tot),
        kernels_translated=["src/formatters/expression.rs::check_excess_parentheses -> coq/gen/CheckExcess.v (rs2v)"],
        correspondence="for every (input tree, output tree) pair as parsed by full_moon: parser model = full_moon (Expr.parse (tokens e) = Some e), output in relation R (Parens.inR), and the property observed directly: Sm o = Sm e, can o, no_double_minus o")
    res.assumptions = ["rs2v's syntax-directed translation of check_excess_parentheses is faithful (subset documented in rs2v/src/main.rs)",
                       "the context flow of the two formatters is hand-modelled as relation R and tied by membership of every observed (input, output) pair",
                       "trees with `x :: T :: U` are outside the canonical-form predicate and only counted (outside_domain)"]
    if not t_ok or not proof["ok"] or not tie_ok:
        if bads:
            seen = set()
            for l in bads:
                w = l.split()
                if w[1] in seen or len(seen) >= 5: continue
                seen.add(w[1])
                res.violation(dict(kind="input", check=w[1], syntax=w[3], context=w[4], model_context=w[5], column_width=int(w[6]), expr_hex=w[7],
                                   input_tree=w[8], observed=" ".join(w[9:])[:2000], expected="output tree in R ctx input, with the same semantic tree (C05 theorems)",
                                   broken_obligation=None if (t_ok and proof["ok"]) else proof.get("broken_at")))
        else:
            what = ("rs2v: " + t_log[-1500:]) if not t_ok else (proof.get("broken_at", "") + "\n" + proof["log"][-2500:]) if not proof["ok"] else "; ".join(errs) or "record count mismatch"
            res.violation(dict(kind="obligation", obligation=dict(theorem_or_kernel=what)), no_input=True)
    return res

def replay(payload):
    build_harness(); build_ml()
    h = [SVH, "c05", "--one", payload["syntax"], payload["context"], payload["expr_hex"], str(payload["column_width"])]
    lines, errs = run_pipeline_sharded(lambda i, n: (h, [driver("drv_c05")]), shards=1)
    print("\n".join(lines))
    return 1 if errs or any(l.startswith("BAD") for l in lines) else 0
