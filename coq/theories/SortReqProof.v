From Coq Require Import List Bool Arith Lia Permutation Sorted.
Import ListNotations.
From SV Require Import SortReq.

Section P.
Variable key : Type.
Variable leb : key -> key -> bool.
Hypothesis leb_total : forall a b, leb a b = true \/ leb b a = true.
Hypothesis leb_trans : forall a b c, leb a b = true -> leb b c = true -> leb a c = true.
Variable body trivia : Type.
Notation req := (req key body trivia).
Notation item := (item key body trivia).
Notation insert := (insert key leb body trivia).
Notation isort := (isort key leb body trivia).
Notation sort_group := (sort_group key leb body trivia).
Notation groups := (groups key body trivia).
Notation flatten := (flatten key body trivia).
Notation sort_requires := (sort_requires key leb body trivia).
Notation name := (name key body trivia).
Notation rbody := (rbody key body trivia).
Notation rlead := (rlead key body trivia).
Notation normal := (normal key body trivia).
Notation set_lead := (set_lead key body trivia).

Lemma insert_perm x l : Permutation (x :: l) (insert x l).
Proof. induction l as [|y r IH]; cbn; auto. destruct (leb (name x) (name y)); auto.
  eapply perm_trans; [apply perm_swap|]. constructor. exact IH. Qed.
Lemma isort_perm l : Permutation l (isort l).
Proof. induction l as [|x r IH]; cbn; auto. eapply perm_trans; [|apply insert_perm]. constructor. exact IH. Qed.

Definition le_req (a b : req) : Prop := leb (name a) (name b) = true.
Lemma insert_hd x y r : leb (name y) (name x) = true -> HdRel le_req y r -> HdRel le_req y (insert x r).
Proof. intros A H. destruct r as [|z r']; cbn; [constructor; exact A|].
  destruct (leb (name x) (name z)); constructor; [exact A|inversion H; auto]. Qed.
Lemma insert_sorted x l : Sorted le_req l -> Sorted le_req (insert x l).
Proof.
  induction l as [|y r IH]; cbn; intros H.
  - repeat constructor.
  - destruct (leb (name x) (name y)) eqn:E.
    + constructor; [exact H | constructor; exact E].
    + inversion H as [|? ? Hs Hh]; subst. constructor; [apply IH; exact Hs|].
      apply insert_hd; [|exact Hh]. destruct (leb_total (name x) (name y)) as [A|A]; [congruence|exact A].
Qed.
Lemma isort_sorted l : Sorted le_req (isort l).
Proof. induction l; cbn; [constructor|apply insert_sorted; auto]. Qed.

(* stability: among members with equal names the input order is kept *)
Definition eqk (a b : key) : bool := leb a b && leb b a.
Lemma insert_filter k x l :
  filter (fun r => eqk (name r) k) (insert x l) = (if eqk (name x) k then [x] else []) ++ filter (fun r => eqk (name r) k) l.
Proof.
  induction l as [|y r IH]; cbn [insert filter]; [destruct (eqk (name x) k); reflexivity|].
  destruct (leb (name x) (name y)) eqn:E.
  - cbn [filter]. destruct (eqk (name x) k); reflexivity.
  - cbn [filter]. rewrite IH. destruct (eqk (name y) k) eqn:Ey; [|reflexivity].
    destruct (eqk (name x) k) eqn:Ex; [|reflexivity].
    (* x and y both have key k, so leb x y would hold *)
    exfalso. unfold eqk in Ex, Ey. apply andb_true_iff in Ex, Ey. destruct Ex as [X1 _], Ey as [_ Y2].
    rewrite (leb_trans _ _ _ X1 Y2) in E. discriminate.
Qed.
Theorem isort_stable k l : filter (fun r => eqk (name r) k) (isort l) = filter (fun r => eqk (name r) k) l.
Proof. induction l as [|x r IH]; [reflexivity|]. cbn [isort]. rewrite insert_filter, IH. cbn [filter]. destruct (eqk (name x) k); reflexivity. Qed.

Lemma sorted_isort_id l : Sorted le_req l -> isort l = l.
Proof.
  induction l as [|x r IH]; [reflexivity|]. intros H. inversion H as [|? ? Hs Hh]; subst. cbn [isort]. rewrite (IH Hs).
  destruct r as [|y r']; [reflexivity|]. cbn [SortReq.insert]. inversion Hh; subst. unfold le_req in *.
  match goal with H : leb _ _ = true |- _ => rewrite H end. reflexivity.
Qed.

(* ---- one group ---- *)
Lemma isort_nonempty x l : isort (x :: l) <> [].
Proof. intros E. pose proof (isort_perm (x :: l)) as P. rewrite E in P. apply Permutation_sym, Permutation_nil in P. discriminate. Qed.

Theorem group_bodies_perm g : Permutation (map rbody g) (map rbody (sort_group g)).
Proof.
  unfold SortReq.sort_group. destruct (forallb normal g); auto. destruct g as [|f r]; auto.
  pose proof (isort_perm (set_lead f [] :: r)) as P. destruct (isort (set_lead f [] :: r)) as [|s rest] eqn:E.
  - exfalso. eapply isort_nonempty; eauto.
  - cbn [map]. change (rbody (set_lead s (rlead f ++ rlead s))) with (rbody s).
    change (rbody s :: map rbody rest) with (map rbody (s :: rest)).
    change (rbody f :: map rbody r) with (map rbody (set_lead f [] :: r)). apply Permutation_map. exact P.
Qed.
(* every piece of leading trivia (hence every comment in it) is still there, each exactly once *)
Theorem group_leads_perm g : Permutation (concat (map rlead g)) (concat (map rlead (sort_group g))).
Proof.
  unfold SortReq.sort_group. destruct (forallb normal g); auto. destruct g as [|f r]; auto.
  pose proof (isort_perm (set_lead f [] :: r)) as P. destruct (isort (set_lead f [] :: r)) as [|s rest] eqn:E.
  - exfalso. eapply isort_nonempty; eauto.
  - cbn [map concat]. change (rlead (set_lead s (rlead f ++ rlead s))) with (rlead f ++ rlead s).
    rewrite <- app_assoc. apply Permutation_app_head.
    change (rlead s ++ concat (map rlead rest)) with (concat (map rlead (s :: rest))).
    change (concat (map rlead r)) with (concat (map rlead (set_lead f [] :: r))).
    assert (Q : forall a b : list req, Permutation a b -> Permutation (concat (map rlead a)) (concat (map rlead b))).
    { induction 1; cbn [map concat]; auto.
      - apply Permutation_app_head. assumption.
      - rewrite !app_assoc. apply Permutation_app_tail. apply Permutation_app_comm.
      - eapply perm_trans; eauto. }
    apply Q. exact P.
Qed.
Lemma names_set_lead (s : req) l : name (set_lead s l) = name s. Proof. reflexivity. Qed.
Theorem group_sorted g : forallb normal g = true -> Sorted le_req (sort_group g).
Proof.
  intros N. unfold SortReq.sort_group. rewrite N. destruct g as [|f r]; [constructor|].
  pose proof (isort_sorted (set_lead f [] :: r)) as S. destruct (isort (set_lead f [] :: r)) as [|s rest]; [constructor|].
  inversion S as [|? ? Ss Sh]; subst. constructor; auto. destruct rest; constructor. inversion Sh; subst. exact H0.
Qed.
Theorem group_stable k g : forallb normal g = true ->
  map rbody (filter (fun r => eqk (name r) k) (sort_group g)) = map rbody (filter (fun r => eqk (name r) k) g).
Proof.
  intros N. unfold SortReq.sort_group. rewrite N. destruct g as [|f r]; [reflexivity|].
  pose proof (isort_stable k (set_lead f [] :: r)) as S. destruct (isort (set_lead f [] :: r)) as [|s rest] eqn:E.
  - exfalso. eapply isort_nonempty; eauto.
  - cbn [filter] in S |- *. rewrite names_set_lead in *.
    destruct (eqk (name s) k), (eqk (name f) k); cbn [map] in *;
      try (rewrite S; reflexivity); try (rewrite <- S; reflexivity);
      change (rbody (set_lead s (rlead f ++ rlead s))) with (rbody s);
      change (rbody f) with (rbody (set_lead f [])); rewrite <- ?S; try reflexivity;
      change (rbody s :: map rbody (filter (fun r0 => eqk (name r0) k) rest)) with (map rbody (s :: filter (fun r0 => eqk (name r0) k) rest));
      rewrite ?S; reflexivity.
Qed.
Theorem ignored_group_untouched g : forallb normal g = false -> sort_group g = g.
Proof. intros N. unfold SortReq.sort_group. rewrite N. reflexivity. Qed.
Lemma sort_group_length g : length (sort_group g) = length g.
Proof.
  unfold SortReq.sort_group. destruct (forallb normal g); auto. destruct g as [|f r]; auto.
  pose proof (Permutation_length (isort_perm (set_lead f [] :: r))) as L.
  destruct (isort (set_lead f [] :: r)); cbn in *; lia.
Qed.

(* ---- the whole list ---- *)
Lemma flatten_app a b : flatten (a ++ b) = flatten a ++ flatten b.
Proof. unfold SortReq.flatten. apply flat_map_app. Qed.
Lemma flatten_groups : forall l cur, flatten (groups cur l) = map (Req key body trivia) (rev cur) ++ l.
Proof.
  induction l as [|i r IH]; intros cur; cbn [SortReq.groups].
  - destruct cur; cbn; rewrite ?app_nil_r; auto.
  - destruct i as [q|b ld].
    + destruct cur as [|p cur'].
      * rewrite IH. reflexivity.
      * destruct (Bool.eqb (kind key body trivia p) (kind key body trivia q) && (l0 key body trivia q - l1 key body trivia p <=? 1)).
        -- rewrite IH. cbn [rev]. rewrite map_app. cbn [map app]. rewrite <- app_assoc. reflexivity.
        -- change (inl (rev (p :: cur')) :: groups [q] r) with ([inl (rev (p :: cur'))] ++ groups [q] r).
           rewrite flatten_app, IH. cbn. rewrite app_nil_r. reflexivity.
    + destruct cur as [|p cur'].
      * cbn [app]. change (inr (Other key body trivia b ld) :: groups [] r) with ([inr (Other key body trivia b ld)] ++ groups [] r).
        rewrite flatten_app, IH. reflexivity.
      * change ([inl (rev (p :: cur'))] ++ inr (Other key body trivia b ld) :: groups [] r)
          with ([inl (rev (p :: cur'))] ++ [inr (Other key body trivia b ld)] ++ groups [] r).
        rewrite !flatten_app, IH. cbn. rewrite app_nil_r. reflexivity.
Qed.

(* nothing is dropped or duplicated *)
Theorem sort_perm l : Permutation (map (body_of key body trivia) l) (map (body_of key body trivia) (sort_requires l)).
Proof.
  unfold SortReq.sort_requires, SortReq.sort_groups. rewrite <- (flatten_groups l []) at 1. cbn [rev map app].
  induction (groups [] l) as [|g gs IH]; cbn; auto.
  unfold SortReq.flatten in *. cbn. rewrite !map_app. apply Permutation_app; auto.
  destruct g as [rs|i]; cbn; auto. rewrite !map_map. cbn. apply group_bodies_perm.
Qed.
Theorem leads_perm l : Permutation (concat (map (lead_of key body trivia) l)) (concat (map (lead_of key body trivia) (sort_requires l))).
Proof.
  unfold SortReq.sort_requires, SortReq.sort_groups. rewrite <- (flatten_groups l []) at 1. cbn [rev map app].
  induction (groups [] l) as [|g gs IH]; cbn; auto.
  unfold SortReq.flatten in *. cbn. rewrite !map_app, !concat_app. apply Permutation_app; auto.
  destruct g as [rs|i]; cbn; auto. rewrite !map_map. cbn. apply group_leads_perm.
Qed.
(* statements that are not requires keep their place and their text; only members of one group exchange places *)
Theorem others_fixed l : map (other_slot key body trivia) (sort_requires l) = map (other_slot key body trivia) l.
Proof.
  unfold SortReq.sort_requires, SortReq.sort_groups. rewrite <- (flatten_groups l []) at 2. cbn [rev map app].
  induction (groups [] l) as [|g gs IH]; cbn; auto.
  unfold SortReq.flatten in *. cbn. rewrite !map_app, IH. f_equal.
  destruct g as [rs|i]; cbn; auto. rewrite !map_map. cbn.
  pose proof (sort_group_length rs) as L. revert L. generalize (sort_group rs). induction rs as [|x r IHr]; intros [|y s] L; cbn in *; try lia; auto.
  f_equal. apply IHr. lia.
Qed.
(* with the option off nothing moves *)
Theorem off_is_identity l : flatten (groups [] l) = l.
Proof. rewrite flatten_groups. reflexivity. Qed.
(* sorting a sorted group again changes nothing *)
Theorem sort_group_idem g : sort_group (sort_group g) = sort_group g.
Proof.
  remember (sort_group g) as h eqn:H. unfold SortReq.sort_group in H. destruct (forallb normal g) eqn:N.
  - destruct g as [|f r]; [subst h; reflexivity|].
    pose proof (isort_sorted (set_lead f [] :: r)) as S. pose proof (isort_perm (set_lead f [] :: r)) as P.
    destruct (isort (set_lead f [] :: r)) as [|s rest] eqn:E; [exfalso; eapply isort_nonempty; eauto|].
    subst h.
    assert (N2 : forallb normal (set_lead s (rlead f ++ rlead s) :: rest) = true).
    { assert (N1 : forallb normal (s :: rest) = true).
      { rewrite forallb_forall in *. intros x Hx. apply Permutation_sym in P. pose proof (Permutation_in _ P Hx) as I.
        destruct I as [I|I]; [subst x; apply (N f); left; reflexivity|apply N; right; exact I]. }
      cbn [forallb] in *. exact N1. }
    unfold SortReq.sort_group. rewrite N2.
    assert (S2 : Sorted le_req (set_lead (set_lead s (rlead f ++ rlead s)) [] :: rest)).
    { inversion S as [|? ? Ss Sh]; subst. constructor; auto. destruct rest; constructor. inversion Sh; subst. assumption. }
    rewrite (sorted_isort_id _ S2). cbn. rewrite app_nil_r. reflexivity.
  - subst h. unfold SortReq.sort_group. rewrite N. reflexivity.
Qed.
End P.

From Coq Require Import Ascii NArith.
Lemma str_leb_total a : forall b, str_leb a b = true \/ str_leb b a = true.
Proof.
  induction a as [|x a IH]; intros [|y b]; cbn; auto.
  destruct (N.ltb_spec (N_of_ascii x) (N_of_ascii y)); auto.
  destruct (N.ltb_spec (N_of_ascii y) (N_of_ascii x)); auto.
  assert (E : N_of_ascii x = N_of_ascii y) by lia. rewrite E, N.eqb_refl. apply IH.
Qed.
Lemma str_leb_trans a : forall b c, str_leb a b = true -> str_leb b c = true -> str_leb a c = true.
Proof.
  induction a as [|x a IH]; intros [|y b] [|z c]; cbn; auto; try discriminate.
  destruct (N.ltb_spec (N_of_ascii x) (N_of_ascii y)) as [XY|XY];
  destruct (N.ltb_spec (N_of_ascii y) (N_of_ascii z)) as [YZ|YZ]; intros A B.
  - destruct (N.ltb_spec (N_of_ascii x) (N_of_ascii z)); auto. lia.
  - destruct (N.eqb_spec (N_of_ascii y) (N_of_ascii z)) as [E|E]; [|discriminate].
    destruct (N.ltb_spec (N_of_ascii x) (N_of_ascii z)); auto. lia.
  - destruct (N.eqb_spec (N_of_ascii x) (N_of_ascii y)) as [E|E]; [|discriminate].
    destruct (N.ltb_spec (N_of_ascii x) (N_of_ascii z)); auto. lia.
  - destruct (N.eqb_spec (N_of_ascii x) (N_of_ascii y)) as [E|E]; [|discriminate].
    destruct (N.eqb_spec (N_of_ascii y) (N_of_ascii z)) as [E2|E2]; [|discriminate].
    destruct (N.ltb_spec (N_of_ascii x) (N_of_ascii z)); auto.
    assert (E3 : N_of_ascii x = N_of_ascii z) by lia. rewrite E3, N.eqb_refl. eapply IH; eauto.
Qed.
