(* C13 - `--check` never writes and its exit status tells the truth.  Statements only.
   Files and their outcomes (what the library does on each) are arbitrary; results arrive in any order (C19). *)
From Coq Require Import List Arith.
From SV Require CliModel CliModelProof Sched ExitProto.
Import ListNotations CliModel.

Theorem C13_check_never_writes : forall path content eqb files f, fst (run path content eqb true files f) = f.
Proof. exact CliModelProof.check_never_writes. Qed.
Print Assumptions C13_check_never_writes.
Theorem C13_status_0_iff_all_formatted : forall path content eqb files f,
  snd (run path content eqb true files f) = 0 <-> Forall (fun po => snd po = Formatted) files.
Proof. exact CliModelProof.check_status_0. Qed.
Print Assumptions C13_status_0_iff_all_formatted.
Theorem C13_status_1_iff_differs_and_no_failure : forall path content eqb files f,
  snd (run path content eqb true files f) = 1 <->
  (Exists (fun po => exists c, snd po = Unformatted c) files /\ ~ Exists (fun po => snd po = Failed) files).
Proof. exact CliModelProof.check_status_1. Qed.
Print Assumptions C13_status_1_iff_differs_and_no_failure.
Theorem C13_status_2_iff_failure : forall path content eqb check files f,
  snd (run path content eqb check files f) = 2 <-> Exists (fun po => snd po = Failed) files.
Proof. exact CliModelProof.status_2_iff_failure. Qed.
Print Assumptions C13_status_2_iff_failure.
Theorem C13_diff_iff_differs : forall content (o : outcome content), diff_printed content true o = true <-> exists c, o = Unformatted c.
Proof. exact CliModelProof.diff_iff_differs. Qed.
Print Assumptions C13_diff_iff_differs.
(* the levels of the model are what the code reports: the values the generated programs fetch_max into the exit code
   are exactly {level of a diff, level of a failure} *)
Definition reported : list nat :=
  flat_map (fun i => match i with Sched.FetchMax v => [v] | _ => [] end) (concat SVgen.ExitOps.exit_programs).
Theorem C13_levels_are_the_generated_programs :
  forallb (fun v => existsb (Nat.eqb v) [level nat true (Unformatted 0); level nat true Failed]) reported = true /\
  forallb (fun v => existsb (Nat.eqb v) reported) [level nat true (Unformatted 0); level nat true Failed] = true.
Proof. split; reflexivity. Qed.
Print Assumptions C13_levels_are_the_generated_programs.
