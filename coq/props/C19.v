(* C19 - results do not depend on thread count or scheduling.  Statements only. *)
From Coq Require Import List Arith Permutation.
From SV Require Sched SchedProof ExitProto CliModel CliModelProof.
From SVgen Require ExitOps.
Import ListNotations Sched.

(* Tie 1: every program that touches the exit code in /repo's main.rs today only loads or fetch_max-es *)
Theorem C19_protocol_is_monotone : ExitProto.protocol_monotone = true.
Proof. reflexivity. Qed.
Print Assumptions C19_protocol_is_monotone.
(* hence: any number of threads running those programs, EVERY interleaving: the final status is the largest reported *)
Theorem C19_exit_status_schedule_independent : forall sched ts,
  ExitProto.runs_protocol ts -> finished (snd (run sched (0, ts))) -> fst (run sched (0, ts)) = pending ts.
Proof. exact (ExitProto.exit_status_schedule_independent C19_protocol_is_monotone). Qed.
Check C19_exit_status_schedule_independent : forall sched ts,
  ExitProto.runs_protocol ts -> finished (snd (run sched (0, ts))) -> fst (run sched (0, ts)) = pending ts.
Print Assumptions C19_exit_status_schedule_independent.
(* an error is never masked: along every interleaving the status only grows *)
Theorem C19_status_never_lowered : forall sched cell ts, monotone ts -> cell <= fst (run sched (cell, ts)).
Proof. exact SchedProof.monotone_never_lowers. Qed.
Print Assumptions C19_status_never_lowered.
(* the protocol before the repair (load; conditional store against store 2) loses an error on one interleaving *)
Theorem C19_old_protocol_refuted : exists sched,
  finished (snd (run sched (0, [SchedProof.handler_old; SchedProof.logger_old]))) /\
  fst (run sched (0, [SchedProof.handler_old; SchedProof.logger_old])) = 1.
Proof. exact SchedProof.exit_status_race_refuted. Qed.
Print Assumptions C19_old_protocol_refuted.
(* results may reach the status in any order; workers on distinct files commute *)
Theorem C19_status_order_independent : forall path content eqb check l1 l2 f1 f2, Permutation l1 l2 ->
  snd (CliModel.run path content eqb check l1 f1) = snd (CliModel.run path content eqb check l2 f2).
Proof. exact CliModelProof.status_order_independent. Qed.
Print Assumptions C19_status_order_independent.
Theorem C19_file_contents_order_independent : forall path content eqb,
  (forall a b, eqb a b = true <-> a = b) -> forall check l1 l2, Permutation l1 l2 -> NoDup (map fst l1) ->
  forall f p, fst (CliModel.run path content eqb check l1 f) p = fst (CliModel.run path content eqb check l2 f) p.
Proof. intros path content eqb S check l1 l2 P ND f p. exact (CliModelProof.writes_commute path content eqb S check l1 l2 P ND f p). Qed.
Print Assumptions C19_file_contents_order_independent.
