From Coq Require Import List Ascii NArith Lia Bool Arith Wf_nat.
Import ListNotations.
Open Scope char_scope.
From SV Require Import Quote.

(* Denotation over units, Lua 5.1 reading: decimal escapes look ahead over plain digits *)
Definition digit_val (c : ascii) : N := N_of_ascii c - 48.
Definition named (c : ascii) : N :=
  if eqc c "a" then 7 else if eqc c "b" then 8 else if eqc c "f" then 12 else if eqc c "n" then 10
  else if eqc c "r" then 13 else if eqc c "t" then 9 else if eqc c "v" then 11 else N_of_ascii c.
Definition pdigit (u : unit_) : option N :=
  match u with Plain c => if is_digit c then Some (digit_val c) else None | _ => None end.

Fixpoint val (us : list unit_) : option (list N) :=
  match us with
  | [] => Some []
  | Dangling :: _ => None
  | Plain c :: r => option_map (cons (N_of_ascii c)) (val r)
  | Esc d :: r =>
    if is_digit d then
      match r with
      | u2 :: r2 =>
        match pdigit u2 with
        | Some v2 =>
          match r2 with
          | u3 :: r3 =>
            match pdigit u3 with
            | Some v3 => let v := (digit_val d * 100 + v2 * 10 + v3)%N in
                         if N.ltb 255 v then None else option_map (cons v) (val r3)
            | None => option_map (cons (digit_val d * 10 + v2)%N) (val r2)
            end
          | [] => option_map (cons (digit_val d * 10 + v2)%N) (val r2)
          end
        | None => option_map (cons (digit_val d)) (val r)
        end
      | [] => option_map (cons (digit_val d)) (val r)
      end
    else option_map (cons (named d)) (val r)
  end.

Definition decode51 (s : list ascii) : option (list N) := val (units s).

Lemma keep_digit d : is_digit d = true -> keep_escaped d = true.
Proof. intros H. unfold keep_escaped. rewrite H. rewrite !orb_true_r. reflexivity. Qed.
Lemma quote_not_digit d : is_quote d = true -> is_digit d = false.
Proof. unfold is_quote, eqc, sq, dq. intros H. apply orb_true_iff in H. destruct H as [H|H]; apply Ascii.eqb_eq in H; subst; reflexivity. Qed.
Lemma named_quote d : is_quote d = true -> named d = N_of_ascii d.
Proof. unfold is_quote, eqc, sq, dq. intros H. apply orb_true_iff in H. destruct H as [H|H]; apply Ascii.eqb_eq in H; subst; reflexivity. Qed.

(* a rewritten unit list starts with a plain digit exactly when the original does, and then it is the same digit *)
Lemma rewrite_u_head q u : 
  match pdigit u with
  | Some v => rewrite_u q u = [u]
  | None => forall t, match rewrite_u q u ++ t with x :: _ => pdigit x = None | [] => True end
  end.
Proof.
  destruct u as [c|d|]; cbn.
  - destruct (is_digit c) eqn:Hd.
    + destruct (is_quote c) eqn:Hq; [rewrite (quote_not_digit c Hq) in Hd; discriminate|reflexivity].
    + intros t. destruct (is_quote c); [destruct (eqc c (qchar q))|]; cbn; rewrite ?Hd; reflexivity.
  - intros t. destruct (is_quote d) eqn:Hq.
    + destruct (eqc d (qchar q)); cbn; [reflexivity|]. rewrite (quote_not_digit d Hq). reflexivity.
    + destruct (keep_escaped d) eqn:Hk; cbn; [reflexivity|].
      destruct (is_digit d) eqn:Hd; [rewrite (keep_digit d Hd) in Hk; discriminate|reflexivity].
  - intros t. reflexivity.
Qed.

Lemma named_unnecessary d : keep_escaped d = false -> named d = N_of_ascii d.
Proof.
  unfold keep_escaped, named. intros H.
  repeat match goal with |- context [eqc d ?c] => destruct (eqc d c) eqn:?; [rewrite ?orb_true_r in H; cbn in H; try discriminate|] end.
  all: try reflexivity.
  all: rewrite ?orb_true_r, ?orb_true_l in H; try discriminate.
Qed.

Lemma val_cons_nondigit us t : (forall x r, us ++ t = x :: r -> pdigit x = None) -> True.
Proof. auto. Qed.

(* main lemma: values are invariant under unit-wise rewriting *)
Lemma val_rewrite q : forall us, val (flat_map (rewrite_u q) us) = val us.
Proof.
  intros us. remember (length us) as n eqn:Hn. revert us Hn.
  induction n as [n IH] using lt_wf_ind. intros us Hn.
  destruct us as [|u r]; [reflexivity|]. cbn [flat_map].
  destruct u as [c|d|].
  - (* plain *) cbn [rewrite_u]. destruct (is_quote c) eqn:Hq.
    + destruct (eqc c (qchar q)); cbn [app val].
      * rewrite (quote_not_digit c Hq). rewrite (named_quote c Hq). f_equal. apply (IH (length r)); cbn in *; lia.
      * f_equal. apply (IH (length r)); cbn in *; lia.
    + cbn [app val]. f_equal. apply (IH (length r)); cbn in *; lia.
  - (* escape *) cbn [rewrite_u]. destruct (is_quote d) eqn:Hq.
    + destruct (eqc d (qchar q)); cbn [app val]; rewrite (quote_not_digit d Hq).
      * f_equal. apply (IH (length r)); cbn in *; lia.
      * rewrite (named_quote d Hq). f_equal. apply (IH (length r)); cbn in *; lia.
    + destruct (keep_escaped d) eqn:Hk.
      * cbn [app]. cbn [val]. destruct (is_digit d) eqn:Hd.
        -- (* decimal escape: look ahead *)
           destruct r as [|u2 r2]; [reflexivity|]. cbn [flat_map].
           pose proof (rewrite_u_head q u2) as H2. destruct (pdigit u2) as [v2|] eqn:P2.
           ++ rewrite H2. cbn [app]. rewrite P2.
              destruct r2 as [|u3 r3]; [reflexivity|]. cbn [flat_map].
              pose proof (rewrite_u_head q u3) as H3. destruct (pdigit u3) as [v3|] eqn:P3.
              ** rewrite H3. cbn [app]. rewrite P3. destruct (N.ltb 255 _); [reflexivity|].
                 f_equal. apply (IH (length r3)); cbn in *; lia.
              ** specialize (H3 (flat_map (rewrite_u q) r3)).
                 assert (IH2 : val (flat_map (rewrite_u q) (u3 :: r3)) = val (u3 :: r3)) by (apply (IH (length (u3 :: r3))); cbn in *; lia).
                 cbn [flat_map] in IH2.
                 destruct (rewrite_u q u3 ++ flat_map (rewrite_u q) r3) as [|x xs] eqn:E.
                 --- destruct u3; cbn in E; repeat (destruct (is_quote _) in E; try destruct (eqc _ _) in E; try destruct (keep_escaped _) in E); discriminate.
                 --- rewrite H3. rewrite IH2. reflexivity.
           ++ specialize (H2 (flat_map (rewrite_u q) r2)).
              assert (IH2 : val (flat_map (rewrite_u q) (u2 :: r2)) = val (u2 :: r2)) by (apply (IH (length (u2 :: r2))); cbn in *; lia).
              cbn [flat_map] in IH2.
              destruct (rewrite_u q u2 ++ flat_map (rewrite_u q) r2) as [|x xs] eqn:E.
              --- destruct u2; cbn in E; repeat (destruct (is_quote _) in E; try destruct (eqc _ _) in E; try destruct (keep_escaped _) in E); discriminate.
              --- rewrite H2. rewrite IH2. reflexivity.
        -- f_equal. apply (IH (length r)); cbn in *; lia.
      * cbn [app val]. assert (Hd : is_digit d = false).
        { destruct (is_digit d) eqn:Hd; [rewrite (keep_digit d Hd) in Hk; discriminate|reflexivity]. }
        rewrite Hd. rewrite (named_unnecessary d Hk). f_equal. apply (IH (length r)); cbn in *; lia.
  - reflexivity.
Qed.

Theorem rewrite_decode51 q s : decode51 (rewrite q s) = decode51 s.
Proof. unfold decode51. rewrite units_rewrite. apply val_rewrite. Qed.
Print Assumptions rewrite_decode51.
