(* C04, the remaining kernels: quote choice, token-boundary safety, idempotence, long brackets, numbers *)
From Coq Require Import List Ascii NArith Lia Bool Arith.
Import ListNotations.
Open Scope char_scope.
From SV Require Import Quote QuoteX.

(* ---------- get_quote_to_use ---------- *)
Inductive style := ForceDouble | ForceSingle | AutoDouble | AutoSingle.
Fixpoint cnt (c : ascii) (s : list ascii) : nat :=
  match s with [] => 0 | x :: r => (if eqc x c then 1 else 0) + cnt c r end.
Definition choose (st : style) (s : list ascii) : quote :=
  match st with
  | ForceDouble => QD
  | ForceSingle => QS
  | AutoDouble => let ns := cnt sq s in let nd := cnt dq s in
                  if Nat.eqb ns nd then QD else if Nat.ltb nd ns then QD else QS
  | AutoSingle => let ns := cnt sq s in let nd := cnt dq s in
                  if Nat.eqb ns nd then QS else if Nat.ltb nd ns then QD else QS
  end.
Definition preferred (st : style) : quote := match st with ForceDouble | AutoDouble => QD | _ => QS end.
Definition other (q : quote) : quote := match q with QS => QD | QD => QS end.

(* the number of backslashes a literal needs for its quotes when delimited by q *)
Definition qunit (q : quote) (u : unit_) : bool :=
  match u with Plain c | Esc c => eqc c (qchar q) | Dangling => false end.
Definition needs (q : quote) (s : list ascii) : nat := length (filter (qunit q) (units s)).

Lemma bs_not_qchar q : eqc bs (qchar q) = false. Proof. destruct q; reflexivity. Qed.
Lemma needs_cnt q s : needs q s = cnt (qchar q) s.
Proof.
  unfold needs. induction s as [s IH] using strong_list_ind.
  destruct s as [|c r]; [reflexivity|]. cbn [units cnt].
  destruct (eqc c bs) eqn:B.
  - apply Ascii.eqb_eq in B. subst c. rewrite bs_not_qchar.
    destruct r as [|d r']; [reflexivity|]. cbn [filter qunit cnt].
    destruct (eqc d (qchar q)); cbn [length]; rewrite IH by (cbn; lia); reflexivity.
  - cbn [filter qunit]. destruct (eqc c (qchar q)); cbn [length]; rewrite IH by (cbn; lia); reflexivity.
Qed.

Theorem choose_force_double s : choose ForceDouble s = QD. Proof. reflexivity. Qed.
Theorem choose_force_single s : choose ForceSingle s = QS. Proof. reflexivity. Qed.
(* AutoPrefer*: the preferred quote, unless the other one needs strictly fewer escapes *)
Theorem choose_minimal st s : st = AutoDouble \/ st = AutoSingle ->
  (choose st s = preferred st /\ needs (preferred st) s <= needs (other (preferred st)) s) \/
  (choose st s = other (preferred st) /\ needs (other (preferred st)) s < needs (preferred st) s).
Proof.
  intros [-> | ->]; cbn [preferred other]; rewrite !needs_cnt; cbn [qchar choose];
    destruct (Nat.eqb_spec (cnt sq s) (cnt dq s)) as [E|E]; try (left; split; [reflexivity|lia]);
    destruct (Nat.ltb_spec (cnt dq s) (cnt sq s)); try (left; split; [reflexivity|lia]); right; split; try reflexivity; lia.
Qed.

(* the rewriter neither adds nor removes quote characters, so the choice is stable under re-formatting *)
Lemma qunit_ru q q' u : qunit q' (ru q u) = qunit q' u.
Proof.
  destruct u as [c|d|]; cbn; try reflexivity.
  - destruct (is_quote c); [destruct (eqc c (qchar q))|]; reflexivity.
  - destruct (is_quote d); [destruct (eqc d (qchar q))|destruct (keep_escaped d)]; reflexivity.
Qed.
Lemma needs_rewrite q q' s : needs q' (rewrite q s) = needs q' s.
Proof.
  unfold needs. rewrite units_rewrite, flat_map_ru. induction (units s) as [|u r IH]; [reflexivity|].
  cbn [map filter]. rewrite qunit_ru. destruct (qunit q' u); cbn [length]; rewrite IH; reflexivity.
Qed.
Theorem choose_stable st q s : choose st (rewrite q s) = choose st s.
Proof.
  pose proof (needs_rewrite q QS s) as A. pose proof (needs_rewrite q QD s) as B.
  rewrite !needs_cnt in A, B. cbn [qchar] in A, B.
  destruct st; cbn [choose]; rewrite ?A, ?B; reflexivity.
Qed.

(* ---------- the token boundary does not move ---------- *)
Definition is_nl (c : ascii) : bool := eqc c "010" || eqc c "013".
Fixpoint lexable_u (q : quote) (us : list unit_) : bool :=
  match us with
  | [] => true
  | Plain c :: r => negb (eqc c (qchar q)) && negb (is_nl c) && lexable_u q r
  | Esc _ :: r => lexable_u q r
  | Dangling :: _ => false
  end.
(* a body that the tokenizer can have read between two q quotes: no bare q, no bare newline, no dangling backslash *)
Definition lexable (q : quote) (s : list ascii) : bool := lexable_u q (units s).

Lemma nl_keep d : is_nl d = true -> keep_escaped d = true.
Proof. unfold is_nl. intros H. apply orb_true_iff in H. destruct H as [H|H]; eapply keep_of_eq; try exact H; reflexivity. Qed.
Lemma quote_not_nl c : is_quote c = true -> is_nl c = false.
Proof. unfold is_quote, eqc, sq, dq. intros H. apply orb_true_iff in H. destruct H as [H|H]; apply Ascii.eqb_eq in H; subst; reflexivity. Qed.
Lemma qchar_is_quote q : is_quote (qchar q) = true. Proof. destruct q; reflexivity. Qed.

Theorem rewrite_lexable q0 q s : lexable q0 s = true -> lexable q (rewrite q s) = true.
Proof.
  unfold lexable. rewrite units_rewrite, flat_map_ru.
  induction (units s) as [|u r IH]; [reflexivity|]. intros H.
  destruct u as [c|d|]; cbn [lexable_u] in H; [|cbn [map ru]|discriminate].
  - apply andb_true_iff in H. destruct H as [H Hr]. apply andb_true_iff in H. destruct H as [_ Hn].
    cbn [map ru]. destruct (is_quote c) eqn:Q.
    + destruct (eqc c (qchar q)) eqn:E; cbn [lexable_u]; [apply IH; exact Hr|].
      rewrite E, Hn. cbn. apply IH. exact Hr.
    + cbn [lexable_u]. rewrite Hn.
      destruct (eqc c (qchar q)) eqn:E; [apply Ascii.eqb_eq in E; subst c; rewrite qchar_is_quote in Q; discriminate|].
      cbn. apply IH. exact Hr.
  - destruct (is_quote d) eqn:Q.
    + destruct (eqc d (qchar q)) eqn:E; cbn [lexable_u]; [apply IH; exact H|].
      rewrite E, (quote_not_nl d Q). cbn. apply IH. exact H.
    + destruct (keep_escaped d) eqn:K; cbn [lexable_u]; [apply IH; exact H|].
      destruct (eqc d (qchar q)) eqn:E; [apply Ascii.eqb_eq in E; subst d; rewrite qchar_is_quote in Q; discriminate|].
      destruct (is_nl d) eqn:Nl; [rewrite (nl_keep d Nl) in K; discriminate|].
      cbn. apply IH. exact H.
Qed.

(* ---------- idempotence of the token rewrite ---------- *)
Lemma show_units s : flat_map show_unit (units s) = s.
Proof.
  induction s as [s IH] using strong_list_ind. destruct s as [|c r]; [reflexivity|]. cbn [units].
  destruct (eqc c bs) eqn:B.
  - apply Ascii.eqb_eq in B. subst c. destruct r as [|d r']; [reflexivity|].
    cbn [flat_map show_unit app]. rewrite IH by (cbn; lia). reflexivity.
  - cbn [flat_map show_unit app]. rewrite IH by (cbn; lia). reflexivity.
Qed.
Lemma ru_idem q u : ru q (ru q u) = ru q u.
Proof.
  destruct u as [c|d|]; cbn; try reflexivity.
  - destruct (is_quote c) eqn:Q; [destruct (eqc c (qchar q)) eqn:E|]; cbn; rewrite ?Q, ?E; reflexivity.
  - destruct (is_quote d) eqn:Q; [destruct (eqc d (qchar q)) eqn:E; cbn; rewrite ?Q, ?E; reflexivity|].
    destruct (keep_escaped d) eqn:K; cbn; rewrite ?Q, ?K; reflexivity.
Qed.
Theorem rewrite_idem q s : rewrite q (rewrite q s) = rewrite q s.
Proof.
  assert (H : units (rewrite q (rewrite q s)) = units (rewrite q s)).
  { rewrite (units_rewrite q (rewrite q s)), flat_map_ru, (units_rewrite q s), flat_map_ru.
    rewrite map_map. apply map_ext. intros u. apply ru_idem. }
  rewrite <- (show_units (rewrite q (rewrite q s))), H. apply show_units.
Qed.
