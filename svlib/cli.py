"""Helpers for the checks that drive the real `stylua` binary: scratch directories, invocations, a Lua file corpus."""
import random, shutil, tempfile
from concurrent.futures import ThreadPoolExecutor
from .core import *

def scratch(tag):
    base = os.path.join(CACHE, "tmp")
    os.makedirs(base, exist_ok=True)
    return tempfile.mkdtemp(prefix=tag + "-", dir=base)

def cleanup(path):
    shutil.rmtree(path, ignore_errors=True)

def stylua(args, cwd, stdin=None, env_extra=None, timeout=120):
    env = dict(os.environ, NO_COLOR="1")
    env.pop("RUST_LOG", None)
    for k in ("XDG_CONFIG_HOME", "HOME"):
        env[k] = os.path.join(CACHE, "tmp", "nohome")
    if env_extra: env.update(env_extra)
    r = subprocess.run([STYLUA] + args, cwd=cwd, input=stdin, stdout=subprocess.PIPE, stderr=subprocess.PIPE, env=env, timeout=timeout)
    return r.returncode, r.stdout, r.stderr

def corpus_files(dirs=("tests/inputs",), limit=None):
    out = []
    for d in dirs:
        out += sorted(glob.glob(os.path.join(REPO, d, "*.lua")))
    return out[:limit] if limit else out

def pmap(f, items, workers=NCPU):
    with ThreadPoolExecutor(max_workers=workers) as ex:
        return list(ex.map(f, items))

def hexs(b):
    if isinstance(b, str): b = b.encode()
    return "#" + b.hex()
