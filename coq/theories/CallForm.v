(* (K) call_parentheses and space_after_function_names: the decision of format_function_args and of
   create_function_{call,definition}_trivia (C11). *)
From Coq Require Import Bool.
Inductive cmode := Always | NoSingleString | NoSingleTable | NoneM | Input.
Inductive aform := FParen | FStr | FTbl.            (* f(...)   f"s"   f{t} *)
Inductive akind := KStr | KTbl | KOther.            (* the call has exactly one argument, a string / a table; anything else *)
Definition omit_string (m : cmode) : bool := match m with NoneM | NoSingleString => true | _ => false end.
Definition omit_table (m : cmode) : bool := match m with NoneM | NoSingleTable => true | _ => false end.
(* input form, kind of its single argument, whether an index or method call follows (ObscureWithoutParens) *)
Definition call_form (m : cmode) (f : aform) (k : akind) (obscure : bool) : aform :=
  match f with
  | FParen =>
      match m with Input => FParen | _ =>
        if negb obscure then
          match k with KStr => if omit_string m then FStr else FParen | KTbl => if omit_table m then FTbl else FParen | KOther => FParen end
        else FParen end
  | FStr => match m with Input => FStr | _ => if omit_string m && negb obscure then FStr else FParen end
  | FTbl => match m with Input => FTbl | _ => if omit_table m && negb obscure then FTbl else FParen end
  end.
(* an input call is well formed when its sugar matches its argument *)
Definition wf_call (f : aform) (k : akind) : bool := match f, k with FStr, KStr | FTbl, KTbl | FParen, _ => true | _, _ => false end.
(* the rule as it can be read off the output alone (Input needs the input form and is stated separately) *)
Definition form_ok (m : cmode) (out : aform) (k : akind) (obscure : bool) : bool :=
  match m with
  | Always => match out with FParen => true | _ => false end
  | Input => true
  | _ => match k with
         | KStr => if omit_string m && negb obscure then (match out with FStr => true | _ => false end) else (match out with FParen => true | _ => false end)
         | KTbl => if omit_table m && negb obscure then (match out with FTbl => true | _ => false end) else (match out with FParen => true | _ => false end)
         | KOther => match out with FParen => true | _ => false end
         end
  end.
Theorem call_form_obeys_rule m f k o : wf_call f k = true -> form_ok m (call_form m f k o) k o = true.
Proof. destruct m, f, k, o; cbn; intros H; try reflexivity; discriminate. Qed.
Theorem input_keeps_form f k o : call_form Input f k o = f.
Proof. destruct f; reflexivity. Qed.
Theorem always_has_parentheses f k o : call_form Always f k o = FParen.
Proof. destruct f, k, o; reflexivity. Qed.
Theorem sugar_only_when_nothing_follows m f k : wf_call f k = true -> m <> Input -> call_form m f k true = FParen.
Proof. destruct m, f, k; cbn; intros H N; try reflexivity; try discriminate; exfalso; apply N; reflexivity. Qed.
Theorem call_form_idempotent m f k o : wf_call f k = true -> call_form m (call_form m f k o) k o = call_form m f k o.
Proof. destruct m, f, k, o; cbn; intros H; try reflexivity; discriminate. Qed.

Inductive smode := SNever | SDefinitions | SCalls | SAlways.
Definition space_definition (m : smode) : bool := match m with SAlways | SDefinitions => true | _ => false end.
Definition space_call (m : smode) : bool := match m with SAlways | SCalls => true | _ => false end.
Theorem space_exactly_where_named m : 
  (space_definition m = true <-> (m = SAlways \/ m = SDefinitions)) /\ (space_call m = true <-> (m = SAlways \/ m = SCalls)).
Proof. destruct m; cbn; split; split; intros H; try discriminate; auto; destruct H as [H|H]; discriminate. Qed.
