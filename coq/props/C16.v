(* C16 - exactly the selected files are processed, each once.  Statements only.
   The directory walker (ignore crate) is an oracle giving entries in some order, possibly one file under several
   spellings; [resolve] is the canonical location of a path. *)
From Coq Require Import List.
From SV Require Select.
Import ListNotations Select.

Theorem C16_processed_once : forall path key eqb, (forall a b : key, eqb a b = true <-> a = b) ->
  forall resolve is_file explicit glob_ok ignored use_default_glob respect_ignores entries seen,
  NoDup (map resolve (go path key eqb resolve is_file explicit glob_ok ignored use_default_glob respect_ignores seen entries)).
Proof. exact processed_once. Qed.
Print Assumptions C16_processed_once.
Theorem C16_only_wanted_processed : forall path key eqb, (forall a b : key, eqb a b = true <-> a = b) ->
  forall resolve is_file explicit glob_ok ignored use_default_glob respect_ignores entries p,
  In p (processed path key eqb resolve is_file explicit glob_ok ignored use_default_glob respect_ignores entries) ->
  wanted path is_file explicit glob_ok ignored use_default_glob respect_ignores p = true /\ In p entries.
Proof. exact processed_wanted. Qed.
Print Assumptions C16_only_wanted_processed.
Theorem C16_every_wanted_file_processed : forall path key eqb, (forall a b : key, eqb a b = true <-> a = b) ->
  forall resolve is_file explicit glob_ok ignored use_default_glob respect_ignores entries p,
  In p entries -> wanted path is_file explicit glob_ok ignored use_default_glob respect_ignores p = true ->
  exists q, In q (processed path key eqb resolve is_file explicit glob_ok ignored use_default_glob respect_ignores entries) /\ resolve q = resolve p.
Proof. exact processed_complete. Qed.
Print Assumptions C16_every_wanted_file_processed.
