//! Generic library formatter: one case per line `id cfgwords(;-separated or -) srchex [start end]`,
//! answers `id ok outhex` / `id parseerror` / `id error msghex` / `id panic msghex`.
use crate::common::*;
use std::io::BufRead;
pub fn main(_args: &[String]) {
    silence_panics();
    let stdin = std::io::stdin();
    for line in stdin.lock().lines() {
        let line = line.unwrap();
        let w: Vec<&str> = line.split_whitespace().collect();
        if w.len() < 3 { continue; }
        let mut words: Vec<&str> = if w[1] == "-" { vec![] } else { w[1].split(';').collect() };
        // `__verify=1` asks for OutputVerification::Full (what --verify does)
        let verify = words.iter().any(|x| *x == "__verify=1");
        words.retain(|x| !x.starts_with("__"));
        let cfg = config(&words);
        let src = String::from_utf8_lossy(&unhex(w[2])).to_string();
        let range = if w.len() >= 5 { Some(stylua_lib::Range::from_values(w[3].parse().ok(), w[4].parse().ok())) } else { None };
        if verify {
            let r = std::panic::catch_unwind(|| stylua_lib::format_code(&src, cfg, range, stylua_lib::OutputVerification::Full));
            match r {
                Ok(Ok(o)) => println!("{} ok {}", w[0], hex(o.as_bytes())),
                Ok(Err(stylua_lib::Error::ParseError(_))) => println!("{} parseerror", w[0]),
                Ok(Err(e)) => println!("{} error {}", w[0], hex(format!("{}", e).as_bytes())),
                Err(_) => println!("{} panic #", w[0]),
            }
            continue;
        }
        match format_guarded(&src, cfg, range) {
            Outcome::Ok(o) => println!("{} ok {}", w[0], hex(o.as_bytes())),
            Outcome::ParseError => println!("{} parseerror", w[0]),
            Outcome::OtherError(e) => println!("{} error {}", w[0], hex(e.as_bytes())),
            Outcome::Panic(e) => println!("{} panic {}", w[0], hex(e.as_bytes())),
        }
    }
}
