(* C06 - formatting is idempotent.  Statements only.
   Partial: idempotence of every kernel that rewrites text or reorders (quotes, quote choice, newline conversion,
   comment trimming, require sorting); whole-program idempotence is validated (second pass byte-compared), with the
   known non-idempotent inputs of the fixed regression set listed per input. *)
From Coq Require Import List Ascii.
From SV Require Quote QuoteMore Bracket BracketProof Census TriviaProof SortReq SortReqProof.
Import ListNotations.
Theorem C06_quote_rewrite_idempotent : forall q s, Quote.rewrite q (Quote.rewrite q s) = Quote.rewrite q s.
Proof. exact QuoteMore.rewrite_idem. Qed.
Print Assumptions C06_quote_rewrite_idempotent.
Theorem C06_quote_choice_stable : forall st q s, QuoteMore.choose st (Quote.rewrite q s) = QuoteMore.choose st s.
Proof. exact QuoteMore.choose_stable. Qed.
Print Assumptions C06_quote_choice_stable.
Theorem C06_newline_conversion_idempotent : forall e s, Bracket.no_lone_cr s = true -> Bracket.conv e (Bracket.conv e s) = Bracket.conv e s.
Proof. exact BracketProof.conv_idem. Qed.
Print Assumptions C06_newline_conversion_idempotent.
Theorem C06_comment_trimming_idempotent : forall s, Census.trim_end (Census.trim_end s) = Census.trim_end s.
Proof. exact TriviaProof.trim_end_idem. Qed.
Print Assumptions C06_comment_trimming_idempotent.
Theorem C06_require_group_sorting_idempotent : forall body trivia g,
  SortReq.sort_group (list ascii) SortReq.str_leb body trivia (SortReq.sort_group (list ascii) SortReq.str_leb body trivia g) =
  SortReq.sort_group (list ascii) SortReq.str_leb body trivia g.
Proof. intros. apply (SortReqProof.sort_group_idem (list ascii) SortReq.str_leb SortReqProof.str_leb_total). Qed.
Print Assumptions C06_require_group_sorting_idempotent.

(* L0 - the whole-formatter model on a fragment of Lua 5.1 (Fmt0.v), tied to the binary byte for byte on every run:
   normalisation is not idempotent; the witness `local x = (- -f())` is replayed on the binary by the check (known finding) *)
From SV Require Fmt0 Fmt0Proof.
Theorem C06_L0_normalisation_not_idempotent_refuted : exists p, Fmt0.nprog (Fmt0.nprog p) <> Fmt0.nprog p.
Proof. exact Fmt0Proof.nprog_not_idempotent_refuted. Qed.
Print Assumptions C06_L0_normalisation_not_idempotent_refuted.
(* the same on what format0 applies (parentheses, then call form) ... *)
Theorem C06_L0_both_passes_not_idempotent_refuted : exists c p, Fmt0.norm0 c (Fmt0.norm0 c p) <> Fmt0.norm0 c p.
Proof. exact Fmt0Proof.norm0_not_idempotent_refuted. Qed.
Print Assumptions C06_L0_both_passes_not_idempotent_refuted.
(* ... while the call-form pass alone is idempotent on every expression, whatever follows it *)
Theorem C06_L0_call_form_pass_idempotent : forall m e o, Fmt0.cexp m o (Fmt0.cexp m o e) = Fmt0.cexp m o e.
Proof. exact Fmt0Proof.cexp_idempotent. Qed.
Print Assumptions C06_L0_call_form_pass_idempotent.
