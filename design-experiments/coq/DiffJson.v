From Coq Require Import List Arith Lia Bool.
Import ListNotations.

Section J.
Variable line : Type.

(* an edit script, valid by construction: segments carry their lines *)
Inductive seg :=
| Keep (ls : list line)
| Del (d : line) (ds : list line)                 (* at least one line *)
| Ins (i : line) (is_ : list line)
| Rep (d : line) (ds : list line) (i : line) (is_ : list line).

Definition old_of (s : seg) : list line :=
  match s with Keep ls => ls | Del d ds => d :: ds | Ins _ _ => [] | Rep d ds _ _ => d :: ds end.
Definition new_of (s : seg) : list line :=
  match s with Keep ls => ls | Del _ _ => [] | Ins i is_ => i :: is_ | Rep _ _ i is_ => i :: is_ end.
Definition olds (ss : list seg) := flat_map old_of ss.
Definition news (ss : list seg) := flat_map new_of ss.

Record mismatch := { os : nat; oe : nat; es : nat; ee : nat; original : list line; expected : list line }.

(* the JSON builder, with the repaired "all changes" text selection; [first_only] = the code as it stands *)
Variable first_only : bool.
Definition sel (l : list line) : list line := if first_only then firstn 1 l else l.

Fixpoint mismatches (oi ni : nat) (ss : list seg) : list mismatch :=
  match ss with
  | [] => []
  | Keep ls :: r => mismatches (oi + length ls) (ni + length ls) r
  | Del d ds :: r =>
      {| os := oi; oe := oi + S (length ds) - 1; es := ni; ee := ni; original := sel (d :: ds); expected := [] |}
      :: mismatches (oi + S (length ds)) ni r
  | Ins i is_ :: r =>
      {| os := oi; oe := oi; es := ni; ee := ni + S (length is_) - 1; original := []; expected := sel (i :: is_) |}
      :: mismatches oi (ni + S (length is_)) r
  | Rep d ds i is_ :: r =>
      {| os := oi; oe := oi + S (length ds) - 1; es := ni; ee := ni + S (length is_) - 1;
         original := d :: ds; expected := i :: is_ |}
      :: mismatches (oi + S (length ds)) (ni + S (length is_)) r
  end.

(* the consumer: line-range replacement, left to right, [c] = next old line not yet copied *)
Fixpoint apply_from (c : nat) (ms : list mismatch) (old : list line) : list line :=
  match ms with
  | [] => skipn c old
  | m :: r =>
      firstn (os m - c) (skipn c old) ++ expected m ++
      apply_from (match original m with [] => os m | _ => S (oe m) end) r old
  end.
Definition apply_json ms old := apply_from 0 ms old.

Lemma skipn_app_len {A} (a b : list A) : skipn (length a) (a ++ b) = b.
Proof. induction a; cbn; auto. Qed.
Lemma firstn_app_len {A} (a b : list A) : firstn (length a) (a ++ b) = a.
Proof. induction a; cbn; f_equal; auto. Qed.
Lemma skipn_add {A} n (a b : list A) : skipn (length a + n) (a ++ b) = skipn n b.
Proof. induction a; cbn; auto. Qed.

End J.

Arguments Keep {line}. Arguments Del {line}. Arguments Ins {line}. Arguments Rep {line}.


Lemma firstn_skipn_mid {A} (pre kept rest : list A) :
  firstn (length pre + length kept - length pre) (skipn (length pre) (pre ++ kept ++ rest)) = kept.
Proof. replace (length pre + length kept - length pre) with (length kept) by lia.
  rewrite skipn_app_len. apply firstn_app_len. Qed.

Lemma skipn_two {A} (pre kept rest : list A) :
  skipn (length pre + length kept) (pre ++ kept ++ rest) = rest.
Proof. rewrite skipn_add. apply skipn_app_len. Qed.

(* invariant: [pre] copied already, [kept] = equal lines seen since the cursor, not copied yet *)
Lemma apply_inv line (ss : list (seg line)) : forall pre kept ni c k,
  c = length pre -> k = length pre + length kept ->
  apply_from line c (mismatches line false k ni ss) (pre ++ kept ++ olds line ss) = kept ++ news line ss.
Proof.
  induction ss as [|s r IH]; intros pre kept ni c k Hc Hk; subst c k.
  - cbn [mismatches apply_from]. unfold olds, news; cbn [flat_map]. rewrite !app_nil_r.
    apply skipn_app_len.
  - destruct s as [ls|d ds|i is_|d ds i is_]; cbn [mismatches news olds flat_map new_of old_of];
      fold (olds line r); fold (news line r).
    + (* Keep *)
      replace (kept ++ ls ++ news line r) with ((kept ++ ls) ++ news line r) by (rewrite <- !app_assoc; reflexivity).
      replace (pre ++ kept ++ ls ++ olds line r) with (pre ++ (kept ++ ls) ++ olds line r) by (rewrite <- !app_assoc; reflexivity).
      apply IH; [reflexivity | rewrite app_length; lia].
    + (* Del *)
      cbn [apply_from os oe expected original sel].
      rewrite firstn_skipn_mid. cbn [app]. f_equal.
      pose proof (IH (pre ++ kept ++ d :: ds) [] ni (S (length pre + length kept + S (length ds) - 1))
                     (length pre + length kept + S (length ds))) as H.
      assert (E : (pre ++ kept ++ d :: ds) ++ [] ++ olds line r = pre ++ kept ++ d :: ds ++ olds line r).
      { cbn [app]. rewrite <- !app_assoc. reflexivity. }
      rewrite E in H. cbn [app] in H. apply H; rewrite !app_length; cbn [length]; lia.
    + (* Ins *)
      cbn [apply_from os oe expected original sel].
      rewrite firstn_skipn_mid. cbn [app]. f_equal. f_equal. f_equal.
      pose proof (IH (pre ++ kept) [] (ni + S (length is_)) (length pre + length kept) (length pre + length kept)) as H.
      assert (E : (pre ++ kept) ++ [] ++ olds line r = pre ++ kept ++ olds line r).
      { cbn [app]. rewrite <- !app_assoc. reflexivity. }
      rewrite E in H. cbn [app] in H. apply H; rewrite !app_length; cbn [length]; lia.
    + (* Rep *)
      cbn [apply_from os oe expected original].
      rewrite firstn_skipn_mid. cbn [app]. f_equal. f_equal. f_equal.
      pose proof (IH (pre ++ kept ++ d :: ds) [] (ni + S (length is_)) (S (length pre + length kept + S (length ds) - 1))
                     (length pre + length kept + S (length ds))) as H.
      assert (E : (pre ++ kept ++ d :: ds) ++ [] ++ olds line r = pre ++ kept ++ d :: ds ++ olds line r).
      { cbn [app]. rewrite <- !app_assoc. reflexivity. }
      rewrite E in H. cbn [app] in H. apply H; rewrite !app_length; cbn [length]; lia.
Qed.

Theorem json_reconstructs line (ss : list (seg line)) :
  apply_json line (mismatches line false 0 0 ss) (olds line ss) = news line ss.
Proof. exact (apply_inv line ss [] [] 0 0 0 eq_refl eq_refl). Qed.
Print Assumptions json_reconstructs.

(* the code as it stands takes only the first inserted line: refuted by a two-line insertion *)
Theorem json_reconstructs_refuted :
  exists ss : list (seg nat), apply_json nat (mismatches nat true 0 0 ss) (olds nat ss) <> news nat ss.
Proof. exists [Ins 1 [2]; Keep [3]]. vm_compute. discriminate. Qed.
