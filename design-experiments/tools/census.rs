use stylua_lib::*;
use full_moon::tokenizer::{Lexer, LexerResult, TokenType};
use std::fs;
use std::collections::BTreeMap;
fn census(src: &str, v: full_moon::LuaVersion) -> Option<BTreeMap<String, i32>> {
    let mut m = BTreeMap::new();
    match Lexer::new(src, v).collect() {
        LexerResult::Ok(tokens) => { for t in tokens { match t.token_type() {
            TokenType::SingleLineComment { comment } => { *m.entry(format!("L:{}", comment.trim_end())).or_insert(0) += 1; }
            TokenType::MultiLineComment { blocks, comment } => { *m.entry(format!("B{}:{}", blocks, comment.replace("\r\n", "\n"))).or_insert(0) += 1; }
            TokenType::Shebang { line } => { *m.entry(format!("S:{}", line.trim_end())).or_insert(0) += 1; }
            _ => {} } } Some(m) }
        _ => None,
    }
}
fn main() {
    let dirs = [("/repo/tests/inputs", LuaVersion::Lua51, full_moon::LuaVersion::lua51()), ("/repo/tests/inputs-luau", LuaVersion::Luau, full_moon::LuaVersion::luau()), ("/repo/tests/inputs-lua52", LuaVersion::Lua52, full_moon::LuaVersion::lua52()), ("/repo/tests/inputs-lua53", LuaVersion::Lua53, full_moon::LuaVersion::lua53()), ("/repo/tests/inputs-lua54", LuaVersion::Lua54, full_moon::LuaVersion::lua54()), ("/repo/tests/inputs-full_moon", LuaVersion::Lua51, full_moon::LuaVersion::lua51()), ("/repo/tests/inputs-luau-full_moon", LuaVersion::Luau, full_moon::LuaVersion::luau()), ("/repo/tests/inputs-ignore", LuaVersion::Lua51, full_moon::LuaVersion::lua51()), ("/repo/tests/inputs-sort-requires", LuaVersion::Luau, full_moon::LuaVersion::luau())];
    let widths = [1usize, 20, 40, 80, 120, 100000];
    let (mut n, mut bad) = (0, 0);
    for (d, syn, fv) in dirs.iter() {
        let mut files: Vec<_> = fs::read_dir(d).unwrap().map(|e| e.unwrap().path()).collect(); files.sort();
        for f in files { let src = match fs::read_to_string(&f) { Ok(s) => s, Err(_) => continue };
            let ci = match census(&src, *fv) { Some(c) => c, None => continue };
            for &w in widths.iter() { for variant in 0..3 {
                let mut cfg = Config::default(); cfg.syntax = *syn; cfg.column_width = w;
                if variant == 1 { cfg.call_parentheses = CallParenType::None; cfg.collapse_simple_statement = CollapseSimpleStatement::Always; cfg.line_endings = LineEndings::Windows; }
                if variant == 2 { cfg.sort_requires = SortRequiresConfig { enabled: true }; cfg.indent_type = IndentType::Spaces; }
                n += 1;
                if let Ok(out) = format_code(&src, cfg, None, OutputVerification::None) {
                    match census(&out, *fv) { None => { bad += 1; println!("RELEX-FAIL {} w={} v={}", f.display(), w, variant); }
                        Some(co) => if co != ci { bad += 1; 
                            let lost: Vec<_> = ci.iter().filter(|(k, v)| co.get(*k).copied().unwrap_or(0) < **v).map(|(k, _)| k.chars().take(40).collect::<String>()).collect();
                            let gained: Vec<_> = co.iter().filter(|(k, v)| ci.get(*k).copied().unwrap_or(0) < **v).map(|(k, _)| k.chars().take(40).collect::<String>()).collect();
                            println!("CENSUS {} w={} v={} lost={:?} gained={:?}", f.display(), w, variant, lost, gained); } }
                }
            } }
        }
    }
    println!("runs={} census-violations={}", n, bad);
}
