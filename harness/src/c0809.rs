//! C08 / C09 validation: ignore directives and ranges.  Every statement (and table field) of every block, in
//! visiting order, with its byte extent; the input's, the output's, and (C09) the whole-file output's are compared
//! slice by slice: an ignored / out-of-range node must be byte-identical, an in-range one equal to the whole-file run.
use crate::common::*;
use crate::gen::*;
use crate::stmts::{directive_lines, first_token, last_token};
use full_moon::ast::*;
use full_moon::node::Node;
use full_moon::tokenizer::TokenReference;
use full_moon::visitors::Visitor;

#[derive(Clone, Debug)]
pub struct Item { pub path: String, pub kind: &'static str, pub lead: usize, pub start: usize, pub end: usize, pub stmt_end: usize, pub trail_end: usize, pub fm_end: usize, pub skip: bool, pub in_anon: bool }
struct Collect { items: Vec<Item>, block_no: usize, disabled_stack: Vec<bool>, anon: Vec<(usize, usize)> }
fn tok_start(t: &TokenReference) -> usize { t.token().start_position().bytes() }
fn tok_end(t: &TokenReference) -> usize { t.token().end_position().bytes() }
fn lead_start(t: &TokenReference) -> usize { t.leading_trivia().next().map_or(tok_start(t), |x| x.start_position().bytes()) }
impl Collect {
    fn node(&mut self, path: String, kind: &'static str, first: Option<TokenReference>, last: Option<TokenReference>, semi: Option<&TokenReference>, disabled: &mut bool, inherited_skip: bool, fm_end: usize) {
        let first = match first { Some(t) => t, None => return };
        let stmt_end = last.as_ref().map_or(0, tok_end);
        let last = semi.cloned().or(last).unwrap();
        let mut single = false;
        for t in first.leading_trivia() {
            for l in directive_lines(t) {
                if l == "stylua: ignore start" { *disabled = true } else if l == "stylua: ignore end" { *disabled = false } else if l == "stylua: ignore" { single = true }
            }
        }
        self.items.push(Item { path, kind, lead: lead_start(&first), start: tok_start(&first), end: tok_end(&last), stmt_end, fm_end, trail_end: last.trailing_trivia().last().map_or(tok_end(&last), |x| x.end_position().bytes()), skip: inherited_skip || *disabled || single, in_anon: false });
    }
}
impl Visitor for Collect {
    fn visit_expression(&mut self, e: &Expression) {
        if let Expression::Function(f) = e {
            let (a, b) = (f.0.token().start_position().bytes(), last_token(&f.1).map_or(0, |t| tok_end(&t)));
            self.anon.push((a, b));
        }
    }
    fn visit_block(&mut self, b: &Block) {
        self.block_no += 1;
        let bn = self.block_no;
        let mut disabled = false;
        for (i, (stmt, semi)) in b.stmts_with_semicolon().enumerate() {
            self.node(format!("b{}.{}", bn, i), "stmt", first_token(stmt), last_token(stmt), semi.as_ref(), &mut disabled, false, stmt.end_position().map_or(0, |p| p.bytes()));
        }
        if let Some((last, semi)) = b.last_stmt_with_semicolon() {
            self.node(format!("b{}.last", bn), "stmt", first_token(last), last_token(last), semi.as_ref(), &mut disabled, false, last.end_position().map_or(0, |p| p.bytes()));
        }
    }
    fn visit_table_constructor(&mut self, t: &TableConstructor) {
        self.block_no += 1;
        let bn = self.block_no;
        let mut disabled = false;
        for (i, f) in t.fields().iter().enumerate() {
            self.node(format!("t{}.{}", bn, i), "field", first_token(f), last_token(f), None, &mut disabled, false, 0);
        }
    }
}
pub fn collect(src: &str, v: stylua_lib::LuaVersion) -> Option<Vec<Item>> {
    let ast = full_moon::parse_fallible(src, v.into()).into_result().ok()?;
    let mut c = Collect { items: vec![], block_no: 0, disabled_stack: vec![], anon: vec![] };
    let _ = &c.disabled_stack;
    c.visit_ast(&ast);
    // a node inside a skipped node is skipped with it (and is not looked at separately by the formatter)
    let items = c.items.clone();
    for it in c.items.iter_mut() {
        if items.iter().any(|o| o.skip && o.start <= it.start && it.end <= o.end && (o.start, o.end) != (it.start, it.end)) { it.skip = true; }
    }
    let anon = c.anon.clone();
    for it in c.items.iter_mut() { it.in_anon = anon.iter().any(|(a, b)| *a < it.start && it.end <= *b); }
    Some(c.items)
}

/// a program with directives at many places: before statements at any depth and before fields of multi-line tables
fn gen_c08(seed: u64, k: usize) -> (String, &'static str) {
    let (src, knobs) = nth_program(seed, k, "plain");
    let mut rng = Rng(seed ^ (k as u64) ^ 0xC08);
    let nl = if knobs.crlf { "\r\n" } else { "\n" };
    let mut out = String::new();
    // one program in two starts with require groups and an ignore region laid over them in various ways (the fourth run sorts
    // requires): the region opens in front of an ordinary statement or of a require, and closes likewise
    if rng.chance(1, 2) {
        let open_on_req = rng.chance(1, 2);
        let close_on_req = rng.chance(1, 2);
        if !open_on_req { out.push_str(&format!("-- stylua: ignore start{}local zz   =   1{}", nl, nl)); }
        else { out.push_str(&format!("local zz   =   1{}-- stylua: ignore start{}", nl, nl)); }
        out.push_str(&format!("local rb   =   require(\"b\"){}local ra   =   require(\"a\"){}", nl, nl));
        if close_on_req { out.push_str(&format!("-- stylua: ignore end{}local rd   =   require(\"d\"){}local rc   =   require(\"c\"){}local yy   =   2{}", nl, nl, nl, nl)); }
        else { out.push_str(&format!("-- stylua: ignore end{}local yy   =   2{}local rd   =   require(\"d\"){}local rc   =   require(\"c\"){}", nl, nl, nl, nl)); }
    }
    let mut region = false;
    for line in src.split_inclusive('\n') {
        let t = line.trim_start();
        let indent = &line[..line.len() - t.len()];
        let starts_stmt = ["local ", "if ", "while ", "for ", "do", "repeat", "function ", "return", "a", "b", "foo", "bar", "x1", "_t", "self", "value", "index", "T", "i"].iter().any(|p| t.starts_with(p));
        if starts_stmt && !t.starts_with("end") && !t.starts_with("else") && !t.starts_with("until") {
            match rng.below(14) {
                0 => out.push_str(&format!("{}-- stylua: ignore{}", indent, nl)),
                1 if !region => { out.push_str(&format!("{}-- stylua: ignore start{}", indent, nl)); region = true; }
                2 if region => { out.push_str(&format!("{}-- stylua: ignore end{}", indent, nl)); region = false; }
                _ => {}
            }
        }
        out.push_str(line);
    }
    if rng.chance(1, 2) {
        out.push_str(&format!("local tbl = {{{}\t-- stylua: ignore{}\tkeep   =   'as is'  ,{}\tother   =   2,{}\t-- stylua: ignore{}\tfn   =   function()  local   u   =   1{}x   =   u  end,{}\t-- stylua: ignore{}\t[ 'k' ]   =   {{1,2,   3}}{}}}{}", nl, nl, nl, nl, nl, nl, nl, nl, nl, nl));
    }
    (out, knobs.syn)
}

fn slice(s: &str, a: usize, b: usize) -> &str { s.get(a..b).unwrap_or("<bad slice>") }

pub fn main(args: &[String]) {
    silence_panics();
    let which = args[0].as_str();
    let (mut seed, mut n, mut shard, mut shards) = (0u64, 100usize, 0usize, 1usize);
    let mut pos_only = false;
    let mut i = 1;
    while i < args.len() {
        match args[i].as_str() {
            "--seed" => { seed = args[i + 1].parse().unwrap(); i += 1 }
            "--n" => { n = args[i + 1].parse().unwrap(); i += 1 }
            "--shard" => { let (a, b) = args[i + 1].split_once('/').unwrap(); shard = a.parse().unwrap(); shards = b.parse().unwrap(); i += 1 }
            "--pos-only" => pos_only = true,
            _ => panic!("c0809: unknown argument {}", args[i]),
        }
        i += 1;
    }
    let stdout = std::io::stdout();
    let mut out = std::io::BufWriter::new(stdout.lock());
    use std::io::Write;
    let mut cases = 0usize;
    for k in 0..n {
        if k % shards != shard { continue; }
        let (src, syn) = if which == "c08" { gen_c08(seed, k) } else { let (s, kn) = nth_program(seed, k, "plain-nodirectives"); (s, kn.syn) };
        let v = syntax(syn);
        let items = match collect(&src, v) { Some(x) => x, None => continue };
        let mut rng = Rng(seed ^ (k as u64).wrapping_mul(0x2545F4914F6CDD1D) ^ 0x89);
        // C08 has a third run per program: the default configuration with a range drawn anywhere (mid-token, inside an ignored
        // node): whatever the range, an ignored node comes out as written
        for c in 0..(if which == "c08" { 4 } else { 2 }) {
            // C08's fourth run: the default configuration with sort_requires (the sorter keeps its own record of the ignore regions)
            let words = if c == 3 { vec![format!("syntax={}", syn), "sort_requires=true".to_string()] } else if c != 1 { vec![format!("syntax={}", syn)] } else { crate::run::random_config(&mut rng, syn, false) };
            let wrefs: Vec<&str> = words.iter().map(|s| s.as_str()).collect();
            let cfg = config(&wrefs);
            let id = format!("g{}.{}", k, c);
            if which == "c08" {
                cases += 1;
                let range = if c == 2 { let x = rng.below(src.len() + 1); let y = x + rng.below(src.len() - x + 1); Some((x, if rng.chance(1, 2) { src.len() } else { y })) } else { None };
                let rtxt = range.map_or("-".to_string(), |(a, b)| format!("{}:{}", a, b));
                let o = match format_guarded(&src, cfg, range.map(|(a, b)| stylua_lib::Range::from_values(Some(a), Some(b)))) { Outcome::Ok(o) => o, _ => { writeln!(out, "CASE {} {} {} {} {} failed", id, syn, words.join(";"), rtxt, hex(src.as_bytes())).unwrap(); continue } };
                let oitems = match collect(&o, v) { Some(x) => x, None => { writeln!(out, "CASE {} {} {} {} {} noparse {}", id, syn, words.join(";"), rtxt, hex(src.as_bytes()), hex(o.as_bytes())).unwrap(); continue } };
                writeln!(out, "CASE {} {} {} {} {} ok {}", id, syn, words.join(";"), rtxt, hex(src.as_bytes()), hex(o.as_bytes())).unwrap();
                for it in items.iter().filter(|x| x.skip) {
                    // only outermost skipped nodes are compared (what is inside moves with them)
                    if items.iter().any(|o2| o2.skip && o2.start <= it.start && it.end <= o2.end && (o2.start, o2.end) != (it.start, it.end)) { continue; }
                    match oitems.iter().find(|x| x.path == it.path) {
                        // a statement is compared with its leading trivia (the directive comment, blank lines, its indentation); a table field without
                        Some(oi) => { let (a0, b0) = if it.kind == "stmt" { (it.lead, oi.lead) } else { (it.start, oi.start) };
                                      writeln!(out, "NODE {} {} {} skip {} {}", id, it.path, it.kind, hex(slice(&src, a0, it.end).as_bytes()), hex(slice(&o, b0, oi.end).as_bytes())).unwrap() }
                        None => writeln!(out, "NODE {} {} {} skip {} MISSING", id, it.path, it.kind, hex(slice(&src, it.start, it.end).as_bytes())).unwrap(),
                    }
                }
                writeln!(out, "COUNT {} {} {} {}", id, items.len(), oitems.len(), items.iter().filter(|x| x.skip).count()).unwrap();
            } else {
                // C09: ranges of several shapes
                let full = match format_guarded(&src, cfg, None) { Outcome::Ok(o) => o, _ => continue };
                let fitems = match collect(&full, v) { Some(x) => x, None => continue };
                let stmts: Vec<&Item> = items.iter().filter(|x| x.kind == "stmt").collect();
                if stmts.is_empty() { continue; }
                for shape in 0..4 {
                    let (a, b) = match shape {
                        0 => { let s = rng.pick(&stmts); (s.start, s.end) }                                       // exactly one statement
                        1 => { let s = rng.pick(&stmts); let t = rng.pick(&stmts); (s.start.min(t.start), s.end.max(t.end)) } // statement aligned span
                        2 => { let x = rng.below(src.len() + 1); let y = x + rng.below(src.len() - x + 1); (x, y) }  // anywhere, mid-token
                        _ => { let x = rng.below(src.len() + 1); (x, x) }                                         // empty
                    };
                    cases += 1;
                    let rid = format!("{}.r{}", id, shape);
                    let r = stylua_lib::Range::from_values(Some(a), Some(b));
                    let o = match format_guarded(&src, cfg, Some(r)) { Outcome::Ok(o) => o, _ => { writeln!(out, "CASE {} {} {} {}:{} {} failed", rid, syn, words.join(";"), a, b, hex(src.as_bytes())).unwrap(); continue } };
                    let oitems = match collect(&o, v) { Some(x) => x, None => { writeln!(out, "CASE {} {} {} {}:{} {} noparse {}", rid, syn, words.join(";"), a, b, hex(src.as_bytes()), hex(o.as_bytes())).unwrap(); continue } };
                    if !pos_only { writeln!(out, "CASE {} {} {} {}:{} {} ok {}", rid, syn, words.join(";"), a, b, hex(src.as_bytes()), hex(o.as_bytes())).unwrap(); }
                    // should_format_node looks at the statement node, without its semicolon
                    let inside = |it: &Item| it.start >= a && it.stmt_end <= b;
                    let stm: Vec<&Item> = items.iter().filter(|x| x.kind == "stmt").collect();
                    for it in &stm {
                        let contains_inside = stm.iter().any(|x| inside(x) && it.start <= x.start && x.end <= it.end && (x.start, x.end) != (it.start, it.end));
                        let parent_inside = stm.iter().any(|x| inside(x) && x.start <= it.start && it.end <= x.end && (x.start, x.end) != (it.start, it.end));
                        let oi = oitems.iter().find(|x| x.path == it.path);
                        if inside(it) && !parent_inside {
                            let fi = fitems.iter().find(|x| x.path == it.path);
                            match (oi, fi) {
                                (Some(oi), Some(fi)) => {
                                    let (exp, obs) = (slice(&full, fi.start, fi.end), slice(&o, oi.start, oi.end));
                                    // a statement whose out-of-range parent is collapsed onto one line by the whole-file run (collapse_simple_statement):
                                    // identified by the whole-file run with collapsing switched off giving exactly the range run's text
                                    let mut class = if it.in_anon { "inrange-anon" } else { "inrange" };
                                    if exp != obs && class == "inrange" && !words.iter().any(|w| w == "collapse_simple_statement=Never") && words.iter().any(|w| w.starts_with("collapse_simple_statement=")) {
                                        let w2: Vec<String> = words.iter().map(|w| if w.starts_with("collapse_simple_statement=") { "collapse_simple_statement=Never".to_string() } else { w.clone() }).collect();
                                        let r2: Vec<&str> = w2.iter().map(|s| s.as_str()).collect();
                                        if let Outcome::Ok(f2) = format_guarded(&src, config(&r2), None) {
                                            if let Some(items2) = collect(&f2, v) {
                                                if let Some(i2) = items2.iter().find(|x| x.path == it.path) { if slice(&f2, i2.start, i2.end) == obs { class = "inrange-collapsed-parent"; } }
                                            }
                                        }
                                    }
                                    if pos_only { writeln!(out, "POS {} {} {} {} {} {} {} {} {}", rid, it.path, a, b, it.start, it.stmt_end, it.fm_end, class, (exp == obs) as u8).unwrap() }
                                    else { writeln!(out, "NODE {} {} stmt {} {} {}", rid, it.path, class, hex(exp.as_bytes()), hex(obs.as_bytes())).unwrap() }
                                }
                                _ => writeln!(out, "NODE {} {} stmt inrange - MISSING", rid, it.path).unwrap(),
                            }
                        } else if !inside(it) && !contains_inside && !parent_inside {
                            match oi {
                                Some(oi) => {
                                    // the end-position quirk (listed): full_moon reports an end before the closing bracket, the range ends in between and the
                                    // binary treats the statement as inside; the statements that contain such a statement change with it
                                    let quirk = |x: &Item| x.fm_end < x.stmt_end && x.fm_end <= b && b < x.stmt_end;
                                    let class = if quirk(it) || stm.iter().any(|x| quirk(x) && x.start >= a && it.start <= x.start && x.end <= it.end) { "outside-endquirk" } else { "outside" };
                                    // an untouched statement keeps its text with its leading trivia (comments, blank lines, the blanks in front
                                    // of it): compared from the start of its leading trivia to its last token (what trails it on its line may be
                                    // followed by the indentation of a formatted statement, which full_moon attributes to the same token)
                                    // (not when the statement before it in its block is being formatted: the comments of that statement's
                                    // semicolon may move behind the semicolon, in front of this one)
                                    let prev_formatted = match it.path.rsplit_once('.') {
                                        Some((blk, idx)) => {
                                            let prev = if idx == "last" { stm.iter().filter(|x| x.path.starts_with(&format!("{}.", blk)) && x.path != it.path && x.path.rsplit_once('.').map_or(false, |p| p.0 == blk)).map(|x| *x).last() }
                                                       else { idx.parse::<usize>().ok().and_then(|i| if i == 0 { None } else { stm.iter().find(|x| x.path == format!("{}.{}", blk, i - 1)).map(|x| *x) }) };
                                            prev.map_or(false, |p| inside(p))
                                        }
                                        None => false,
                                    };
                                    let (exp, obs) = if prev_formatted { (slice(&src, it.start, it.end), slice(&o, oi.start, oi.end)) } else { (slice(&src, it.lead, it.end), slice(&o, oi.lead, oi.end)) };
                                    if pos_only { writeln!(out, "POS {} {} {} {} {} {} {} {} {}", rid, it.path, a, b, it.start, it.stmt_end, it.fm_end, class, (exp == obs) as u8).unwrap() }
                                    else { writeln!(out, "NODE {} {} stmt {} {} {}", rid, it.path, class, hex(exp.as_bytes()), hex(obs.as_bytes())).unwrap() }
                                }
                                None => writeln!(out, "NODE {} {} stmt outside {} MISSING", rid, it.path, hex(slice(&src, it.start, it.end).as_bytes())).unwrap(),
                            }
                        }
                    }
                    // bytes before the first and after the last affected statement
                    // (a statement under the listed end-position quirk is treated as inside by the binary: it is affected too)
                    let quirk_e = |x: &Item| x.fm_end < x.stmt_end && x.fm_end <= b && b < x.stmt_end && x.start >= a;
                    let affected: Vec<&&Item> = stm.iter().filter(|x| inside(x) || quirk_e(x)).collect();
                    let (pa, pb) = if affected.is_empty() { (src.len(), src.len()) } else { (affected.iter().map(|x| x.lead).min().unwrap(), affected.iter().map(|x| x.trail_end).max().unwrap()) };
                    let prefix_ok = (affected.is_empty() && b >= src.len() && o.trim_end() == src.trim_end()) || (o.as_bytes().len() >= pa && src.as_bytes()[..pa] == o.as_bytes()[..pa]);
                    let tail = &src.as_bytes()[pb..];
                    // the suffix after the last affected statement, minus that statement's own trailing trivia (which belongs to it)
                    let eof_in_range = b >= src.len();
                    let suffix_ok = if eof_in_range { let t = |x: &str| x.trim_end().to_string(); if affected.is_empty() { t(&o) == t(&src) } else { t(&o).as_bytes().ends_with(t(std::str::from_utf8(tail).unwrap_or("")).as_bytes()) } }
                        else if affected.is_empty() { o == src } else { o.as_bytes().ends_with(tail) };
                    if !pos_only { writeln!(out, "EDGE {} {} {} {}", rid, if prefix_ok { 1 } else { 0 }, if suffix_ok { 1 } else { 0 }, affected.len()).unwrap(); }
                }
            }
        }
    }
    writeln!(out, "STATS cases={}", cases).unwrap();
}
