(* Judge of the L0 tie: the whole-formatter model Fmt0.format0 (extracted) against the binary, byte for byte; and the source
   text against the tree (erasure and comment census), so that the theorems about the tree speak about the text that was formatted.
   L0 <id> <windows> <spaces> <indent width> <quote style>/<call_parentheses>/<space_after_function_names>/<collapse_simple_statement> <tree> <source hex> <status> <output hex> <hex of the library's second pass on that output, or its status> <hex of its third pass where the second differs, else -> *)
open Util
open Fmt0
let uop = function "-" -> Expr.Neg | "not" -> Expr.Not | "#" -> Expr.Len | "~" -> Expr.BNot | s -> failwith ("uop " ^ s)
let bop = function
  | "or" -> Expr.Or | "and" -> Expr.And | "<" -> Expr.Lt | ">" -> Expr.Gt | "<=" -> Expr.Le | ">=" -> Expr.Ge | "~=" -> Expr.Ne | "==" -> Expr.Eq
  | ".." -> Expr.Concat | "+" -> Expr.Add | "-" -> Expr.Sub | "*" -> Expr.Mul | "/" -> Expr.Div | "%" -> Expr.Mod | "^" -> Expr.Pow
  | "//" -> Expr.IDiv | "&" -> Expr.BAnd | "|" -> Expr.BOr | "~" -> Expr.BXor | "<<" -> Expr.Shl | ">>" -> Expr.Shr | s -> failwith ("bop " ^ s)
open Sexp
let rec e = function
  | Lst [A "nil"] -> ENil | Lst [A "true"] -> ETrue | Lst [A "false"] -> EFalse | Lst [A "va"] -> EVararg
  | Lst [A "num"; A h] -> ENum (unhex h) | Lst [A "str"; A h] -> EStr (unhex h) | Lst [A "brk"; A l; A h] -> EBrk (int_to_nat (int_of_string l), unhex h) | Lst [A "name"; A h] -> EName (unhex h)
  | Lst [A "field"; p; A h] -> EField (e p, unhex h) | Lst [A "index"; p; k] -> EIndex (e p, e k)
  | Lst [A "call"; f; A sg; Lst a] -> ECall (e f, sg = "1", L.map e a) | Lst [A "method"; o; A m; A sg; Lst a] -> EMethod (e o, unhex m, sg = "1", L.map e a)
  | Lst [A "un"; A u; x] -> EUn (uop u, e x) | Lst [A "bin"; A b; l; r] -> EBin (bop b, e l, e r) | Lst [A "paren"; x] -> EParen (e x)
  | Lst [A "table"; Lst fs] -> ETable (L.map e fs) | Lst [A "tableml"; Lst fs] -> ETableML (L.map e fs)
  | Lst [A "fline"; A b; f; Lst t] -> FLine (b = "1", e f, (match t with [A h] -> Some (unhex h) | _ -> None)) | Lst [A "fcom"; A b; A h] -> FCom (b = "1", unhex h)
  | Lst [A "fpos"; x] -> FPos (e x) | Lst [A "fnamed"; A n; x] -> FNamed (unhex n, e x) | Lst [A "fkey"; k; x] -> FKey (e k, e x)
  | _ -> failwith "exp"
let names = function Lst l -> L.map (function A h -> unhex h | _ -> failwith "name") l | _ -> failwith "names"
let es = function Lst l -> L.map e l | _ -> failwith "exps"
let tv = function Lst l -> L.map (function Lst [A b; A h] -> (b = "1", unhex h) | _ -> failwith "trivia") l | _ -> failwith "trivia"
let rec s = function
  | Lst [A "local"; ns; x] -> SLocal (names ns, es x) | Lst [A "assign"; v; x] -> SAssign (es v, es x) | Lst [A "callst"; x] -> SCall (e x)
  | Lst [A "do"; b] -> SDo (blk b) | Lst [A "while"; c; b] -> SWhile (e c, blk b) | Lst [A "repeat"; b; c] -> SRepeat (blk b, e c)
  | Lst [A "if"; c; t; r] -> SIf (e c, blk t, els r)
  | Lst [A "numfor"; A v; a; b; Lst st; body] -> SNumFor (unhex v, e a, e b, (match st with [x] -> Some (e x) | _ -> None), blk body)
  | Lst [A "genfor"; ns; x; body] -> SGenFor (names ns, es x, blk body)
  | Lst [A "function"; p; Lst m; ps; A va; body] -> SFunction (names p, (match m with [A h] -> Some (unhex h) | _ -> None), names ps, va = "1", blk body)
  | Lst [A "localfunction"; A n; ps; A va; body] -> SLocalFunction (unhex n, names ps, va = "1", blk body)
  | Lst [A "return"; x] -> SReturn (es x) | Lst [A "break"] -> SBreak
  | _ -> failwith "stmt"
and item = function
  | Lst [A "item"; lead; A blank; st; Lst tr] -> Item (tv lead, blank = "1", s st, (match tr with [A h] -> Some (unhex h) | _ -> None))
  | _ -> failwith "item"
and blk = function Lst [A "blk"; Lst is; tl] -> Blk (L.map item is, tv tl) | _ -> failwith "block"
and els = function
  | Lst [A "noelse"] -> NoElse | Lst [A "else"; b] -> Else (blk b) | Lst [A "elseif"; c; t; r] -> ElseIf (e c, blk t, els r)
  | _ -> failwith "els"

let max_samples = try int_of_string (Sys.getenv "L0_SAMPLES") with _ -> 3
let records = ref 0 and bad = ref 0 and changed = ref 0 and samples = ref 0 and bytes = ref 0
(* C06: records whose tree meets the premise of Fmt0Idem.norm0_idempotent; records the library changes on a second pass; those the model predicts *)
let premise = ref 0 and nonidem = ref 0 and predicted = ref 0
let report k id = incr bad; Printf.printf "BAD %s %s\n" k id
let handle line = match words line with
  | ["L0"; id; win; spaces; width; style; tree; src; status; out; out2; out3] ->
    incr records;
    if status <> "ok" then report ("format-" ^ status) id
    else begin
      let style, callp, space, coll = match Stdlib.String.split_on_char '/' style with [a; b; c; d] -> a, b, c, d | _ -> failwith "options" in
      let cfg = { windows0 = (win = "1"); spaces0 = (spaces = "1"); width0 = int_to_nat (int_of_string width);
                  style0 = (match style with "AutoPreferDouble" -> QuoteMore.AutoDouble | "AutoPreferSingle" -> QuoteMore.AutoSingle | "ForceDouble" -> QuoteMore.ForceDouble | "ForceSingle" -> QuoteMore.ForceSingle | _ -> failwith "style");
                  callp0 = (match callp with "Always" -> CallForm.Always | "NoSingleString" -> CallForm.NoSingleString | "NoSingleTable" -> CallForm.NoSingleTable | "None" -> CallForm.NoneM | "Input" -> CallForm.Input | _ -> failwith "callp");
                  space0 = (match space with "Never" -> CallForm.SNever | "Definitions" -> CallForm.SDefinitions | "Calls" -> CallForm.SCalls | "Always" -> CallForm.SAlways | _ -> failwith "space");
                  collapse0 = (match coll with "Never" -> CNever | "FunctionOnly" -> CFunction | "ConditionalOnly" -> CConditional | "Always" -> CAlways | _ -> failwith "collapse") } in
      match (try Some (blk (Sexp.parse tree)) with Failure _ -> None) with
      | None -> report "unreadable-tree" id
      | Some p ->
        (* the premises that connect the theorems about the tree to the source TEXT: the source lexes (Coq lexer) to tokens with
           the erasure and the comment census of the tree's own print-out *)
        let v51 = { Lex.v52 = false; v53 = false; v54 = false; vluau = false; vjit = false } in
        (match Lex.lex v51 (unhex src) with
         | None -> report "source-does-not-lex" id
         | Some ts ->
           let printed = pprog cfg p in
           if Census.erase Census.D51 ts <> Census.erase Census.D51 printed then report "source-erasure-differs-from-the-tree" id
           else if not (Census.census_eq (Census.census ts) (Census.census printed)) then report "source-comments-differ-from-the-tree" id);
        let model = format0 cfg p and o = unhex out in
        bytes := !bytes + L.length o;
        if o <> unhex src then incr changed;
        if model <> o then (report "binary-differs-from-the-L0-model" id; if !samples < max_samples && win = "0" && spaces = "0" then (incr samples; Printf.printf "SAMPLE %s model=%s\n" id (hex model)))
        else begin
          (* the second pass: the library on its own output against the model on the tree it wrote.  Where the two passes of the
             model differ the premise of the idempotence theorem fails (a double minus): the listed finding, counted; a second pass
             of the library that differs from the model's is a disagreement *)
          let gf = guard_free p in
          if gf then incr premise;
          if Stdlib.String.length out2 = 0 || Stdlib.String.get out2 0 <> '#' then report ("second-pass-" ^ out2) id
          else begin
            let o2 = unhex out2 and model2 = format0 cfg (norm0 cfg p) in
            if o2 <> o then incr nonidem;
            if model2 <> model then (incr predicted; Printf.printf "NONIDEM %s\n" id);
            if out3 <> "-" && out3 <> out2 then report "third-pass-differs-from-the-second" id;
            if model2 <> o2 then report "second-pass-differs-from-the-L0-model" id
            else if gf && o2 <> o then report "second-pass-differs-under-the-premise-of-the-idempotence-theorem" id
          end
        end
    end
  | "UNPARSED" :: id :: _ -> report "generated-program-does-not-parse" id
  | "STATS" :: _ -> print_endline line
  | [] -> ()
  | _ -> report "unreadable-record" "?"
let () = iter_lines handle; Printf.printf "SUMMARY records=%d nontrivial=%d output_bytes=%d idempotence_premise_holds=%d second_pass_differs=%d second_pass_difference_predicted=%d bad=%d\n" !records !changed !bytes !premise !nonidem !predicted !bad
