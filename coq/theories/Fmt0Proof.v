(* Theorems about the L0 whole-formatter model (Fmt0.v), for every program of the fragment and every whitespace
   configuration:
     - C02: normalisation changes nothing the semantic erasure sees, and keeps the operator grouping;
     - C10: the output passes the whitespace discipline Census.ws_check;
     - C06: normalisation is NOT idempotent in general (witness: `x = (- -f())`), it is on expressions without a
       parenthesised double minus ... see nexp_not_idempotent_refuted. *)
From Coq Require Import List Ascii String Bool Arith Lia.
Import ListNotations.
From SV Require Import Lex LexRender Expr Parens ParensProof Census EraseProof Fmt0.
From SV Require QuoteMore.
Notation tok := Lex.tok (only parsing).

(* ---------- induction over expressions with their argument / field lists ---------- *)
Section ExpInd.
Variable P : exp -> Prop.
Hypothesis Hnil : P ENil. Hypothesis Htrue : P ETrue. Hypothesis Hfalse : P EFalse. Hypothesis Hva : P EVararg.
Hypothesis Hnum : forall s, P (ENum s). Hypothesis Hstr : forall s, P (EStr s). Hypothesis Hname : forall n, P (EName n).
Hypothesis Hfield : forall p n, P p -> P (EField p n).
Hypothesis Hindex : forall p k, P p -> P k -> P (EIndex p k).
Hypothesis Hcall : forall f args, P f -> Forall P args -> P (ECall f args).
Hypothesis Hmethod : forall o m args, P o -> Forall P args -> P (EMethod o m args).
Hypothesis Hun : forall u e, P e -> P (EUn u e).
Hypothesis Hbin : forall b l r, P l -> P r -> P (EBin b l r).
Hypothesis Hparen : forall e, P e -> P (EParen e).
Hypothesis Htable : forall fs, Forall P fs -> P (ETable fs).
Hypothesis Hfpos : forall e, P e -> P (FPos e).
Hypothesis Hfnamed : forall n e, P e -> P (FNamed n e).
Hypothesis Hfkey : forall k e, P k -> P e -> P (FKey k e).
Fixpoint exp_ind' (e : exp) : P e :=
  let all := fix all (l : list exp) : Forall P l := match l with [] => Forall_nil P | x :: r => Forall_cons x (exp_ind' x) (all r) end in
  match e with
  | ENil => Hnil | ETrue => Htrue | EFalse => Hfalse | EVararg => Hva
  | ENum s => Hnum s | EStr s => Hstr s | EName n => Hname n
  | EField p n => Hfield p n (exp_ind' p)
  | EIndex p k => Hindex p k (exp_ind' p) (exp_ind' k)
  | ECall f args => Hcall f args (exp_ind' f) (all args)
  | EMethod o m args => Hmethod o m args (exp_ind' o) (all args)
  | EUn u x => Hun u x (exp_ind' x)
  | EBin b l r => Hbin b l r (exp_ind' l) (exp_ind' r)
  | EParen x => Hparen x (exp_ind' x)
  | ETable fs => Htable fs (all fs)
  | FPos x => Hfpos x (exp_ind' x)
  | FNamed n x => Hfnamed n x (exp_ind' x)
  | FKey k x => Hfkey k x (exp_ind' k) (exp_ind' x)
  end.
End ExpInd.

(* ---------- C02 (a): the operator shape of the normalised expression is Parens.fmt_single of the shape ---------- *)
Lemma shape_guard u x : shape (guard0 u x) = guard u (shape x).
Proof. unfold guard0, guard. destruct u; try reflexivity. destruct (starts_neg (shape x)); reflexivity. Qed.
Lemma shape_nexp : forall e c, shape (nexp c e) = fmt_single c (shape e).
Proof.
  induction e using exp_ind'; intros c; cbn [nexp shape fmt_single]; try reflexivity.
  - rewrite shape_guard, IHe. reflexivity.
  - rewrite IHe1, IHe2. reflexivity.
  - destruct (droppable c (shape e)); [apply IHe|]. cbn [shape]. rewrite IHe. reflexivity.
Qed.
(* ... hence every layout theorem of ParensProof applies to what L0 prints *)
Theorem nexp_keeps_grouping e c : Sm (shape (nexp c e)) = Sm (shape e).
Proof. rewrite shape_nexp. apply (R_sem c). apply fmt_single_R. Qed.
Theorem nexp_no_double_minus e c : can (shape e) = true -> no_double_minus (shape (nexp c e)) = true.
Proof. intros H. rewrite shape_nexp. apply (R_no_double_minus c (shape e)); [apply fmt_single_R|exact H]. Qed.

(* ---------- C02 (b): the erasure of the printed tokens is untouched by normalisation ---------- *)
Section Erase.
Variable d : dial.
Variable st : QuoteMore.style.
Notation pexp := (Fmt0.pexp st).
Lemma erase_kw_paren_l r : erase d (kw "(" :: r) = erase d r. Proof. reflexivity. Qed.
Lemma erase_kw_paren_r : erase d [kw ")"] = []. Proof. reflexivity. Qed.
Lemma erase_commas l : erase d (commas l) = List.concat (map (erase d) l).
Proof.
  induction l as [|x r IH]; [reflexivity|]. destruct r as [|y r'].
  - cbn [commas map List.concat]. rewrite app_nil_r. reflexivity.
  - change (commas (x :: y :: r')) with (x ++ kw "," :: sp :: commas (y :: r')).
    rewrite erase_app. change (erase d (kw "," :: sp :: commas (y :: r'))) with (erase d (commas (y :: r'))).
    rewrite IH. reflexivity.
Qed.
Lemma map_ext_Forall {A B} (f g : A -> B) l : Forall (fun x => f x = g x) l -> map f l = map g l.
Proof. induction 1; cbn; congruence. Qed.
Lemma erase_cons t r r' : erase d r = erase d r' -> erase d (t :: r) = erase d (t :: r').
Proof. intros H. destruct t; cbn [erase]; rewrite H; reflexivity. Qed.
Lemma erase_app_congr a a' b b' : erase d a = erase d a' -> erase d b = erase d b' -> erase d (a ++ b) = erase d (a' ++ b').
Proof. intros H1 H2. rewrite !erase_app, H1, H2. reflexivity. Qed.
Lemma erase_commas_congr (f g : exp -> list tok) l :
  Forall (fun x => erase d (f x) = erase d (g x)) l -> erase d (commas (map f l)) = erase d (commas (map g l)).
Proof.
  intros H. rewrite !erase_commas, !map_map. f_equal. induction H as [|x r Hx Hr IH]; cbn [map]; [reflexivity|]. rewrite Hx, IH. reflexivity.
Qed.
Lemma erase_parens x : erase d (kw "(" :: pexp x ++ [kw ")"]) = erase d (pexp x).
Proof. rewrite erase_kw_paren_l, erase_app, erase_kw_paren_r, app_nil_r. reflexivity. Qed.
Lemma erase_guard u x : erase d (pexp (guard0 u x)) = erase d (pexp x).
Proof.
  unfold guard0. destruct u; try reflexivity. destruct (starts_neg (shape x)); [|reflexivity].
  cbn [pexp]. apply erase_parens.
Qed.
Ltac congr := repeat first [ reflexivity | assumption | apply erase_app_congr | apply erase_cons ].
Lemma erase_pexp_nexp : forall e c, erase d (pexp (nexp c e)) = erase d (pexp e).
Proof.
  induction e using exp_ind'; intros c; cbn [nexp]; try reflexivity.
  - (* EField *) cbn [pexp]. congr. apply IHe.
  - (* EIndex *) cbn [pexp]. congr; [apply IHe1|apply IHe2].
  - (* ECall *) cbn [pexp]. rewrite map_map. congr; [apply IHe|].
    apply (erase_commas_congr (fun x => pexp (nexp Std x)) (fun x => pexp x)). eapply Forall_impl; [|exact H]. intros a Ha. apply Ha.
  - (* EMethod *) cbn [pexp]. rewrite map_map. congr; [apply IHe|].
    apply (erase_commas_congr (fun x => pexp (nexp Std x)) (fun x => pexp x)). eapply Forall_impl; [|exact H]. intros a Ha. apply Ha.
  - (* EUn *) cbn [pexp]. congr. rewrite erase_guard. apply IHe.
  - (* EBin *) cbn [pexp]. congr; [apply IHe1|apply IHe2].
  - (* EParen *) destruct (droppable c (shape e)).
    + rewrite IHe. cbn [pexp]. symmetry. apply erase_parens.
    + cbn [pexp]. congr. apply IHe.
  - (* ETable *) destruct fs as [|f fs]; [reflexivity|].
    change (nexp c (ETable (f :: fs))) with (ETable (map (nexp Std) (f :: fs))).
    change (pexp (ETable (map (nexp Std) (f :: fs)))) with (kw "{" :: sp :: commas (map pexp (map (nexp Std) (f :: fs))) ++ [sp; kw "}"]).
    change (pexp (ETable (f :: fs))) with (kw "{" :: sp :: commas (map pexp (f :: fs)) ++ [sp; kw "}"]).
    rewrite map_map. congr.
    apply (erase_commas_congr (fun x => pexp (nexp Std x)) (fun x => pexp x)). eapply Forall_impl; [|exact H]. intros a Ha. apply Ha.
  - (* FPos *) cbn [pexp]. apply IHe.
  - (* FNamed *) cbn [pexp]. congr. apply IHe.
  - (* FKey *) cbn [pexp]. congr; [apply IHe1|apply IHe2].
Qed.
End Erase.

(* ---------- statements: unfolding equations and induction with the nested blocks ---------- *)
Definition fbody (c : cfg0) (d : nat) (b : list stmt) : list tok :=
  match b with [] => [sp; kw "end"] | _ => eol c :: pblock c (S d) b ++ indent c d ++ [kw "end"] end.
Section Unfold.
Variables (c : cfg0) (d : nat).
Notation pexp := (Fmt0.pexp (style0 c)).
Notation pexps := (Fmt0.pexps (style0 c)).
Lemma p_do b : pstmt c d (SDo b) = kw "do" :: eol c :: pblock c (S d) b ++ indent c d ++ [kw "end"]. Proof. reflexivity. Qed.
Lemma p_while e b : pstmt c d (SWhile e b) = kw "while" :: sp :: pexp e ++ sp :: kw "do" :: eol c :: pblock c (S d) b ++ indent c d ++ [kw "end"]. Proof. reflexivity. Qed.
Lemma p_repeat b e : pstmt c d (SRepeat b e) = kw "repeat" :: eol c :: pblock c (S d) b ++ indent c d ++ kw "until" :: sp :: pexp e. Proof. reflexivity. Qed.
Lemma p_if e t r : pstmt c d (SIf e t r) = kw "if" :: sp :: pexp e ++ sp :: kw "then" :: eol c :: pblock c (S d) t ++ pels c d r ++ indent c d ++ [kw "end"]. Proof. reflexivity. Qed.
Lemma p_numfor v a b st body : pstmt c d (SNumFor v a b st body) =
  kw "for" :: sp :: TIdent v :: sp :: kw "=" :: sp :: pexp a ++ kw "," :: sp :: pexp b ++
  (match st with Some x => kw "," :: sp :: pexp x | None => [] end) ++ sp :: kw "do" :: eol c :: pblock c (S d) body ++ indent c d ++ [kw "end"]. Proof. reflexivity. Qed.
Lemma p_genfor ns es body : pstmt c d (SGenFor ns es body) =
  kw "for" :: sp :: pnames ns ++ sp :: kw "in" :: sp :: pexps es ++ sp :: kw "do" :: eol c :: pblock c (S d) body ++ indent c d ++ [kw "end"]. Proof. reflexivity. Qed.
Lemma p_function p m ps va body : pstmt c d (SFunction p m ps va body) =
  kw "function" :: sp :: dotted p ++ (match m with Some n => [kw ":"; TIdent n] | None => [] end) ++ pparams ps va ++ fbody c d body. Proof. destruct body; reflexivity. Qed.
Lemma p_localfunction n ps va body : pstmt c d (SLocalFunction n ps va body) =
  kw "local" :: sp :: kw "function" :: sp :: TIdent n :: pparams ps va ++ fbody c d body. Proof. destruct body; reflexivity. Qed.
Lemma p_else b : pels c d (Else b) = indent c d ++ kw "else" :: eol c :: pblock c (S d) b. Proof. reflexivity. Qed.
Lemma p_elseif e t r : pels c d (ElseIf e t r) = indent c d ++ kw "elseif" :: sp :: pexp e ++ sp :: kw "then" :: eol c :: pblock c (S d) t ++ pels c d r. Proof. reflexivity. Qed.
Lemma pblock_cons s r : pblock c d (s :: r) = indent c d ++ pstmt c d s ++ eol c :: pblock c d r.
Proof. unfold pblock. cbn [map List.concat]. rewrite <- !app_assoc. reflexivity. Qed.
End Unfold.

Section StmtInd.
Variables (P : stmt -> Prop) (Q : els -> Prop).
Hypothesis Hlocal : forall ns es, P (SLocal ns es).
Hypothesis Hassign : forall vs es, P (SAssign vs es).
Hypothesis Hcall : forall e, P (SCall e).
Hypothesis Hdo : forall b, Forall P b -> P (SDo b).
Hypothesis Hwhile : forall e b, Forall P b -> P (SWhile e b).
Hypothesis Hrepeat : forall b e, Forall P b -> P (SRepeat b e).
Hypothesis Hif : forall e t r, Forall P t -> Q r -> P (SIf e t r).
Hypothesis Hnumfor : forall v a b st body, Forall P body -> P (SNumFor v a b st body).
Hypothesis Hgenfor : forall ns es body, Forall P body -> P (SGenFor ns es body).
Hypothesis Hfunction : forall p m ps va body, Forall P body -> P (SFunction p m ps va body).
Hypothesis Hlocalfunction : forall n ps va body, Forall P body -> P (SLocalFunction n ps va body).
Hypothesis Hreturn : forall es, P (SReturn es).
Hypothesis Hbreak : P SBreak.
Hypothesis Hnoelse : Q NoElse.
Hypothesis Helse : forall b, Forall P b -> Q (Else b).
Hypothesis Helseif : forall e t r, Forall P t -> Q r -> Q (ElseIf e t r).
Fixpoint stmt_ind' (s : stmt) : P s :=
  let all := fix all (l : list stmt) : Forall P l := match l with [] => Forall_nil P | x :: r => Forall_cons x (stmt_ind' x) (all r) end in
  let els' := fix els' (r : els) : Q r :=
    match r with NoElse => Hnoelse | Else b => Helse b (all b) | ElseIf e t r2 => Helseif e t r2 (all t) (els' r2) end in
  match s with
  | SLocal ns es => Hlocal ns es | SAssign vs es => Hassign vs es | SCall e => Hcall e
  | SDo b => Hdo b (all b) | SWhile e b => Hwhile e b (all b) | SRepeat b e => Hrepeat b e (all b)
  | SIf e t r => Hif e t r (all t) (els' r)
  | SNumFor v a b st body => Hnumfor v a b st body (all body)
  | SGenFor ns es body => Hgenfor ns es body (all body)
  | SFunction p m ps va body => Hfunction p m ps va body (all body)
  | SLocalFunction n ps va body => Hlocalfunction n ps va body (all body)
  | SReturn es => Hreturn es | SBreak => Hbreak
  end.
End StmtInd.

(* ---------- C02 on whole programs: normalisation is invisible to the semantic erasure ---------- *)
Opaque pblock.
Section EraseProg.
Variables (dl : dial) (c : cfg0).
Notation pexp := (Fmt0.pexp (style0 c)).
Notation pexps := (Fmt0.pexps (style0 c)).
Ltac congr := repeat first [ reflexivity | assumption | apply erase_app_congr | apply erase_cons ].
Lemma erase_ncond e : erase dl (pexp (ncond e)) = erase dl (pexp e).
Proof.
  destruct e; try apply erase_pexp_nexp. unfold ncond. rewrite erase_pexp_nexp. cbn [pexp]. symmetry. apply erase_parens.
Qed.
Lemma erase_pexps es : erase dl (pexps (nexps es)) = erase dl (pexps es).
Proof.
  unfold pexps, nexps. rewrite map_map. apply (erase_commas_congr dl (fun x => pexp (nexp Std x)) (fun x => pexp x)).
  apply Forall_forall. intros x _. apply erase_pexp_nexp.
Qed.
Definition Ps (s : stmt) : Prop := forall d, erase dl (pstmt c d (nstmt s)) = erase dl (pstmt c d s).
Definition Qe (r : els) : Prop := forall d, erase dl (pels c d (nels r)) = erase dl (pels c d r).
Lemma erase_pblock b : Forall Ps b -> forall d, erase dl (pblock c d (map nstmt b)) = erase dl (pblock c d b).
Proof.
  induction 1 as [|s r Hs Hr IH]; intros d; [reflexivity|]. cbn [map]. rewrite !pblock_cons. congr; [apply Hs|apply IH].
Qed.
Lemma erase_fbody b : Forall Ps b -> forall d, erase dl (fbody c d (map nstmt b)) = erase dl (fbody c d b).
Proof.
  intros H d. destruct b as [|s r]; [reflexivity|].
  change (fbody c d (map nstmt (s :: r))) with (eol c :: pblock c (S d) (map nstmt (s :: r)) ++ indent c d ++ [kw "end"]).
  change (fbody c d (s :: r)) with (eol c :: pblock c (S d) (s :: r) ++ indent c d ++ [kw "end"]).
  apply erase_cons. apply erase_app_congr; [apply (erase_pblock (s :: r) H)|reflexivity].
Qed.
Lemma erase_pstmt_nstmt : forall s, Ps s.
Proof.
  apply (stmt_ind' Ps Qe); unfold Ps, Qe; intros.
  - (* SLocal *) cbn [nstmt]. destruct es as [|e es']; [reflexivity|].
    change (nexps (e :: es')) with (nexp Std e :: nexps es'). cbn [pstmt]. congr.
    change (nexp Std e :: nexps es') with (nexps (e :: es')). apply erase_pexps.
  - (* SAssign *) cbn [nstmt pstmt]. congr; apply erase_pexps.
  - (* SCall *) cbn [nstmt pstmt]. apply erase_pexp_nexp.
  - (* SDo *) cbn [nstmt]. rewrite !p_do. congr. apply erase_pblock. assumption.
  - (* SWhile *) cbn [nstmt]. rewrite !p_while. congr; [apply erase_ncond|apply erase_pblock; assumption].
  - (* SRepeat *) cbn [nstmt]. rewrite !p_repeat. congr; [apply erase_pblock; assumption|apply erase_ncond].
  - (* SIf *) cbn [nstmt]. rewrite !p_if. congr; [apply erase_ncond|apply erase_pblock; assumption|apply H0].
  - (* SNumFor *) cbn [nstmt]. rewrite !p_numfor. congr; try apply erase_pexp_nexp; [|apply erase_pblock; assumption].
    destruct st as [x|]; cbn [option_map]; congr. apply erase_pexp_nexp.
  - (* SGenFor *) cbn [nstmt]. rewrite !p_genfor. congr; [apply erase_pexps|apply erase_pblock; assumption].
  - (* SFunction *) cbn [nstmt]. rewrite !p_function. congr. apply erase_fbody. assumption.
  - (* SLocalFunction *) cbn [nstmt]. rewrite !p_localfunction. congr. apply erase_fbody. assumption.
  - (* SReturn *) cbn [nstmt]. destruct es as [|e es']; [reflexivity|].
    change (nexps (e :: es')) with (nexp Std e :: nexps es'). cbn [pstmt]. congr.
    change (nexp Std e :: nexps es') with (nexps (e :: es')). apply erase_pexps.
  - (* SBreak *) reflexivity.
  - (* NoElse *) reflexivity.
  - (* Else *) cbn [nels]. rewrite !p_else. congr. apply erase_pblock. assumption.
  - (* ElseIf *) cbn [nels]. rewrite !p_elseif. congr; [apply erase_ncond|apply erase_pblock; assumption|apply H0].
Qed.
Theorem format0_keeps_erasure p : erase dl (pprog c (nprog p)) = erase dl (pprog c p).
Proof. unfold pprog, nprog. apply erase_pblock. apply Forall_forall. intros s _. apply erase_pstmt_nstmt. Qed.
End EraseProg.
Transparent pblock.

(* ---------- C10 on whole programs: the printed tokens pass the whitespace discipline ---------- *)
Section Whitespace.
Variable c : cfg0.
Notation pexp := (Fmt0.pexp (style0 c)).
Notation pexps := (Fmt0.pexps (style0 c)).
Definition wcfg (eof : bool) : wscfg := {| windows := windows0 c; spaces := spaces0 c; width := width0 c; eof_formatted := eof |}.
(* the scan of Census.ws_scan on comment-free token lists, as a state machine (state: "at the start of a line");
   it is stricter than ws_scan in one place: an indentation is judged even when nothing follows it *)
Definition step (b : bool) (t : tok) : option bool :=
  match t with
  | TWs s => if negb (newlines_ok (windows0 c) s) then None
             else if ends_in_lf s then Some true
             else if b then (if indent_ok (wcfg false) s then Some false else None) else Some false
  | TLineCom _ | TShebang _ | TBlockCom _ _ => None
  | _ => Some false
  end.
Fixpoint run (b : bool) (ts : list tok) : option bool :=
  match ts with [] => Some b | t :: r => match step b t with Some b' => run b' r | None => None end end.
Lemma run_sound eof : forall ts b b', run b ts = Some b' -> ws_scan (wcfg eof) b false ts = None.
Proof.
  induction ts as [|t r IH]; intros b b' H; [reflexivity|].
  cbn [run] in H. destruct (step b t) as [b1|] eqn:S; [|discriminate].
  destruct t; cbn [step] in S; try discriminate; cbn [ws_scan]; try (eapply IH; injection S as <-; exact H).
  cbn [windows wcfg]. destruct (newlines_ok (windows0 c) s); cbn [negb] in *; [|discriminate].
  destruct (ends_in_lf s); [injection S as <-; eapply IH; exact H|].
  destruct b.
  - change (indent_ok (wcfg eof) s) with (indent_ok (wcfg false) s).
    destruct (indent_ok (wcfg false) s); [|discriminate]. injection S as <-. destruct r; [reflexivity|]. eapply IH; exact H.
  - injection S as <-. eapply IH; exact H.
Qed.
Lemma run_app a r b : run b (a ++ r) = match run b a with Some b' => run b' r | None => None end.
Proof. revert b. induction a as [|t a IH]; intros b; [reflexivity|]. cbn [app run]. destruct (step b t); [apply IH|reflexivity]. Qed.

Definition plain (t : tok) : bool := match t with TWs _ | TLineCom _ | TShebang _ | TBlockCom _ _ => false | _ => true end.
Lemma run_plain t r b : plain t = true -> run b (t :: r) = run false r.
Proof. destruct t; try discriminate; reflexivity. Qed.
Lemma run_kw s r b : run b (kw s :: r) = run false r. Proof. reflexivity. Qed.
Lemma run_sp r : run false (sp :: r) = run false r.
Proof. cbn [run step sp]. destruct (windows0 c); reflexivity. Qed.
Lemma run_eol r b : run b (eol c :: r) = run true r.
Proof. unfold eol. cbn [run step]. destruct (windows0 c); reflexivity. Qed.
Lemma forallb_repeat (f : ascii -> bool) x n : f x = true -> forallb f (repeat x n) = true.
Proof. intros H. induction n as [|n IH]; cbn; [reflexivity|]. rewrite H, IH. reflexivity. Qed.
Lemma newlines_ok_blanks win x n : Ascii.eqb x CR = false -> Ascii.eqb x LF = false -> newlines_ok win (repeat x n) = true.
Proof. intros A B. induction n as [|n IH]; cbn [repeat newlines_ok]; [reflexivity|]. unfold Quote.eqc, Lex.eqc. rewrite A, B. exact IH. Qed.
Lemma ends_in_lf_blanks x n : Ascii.eqb x LF = false -> ends_in_lf (repeat x n) = false.
Proof.
  intros A. unfold ends_in_lf, Quote.eqc, Lex.eqc. destruct (rev (repeat x n)) as [|y r] eqn:E; [reflexivity|].
  assert (In y (repeat x n)) as I by (apply in_rev; rewrite E; left; reflexivity).
  apply repeat_spec in I. subst y. exact A.
Qed.
Lemma run_indent d r : run true (indent c d ++ r) = run (match d with O => true | _ => false end) r.
Proof.
  destruct d as [|d]; [reflexivity|]. unfold indent. cbn [app run step].
  destruct (spaces0 c) eqn:Sp.
  - rewrite newlines_ok_blanks, ends_in_lf_blanks by reflexivity. cbn [negb].
    unfold indent_ok. cbn [spaces wcfg width]. rewrite Sp, forallb_repeat by reflexivity. cbn [andb].
    destruct (width0 c) as [|w] eqn:W; [reflexivity|]. rewrite repeat_length.
    replace (Nat.modulo (S d * S w) (S w)) with 0; [reflexivity|]. symmetry. apply Nat.mod_mul. discriminate.
  - rewrite newlines_ok_blanks, ends_in_lf_blanks by reflexivity. cbn [negb].
    unfold indent_ok. cbn [spaces wcfg]. rewrite Sp, forallb_repeat by reflexivity. reflexivity.
Qed.

(* expressions never contain a line break: whatever the state before, the state after is "inside a line" *)
Definition inline (x : list tok) : Prop := forall b, run b x = Some false.
Lemma run_commas l : Forall inline l -> forall b, run b (commas l) = Some (match l with [] => b | _ => false end).
Proof.
  induction 1 as [|x r Hx Hr IH]; intros b; [reflexivity|]. destruct r as [|y r'].
  - cbn [commas]. apply Hx.
  - change (commas (x :: y :: r')) with (x ++ kw "," :: sp :: commas (y :: r')).
    rewrite run_app, Hx, run_kw, run_sp. apply IH.
Qed.
Lemma inline_commas_ne l : l <> [] -> Forall inline l -> inline (commas l).
Proof. intros N H b. rewrite run_commas by exact H. destruct l; [contradiction|reflexivity]. Qed.
Lemma run_commas_false l : Forall inline l -> run false (commas l) = Some false.
Proof. intros H. rewrite run_commas by exact H. destruct l; reflexivity. Qed.
Lemma inline_pexp : forall e, inline (pexp e).
Proof.
  induction e using exp_ind'; intros b0; cbn [pexp]; try reflexivity.
  - rewrite run_app, IHe. reflexivity.
  - rewrite run_app, IHe1, run_kw, run_app, IHe2. reflexivity.
  - rewrite run_app, IHe, run_kw, run_app, run_commas_false; [reflexivity|]. apply Forall_map. exact H.
  - rewrite run_app, IHe, run_kw. rewrite run_plain by reflexivity. rewrite run_kw, run_app, run_commas_false; [reflexivity|]. apply Forall_map. exact H.
  - rewrite run_app. destruct u; cbn [uop_toks]; try (rewrite run_kw; cbn [run]; apply IHe).
  - rewrite run_app, IHe1, run_sp, run_kw, run_sp. apply IHe2.
  - rewrite run_kw, run_app, IHe. reflexivity.
  - destruct fs as [|f fs]; [reflexivity|]. rewrite run_kw, run_sp, run_app.
    rewrite (inline_commas_ne (map pexp (f :: fs))); [rewrite run_sp; reflexivity|discriminate|]. apply Forall_map. exact H.
  - apply IHe.
  - rewrite run_plain by reflexivity. rewrite run_sp, run_kw, run_sp. apply IHe.
  - rewrite run_kw, run_app, IHe1, run_kw, run_sp, run_kw, run_sp. apply IHe2.
Qed.
Lemma inline_pexps_false es : run false (pexps es) = Some false.
Proof. apply run_commas_false. apply Forall_map. apply Forall_forall. intros x _. apply inline_pexp. Qed.
Lemma inline_pnames_false ns : run false (pnames ns) = Some false.
Proof. apply run_commas_false. apply Forall_map. apply Forall_forall. intros x _ b. reflexivity. Qed.
Lemma run_dotted p : run false (dotted p) = Some false.
Proof. induction p as [|n r IH]; [reflexivity|]. destruct r; [reflexivity|]. change (dotted (n :: b :: r)) with (TIdent n :: kw "." :: dotted (b :: r)). rewrite run_plain by reflexivity. rewrite run_kw. exact IH. Qed.
Lemma run_pparams ps va r : run false (pparams ps va ++ r) = run false r.
Proof.
  unfold pparams. cbn [app]. rewrite run_kw, <- app_assoc, run_app, run_commas_false; [reflexivity|].
  apply Forall_app. split; [apply Forall_map; apply Forall_forall; intros x _ b; reflexivity|]. destruct va; [repeat constructor; intros b; reflexivity|constructor].
Qed.

(* the one shape the grammar excludes and the printer would misplace: an assignment without a target *)
Fixpoint wf_stmt (s : stmt) : Prop :=
  let all := fix all (l : list stmt) : Prop := match l with [] => True | x :: r => wf_stmt x /\ all r end in
  match s with
  | SAssign vs _ => vs <> []
  | SDo b | SWhile _ b | SRepeat b _ | SNumFor _ _ _ _ b | SGenFor _ _ b | SFunction _ _ _ _ b | SLocalFunction _ _ _ b => all b
  | SIf _ t r => all t /\ (fix wfe (r : els) : Prop := match r with NoElse => True | Else b => all b | ElseIf _ t2 r2 => all t2 /\ wfe r2 end) r
  | _ => True
  end.
Fixpoint wf_block (l : list stmt) : Prop := match l with [] => True | x :: r => wf_stmt x /\ wf_block r end.
Fixpoint wf_els (r : els) : Prop := match r with NoElse => True | Else b => wf_block b | ElseIf _ t2 r2 => wf_block t2 /\ wf_els r2 end.
Lemma wf_block_Forall l (P : stmt -> Prop) : Forall (fun s => wf_stmt s -> P s) l -> wf_block l -> Forall P l.
Proof. induction 1 as [|x r Hx Hr IH]; intros W; [constructor|]. destruct W as [W1 W2]. constructor; [apply Hx, W1|apply IH, W2]. Qed.

Definition Pw (s : stmt) : Prop := wf_stmt s -> forall d b, run b (pstmt c d s) = Some false.
Definition Qw (r : els) : Prop := wf_els r -> forall d, run true (pels c d r) = Some true.
Lemma run_pblock l : Forall (fun s => forall d b, run b (pstmt c d s) = Some false) l -> forall d, run true (pblock c d l) = Some true.
Proof.
  induction 1 as [|s r Hs Hr IH]; intros d; [reflexivity|].
  rewrite pblock_cons, run_indent, run_app, Hs, run_eol. apply IH.
Qed.
Lemma run_block_end l d : Forall (fun s => forall d b, run b (pstmt c d s) = Some false) l ->
  run true (pblock c (S d) l ++ indent c d ++ [kw "end"]) = Some false.
Proof. intros H. rewrite run_app, run_pblock by exact H. rewrite run_indent. reflexivity. Qed.
Lemma run_fbody l d : Forall (fun s => forall d b, run b (pstmt c d s) = Some false) l -> run false (fbody c d l) = Some false.
Proof.
  intros H. destruct l as [|s r]; [unfold fbody; rewrite run_sp; reflexivity|].
  change (fbody c d (s :: r)) with (eol c :: pblock c (S d) (s :: r) ++ indent c d ++ [kw "end"]). rewrite run_eol. apply run_block_end. exact H.
Qed.
Opaque pblock.
Lemma stmt_discipline : forall s, Pw s.
Proof.
  apply (stmt_ind' Pw Qw); unfold Pw, Qw; intros.
  - (* SLocal *) destruct es as [|e es']; cbn [pstmt]; rewrite run_kw, run_sp.
    + apply inline_pnames_false.
    + rewrite run_app, inline_pnames_false, run_sp, run_kw, run_sp. apply inline_pexps_false.
  - (* SAssign *) cbn [pstmt]. rewrite run_app. cbn [wf_stmt] in H.
    rewrite (inline_commas_ne (map pexp vs)); [|destruct vs; [contradiction|discriminate]|apply Forall_map; apply Forall_forall; intros x _; apply inline_pexp].
    rewrite run_sp, run_kw, run_sp. apply inline_pexps_false.
  - (* SCall *) cbn [pstmt]. apply inline_pexp.
  - (* SDo *) rewrite p_do, run_kw, run_eol. apply run_block_end. apply (wf_block_Forall b _ H). exact H0.
  - (* SWhile *) rewrite p_while, run_kw, run_sp, run_app, inline_pexp, run_sp, run_kw, run_eol. apply run_block_end. apply (wf_block_Forall b _ H). exact H0.
  - (* SRepeat *) rewrite p_repeat, run_kw, run_eol, run_app, run_pblock by (apply (wf_block_Forall b _ H); exact H0).
    rewrite run_indent. rewrite run_kw, run_sp. apply inline_pexp.
  - (* SIf *) destruct H1 as [W1 W2]. rewrite p_if, run_kw, run_sp, run_app, inline_pexp, run_sp, run_kw, run_eol.
    rewrite run_app, run_pblock by (apply (wf_block_Forall t _ H); exact W1). rewrite run_app, H0 by exact W2. rewrite run_indent. reflexivity.
  - (* SNumFor *) rewrite p_numfor, run_kw, run_sp. rewrite run_plain by reflexivity. rewrite run_sp, run_kw, run_sp, run_app, inline_pexp, run_kw, run_sp, run_app, inline_pexp.
    rewrite run_app. assert (E : run false (match st with Some x => kw "," :: sp :: pexp x | None => [] end) = Some false).
    { destruct st; [rewrite run_kw, run_sp; apply inline_pexp|reflexivity]. }
    rewrite E, run_sp, run_kw, run_eol. apply run_block_end. apply (wf_block_Forall body _ H). exact H0.
  - (* SGenFor *) rewrite p_genfor, run_kw, run_sp, run_app, inline_pnames_false, run_sp, run_kw, run_sp, run_app, inline_pexps_false, run_sp, run_kw, run_eol.
    apply run_block_end. apply (wf_block_Forall body _ H). exact H0.
  - (* SFunction *) rewrite p_function, run_kw, run_sp, run_app, run_dotted, run_app.
    assert (E : run false (match m with Some n => [kw ":"; TIdent n] | None => [] end) = Some false) by (destruct m; reflexivity).
    rewrite E, run_pparams. apply run_fbody. apply (wf_block_Forall body _ H). exact H0.
  - (* SLocalFunction *) rewrite p_localfunction, run_kw, run_sp, run_kw, run_sp. rewrite run_plain by reflexivity. rewrite run_pparams.
    apply run_fbody. apply (wf_block_Forall body _ H). exact H0.
  - (* SReturn *) destruct es as [|e es']; cbn [pstmt]; [reflexivity|]. rewrite run_kw, run_sp. apply inline_pexps_false.
  - (* SBreak *) reflexivity.
  - (* NoElse *) reflexivity.
  - (* Else *) rewrite p_else, run_indent, run_kw, run_eol. apply run_pblock. apply (wf_block_Forall b _ H). exact H0.
  - (* ElseIf *) destruct H1 as [W1 W2]. rewrite p_elseif, run_indent, run_kw, run_sp, run_app, inline_pexp, run_sp, run_kw, run_eol.
    rewrite run_app, run_pblock by (apply (wf_block_Forall t _ H); exact W1). apply H0. exact W2.
Qed.
Transparent pblock.
Theorem format0_whitespace_discipline p eof : wf_block p -> ws_scan (wcfg eof) true false (pprog c p) = None.
Proof.
  intros W. apply (run_sound eof _ true true). unfold pprog. apply run_pblock.
  apply (wf_block_Forall p _); [|exact W]. apply Forall_forall. intros s _. apply stmt_discipline.
Qed.
End Whitespace.

(* ---------- C06: normalisation is not idempotent on all of L0 ---------- *)
(* `local x = (- -f())`: the first pass keeps the outer parentheses (the rule looks through the unary operators and finds
   a call, whose parentheses could truncate), and guards the double minus: `(-(-f()))`; the second pass finds
   parentheses under the outer minus, which the rule always lets go: `-(-f())`.  The binary does exactly this. *)
Definition witness_not_idempotent : list stmt :=
  [SLocal [str "x"] [EParen (EUn Neg (EUn Neg (ECall (EName (str "f")) [])))]].
Theorem nprog_not_idempotent_refuted : exists p, nprog (nprog p) <> nprog p.
Proof. exists witness_not_idempotent. vm_compute. discriminate. Qed.
