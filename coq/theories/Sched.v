(* (S) Interleaving semantics of threads sharing one atomic cell (the exit code). *)
From Coq Require Import List Arith Lia Bool.
Import ListNotations.

(* one shared cell, a register per thread; every instruction is atomic *)
Inductive instr := Load | Store (v : nat) | FetchMax (v : nat) | Cas (old new : nat).
Record thread := { reg : nat; code : list instr }.
Definition state := (nat * list thread)%type.   (* cell, threads *)

Definition exec (i : instr) (cell r : nat) : nat * nat :=
  match i with
  | Load => (cell, cell)
  | Store v => (v, r)
  | FetchMax v => (Nat.max cell v, r)
  | Cas o n => (if Nat.eqb cell o then n else cell, r)
  end.

(* a schedule is a list of thread indices; a step on a finished or missing thread is a no-op *)
Fixpoint step_at (n : nat) (cell : nat) (ts : list thread) : nat * list thread :=
  match ts, n with
  | [], _ => (cell, [])
  | t :: r, O => match code t with
                 | [] => (cell, t :: r)
                 | i :: c => let '(cell', r') := exec i cell (reg t) in (cell', {| reg := r'; code := c |} :: r)
                 end
  | t :: r, S n => let '(cell', r') := step_at n cell r in (cell', t :: r')
  end.
Fixpoint run (sched : list nat) (st : state) : state :=
  match sched with [] => st | n :: s => let '(c, ts) := st in run s (step_at n c ts) end.

Definition finished (ts : list thread) : Prop := Forall (fun t => code t = []) ts.
Definition mono_instr (i : instr) : bool := match i with FetchMax _ | Load => true | _ => false end.
Definition mono_prog (p : list instr) : bool := forallb mono_instr p.
Definition monotone (ts : list thread) : Prop := Forall (fun t => mono_prog (code t) = true) ts.
Fixpoint lvl (c : list instr) : nat := match c with [] => 0 | FetchMax v :: r => Nat.max v (lvl r) | _ :: r => lvl r end.
Fixpoint pending (ts : list thread) : nat := match ts with [] => 0 | t :: r => Nat.max (lvl (code t)) (pending r) end.

(* search for a schedule on which the final cell is not the maximum of what the threads report:
   all interleavings of the given programs, by exhaustive enumeration (used when the protocol is not monotone) *)
Fixpoint all_finished (ts : list thread) : bool := match ts with [] => true | t :: r => match code t with [] => all_finished r | _ => false end end.
Fixpoint indices (n : nat) : list nat := match n with O => [] | S k => indices k ++ [k] end.
Fixpoint search (fuel : nat) (cell : nat) (ts : list thread) (goal : nat) (trace : list nat) : option (list nat) :=
  match fuel with
  | O => None
  | S fuel =>
    if all_finished ts then (if Nat.eqb cell goal then None else Some (rev trace))
    else
      (fix try (is : list nat) : option (list nat) :=
         match is with
         | [] => None
         | i :: rest =>
           match nth_error ts i with
           | Some t => match code t with
                       | [] => try rest
                       | _ => let '(c', ts') := step_at i cell ts in
                              match search fuel c' ts' goal (i :: trace) with Some w => Some w | None => try rest end
                       end
           | None => try rest
           end
         end) (indices (length ts))
  end.
Definition threads_of (ps : list (list instr)) : list thread := map (fun p => {| reg := 0; code := p |}) ps.
Definition find_bad_schedule (ps : list (list instr)) : option (list nat) :=
  let ts := threads_of ps in
  search (S (length (concat ps))) 0 ts (pending ts) [].
