(* Long-bracket strings and block comments: only the newline convention changes (C04, C03, C10) *)
From Coq Require Import List Ascii NArith Lia Bool Arith.
Import ListNotations.
Open Scope char_scope.
From SV Require Import Quote.

Definition CR : ascii := "013".
Definition LF : ascii := "010".
Inductive ending := Unix | Windows.
Definition le_chars (e : ending) : list ascii := match e with Unix => [LF] | Windows => [CR; LF] end.

(* str::replace("\r\n", "\n") : leftmost non-overlapping *)
Fixpoint crlf_to_lf (s : list ascii) : list ascii :=
  match s with
  | [] => []
  | c :: r => match r with
              | d :: r' => if eqc c CR && eqc d LF then LF :: crlf_to_lf r' else c :: crlf_to_lf r
              | [] => [c]
              end
  end.
Definition lf_to (e : ending) (s : list ascii) : list ascii :=
  flat_map (fun c => if eqc c LF then le_chars e else [c]) s.
(* what format_token does to the body of a long string or block comment *)
Definition conv (e : ending) (s : list ascii) : list ascii := lf_to e (crlf_to_lf s).

(* Denotation of the newlines of a long string.
   PUC Lua / LuaJIT (llex.c inclinenumber): CR LF, LF CR, CR, LF each denote one newline. *)
Definition nlc (c : ascii) : bool := eqc c CR || eqc c LF.
Fixpoint lua_nl (s : list ascii) : list ascii :=
  match s with
  | [] => []
  | c :: r => if nlc c then
                match r with
                | d :: r' => if nlc d && negb (eqc c d) then LF :: lua_nl r' else LF :: lua_nl r
                | [] => [LF]
                end
              else c :: lua_nl r
  end.
(* Luau (Lexer.cpp fixupMultilineString): CR LF denotes one newline, every other byte itself *)
Definition luau_nl (s : list ascii) : list ascii := crlf_to_lf s.

(* The class on which the conversion is not value-preserving: a CR that is not immediately followed by LF *)
Fixpoint no_lone_cr (s : list ascii) : bool :=
  match s with
  | [] => true
  | c :: r => if eqc c CR then match r with d :: r' => eqc d LF && no_lone_cr r' | [] => false end
              else no_lone_cr r
  end.
Fixpoint no_cr (s : list ascii) : bool := match s with [] => true | c :: r => negb (eqc c CR) && no_cr r end.
