"""C20 - an option means the same thing wherever it is written (DESIGN 5/C20)."""
import random
from .cli import *
from . import c05

PROBE = ("local zeta = require(\"b\")\nlocal alpha = require('a')\nlocal s = 'it\"s' .. \"x\" .. 'plain'\nf(\"str\")\ng({ 1 })\n"
         "local function name(p)\n\treturn p\nend\nif x then\n\treturn\nend\n"
         "local t = { aaaaaaaaaaaaaaaaaaaaaaaaaa, bbbbbbbbbbbbbbbbbbbbbbbbbbbbbbbb, cccccccccccccccccccccccccccccc, dddddddddddddddddddddd, eeeeeeeeeeeeeeeeeeeeeeeee }\n"
         "do\n\tlocal y = function() end\nend\n")
ENUMS = {
    "syntax": ["All", "Lua51", "Lua52", "Lua53", "Lua54", "LuaJIT", "Luau"],
    "line_endings": ["Unix", "Windows"], "indent_type": ["Tabs", "Spaces"],
    "quote_style": ["AutoPreferDouble", "AutoPreferSingle", "ForceDouble", "ForceSingle"],
    "call_parentheses": ["Always", "NoSingleString", "NoSingleTable", "None", "Input"],
    "collapse_simple_statement": ["Never", "FunctionOnly", "ConditionalOnly", "Always"],
    "space_after_function_names": ["Never", "Definitions", "Calls", "Always"],
}
NUMS = {"column_width": ["40", "80"], "indent_width": ["2", "8"]}
# .editorconfig spellings of (option, value), from src/editorconfig.rs
def editorconfig_lines(opt, val):
    if opt == "line_endings": return ["end_of_line = " + ("crlf" if val == "Windows" else "lf")]
    if opt == "indent_type": return ["indent_style = " + ("tab" if val == "Tabs" else "space")]
    if opt == "indent_width": return ["indent_size = " + val]
    if opt == "column_width": return ["max_line_length = " + val]
    if opt == "quote_style":
        return {"AutoPreferDouble": ["quote_type = double"], "AutoPreferSingle": ["quote_type = single"]}.get(val)
    if opt == "call_parentheses" and val != "Input": return ["call_parentheses = " + val.lower()]
    if opt in ("space_after_function_names", "collapse_simple_statement"): return ["%s = %s" % (opt, val.lower())]
    if opt == "sort_requires": return ["sort_requires = " + val]
    return None

def cases():
    out = []
    for opt, vals in list(ENUMS.items()) + list(NUMS.items()):
        for v in vals:
            quoted = '"%s"' % v if opt in ENUMS else v
            out.append((opt, v, "toml", "%s = %s\n" % (opt, quoted), [], None))
            flag = "--" + opt.replace("_", "-")
            spellings = [v] if opt in NUMS else sorted(set([v, v.lower(), v.upper()]))
            for sp in spellings:
                out.append((opt, v, "cli:" + sp, None, [flag, sp], None))
            ec = editorconfig_lines(opt, v)
            if ec: out.append((opt, v, "editorconfig", None, [], "root = true\n[*.lua]\n" + "\n".join(ec) + "\n"))
    out.append(("sort_requires", "true", "toml", "[sort_requires]\nenabled = true\n", [], None))
    out.append(("sort_requires", "true", "cli:flag", None, ["--sort-requires"], None))
    out.append(("sort_requires", "true", "editorconfig", None, [], "root = true\n[*.lua]\nsort_requires = true\n"))
    return out

MALFORMED = [
    ("misspelt-key", "indent_widht = 2\n"), ("wrong-type", 'column_width = "wide"\n'), ("wrong-type-2", "indent_type = 4\n"),
    ("unknown-table", "[nonsense]\nx = 1\n"), ("invalid-enum", 'quote_style = "Double"\n'), ("case-variant-in-toml", 'indent_type = "spaces"\n'),
    ("unknown-key-in-table", "[sort_requires]\nenable = true\n"), ("not-toml", "indent_type == Tabs\n"),
]

def run(res):
    t_ok, t_log = c05.rs2v("option_tables")
    proof = proof_stage(res, "C20", extra_obligations=2) if t_ok else dict(ok=False, discharged=0, log=t_log, broken_at="rs2v: " + t_log[-300:])
    if not t_ok: res.coverage.update(obligations=2, discharged=0, checker_cmd="rs2v", trusted_base=list(TRUSTED_BASE))
    build_harness(); build_cli()
    cs = cases()
    # library side: Config with exactly that field set
    feed = []
    for i, (opt, v, carrier, toml, flags, ec) in enumerate(cs):
        feed.append("c%d %s=%s %s" % (i, opt, v, hexs(PROBE)))
    lib = {}
    for l in sh([SVH, "fmt"], inp="\n".join(feed) + "\n").stdout.splitlines():
        w = l.split()
        lib[w[0]] = bytes.fromhex(w[2][1:]).decode() if w[1] == "ok" and len(w) > 2 else None
    def one(ic):
        i, (opt, v, carrier, toml, flags, ec) = ic
        d = scratch("c20")
        try:
            open(os.path.join(d, "probe.lua"), "w", newline="").write(PROBE)
            if toml: open(os.path.join(d, "stylua.toml"), "w").write(toml)
            if ec: open(os.path.join(d, ".editorconfig"), "w").write(ec)
            code, out, err = stylua(flags + ["probe.lua"], d)
            got = open(os.path.join(d, "probe.lua"), newline="").read()
            return i, code, got, err.decode("utf-8", "replace")[-300:]
        finally:
            cleanup(d)
    results = pmap(one, list(enumerate(cs)))
    bads, samples, distinct = [], [], set()
    for i, code, got, err in results:
        opt, v, carrier, _, _, _ = cs[i]
        want = lib.get("c%d" % i)
        distinct.add(got)
        if want is None: bads.append(dict(check="library-cannot-format-probe", option=opt, value=v, carrier=carrier))
        elif code != 0: bads.append(dict(check="status-%d" % code, option=opt, value=v, carrier=carrier, stderr=err))
        elif got != want: bads.append(dict(check="output-differs-from-library", option=opt, value=v, carrier=carrier, observed=got, expected_text=want))
        if len(samples) < 6 and i % 17 == 3: samples.append("%s=%s via %s -> %d bytes, equal to library output: %s" % (opt, v, carrier, len(got), got == want))
    def bad_cfg(nt):
        name, text = nt
        d = scratch("c20m")
        try:
            open(os.path.join(d, "probe.lua"), "w", newline="").write(PROBE)
            open(os.path.join(d, "stylua.toml"), "w").write(text)
            code, out, err = stylua(["probe.lua"], d)
            return name, code, open(os.path.join(d, "probe.lua"), newline="").read() == PROBE, out
        finally:
            cleanup(d)
    mal = pmap(bad_cfg, MALFORMED)
    for name, code, untouched, out in mal:
        if code != 2 or not untouched or out:
            bads.append(dict(check="malformed-config-%s:status-%d:%s" % (name, code, "untouched" if untouched else "MODIFIED"), option="-", value="-", carrier="toml"))
    tie_ok = not bads and len(results) == len(cs)
    if t_ok and proof["ok"]: res.coverage["discharged"] = proof["discharged"] + 1 + (1 if tie_ok else 0)
    carriers = {}
    for c in cs: carriers[c[2].split(":")[0]] = carriers.get(c[2].split(":")[0], 0) + 1
    res.coverage.update(
        evaluations=len(cs) + len(MALFORMED), distinct_nontrivial=len(distinct), exhaustive=True,
        rule="every option x every documented value (enum variants from the README table; two values for the numeric options; sort_requires) x every carrier: stylua.toml, the command-line flag in the documented, lower and upper case spellings, "
             "and the .editorconfig key where src/editorconfig.rs defines one; the probe program is sensitive to every option; %d malformed stylua.toml files (misspelt key, wrong type, unknown table, invalid value, unknown key in a table, not TOML). "
             "distinct = number of different output texts obtained" % len(MALFORMED),
        samples=samples, input_distribution=dict(carriers=carriers, malformed=len(MALFORMED)),
        kernels_translated=["lib.rs enums/defaults/Config, opt.rs convert_enum!/FormatOpts, config.rs load_overrides, editorconfig.rs property_choice!/load, README option table -> coq/gen/OptionTables.v (rs2v)"],
        correspondence="file written by the binary = stylua_lib::format_code with a Config that has exactly that field set, byte for byte; malformed configuration: exit status 2, nothing on stdout, file untouched")
    res.assumptions = ["toml/serde, clap and ec4rs decode the carriers; their behaviour is observed through the binary, not modelled",
                       ".editorconfig values StyLua does not know are ignored by design (test_invalid_properties) and are not part of the malformed set"]
    if not (t_ok and proof["ok"] and tie_ok):
        if bads:
            seen = set()
            for b in bads:
                k = b["check"].split(":")[0]
                if k in seen or len(seen) >= 4: continue
                seen.add(k); res.violation(dict(kind="input", expected="the library's output for that Config / rejection with status 2", **b))
        else:
            res.violation(dict(kind="obligation", obligation=dict(theorem_or_kernel=proof.get("broken_at", "C20 correspondence"), log=proof.get("log", "")[-2500:])), no_input=True)
    return res

def replay(payload):
    print("re-running the whole (finite) C20 table"); 
    from .core import Result
    r = Result("C20", "quick", 0); run(r); return r.finish()
