use std::io::Read;
use stylua_lib::*;
fn main() {
    let args: Vec<String> = std::env::args().collect();
    let mut src = String::new();
    std::io::stdin().read_to_string(&mut src).unwrap();
    let mut cfg = Config::default();
    let mut range = None;
    let mut i = 1;
    while i < args.len() {
        match args[i].as_str() {
            "-w" => { cfg.column_width = args[i+1].parse().unwrap(); i += 1; }
            "-crlf" => { cfg.line_endings = LineEndings::Windows; }
            "-spaces" => { cfg.indent_type = IndentType::Spaces; }
            "-cp" => { cfg.call_parentheses = match args[i+1].as_str() { "None" => CallParenType::None, "Input" => CallParenType::Input, "NoSingleString" => CallParenType::NoSingleString, "NoSingleTable" => CallParenType::NoSingleTable, _ => CallParenType::Always }; i += 1; }
            "-q" => { cfg.quote_style = match args[i+1].as_str() { "fs" => QuoteStyle::ForceSingle, "fd" => QuoteStyle::ForceDouble, "as" => QuoteStyle::AutoPreferSingle, _ => QuoteStyle::AutoPreferDouble }; i += 1; }
            "-collapse" => { cfg.collapse_simple_statement = CollapseSimpleStatement::Always; }
            "-sort" => { cfg.sort_requires = SortRequiresConfig { enabled: true }; }
            "-syntax" => { cfg.syntax = match args[i+1].as_str() { "Lua51" => LuaVersion::Lua51, "Lua52" => LuaVersion::Lua52, "Lua53" => LuaVersion::Lua53, "Lua54" => LuaVersion::Lua54, "Luau" => LuaVersion::Luau, "LuaJIT" => LuaVersion::LuaJIT, _ => LuaVersion::All }; i += 1; }
            "-r" => { let s: Option<usize> = args[i+1].parse().ok(); let e: Option<usize> = args[i+2].parse().ok(); range = Some(Range::from_values(s, e)); i += 2; }
            _ => {}
        }
        i += 1;
    }
    let r = std::panic::catch_unwind(|| format_code(&src, cfg, range, OutputVerification::None));
    match r {
        Ok(Ok(out)) => {
            println!("---OUT---\n{}---END---", out);
            println!("{:?}", out);
            match format_code(&out, cfg, None, OutputVerification::None) {
                Ok(out2) => if out2 != out { println!("NOT IDEMPOTENT:\n{}", out2) },
                Err(e) => println!("REPARSE/FORMAT ERROR: {}", e),
            }
        }
        Ok(Err(e)) => println!("ERR: {}", e),
        Err(_) => println!("PANIC"),
    }
}
