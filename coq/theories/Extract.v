(* Extraction of the specification functions (S), kernels (K) and models to OCaml.
   Directives used: those of ExtrOcamlBasic (bool, option, unit, list, prod, sumbool, comparison -> OCaml natives)
   and of ExtrOcamlString (ascii -> char, string -> char list).  nat, positive, N, Z stay extracted inductives. *)
From Coq Require Import ExtrOcamlBasic ExtrOcamlString.
From SV Require Import Quote Quote51 QuoteX QuoteMore Bracket Number Expr Parens DiffJson DiffUnified Sched CliModel SortReq CfgSearch Select Lex Census Trivia CallForm Fmt0.
Extraction Language OCaml.
Cd "../.cache/ml".
Separate Extraction
  Quote.rewrite Quote.units
  Quote51.decode51 QuoteX.decode
  QuoteMore.choose QuoteMore.lexable QuoteMore.needs
  Bracket.conv Bracket.lua_nl Bracket.luau_nl Bracket.no_lone_cr
  Number.number_rewrite Number.numval
  Expr.parse Expr.tokens Expr.can Expr.Sm Expr.no_double_minus Expr.size
  Parens.inR Parens.fmt_single Parens.fmt_hang Parens.check Parens.strip
  DiffJson.mismatches DiffJson.mismatches_at DiffJson.annotate DiffJson.apply_json DiffJson.olds DiffJson.news
  DiffUnified.apply DiffUnified.merge DiffUnified.view DiffUnified.olds DiffUnified.news
  Sched.find_bad_schedule Sched.run Sched.pending Sched.threads_of Sched.mono_prog
  CliModel.run CliModel.level CliModel.diff_printed CliModel.stdin_run
  SortReq.sort_requires SortReq.str_leb SortReq.groups
  CfgSearch.run CfgSearch.spec CfgSearch.resolve Select.processed Select.wanted
  Lex.lex Census.census Census.census_eq Census.first_missing Census.erase Census.ws_check Census.str_den
  Trivia.lead Trivia.trail Trivia.fmt_comment
  CallForm.call_form CallForm.form_ok CallForm.space_definition CallForm.space_call
  Fmt0.format0 Fmt0.nprog Fmt0.pprog Fmt0.norm0 Fmt0.guard_free Fmt0.quote_ok.
Cd "../../coq".
