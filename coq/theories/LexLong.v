From Coq Require Import List Ascii String NArith Bool Arith Lia.
Import ListNotations.
From SV Require Import Lex LexRender.
Open Scope char_scope.
(* NB: never use unrestricted [cbn] / [simpl] or [_] arguments on the fuelled scanner here: an earlier version of
   [long_body_app] with [cbn in H] and [apply (IH _ ...)] ran for 15 minutes without finishing. *)


Lemma count_eq_upto_app : forall n s k r1 rest, count_eq_upto n s = (k, r1) -> (r1 <> [] \/ k = n) ->
  count_eq_upto n (s ++ rest) = (k, r1 ++ rest).
Proof.
  induction n as [|n IH]; intros s k r1 rest H Hc; cbn in *.
  - inversion H; subst. reflexivity.
  - destruct s as [|c s]; cbn in *.
    + inversion H; subst. destruct Hc as [A|A]; [congruence|discriminate].
    + destruct (eqc c "=").
      * destruct (count_eq_upto n s) as [k' b] eqn:E. inversion H; subst.
        rewrite (IH s k' r1 rest E); [reflexivity|]. destruct Hc as [A|A]; [left; exact A|right; lia].
      * inversion H; subst. reflexivity.
Qed.


Lemma long_body_app d : forall fuel acc s r rest, long_body fuel d acc s = Some (r, []) ->
  long_body fuel d acc (s ++ rest) = Some (r, rest).
Proof.
  induction fuel as [|fuel IH]; intros acc s r rest H; [discriminate|].
  cbn [long_body] in *.
  destruct s as [|c s]; [discriminate|]. 
  cbn [app].
  destruct (eqc c "]").
  - destruct (count_eq_upto d s) as [k r1] eqn:E.
    destruct (Nat.eqb k d) eqn:K.
    + apply Nat.eqb_eq in K. subst k.
      destruct r1 as [|x r2].
      * exfalso. destruct fuel; [discriminate|]. cbn [long_body] in H. discriminate.
      * assert (NE : x :: r2 <> []) by discriminate.
        rewrite (count_eq_upto_app d s d (x :: r2) rest E (or_introl NE)).
        cbn [app].
        rewrite Nat.eqb_refl. 
        destruct (eqc x "]").
        -- inversion H; subst. reflexivity.
        -- apply (IH (acc ++ "]" :: eqs d) (x :: r2) r rest H).
    + destruct r1 as [|x r2].
      * exfalso. destruct fuel; [discriminate|]. cbn [long_body] in H. discriminate.
      * assert (NE : x :: r2 <> []) by discriminate.
        rewrite (count_eq_upto_app d s k (x :: r2) rest E (or_introl NE)). rewrite K.
        apply (IH (acc ++ "]" :: eqs k) (x :: r2) r rest H).
  - apply (IH (acc ++ [c]) s r rest H).
Qed.


Lemma long_body_S fuel d acc s :
  long_body (S fuel) d acc s =
  match s with
  | [] => None
  | c :: r =>
    if eqc c "]" then
      let '(k, r1) := count_eq_upto d r in
      if Nat.eqb k d then
        match r1 with
        | x :: r2 => if eqc x "]" then Some (acc, r2) else long_body fuel d (acc ++ "]" :: eqs k) r1
        | [] => long_body fuel d (acc ++ "]" :: eqs k) r1
        end
      else long_body fuel d (acc ++ "]" :: eqs k) r1
    else long_body fuel d (acc ++ [c]) r
  end.
Proof. reflexivity. Qed.

Lemma long_body_fuel d : forall fuel acc s r, long_body fuel d acc s = Some r -> long_body (S fuel) d acc s = Some r.
Proof.
  induction fuel as [|fuel IH]; intros acc s r H; [discriminate|].
  rewrite long_body_S in H. rewrite long_body_S.
  destruct s as [|c s]; [discriminate|].
  destruct (eqc c "]").
  - destruct (count_eq_upto d s) as [k r1]. destruct (Nat.eqb k d).
    + destruct r1 as [|x r2]; [apply IH; exact H|]. destruct (eqc x "]"); [exact H|apply IH; exact H].
    + apply IH; exact H.
  - apply IH; exact H.
Qed.
Lemma long_body_fuel_ge d acc s r : forall k fuel, long_body fuel d acc s = Some r -> long_body (k + fuel) d acc s = Some r.
Proof. induction k as [|k IH]; intros fuel H; [exact H|]. change (S k + fuel) with (S (k + fuel)). apply long_body_fuel. apply IH. exact H. Qed.

Lemma count_eq_eqs d rest : (match rest with c :: _ => eqc c "=" = false | [] => True end) -> count_eq (eqs d ++ rest) = (d, rest).
Proof.
  intros H. induction d as [|d IH]; cbn [eqs app count_eq].
  - destruct rest as [|c r]; [reflexivity|]. cbn [count_eq]. rewrite H. reflexivity.
  - change (eqc "=" "=") with true. cbv iota. rewrite IH. reflexivity.
Qed.

Definition closer (d : nat) : bytes := "]" :: eqs d ++ ["]"].
Definition wf_long (d : nat) (b : bytes) : Prop :=
  long_body (S (List.length (b ++ closer d))) d [] (b ++ closer d) = Some (b, []).

Lemma multi_line_body_ok d b rest : wf_long d b ->
  multi_line_body (eqs d ++ "[" :: (b ++ closer d) ++ rest) = MOk d b rest.
Proof.
  intros H. unfold multi_line_body.
  rewrite (count_eq_eqs d ("[" :: (b ++ closer d) ++ rest) eq_refl).
  change (eqc "[" "[") with true. cbv iota.
  pose proof (long_body_app d _ [] (b ++ closer d) b rest H) as A.
  apply (long_body_fuel_ge d [] _ (b, rest) (List.length rest)) in A.
  replace (List.length rest + S (List.length (b ++ closer d))) with (S (List.length ((b ++ closer d) ++ rest))) in A
    by (rewrite (app_length (b ++ closer d) rest); lia).
  rewrite A. reflexivity.
Qed.

Lemma show_block d b rest : show (TBlockCom d b) ++ rest = "-" :: "-" :: "[" :: eqs d ++ "[" :: (b ++ closer d) ++ rest.
Proof. unfold closer. cbn [show app]. repeat (rewrite <- app_assoc; cbn [app]). reflexivity. Qed.
Lemma show_brstr d b rest : show (TStr QBrackets d b) ++ rest = "[" :: eqs d ++ "[" :: (b ++ closer d) ++ rest.
Proof. unfold closer. cbn [show app]. repeat (rewrite <- app_assoc; cbn [app]). reflexivity. Qed.

Theorem single_block_comment v d b rest : wf_long d b -> single v (TBlockCom d b) rest.
Proof.
  intros H. unfold single. rewrite show_block. unfold lex_one.
  cbn -[multi_line_body take_while vluau app eqs]. unfold starts.
  change (eqc "[" "[") with true. cbv iota.
  rewrite (multi_line_body_ok d b rest H). destruct (vluau v); reflexivity.
Qed.

Theorem single_bracket_string v d b rest : wf_long d b -> single v (TStr QBrackets d b) rest.
Proof.
  intros H. unfold single. rewrite show_brstr. unfold lex_one.
  cbn -[multi_line_body app eqs].
  destruct d as [|d'].
  - cbn [eqs app]. change (eqc "[" "[") with true. cbv iota. cbn [orb].
    pose proof (multi_line_body_ok 0 b rest H) as M. cbn [eqs app] in M. rewrite M. reflexivity.
  - cbn [eqs app]. change (eqc "=" "[") with false. change (eqc "=" "=") with true. cbn [orb]. cbv iota.
    pose proof (multi_line_body_ok (S d') b rest H) as M. cbn [eqs app] in M. rewrite M. reflexivity.
Qed.
Print Assumptions single_block_comment.
Print Assumptions single_bracket_string.
