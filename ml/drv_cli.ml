(* C13 / C14 judge: the process model CliModel.run, extracted from Coq, against observations of the real binary.
   Records per scenario:
     SCN <id> <check|write>
     FILE <path> <kind> <hash-before> <hash-of-library-formatted-text|->    kind: formatted unformatted unparseable unreadable verifyfail readonly missing
     OBS status <n>
     AFTER <path> <hash-after> <mtime-changed:0|1>
     DIFF <path>                       a diff / listing was printed for this path
     END
   content = the hash strings; outcome from kind (the library side of the oracle is checked by FILE's formatted hash,
   which comes from the harness calling stylua_lib on the same bytes). *)
open Util
open Datatypes

type file = { path : string; kind : string; before : string; fmt : string }
let scn = ref "" and mode = ref "" and files = ref [] and status = ref (-1) and after = Hashtbl.create 16 and diffs = Hashtbl.create 16
let scenarios = ref 0 and bad = ref 0 and nontrivial = ref 0 and samples = ref 0
let kinds = Hashtbl.create 8
let report kind = incr bad; Printf.printf "BAD %s %s\n" kind !scn

let outcome_of f = match f.kind with
  | "formatted" -> CliModel.Formatted
  | "unformatted" -> CliModel.Unformatted f.fmt
  | "readonly" -> CliModel.Failed     (* formatting succeeds, the write fails: reported as an error, bytes unchanged *)
  | _ -> CliModel.Failed

let finish () =
  incr scenarios;
  let fl = L.rev !files in
  let check = !mode = "check" in
  L.iter (fun f -> Hashtbl.replace kinds f.kind (1 + try Hashtbl.find kinds f.kind with Not_found -> 0)) fl;
  (* a read-only file that is already formatted is never written, hence no failure *)
  let outcome f = if f.kind = "readonly" && (check || f.before = f.fmt) then (if f.before = f.fmt then CliModel.Formatted else CliModel.Unformatted f.fmt) else outcome_of f in
  let present = L.filter (fun f -> f.kind <> "missing") fl in
  let fs0 p = try Some (L.find (fun f -> f.path = p) present).before with Not_found -> None in
  let (fs1, st) = CliModel.run (fun a b -> a = b) check (L.map (fun f -> (f.path, outcome f)) fl) fs0 in
  let expected = nat_to_int st in
  if L.exists (fun f -> f.kind <> "formatted") fl then incr nontrivial;
  if !status <> expected then report (Printf.sprintf "status-%d-expected-%d" !status expected);
  L.iter (fun f ->
    let (h, mt) = try Hashtbl.find after f.path with Not_found -> ("<gone>", true) in
    (match fs1 f.path with
     | Some c -> if c <> h then report ("content:" ^ f.kind ^ ":" ^ f.path)
     | None -> report ("vanished:" ^ f.path));
    (* untouched means untouched: no rewrite of identical bytes either *)
    if fs1 f.path = fs0 f.path && mt then report ("rewritten-unchanged:" ^ f.kind ^ ":" ^ f.path);
    let want_diff = CliModel.diff_printed check (outcome f) in
    if want_diff <> Hashtbl.mem diffs f.path then report ((if want_diff then "diff-missing:" else "diff-unexpected:") ^ f.kind ^ ":" ^ f.path)) present;
  Hashtbl.iter (fun p _ -> if not (L.exists (fun f -> f.path = p) present) then report ("diff-for-unknown-path:" ^ p)) diffs;
  if !samples < 5 && !scenarios mod 37 = 1 then (incr samples;
    Printf.printf "SAMPLE %s %s status=%d files=[%s]\n" !scn !mode !status (SS.concat "," (L.map (fun f -> f.path ^ ":" ^ f.kind) fl)))

let handle line =
  match words line with
  | ["SCN"; id; m] -> scn := id; mode := m; files := []; status := -1; Hashtbl.reset after; Hashtbl.reset diffs
  | ["FILE"; path; kind; before; fmt] -> files := { path; kind; before; fmt } :: !files
  | ["OBS"; "status"; n] -> status := int_of_string n
  | ["AFTER"; path; h; mt] -> Hashtbl.replace after path (h, mt = "1")
  | ["DIFF"; path] -> Hashtbl.replace diffs path ()
  | ["END"] -> finish ()
  | [] -> ()
  | _ -> incr bad; Printf.printf "BAD unreadable-record %s\n" line

let () =
  iter_lines handle;
  Printf.printf "SUMMARY scenarios=%d nontrivial=%d bad=%d %s\n" !scenarios !nontrivial !bad
    (SS.concat " " (Hashtbl.fold (fun k v acc -> (k ^ "=" ^ string_of_int v) :: acc) kinds []))
