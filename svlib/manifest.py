"""Writes MANIFEST.json from the table below (python3 -m svlib.manifest)."""
import json, os
ROOT = os.path.dirname(os.path.dirname(os.path.abspath(__file__)))
BASE_NOTE = ("Trusted: Coq 8.16.1 kernel + vm_compute; Print Assumptions of every property theorem = closed under the global context; "
             "extraction (ExtrOcamlBasic, ExtrOcamlString) + OCaml drivers; the Rust harness; full_moon as tokenizer of outputs. ")
CHECKS = {
 "C04": dict(
   text="Theorems over all strings (no length bound): the quote/escape rewriter preserves the denotation of every quoted literal under the Lua 5.1, 5.2-5.4/LuaJIT and Luau readings, "
        "keeps the token boundary, is idempotent, chooses the quote minimally; long-bracket newline conversion preserves the value outside one known class; .5 -> 0.5 preserves the number. "
        "The hand-written kernel model is tied to the code by an exhaustive differential (every body up to a length bound x 4 positions x 4 styles x 2 endings x dialects) judged by the extracted Coq functions.",
   design="5/C04", technique="Coq proof (induction over escape units) + exhaustive model/implementation correspondence",
   note=BASE_NOTE + "The kernel `rewrite` is hand-modelled from the two regexes in general.rs; string denotations are written from the Lua/Luau reference lexers."),
 "C05": dict(
   text="Theorems over all expression trees, all contexts and every mixture of the single-line and hanging layout paths (relation R): the semantic tree (grouping, multi-value truncation) is unchanged, "
        "canonical form is preserved and canonical trees re-parse to themselves (Pratt parser proved), no unary minus meets a minus sign. The rule itself is translated from /repo's Rust by rs2v on every run and the theorems are re-proved against it; "
        "the context flow is tied by deciding R-membership of every observed (input, output) tree pair over all depth-2 trees x 13 contexts x 4 widths.",
   design="5/C05", technique="Coq proof over a relation covering all layouts + kernels regenerated from source (rs2v: check_excess_parentheses, parenthesise_double_minus) + exhaustive tree correspondence",
   note=BASE_NOTE + "rs2v (syn-based translator, ~250 lines) is trusted; the context flow (which context each operand receives) is hand-modelled and tied by correspondence."),
 "C18": dict(
   text="Theorems over all valid edit scripts (the script `similar` picks is an arbitrary oracle): the JSON mismatches applied as line-range replacements rebuild the formatted file; a unified diff showing every changed line and any subset "
        "of context lines, with hunks merged or split arbitrarily, rebuilds it too; no mismatch iff no change. The hand-written builder model is tied to the binary by comparing its output with the binary's JSON on every file, and the "
        "extracted patchers are run on the binary's own JSON and unified text.",
   design="5/C18", technique="Coq proof over edit scripts + correspondence of the builder model with the binary + extracted patchers applied to real output",
   note=BASE_NOTE + "similar (diff algorithm, unified printer) is modelled as an oracle of valid scripts; the patch-text parser in the driver is glue."),
 "C13": dict(
   text="Theorems on the process model (files with arbitrary outcomes, results arriving in any order): check mode leaves the file system unchanged; status 0 iff all formatted, 1 iff something differs and nothing failed, 2 iff something failed; "
        "a diff exactly for differing files. The levels are tied to the EXIT_CODE accesses rs2v extracts from main.rs; the model is run (extracted) against the binary on random directory trees with every failure kind and all four output formats.",
   design="5/C13", technique="Coq proof on a process model + exit-code accesses regenerated from source + binary correspondence on directory trees",
   note=BASE_NOTE + "The library's verdict per file is an oracle; OS-level touching is observed through bytes and mtime only."),
 "C14": dict(
   text="Theorems on the same process model in write mode: a failing file keeps its bytes, every other selected file ends with its complete formatted text wherever it stands (induction over the file list, distinct paths), "
        "a file holds only its old bytes or its complete formatted text, status 2 on any failure and 0 otherwise. Tied to the binary on random trees mixing unparseable, unreadable, verification-failing and immutable files in every order.",
   design="5/C14", technique="Coq proof on a process model + binary correspondence on directory trees",
   note=BASE_NOTE + "Write atomicity under crashes (fs::write truncates first) is outside the property's quantifier and the model."),
 "C19": dict(
   text="Theorems over every interleaving and any number of threads: programs that only load / fetch_max the exit code end with the maximum reported, and the status never goes down; result order does not affect status; writes to distinct files commute. "
        "The programs are extracted from main.rs by rs2v on every run and `protocol_monotone = true` is re-proved; the real binary is driven through every total order of its exit-code accesses by a cfg-guarded scheduling cell, and through --num-threads 1..16.",
   design="5/C19", technique="Coq proof over all schedules + protocol regenerated from source + forced interleavings on the binary",
   note=BASE_NOTE + "Real preemption is replaced by forced orders of named accesses (hook src/cli/verif_sched.rs); only the exit-code cell is scheduled."),
 "C12": dict(
   text="Theorems over all statement lists: the output is a permutation of the statements, every piece of leading trivia is kept exactly once, non-require statements keep their slots, the output is the input's groups each sorted on its own "
        "(sorted, stable, idempotent), a group with an ignored member is untouched, off = identity; instantiated with the proved-total byte-wise string order. The hand-written model is tied by running the extracted sort on the input's statement list "
        "and comparing slot by slot with the formatted output on 20k random programs.",
   design="5/C12", technique="Coq proof over statement lists + differential of the extracted model against format_code",
   note=BASE_NOTE + "Group boundaries use full_moon's line numbers; ignore directives are recomputed by the harness."),
 "C15": dict(
   text="Theorems: the memoising upward search returns the nearest ancestor-or-self configuration up to the search root (else the XDG/HOME fallback) for ANY history of earlier lookups - the memo table is unobservable - and the precedence "
        "--config-path > found > .editorconfig > defaults with command-line options applied last. Tied by running the extracted search over the whole lookup history of each generated tree and comparing with the configuration the binary visibly applied "
        "(files, directory, stdin, stdin + --stdin-filepath).",
   design="5/C15", technique="Coq proof (memo-table invariant over lookup histories) + binary correspondence on configuration trees",
   note=BASE_NOTE + "toml/serde, ec4rs and the environment are modelled; targets outside the working directory and `..` paths are characterised only."),
 "C16": dict(
   text="Theorems on the selection glue with the directory walker as an oracle (any order, any spellings): no location is processed twice, only wanted files are processed, and every wanted file is processed under some spelling. "
        "Tied by applying the extracted selection to the expected walker entries of random trees with nested .styluaignore files, negations, hidden entries, non-Lua files, overlapping and repeated arguments, and comparing with the files the binary processed (and how many times).",
   design="5/C16", technique="Coq proof on the selection glue + binary correspondence with an independent ignore matcher as oracle",
   note=BASE_NOTE + "ignore/globset are modelled by an independent matcher for the generated pattern class; one dependency quirk is a listed known finding."),
 "C20": dict(
   text="Finite theorems decided by computation on tables rs2v regenerates from lib.rs, opt.rs, config.rs, editorconfig.rs and README.md on every run: the clap enums are the library enums, every option has a flag, load_overrides applies every flag, "
        "the README lists exactly the variants and the true defaults, the .editorconfig vocabulary is the lower-cased variant names. Tied by an exhaustive run: every option x documented value x carrier (toml, flag in three spellings, .editorconfig) through the binary, "
        "byte-compared with the library's output for that Config; malformed configuration files must exit 2 and touch nothing.",
   design="5/C20", technique="Coq proof by computation on tables regenerated from source + exhaustive option x value x carrier run of the binary",
   note=BASE_NOTE + "Decoding itself (serde, clap, ec4rs) is observed, not modelled; the option space is finite and enumerated completely."),
 "C17": dict(
   category="proof",
   text="Small theorems on the stdin process model (prints exactly the formatted text; nothing and status 2 on a parse error; input passed through for an ignored --stdin-filepath under --respect-ignores; never writes). The substance is the tie: the extracted model "
        "against `stylua -` on hand cases, a multi-megabyte program and repository inputs under every stdin-compatible option, with the working directory's bytes and mtimes compared. Partial: buffering and locking are runtime behaviour.",
   design="5/C17", technique="Coq process model (small theorems) + binary correspondence on stdin runs",
   note=BASE_NOTE + "Partial by nature: pipe buffering / large writes are exercised once, not modelled."),
 "C01": dict(
   text="Partial. Theorems: a token list whose members re-lex one by one re-lexes as a whole (any length), with per-class conditions on what may follow an identifier, keyword, string, long bracket, number, minus sign, `[`, line comment; "
        "on every layout path no unary minus meets a minus sign and printed expressions re-parse to themselves. Not proved: acceptance by full_moon's statement parser. Validation: every output of generated programs x configurations (x ranges, sort) "
        "re-parsed by full_moon; the Coq lexer model compared with full_moon's tokenizer on every input and output. "
        "L0 (Fmt0.v): a whole-formatter model on a fragment of Lua 5.1 (every statement kind but goto/labels; expressions without function bodies; long-bracket strings on one line (with the blank that keeps one away from the brackets of an index or key); escapes, all quote styles, statement-level line comments and empty lines; call sugar; tables written over several lines (nested indentation inside expressions) with comments and empty lines between their fields; the whitespace, quote, call_parentheses, space_after_function_names and collapse_simple_statement options), tied to the binary byte for byte on every run (svh l0 x drv_l0). On L0: the text format0 prints lexes back to exactly the printed tokens (format0_relexes, through the proven adjacent-token checker LexAdj.adj_relex); the semicolon rule regenerated from block.rs keeps the semicolon wherever the next statement would be absorbed.",
   design="5/C01", technique="Coq proof (lexer round trip, expression side conditions) + re-parse of every output + lexer-model differential + L0 whole-formatter model (byte-for-byte tie) + regenerated semicolon rule and `- -` guard (rs2v)",
   note=BASE_NOTE + "Seed-driven exploration only where established clean (comments at statement boundaries); a fixed regression set with comments anywhere has its failures listed per input (known finding F-C01-baseline)."),
 "C02": dict(
   text="Partial. Theorems: the parenthesis rule preserves the semantic tree on every layout path and its output re-parses to it; string and number rewriting preserve denotations; the erasure ignores exactly whitespace, comments, parentheses, semicolons, commas. "
        "Validation: erased token sequence (Coq lexer + denotations) and an AST normal form independent of --verify compared between input and output on generated programs x configurations x ranges. "
        "L0 (Fmt0.v): a whole-formatter model on a fragment of Lua 5.1 (every statement kind but goto/labels; expressions without function bodies; long-bracket strings on one line (with the blank that keeps one away from the brackets of an index or key); escapes, all quote styles, statement-level line comments and empty lines; call sugar; tables written over several lines (nested indentation inside expressions) with comments and empty lines between their fields; the whitespace, quote, call_parentheses, space_after_function_names and collapse_simple_statement options), tied to the binary byte for byte on every run (svh l0 x drv_l0). On L0: the output has the erased token sequence of the program and every expression keeps its grouping (format0_keeps_erasure, nexp_keeps_grouping); the regenerated semicolon rule equals its specification.",
   design="5/C02", technique="Coq proof on the meaning-changing kernels + erasure / normal-form comparison judged by extracted functions + L0 whole-formatter model (byte-for-byte tie) + regenerated semicolon rule and collapse rule",
   note=BASE_NOTE + "Regions as for C01 (known finding F-C02-baseline)."),
 "C03": dict(
   text="Partial. Theorems: load_token_trivia (leading and trailing modes) keeps every comment exactly once with only the allowed normalisation, terminates every leading comment with a newline; the census sees comments only. "
        "Tie: every traced call of the real function is replayed through the model. Validation: comment census of input vs output on generated programs x configurations x ranges x sort. "
        "L0 (Fmt0.v): a whole-formatter model on a fragment of Lua 5.1 (every statement kind but goto/labels; expressions without function bodies; long-bracket strings on one line (with the blank that keeps one away from the brackets of an index or key); escapes, all quote styles, statement-level line comments and empty lines; call sugar; tables written over several lines (nested indentation inside expressions) with comments and empty lines between their fields; the whitespace, quote, call_parentheses, space_after_function_names and collapse_simple_statement options), tied to the binary byte for byte on every run (svh l0 x drv_l0). On L0: the comments of the output are exactly those of the program, each once, in order (format0_comments_exact).",
   design="5/C03", technique="Coq proof of the comment gate + replay of traced calls + census comparison + L0 whole-formatter model (byte-for-byte tie) + regenerated if-guard test and collapse rule",
   note=BASE_NOTE + "About 150 other sites build trivia and are only validated. Regions as for C01 (known finding F-C03-baseline)."),
 "C06": dict(
   text="Partial. Theorems: every kernel that rewrites text or reorders is idempotent (quote rewrite, quote choice, newline conversion, comment trimming, require-group sorting). Whole-program idempotence is validated on a fixed regression set only "
        "(second pass byte-compared); its known non-idempotent inputs are listed per input. "
        "L0 (Fmt0.v): a whole-formatter model on a fragment of Lua 5.1 (every statement kind but goto/labels; expressions without function bodies; long-bracket strings on one line (with the blank that keeps one away from the brackets of an index or key); escapes, all quote styles, statement-level line comments and empty lines; call sugar; tables written over several lines (nested indentation inside expressions) with comments and empty lines between their fields; the whitespace, quote, call_parentheses, space_after_function_names and collapse_simple_statement options), tied to the binary byte for byte on every run (svh l0 x drv_l0). On L0: normalisation is not idempotent (refutation theorem with witness `local x = (- -f())`, replayed on the binary: known finding), and it IS idempotent - both passes, so formatting the written tree again gives the same bytes - "
        "for every program in which no unary minus is written directly in front of something that starts with a unary minus, `- -x` (Fmt0Idem.norm0_idempotent; the premise is a boolean predicate, extracted, counted per record); what format0 writes always meets the premise, so the second pass is ALWAYS a fixed point (norm0_second_pass_is_a_fixed_point: a third pass changes nothing on any program; the tie runs the library's third pass wherever its second differs); "
        "the tie compares the library's SECOND pass byte for byte with the model's on every record, so on the fragment a second-pass difference the model does not predict is a violation under any seed. "
        "Regenerated from the source on every run and proved against the model: the `- -` guard (parenthesise_double_minus) and the condition rule (remove_condition_parentheses: one pass leaves no removable layer).",
   design="5/C06", technique="Coq proof of kernel idempotence and of whole-program idempotence on the L0 model under a stated premise (refuted without it) + rs2v-regenerated kernels (guard, condition rule) + L0 byte-for-byte tie of first AND second pass + second-pass comparison on a fixed regression set with per-input baseline",
   note=BASE_NOTE + "Outside the L0 fragment no region is established clean for whole-program idempotence (1.5% of generated programs differ even at unbounded width): known finding F-C06-baseline."),
 "C10": dict(
   text="Partial. Theorems: the comment gate emits only the configured line ending inside block comments, trims line comments idempotently, the conversion is idempotent. Validation: the whitespace discipline (every newline in the configured form, no other CR, "
        "indentation of the configured kind, one final line ending) evaluated by the extracted checker on every output of generated programs (LF, CRLF, mixed) x configurations; both regions clean. "
        "L0 (Fmt0.v): a whole-formatter model on a fragment of Lua 5.1 (every statement kind but goto/labels; expressions without function bodies; long-bracket strings on one line (with the blank that keeps one away from the brackets of an index or key); escapes, all quote styles, statement-level line comments and empty lines; call sugar; tables written over several lines (nested indentation inside expressions) with comments and empty lines between their fields; the whitespace, quote, call_parentheses, space_after_function_names and collapse_simple_statement options), tied to the binary byte for byte on every run (svh l0 x drv_l0). On L0: the printed tokens pass the newline and indentation discipline for every program and configuration (format0_whitespace_discipline), and a non-empty output ends with exactly one line ending, byte level, for every well-formed program (Fmt0Eof.format0_ends_with_one_line_ending; the empty program gives the empty output); the regenerated line-ending / indentation creators of context.rs satisfy the discipline.",
   design="5/C10", technique="Coq proof of the comment gate's whitespace + extracted whitespace-discipline checker on every output + L0 whole-formatter model (byte-for-byte tie) + regenerated creators",
   note=BASE_NOTE + "Ignored / out-of-range text is excluded by not generating directives and ranges here."),
 "C11": dict(
   text="Partial. Theorems: forced quote styles are forced; AutoPrefer* takes the preferred quote unless the other needs strictly fewer escapes; the rule is observable on the output. Validation: the quote rule on every string token of every output. "
        "Call-form and function-name spacing rules: theorems on the decision kernels (CallForm.v; the option readers and trivia creators of context.rs regenerated by rs2v), validated on the output AST. "
        "L0 (Fmt0.v): the whole-formatter model on a fragment of Lua 5.1 carries call_parentheses (a call-form pass, Fmt0.cexp, built on CallForm.call_form with the 'an index or method call follows' context) and space_after_function_names (blanks before `(` of calls and of function headers, the second blank of `f  \"s\"` included), tied to the binary byte for byte under every value on every run. On L0: every call site of what format0 prints has the form the option asks for (format0_calls_obey_the_option); under Input every call is printed as written (cexp_input_prints_the_same); a tree-blind scanner of the printed tokens finds a blank before the `(` of call arguments exactly under Calls / Always and before the `(` of a named function header exactly under Definitions / Always (Fmt0Space.printed_tokens_obey_space_after_function_names). On L0 also: every quoted string token of the output carries the quote quote_style asks for, for every program and configuration (C11_L0_every_string_obeys_quote_style; the same extracted judge, Fmt0.quote_ok, runs on every string token of every output of the check).",
   design="5/C11", technique="Coq proof of the quote rule and of the call-form rule on whole L0 programs + rule evaluation on every output token + L0 whole-formatter model (byte-for-byte tie under every option value) + regenerated option kernels",
   note=BASE_NOTE),
 "C08": dict(
   text="Theorems on the block loop over abstract statements (whatever the formatter does to a formatted statement): an ignored statement and its semicolon come out exactly as written for every neighbourhood; formatted statements do not depend on their neighbours' mode; the loop before the repair is refuted. "
        "Validation: every ignored statement (any depth, with semicolon) and ignored table field of generated programs is cut out by byte position from input and output and compared.",
   design="5/C08", technique="Coq proof on the block loop + byte comparison of every ignored node on generated programs",
   note=BASE_NOTE + "The loop model is hand-written; its tie is the byte comparison (an ignored node that changes contradicts skip_verbatim)."),
 "C09": dict(
   text="Theorems on the same block model: an out-of-range statement keeps its semicolon and is only visited inside; two runs that both format a statement give it the same result whatever they do to its neighbours (in range = whole file). "
        "Validation: for 4 range shapes per program, every statement is classified by byte position; outside statements must be byte-identical, in-range ones equal to the whole-file run, and the bytes around the affected statements unchanged.",
   design="5/C09", technique="Coq proof on the block loop + per-statement byte comparison against input and whole-file run",
   note=BASE_NOTE + "Two known classes (anonymous functions in non-visited expressions; full_moon end positions) are listed findings."),
 "C07": dict(
   text="Partial: the property lives mostly in the runtime. Proved: the pipeline returns success exactly for parseable text; the cost recurrences of trial formatting, including that nested return values cost at least 2^k (a listed known finding, so no polynomial bound holds). "
        "Validated: format_code under catch_unwind with a time budget on generated programs x extreme configurations x ranges of every kind, truncations, splices, text mutations and bounded nesting families (in a child process); five listed findings are replayed by probes.",
   design="5/C07", technique="Coq proof (pipeline shape, cost recurrences) + guarded execution with time budget and child-process probes",
   note=BASE_NOTE + "A Gallina model cannot exhibit a Rust panic, stack overflow or wall time; those halves are exploration only."),
}
PENDING = {}
def main():
    props = [json.loads(l) for l in open(os.path.join(ROOT, "properties.jsonl"))]
    checks, na = [], []
    for p in props:
        i = p["id"]
        if i in CHECKS:
            c = CHECKS[i]
            checks.append(dict(property_id=i, quick_cmd="./sv check %s --tier quick" % i, thorough_cmd="./sv check %s --tier thorough" % i,
                               evidence_file="/verif/evidence/%s.json" % i, replay_cmd_template="./sv replay {path}", engine="sv",
                               level_claimed=dict(category=c.get("category", "proof"), text=c["text"], design_ref=c["design"]),
                               level_note=c["note"], technique=c["technique"]))
        else:
            na.append(dict(property_id=i, reason=PENDING.get(i, "not claimed yet: its check is still being built (see DESIGN.md section 7 for the order of work)")))
    m = dict(version=1, setup_cmd="./sv setup",
             hooks=dict(guard="stylua_verif", enable='RUSTFLAGS="--cfg stylua_verif" (set by svlib/core.py for every cargo build of the harness)',
                        baseline_off_cmd="cd /repo && cargo test --workspace --no-fail-fast --offline", source_commits=["c346a05", "29928c2"], add_only=True),
             engines=[dict(name="sv", path="/verif/sv", serves_properties=sorted(CHECKS), kind_free_text="Coq 8.16 proofs (coq/), extracted OCaml judges (ml/), Rust harness (harness/), Python runner (svlib/)")],
             checks=checks, not_applicable=na,
             notes="Repairs of genuine defects are `fix:` commits in /repo, listed as fixed in known_findings.jsonl; see DESIGN.md.")
    json.dump(m, open(os.path.join(ROOT, "MANIFEST.json"), "w"), indent=1)
if __name__ == "__main__":
    main()
