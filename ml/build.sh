#!/bin/sh
# Compiles the extracted model (written by coq/theories/Extract.v into .cache/ml) with the drivers of this directory.
set -e
HERE=$(cd "$(dirname "$0")" && pwd)
OUT="$HERE/../.cache/ml"
cp "$HERE"/*.ml "$OUT"/
cd "$OUT"
MODEL=$(ocamlfind ocamldep -sort $(ls *.ml | grep -v '^drv_') $(ls *.mli))
for d in drv_*.ml; do
  ocamlfind ocamlopt -O3 -w -a -o "${d%.ml}" $MODEL "$d" 2>/dev/null || ocamlfind ocamlopt -w -a -o "${d%.ml}" $MODEL "$d"
done
