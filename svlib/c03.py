from . import fmtprops
def run(res): return fmtprops.run_prop(res, "C03")
def replay(payload): return fmtprops.replay(payload, "C03")
