(* C08 - `-- stylua: ignore` regions are reproduced verbatim.  Statements only.
   The block loop over abstract statements (what the formatter does to a formatted statement is arbitrary): an ignored
   statement and its semicolon come out as written whatever its neighbours are; formatted ones do not depend on them. *)
From Coq Require Import List.
From SV Require BlockRule.
Import ListNotations BlockRule.
Theorem C08_skipped_statement_verbatim : forall S Semi mode_of fmt inner strip_first needs_semi fmt_semi fresh_semi move_trailing absorb l first i s semi,
  nth_error l i = Some (s, semi) -> mode_of s = Skip ->
  nth_error (go S Semi mode_of fmt inner strip_first needs_semi fmt_semi fresh_semi move_trailing absorb first l) i = Some (s, semi).
Proof. exact skip_verbatim. Qed.
Print Assumptions C08_skipped_statement_verbatim.
Theorem C08_others_still_formatted : forall S Semi mode_of fmt inner strip_first needs_semi fmt_semi fresh_semi move_trailing absorb l first i s semi,
  nth_error l i = Some (s, semi) -> mode_of s = Normal ->
  nth_error (go S Semi mode_of fmt inner strip_first needs_semi fmt_semi fresh_semi move_trailing absorb first l) i =
    Some (normal_out S Semi fmt strip_first needs_semi fmt_semi fresh_semi move_trailing absorb (match i with O => first | _ => false end) s semi (option_map fst (nth_error l (Datatypes.S i)))).
Proof. exact normal_local. Qed.
Print Assumptions C08_others_still_formatted.
Theorem C08_loop_before_the_repair_refuted :
  exists (mode_of : nat -> mode) l, nth_error l 0 = Some (7, Some tt) /\ mode_of 7 = Skip /\
    nth_error (go_old nat unit mode_of (fun x => x) (fun x => x) (fun x => x) (fun _ _ => false) (fun x => x) tt
                      (fun s sm => (s, sm)) (fun s _ => s) true l) 0 <> Some (7, Some tt).
Proof. exact skip_verbatim_refuted. Qed.
Print Assumptions C08_loop_before_the_repair_refuted.

(* the decision itself, regenerated from src/context.rs :: should_format_node on every run: inside an
   `ignore start` region, or behind an `ignore` comment, the verdict is Skip whatever the range says *)
From SV Require FmAst ShouldFormat ShouldFormatProof.
From SVgen Require ShouldFormat.
Theorem C08_disabled_region_is_skipped : forall l r n, SVgen.ShouldFormat.should_format_node true l r n = FmAst.FormatNode_Skip.
Proof. exact ShouldFormatProof.disabled_is_skip. Qed.
Print Assumptions C08_disabled_region_is_skipped.
Theorem C08_ignore_comment_is_skipped : forall r n, SVgen.ShouldFormat.should_format_node false (Some FmAst.FormatNode_Skip) r n = FmAst.FormatNode_Skip.
Proof. exact ShouldFormatProof.ignore_comment_is_skip. Qed.
Print Assumptions C08_ignore_comment_is_skipped.
Theorem C08_everything_else_is_formatted : forall n, SVgen.ShouldFormat.should_format_node false None None n = FmAst.FormatNode_Normal.
Proof. exact ShouldFormatProof.no_range_no_comment_is_normal. Qed.
Print Assumptions C08_everything_else_is_formatted.
