(* C17 - stdin mode writes the formatted text to stdout and nothing else.  Statements only (the substance is the tie). *)
From SV Require CliModel.
Import CliModel.
Theorem C17_prints_exactly_the_formatted_text : forall content input f same,
  out content (stdin_run content input (Ok_ f) false false same) = Some f /\ status content (stdin_run content input (Ok_ f) false false same) = 0.
Proof. intros. split; reflexivity. Qed.
Print Assumptions C17_prints_exactly_the_formatted_text.
Theorem C17_parse_error_prints_nothing : forall content input check same,
  out content (stdin_run content input ParseFail false check same) = None /\ status content (stdin_run content input ParseFail false check same) = 2.
Proof. intros. split; reflexivity. Qed.
Print Assumptions C17_parse_error_prints_nothing.
Theorem C17_ignored_path_passes_input_through : forall content input lib same,
  out content (stdin_run content input lib true false same) = Some input /\ status content (stdin_run content input lib true false same) = 0.
Proof. intros. split; reflexivity. Qed.
Print Assumptions C17_ignored_path_passes_input_through.
Theorem C17_never_writes : forall content input lib skip check same, wrote content (stdin_run content input lib skip check same) = false.
Proof. intros. unfold stdin_run. destruct skip; [reflexivity|]. destruct lib; [destruct check|]; reflexivity. Qed.
Print Assumptions C17_never_writes.
