(* C06 for the parenthesis rule: the single-line formatter on operator shapes is idempotent on every shape in which no
   unary minus is applied - through parentheses and type assertions - to something that starts with a unary minus.
   (With such a minus the guard `parenthesise_double_minus` adds parentheses that a second pass may drop again:
   Fmt0Proof.nprog_not_idempotent_refuted.) *)
From Coq Require Import List Bool.
From SV Require Import Expr Parens ParensProof.

Lemma starts_neg_sn : forall e c, starts_neg (fmt_single c e) = true -> sn e = true.
Proof.
  induction e; intros c H; cbn [fmt_single sn] in *; try discriminate.
  - destruct (droppable c e); [apply (IHe c H)|discriminate].
  - destruct u; [reflexivity|discriminate|discriminate|discriminate].
  - apply (IHe TypeAssertion). exact H.
Qed.
Lemma guard_free u x c : gf (Un u x) = true -> guard u (fmt_single c x) = fmt_single c x.
Proof.
  cbn [gf]. intros H. apply andb_true_iff in H. destruct H as [H _]. unfold guard. destruct u; try reflexivity.
  destruct (starts_neg (fmt_single c x)) eqn:S; [|reflexivity]. rewrite (starts_neg_sn x c S) in H. discriminate.
Qed.
(* what is not droppable stays not droppable once its inside has been formatted *)
Lemma check_stable : forall x c c', gf x = true -> check x c = false -> check (fmt_single c' x) c = false.
Proof.
  induction x; intros c c' G H; cbn [fmt_single check] in *; try discriminate; try reflexivity; try exact H.
  rewrite (guard_free u x UB G). cbn [gf] in G. apply andb_true_iff in G. destruct G as [_ G].
  destruct c; try exact H; try (apply IHx; assumption).
  destruct u; try exact H; apply IHx; assumption.
Qed.
Theorem fmt_single_idempotent : forall e c, gf e = true -> fmt_single c (fmt_single c e) = fmt_single c e.
Proof.
  induction e; intros c G; cbn [fmt_single]; try reflexivity.
  - (* parentheses *) cbn [gf] in G. destruct (droppable c e) eqn:D; [apply IHe; exact G|]. cbn [fmt_single].
    assert (D' : droppable c (fmt_single Std e) = false).
    { unfold droppable in *. apply andb_false_iff in D. apply andb_false_iff. destruct D as [D|D]; [left; apply check_stable; assumption|right; exact D]. }
    rewrite D', IHe by exact G. reflexivity.
  - (* unary *) rewrite (guard_free u e UB G). cbn [fmt_single]. cbn [gf] in G. apply andb_true_iff in G. destruct G as [G0 G].
    rewrite IHe by exact G. f_equal. unfold guard. destruct u; try reflexivity.
    destruct (starts_neg (fmt_single UB e)) eqn:S; [|reflexivity]. rewrite (starts_neg_sn e UB S) in G0. discriminate.
  - (* binary *) cbn [gf] in G. apply andb_true_iff in G. destruct G as [G1 G2]. rewrite IHe1, IHe2 by assumption. reflexivity.
  - rewrite IHe by exact G. reflexivity.
  - rewrite IHe by exact G. reflexivity.
Qed.
(* the condition is needed: the witness of the refutation *)
Example not_idempotent_with_a_double_minus :
  let e := Paren (Un Neg (Un Neg Multi)) in gf e = false /\ fmt_single Std (fmt_single Std e) <> fmt_single Std e.
Proof. split; [reflexivity|vm_compute; discriminate]. Qed.

(* ---------- conditions (if / elseif / while / until): every layer of parentheses around them goes ---------- *)
(* A condition uses the first value of its expression only, so parentheses around it - which can only truncate to the first
   value - cannot matter; what remains is formatted by the ordinary rule, which keeps the grouping. *)
Lemma first_value_paren x : first_value (Sm (Paren x)) = first_value (Sm x).
Proof. cbn [Sm]. destruct (Sm x); reflexivity. Qed.
Theorem strip_keeps_first_value : forall e, first_value (Sm (strip e)) = first_value (Sm e).
Proof. induction e; try reflexivity. cbn [strip]. rewrite IHe. symmetry. apply first_value_paren. Qed.
Theorem condition_rule_keeps_first_value e : first_value (Sm (fmt_single Std (strip e))) = first_value (Sm e).
Proof. rewrite (ParensProof.R_sem Std _ _ (ParensProof.fmt_single_R (strip e) Std)). apply strip_keeps_first_value. Qed.
(* ... and it does matter elsewhere: the first value is not the value *)
Example parentheses_truncate : Sm (Paren Multi) <> Sm Multi /\ first_value (Sm (Paren Multi)) = first_value (Sm Multi).
Proof. split; [discriminate|reflexivity]. Qed.
