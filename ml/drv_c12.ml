(* C12 judge.  Per case: IN records (top-level statements of the input as parsed by full_moon), ON records (those of
   the output formatted with sort_requires on), OFF records (sort_requires off).
   (K) the statement sequence of ON = SortReq.sort_requires (str_leb) on IN: same bodies at the same slots, same
       leading comments at the same slots;   OFF = IN.
   (S) observed directly on the implementation: bodies of ON are a permutation of IN, comments are a permutation,
       non-require statements keep their slots. *)
open Util
open SortReq
type rec_ = { kindc : string; name : string; l0 : int; l1 : int; normal : bool; key : string; lead : string list; trail : string list }
let parse_list s = if s = "-" then [] else L.map (fun h -> Drvutil.str_of_hex h) (SS.split_on_char ',' s)
let rec_of = function
  | [kindc; name; l0; _start; l1; normal; key; lead; trail] ->
    { kindc; name = (if name = "-" then "" else Drvutil.str_of_hex name); l0 = int_of_string l0; l1 = int_of_string l1; normal = normal = "1";
      key = Drvutil.str_of_hex key; lead = parse_list lead; trail = parse_list trail }
  | _ -> failwith "record"
let item_of r : (char list, string * string list, string) item =
  let body = (r.key, r.trail) in
  if r.kindc = "O" then Other (body, r.lead)
  else Req { kind = (r.kindc = "G"); name = Drvutil.chars r.name; l0 = int_to_nat r.l0; l1 = int_to_nat r.l1; normal = r.normal; rbody = body; rlead = r.lead }
let body_of = function Req r -> r.rbody | Other (b, _) -> b
let lead_of = function Req r -> r.rlead | Other (_, l) -> l

let cases = ref 0 and bad = ref 0 and moved = ref 0 and groupsn = ref 0 and samples = ref 0 and ignored_groups = ref 0
let cur_id = ref "" and ins = ref [] and ons = ref [] and offs = ref [] and errs = ref []
let report k = incr bad; Printf.printf "BAD %s %s\n" k !cur_id

let finish () =
  incr cases;
  if !errs <> [] then report ("format-" ^ SS.concat "+" !errs)
  else begin
    let i = L.rev !ins and on = L.rev !ons and off = L.rev !offs in
    let items = L.map item_of i in
    let model = sort_requires str_leb items in
    let gs = groups [] items in
    L.iter (function Datatypes.Coq_inl g -> if L.length g > 1 then (incr groupsn; if not (L.for_all (fun (r : (char list, string * string list, string) req) -> r.normal) g) then incr ignored_groups) | _ -> ()) gs;
    let view rs = L.map (fun r -> ((r.key, r.trail), r.lead)) rs in
    let mview = L.map (fun it -> (body_of it, lead_of it)) model in
    if L.map fst mview <> L.map fst (view i) then incr moved;
    if L.length on <> L.length i then report "statement-count"
    else begin
      if L.map fst (view on) <> L.map fst mview then report "order-differs-from-model"
      else if L.map snd (view on) <> L.map snd mview then report "leading-comments-differ-from-model";
      (* the property, directly *)
      let sort_ l = L.sort compare l in
      if sort_ (L.map fst (view on)) <> sort_ (L.map fst (view i)) then report "not-a-permutation";
      if sort_ (L.concat (L.map (fun r -> r.lead @ r.trail) on)) <> sort_ (L.concat (L.map (fun r -> r.lead @ r.trail) i)) then report "comment-lost-or-duplicated";
      L.iter2 (fun a b -> if (a.kindc = "O" || b.kindc = "O") && (a.key, a.trail) <> (b.key, b.trail) then report "non-require-moved") i on
    end;
    if view off <> view i then report "sort-off-changed-order-or-comments";
    if !samples < 5 && L.map fst mview <> L.map fst (view i) && !cases mod 11 = 0 then begin
      incr samples;
      Printf.printf "SAMPLE %s names_in=[%s] names_out=[%s]\n" !cur_id (SS.concat "," (L.map (fun r -> if r.kindc = "O" then "." else r.name) i))
        (SS.concat "," (L.map (fun r -> if r.kindc = "O" then "." else r.name) on))
    end
  end

let handle line =
  match words line with
  | "RQ" :: _ -> ()   (* judged by drv_req *)
  | "CASE" :: id :: _ -> cur_id := id; ins := []; ons := []; offs := []; errs := []
  | "IN" :: r -> ins := rec_of r :: !ins
  | "ON" :: r -> ons := rec_of r :: !ons
  | "OFF" :: r -> offs := rec_of r :: !offs
  | "ONERR" :: k :: _ -> errs := ("on:" ^ k) :: !errs
  | "OFFERR" :: k :: _ -> errs := ("off:" ^ k) :: !errs
  | ["END"] -> finish ()
  | "STATS" :: _ -> print_endline line
  | [] -> ()
  | _ -> report "unreadable-record"
let () =
  iter_lines handle;
  Printf.printf "SUMMARY cases=%d reordered=%d groups=%d ignored_groups=%d bad=%d\n" !cases !moved !groupsn !ignored_groups !bad
