//! C05 tie: operator trees with parentheses at every position, in every expression context, at widths that make
//! them fit / hang; the parsed input tree and the re-parsed output tree go to the Coq judge (drv_c05).
use crate::common::*;
use crate::tree::tree;
use full_moon::ast::*;

#[derive(Clone)]
enum T {
    Atom,
    Multi,
    Par(Box<T>),
    Un(&'static str, Box<T>),
    Bin(&'static str, Box<T>, Box<T>),
    As(Box<T>),
    If(Box<T>),
}
const ATOM: &str = "aaaaaaaaaaaa";
fn show(t: &T, k: &mut usize) -> String {
    match t {
        T::Atom => { *k += 1; format!("{}{}", ATOM, *k % 7) }
        T::Multi => "f()".into(),
        T::Par(x) => format!("({})", show(x, k)),
        T::Un(u, x) => {
            let inner = show(x, k);
            // `- -x` must not be printed as a comment
            format!("{}{}{}", u, if *u == "not" || (*u == "-" && inner.starts_with('-')) { " " } else { "" }, inner)
        }
        T::Bin(b, l, r) => { let a = show(l, k); let c = show(r, k); format!("{} {} {}", a, b, c) }
        T::As(x) => format!("{} :: number", show(x, k)),
        T::If(x) => format!("if c then d else {}", show(x, k)),
    }
}

const OPS_REP: &[&str] = &["or", "and", "<", "|", "~", "&", "<<", "..", "+", "-", "*", "^"];
const OPS_ALL: &[&str] = &["or", "and", "<", ">", "<=", ">=", "~=", "==", "|", "~", "&", "<<", ">>", "..", "+", "-", "*", "/", "//", "%", "^"];
const OPS_LUAU: &[&str] = &["or", "and", "<", "==", "..", "+", "-", "*", "//", "^"];
const UNS: &[&str] = &["-", "not", "#"];

fn gen(d: usize, ops: &[&'static str], uns: &[&'static str], luau: bool) -> Vec<T> {
    if d == 0 {
        return vec![T::Atom, T::Multi];
    }
    let t = gen(d - 1, ops, uns, luau);
    let mut out = vec![T::Atom, T::Multi];
    for x in &t { out.push(T::Par(Box::new(x.clone()))); }
    for u in uns { for x in &t { out.push(T::Un(u, Box::new(x.clone()))); } }
    if luau {
        for x in &t { out.push(T::As(Box::new(x.clone()))); out.push(T::If(Box::new(x.clone()))); }
    }
    for b in ops { for l in &t { for r in &t { out.push(T::Bin(b, Box::new(l.clone()), Box::new(r.clone()))); } } }
    out
}
fn random_tree(rng: &mut Rng, d: usize, ops: &[&'static str], uns: &[&'static str], luau: bool) -> T {
    if d == 0 || rng.chance(1, 6) {
        return if rng.chance(1, 4) { T::Multi } else { T::Atom };
    }
    match rng.below(if luau { 12 } else { 10 }) {
        0 | 1 | 2 => T::Par(Box::new(random_tree(rng, d - 1, ops, uns, luau))),
        3 | 4 => T::Un(*rng.pick(uns), Box::new(random_tree(rng, d - 1, ops, uns, luau))),
        10 => T::As(Box::new(random_tree(rng, d - 1, ops, uns, luau))),
        11 => T::If(Box::new(random_tree(rng, d - 1, ops, uns, luau))),
        _ => T::Bin(*rng.pick(ops), Box::new(random_tree(rng, d - 1, ops, uns, luau)), Box::new(random_tree(rng, d - 1, ops, uns, luau))),
    }
}

/// (name, model context, source template with {E}, extractor)
type Extract = fn(&Ast) -> Option<Expression>;
fn first_stmt(a: &Ast) -> Option<&Stmt> { a.nodes().stmts().next() }
fn ex_local(a: &Ast) -> Option<Expression> { match first_stmt(a)? { Stmt::LocalAssignment(l) => l.expressions().iter().next().cloned(), _ => None } }
fn ex_assign(a: &Ast) -> Option<Expression> { match first_stmt(a)? { Stmt::Assignment(l) => l.expressions().iter().next().cloned(), _ => None } }
fn ex_return(a: &Ast) -> Option<Expression> { match a.nodes().last_stmt()? { LastStmt::Return(r) => r.returns().iter().last().cloned(), _ => None } }
fn ex_if(a: &Ast) -> Option<Expression> { match first_stmt(a)? { Stmt::If(i) => Some(i.condition().clone()), _ => None } }
fn ex_while(a: &Ast) -> Option<Expression> { match first_stmt(a)? { Stmt::While(i) => Some(i.condition().clone()), _ => None } }
fn ex_repeat(a: &Ast) -> Option<Expression> { match first_stmt(a)? { Stmt::Repeat(i) => Some(i.until().clone()), _ => None } }
fn call_args(c: &FunctionCall) -> Option<Vec<Expression>> {
    match c.suffixes().last()? {
        Suffix::Call(Call::AnonymousCall(FunctionArgs::Parentheses { arguments, .. })) => Some(arguments.iter().cloned().collect()),
        Suffix::Call(Call::MethodCall(m)) => match m.args() { FunctionArgs::Parentheses { arguments, .. } => Some(arguments.iter().cloned().collect()), _ => None },
        _ => None,
    }
}
fn ex_arg(a: &Ast) -> Option<Expression> { match first_stmt(a)? { Stmt::FunctionCall(c) => call_args(c)?.last().cloned(), _ => None } }
fn ex_field(a: &Ast) -> Option<Expression> {
    match ex_local(a)? { Expression::TableConstructor(t) => match t.fields().iter().last()? { Field::NoKey(e) => Some(e.clone()), Field::NameKey { value, .. } => Some(value.clone()), Field::ExpressionKey { key, .. } => Some(key.clone()), _ => None }, _ => None }
}
fn ex_index(a: &Ast) -> Option<Expression> {
    match ex_local(a)? { Expression::Var(Var::Expression(v)) => match v.suffixes().last()? { Suffix::Index(Index::Brackets { expression, .. }) => Some(expression.clone()), _ => None }, _ => None }
}
fn ex_prefix(a: &Ast) -> Option<Expression> {
    match ex_local(a)? { Expression::Var(Var::Expression(v)) => match v.prefix() { Prefix::Expression(e) => Some((**e).clone()), _ => None }, _ => None }
}
const CONTEXTS: &[(&str, &str, &str, Extract)] = &[
    ("local", "Std", "local x = {E}\n", ex_local),
    ("assign", "Std", "x.y = {E}\n", ex_assign),
    ("return", "Std", "return a, {E}\n", ex_return),
    ("if", "Cond", "if {E} then\n\tg()\nend\n", ex_if),
    ("while", "Cond", "while {E} do\n\tg()\nend\n", ex_while),
    ("until", "Cond", "repeat\n\tg()\nuntil {E}\n", ex_repeat),
    ("arg", "Std", "g(a, {E})\n", ex_arg),
    ("method_arg", "Std", "o:m({E})\n", ex_arg),
    ("field", "Std", "local t = { a, {E} }\n", ex_field),
    ("namefield", "Std", "local t = { k = {E} }\n", ex_field),
    ("keyfield", "Std", "local t = { [{E}] = 1 }\n", ex_field),
    ("index", "Std", "local v = t[{E}]\n", ex_index),
    ("prefix", "Prefix", "local v = ({E}).y\n", ex_prefix),
];
const WIDTHS: &[usize] = &[400, 60, 24, 1];

fn run_one(out: &mut dyn std::io::Write, st: &mut [u64; 4], syn: &str, text: &str, only_ctx: Option<&str>, only_width: Option<usize>) {
    let v = syntax(syn);
    for (cname, mctx, templ, ex) in CONTEXTS {
        if only_ctx.map_or(false, |c| c != *cname) { continue; }
        let src = templ.replace("{E}", text);
        let ast = match full_moon::parse_fallible(&src, v.into()).into_result() { Ok(a) => a, Err(_) => { st[1] += 1; continue } };
        let tin = match ex(&ast) { Some(e) => tree(&e), None => { st[1] += 1; continue } };
        for w in WIDTHS {
            if only_width.map_or(false, |x| x != *w) { continue; }
            st[0] += 1;
            let cfg = config(&[&format!("syntax={}", syn), &format!("column_width={}", w)]);
            let head = format!("E {} {} {} {} {} {}", syn, cname, mctx, w, hex(text.as_bytes()), tin.replace(' ', "_"));
            match format_guarded(&src, cfg, None) {
                Outcome::Ok(o) => match full_moon::parse_fallible(&o, v.into()).into_result() {
                    Ok(oast) => match ex(&oast) {
                        Some(e) => writeln!(out, "{} ok {}", head, tree(&e).replace(' ', "_")).unwrap(),
                        None => writeln!(out, "{} noextract {}", head, hex(o.as_bytes())).unwrap(),
                    },
                    Err(_) => writeln!(out, "{} noparse {}", head, hex(o.as_bytes())).unwrap(),
                },
                Outcome::ParseError => writeln!(out, "{} parseerror", head).unwrap(),
                Outcome::OtherError(e) => writeln!(out, "{} error {}", head, hex(e.as_bytes())).unwrap(),
                Outcome::Panic(e) => writeln!(out, "{} panic {}", head, hex(e.as_bytes())).unwrap(),
            }
        }
    }
}

pub fn main(args: &[String]) {
    silence_panics();
    let (mut depth, mut shard, mut shards, mut random, mut seed, mut all_ops) = (2usize, 0usize, 1usize, 0usize, 0u64, false);
    let mut one: Option<(String, String, String, usize)> = None;
    let mut i = 0;
    while i < args.len() {
        match args[i].as_str() {
            "--depth" => { depth = args[i + 1].parse().unwrap(); i += 1 }
            "--shard" => { let (a, b) = args[i + 1].split_once('/').unwrap(); shard = a.parse().unwrap(); shards = b.parse().unwrap(); i += 1 }
            "--random" => { random = args[i + 1].parse().unwrap(); i += 1 }
            "--seed" => { seed = args[i + 1].parse().unwrap(); i += 1 }
            "--all-ops" => all_ops = true,
            "--one" => { one = Some((args[i + 1].clone(), args[i + 2].clone(), args[i + 3].clone(), args[i + 4].parse().unwrap())); i += 4 }
            _ => panic!("c05: unknown argument {}", args[i]),
        }
        i += 1;
    }
    let stdout = std::io::stdout();
    let mut out = std::io::BufWriter::new(stdout.lock());
    let mut st = [0u64; 4];
    if let Some((syn, cname, texthex, w)) = one {
        let text = String::from_utf8(unhex(&texthex)).unwrap();
        run_one(&mut out, &mut st, &syn, &text, Some(&cname), Some(w));
        return;
    }
    let mut n = 0usize;
    let ops = if all_ops { OPS_ALL } else { OPS_REP };
    for (syn, trees) in [("Lua54", gen(depth, ops, &["-", "not", "#", "~"][..if all_ops { 4 } else { 3 }], false)), ("Luau", gen(depth.min(2), &OPS_LUAU[..if all_ops { 10 } else { 5 }], &UNS[..2], true))] {
        for t in &trees {
            n += 1;
            if n % shards != shard { continue; }
            let mut k = 0;
            let text = show(t, &mut k);
            run_one(&mut out, &mut st, syn, &text, None, None);
        }
    }
    let mut rng = Rng(seed ^ 0xC05);
    for r in 0..random {
        let luau = rng.chance(1, 3);
        let t = if luau { random_tree(&mut rng, 4, OPS_LUAU, &UNS[..3], true) } else { random_tree(&mut rng, 4, OPS_ALL, &["-", "not", "#", "~"], false) };
        if r % shards != shard { continue; }
        let mut k = 0;
        let text = show(&t, &mut k);
        run_one(&mut out, &mut st, if luau { "Luau" } else { "Lua54" }, &text, None, None);
    }
    use std::io::Write;
    writeln!(out, "STATS records={} skipped_inputs={}", st[0], st[1]).unwrap();
}
