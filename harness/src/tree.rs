//! Serialisation of full_moon expressions into the operator-grammar trees of coq/theories/Expr.v.
use full_moon::ast::*;
use full_moon::tokenizer::{Symbol, TokenType};

pub fn binop_name(b: &BinOp) -> &'static str {
    match b {
        BinOp::And(_) => "And",
        BinOp::Caret(_) => "Pow",
        BinOp::GreaterThan(_) => "Gt",
        BinOp::GreaterThanEqual(_) => "Ge",
        BinOp::LessThan(_) => "Lt",
        BinOp::LessThanEqual(_) => "Le",
        BinOp::Minus(_) => "Sub",
        BinOp::Or(_) => "Or",
        BinOp::Percent(_) => "Mod",
        BinOp::Plus(_) => "Add",
        BinOp::Slash(_) => "Div",
        BinOp::Star(_) => "Mul",
        BinOp::TildeEqual(_) => "Ne",
        BinOp::TwoDots(_) => "Concat",
        BinOp::TwoEqual(_) => "Eq",
        BinOp::Ampersand(_) => "BAnd",
        BinOp::DoubleSlash(_) => "IDiv",
        BinOp::DoubleLessThan(_) => "Shl",
        BinOp::DoubleGreaterThan(_) => "Shr",
        BinOp::Pipe(_) => "BOr",
        BinOp::Tilde(_) => "BXor",
        _ => "Unknown",
    }
}
pub fn unop_name(u: &UnOp) -> &'static str {
    match u {
        UnOp::Minus(_) => "Neg",
        UnOp::Not(_) => "Not",
        UnOp::Hash(_) => "Len",
        UnOp::Tilde(_) => "BNot",
        _ => "Unknown",
    }
}
pub fn tree(e: &Expression) -> String {
    match e {
        Expression::Parentheses { expression, .. } => format!("(par {})", tree(expression)),
        Expression::UnaryOperator { unop, expression } => format!("(un {} {})", unop_name(unop), tree(expression)),
        Expression::BinaryOperator { lhs, binop, rhs } => format!("(bin {} {} {})", binop_name(binop), tree(lhs), tree(rhs)),
        Expression::FunctionCall(_) => "multi".into(),
        Expression::Symbol(t) => match t.token_type() {
            TokenType::Symbol { symbol: Symbol::Ellipsis } => "multi".into(),
            _ => "atom".into(),
        },
        Expression::TypeAssertion { expression, .. } => format!("(as {})", tree(expression)),
        Expression::IfExpression(i) => format!("(if {})", tree(i.else_expression())),
        _ => "atom".into(),
    }
}
