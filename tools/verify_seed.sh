#!/bin/sh
# confirms a seeded change in its scratch worktree: tests pass with it, demo fails with it and passes without it
# usage: tools/verify_seed.sh <worktree>
w=$1; cd $w || exit 2
git apply --check -R seeded.patch 2>/dev/null || git apply seeded.patch
t=$(cargo test --workspace --no-fail-fast --offline 2>&1 | grep -E "^test result" | awk '{p+=$4; f+=$6} END {print p" passed "f" failed"}')
bash ./demo.sh >/dev/null 2>&1; with=$?
git apply -R seeded.patch
bash ./demo.sh >/dev/null 2>&1; without=$?
git apply seeded.patch
echo "$w: tests with change: $t; demo exit with change: $with; without: $without"
