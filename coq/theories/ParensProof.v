(* C05/C02 core: every result the parenthesis rule can produce, on any mixture of layout paths,
   has the semantic tree of the input, is again in canonical form, and never puts two minus signs together. *)
From Coq Require Import List Arith Bool Lia.
Import ListNotations.
From SV Require Import Expr Parens.

Ltac Rind H :=
  induction H as [c|c|c x o D H IH|c x o D H IH|c u x x' H IH
                 |c b l r l' r' Hl IHl Hr IHr|c b l r l' r' Hl IHl Hr IHr|c x x' H IH|c x x' H IH].
Lemma droppable_check c x : droppable c x = true -> check x c = true.
Proof. unfold droppable. intros D. apply andb_true_iff in D. tauto. Qed.

(* ---- the semantic tree is unchanged ---- *)
Lemma check_not_multi x c : check x c = true -> Sm x <> SMulti.
Proof. destruct x; cbn; try discriminate; intros _; try discriminate. destruct (Sm x); discriminate. Qed.
Lemma starts_neg_not_multi x : starts_neg x = true -> Sm x <> SMulti.
Proof. destruct x; cbn; try discriminate; intros _; discriminate. Qed.
Lemma guard_sem u x : Sm (guard u x) = Sm x.
Proof.
  destruct u; cbn [guard]; try reflexivity. destruct (starts_neg x) eqn:S; [|reflexivity].
  cbn [Sm]. pose proof (starts_neg_not_multi x S). destruct (Sm x); congruence.
Qed.

Theorem R_sem : forall c e o, R c e o -> Sm o = Sm e.
Proof.
  intros c e o H. Rind H; cbn [Sm]; try reflexivity.
  - rewrite IH. pose proof (check_not_multi x c (droppable_check _ _ D)). destruct (Sm x); congruence.
  - rewrite IH. reflexivity.
  - rewrite guard_sem, IH. reflexivity.
  - rewrite IHl, IHr. reflexivity.
  - rewrite IHl, IHr. reflexivity.
  - rewrite IH. reflexivity.
  - rewrite IH. reflexivity.
Qed.

(* ---- canonical form is preserved ---- *)
Lemma rmin_cases e : rmin e = inf \/ rmin e <= 12.
Proof.
  induction e as [| |x IH|u x IH|b l IHl r IHr|x IH|x IH]; cbn [rmin]; auto.
  - right. unfold uprec. lia.
  - right. assert (q b <= 12) by (destruct b; cbn; lia). lia.
  - right. lia.
Qed.

(* a unary chain ending in something closed on the right *)
Fixpoint chain (e : expr) : bool :=
  match e with Atom | Multi | Paren _ | Assert _ => true | Un _ y => chain y | _ => false end.
Lemma check_chain x c : check x c = true -> chain x = true.
Proof.
  induction x as [| |x IH|u x IH|b l IHl r IHr|x IH|x IH]; cbn; auto.
  destruct c; try discriminate; auto. destruct u; try discriminate; auto.
Qed.
Lemma rmin_le_inf' e : rmin e <= inf.
Proof. induction e; cbn [rmin]; unfold inf in *; lia. Qed.
Lemma guard_rmin_ge u x : rmin x <= rmin (guard u x).
Proof. destruct u; cbn [guard]; try lia. destruct (starts_neg x); cbn [rmin]; [apply rmin_le_inf'|lia]. Qed.

Lemma chain_rmin : forall c x o, R c x o -> chain x = true -> uprec <= rmin o.
Proof.
  intros c x o H. Rind H; intros K; cbn in K; try discriminate; cbn [rmin]; unfold uprec, inf; try lia.
  - apply IH. eapply check_chain. eapply droppable_check. exact D.
  - specialize (IH K). pose proof (guard_rmin_ge u x'). unfold uprec in *. lia.
Qed.

Lemma drop_not_bin : forall c x o, R c x o -> chain x = true -> match o with Bin _ _ _ => False | _ => True end.
Proof.
  intros c x o H. Rind H; intros K; cbn in K; try discriminate; try exact I.
  apply IH. eapply check_chain. eapply droppable_check. exact D.
Qed.

Lemma top_ge_R : forall c e o, R c e o -> forall k, top_ge k e = true -> top_ge k o = true.
Proof.
  intros c e o H. Rind H; intros k K; try reflexivity; try exact K.
  pose proof (drop_not_bin c x o H (check_chain _ _ (droppable_check _ _ D))) as N.
  destruct o; try reflexivity. contradiction.
Qed.

Lemma rmin_R : forall c e o, R c e o -> Nat.min uprec (rmin e) <= rmin o.
Proof.
  intros c e o H. Rind H; cbn [rmin]; unfold inf, uprec in *; try lia.
  - pose proof (chain_rmin c x o H (check_chain _ _ (droppable_check _ _ D))). unfold uprec in *. lia.
  - pose proof (guard_rmin_ge u x'). lia.
Qed.

Lemma rmin_R_BLE : forall c e o, R c e o -> c = BLE -> rmin e = inf -> rmin o = inf.
Proof.
  intros c e o H. Rind H; intros -> K; cbn [rmin] in *; auto.
  - (* dropped in BLE: only an atom or another parenthesis can be inside *)
    apply IH; auto. pose proof (droppable_check _ _ D) as C.
    destruct x; cbn in C; try discriminate; reflexivity.
  - unfold uprec, inf in K. lia.
  - assert (q b <= 12) by (destruct b; cbn; lia). unfold inf in K. lia.
  - assert (q b <= 12) by (destruct b; cbn; lia). unfold inf in K. lia.
Qed.

Lemma lhs_ok c b l l' : (c = lhs_ctx b \/ c = hang_lhs_ctx b) -> R c l l' -> prec b < rmin l -> prec b < rmin l'.
Proof.
  intros Hc H Hlt. destruct (bop_eqb b Pow) eqn:E.
  - assert (b = Pow) by (destruct b; try discriminate; reflexivity). subst b. cbn in Hc, Hlt.
    destruct (rmin_cases l) as [I|I]; [|lia].
    rewrite (rmin_R_BLE c l l' H ltac:(tauto) I). unfold inf. cbn. lia.
  - pose proof (rmin_R c l l' H). assert (prec b <= 10) by (destruct b; cbn; try lia; discriminate).
    unfold uprec in *. lia.
Qed.

Lemma can_bin b l r : can (Bin b l r) = true -> can l = true /\ can r = true /\ prec b < rmin l /\ top_ge (q b) r = true.
Proof. cbn [can]. intros H. repeat (apply andb_true_iff in H; destruct H as [H ?]). apply Nat.ltb_lt in H1. auto. Qed.
Lemma can_bin_intro b l r : can l = true -> can r = true -> prec b < rmin l -> top_ge (q b) r = true -> can (Bin b l r) = true.
Proof. intros A B C D. cbn [can]. rewrite A, B, D. apply Nat.ltb_lt in C. rewrite C. reflexivity. Qed.

Theorem R_can : forall c e o, R c e o -> can e = true -> can o = true.
Proof.
  intros c e o H. Rind H; intros K; auto.
  - cbn [can] in K. apply andb_true_iff in K. destruct K as [Ka Kt].
    assert (A : can x' = true) by auto. assert (T : top_ge uprec x' = true) by (eapply top_ge_R; eauto).
    destruct u; cbn [guard can]; try (rewrite A, T; reflexivity).
    destruct (starts_neg x'); cbn [can top_ge]; rewrite A, ?T; reflexivity.
  - apply can_bin in K. destruct K as (Kl & Kr & Klt & Kt). apply can_bin_intro; auto.
    + exact (lhs_ok (lhs_ctx b) b l l' (or_introl eq_refl) Hl Klt).
    + eapply top_ge_R; eauto.
  - apply can_bin in K. destruct K as (Kl & Kr & Klt & Kt). apply can_bin_intro; auto.
    + exact (lhs_ok (hang_lhs_ctx b) b l l' (or_intror eq_refl) Hl Klt).
    + eapply top_ge_R; eauto.
  - cbn [can] in K |- *. apply andb_true_iff in K. destruct K as [Ka Kc]. rewrite (IH Ka). cbn [andb].
    (* a type assertion keeps the parentheses of its operand *)
    inversion H; subst; try reflexivity; try discriminate.
    unfold droppable in *. cbn [keeps negb] in *. rewrite andb_false_r in *. discriminate.
Qed.

(* ---- a unary minus is never followed by a token that starts with a minus sign ---- *)
Lemma lmost_neg_operand a : can a = true -> top_ge uprec a = true -> starts_neg a = false -> lmost_neg a = false.
Proof.
  destruct a as [| |x|u x|b l r|x|x]; cbn [top_ge starts_neg lmost_neg]; auto.
  - intros K T _. apply can_bin in K. destruct K as (Kl & _ & Klt & _).
    apply Nat.leb_le in T. assert (b = Pow) by (destruct b; cbn in T; unfold uprec in T; try lia; reflexivity). subst b.
    cbn [prec] in Klt.
    destruct (rmin_cases l) as [I|I]; [|lia].
    destruct l as [| |y|v y|c l1 l2|y|y]; cbn [lmost_neg]; auto.
    + cbn [rmin] in I. unfold uprec, inf in I. lia.
    + cbn [rmin] in I. assert (q c <= 12) by (destruct c; cbn; lia). unfold inf in I. lia.
    + cbn [can] in Kl. apply andb_true_iff in Kl. destruct Kl as [_ C]. destruct y; try discriminate; reflexivity.
  - intros K _ _. cbn [can] in K. apply andb_true_iff in K. destruct K as [_ C]. destruct x; try discriminate; reflexivity.
Qed.

Theorem R_no_double_minus : forall c e o, R c e o -> can e = true -> no_double_minus o = true.
Proof.
  intros c e o H. Rind H; intros K; cbn [no_double_minus]; auto.
  - cbn [can] in K. apply andb_true_iff in K. destruct K as [Ka Kt].
    pose proof (IH Ka) as N. pose proof (R_can _ _ _ H Ka) as A. pose proof (top_ge_R _ _ _ H _ Kt) as T.
    destruct u; cbn [guard]; try (rewrite N; reflexivity).
    destruct (starts_neg x') eqn:S; cbn [no_double_minus lmost_neg]; rewrite N; [reflexivity|].
    rewrite (lmost_neg_operand x' A T S). reflexivity.
  - apply can_bin in K. destruct K as (Kl & Kr & _ & _). rewrite (IHl Kl), (IHr Kr). reflexivity.
  - apply can_bin in K. destruct K as (Kl & Kr & _ & _). rewrite (IHl Kl), (IHr Kr). reflexivity.
  - cbn [can] in K. apply andb_true_iff in K. destruct K as [Ka _]. auto.
Qed.

(* ---- the functions are members of the relation, the decision procedure is sound ---- *)
Lemma fmt_single_R : forall e c, R c e (fmt_single c e).
Proof.
  induction e as [| |x IH|u x IH|b l IHl r IHr|x IH|x IH]; intros c; cbn [fmt_single].
  - apply R_atom.
  - apply R_multi.
  - destruct (droppable c x) eqn:D; [apply R_drop|apply R_keep]; auto.
  - apply R_un; auto.
  - apply R_bin_single; auto.
  - apply R_assert; auto.
  - apply R_if; auto.
Qed.
Lemma fmt_hang_R : forall e c, R c e (fmt_hang c e).
Proof.
  induction e as [| |x IH|u x IH|b l IHl r IHr|x IH|x IH]; intros c; cbn [fmt_hang].
  - apply R_atom.
  - apply R_multi.
  - destruct (droppable c x) eqn:D; [apply R_drop|apply R_keep]; auto.
  - apply R_un; auto.
  - apply R_bin_hang; auto.
  - apply R_assert; auto.
  - apply R_if; auto.
Qed.

Lemma bop_eqb_eq a b : bop_eqb a b = true -> a = b. Proof. destruct a, b; try discriminate; reflexivity. Qed.
Lemma uop_eqb_eq a b : uop_eqb a b = true -> a = b. Proof. destruct a, b; try discriminate; reflexivity. Qed.

Theorem inR_sound : forall e c o, inR c e o = true -> R c e o.
Proof.
  induction e as [| |x IH|u x IH|b l IHl r IHr|x IH|x IH]; intros c o H; cbn [inR] in H.
  - destruct o; try discriminate. constructor.
  - destruct o; try discriminate. constructor.
  - destruct (droppable c x) eqn:D; [apply R_drop; auto|]. destruct o; try discriminate. apply R_keep; auto.
  - destruct o as [| |y|v y|? ? ?|y|y]; try discriminate.
    apply andb_true_iff in H. destruct H as [E H]. apply uop_eqb_eq in E. subst v.
    destruct u.
    + (* Neg *)
      destruct y as [| |y'|w y'|? ? ?|y'|y'];
        try (apply andb_true_iff in H; destruct H as [S H]; apply negb_true_iff in S;
             match goal with |- R _ _ (Un Neg ?z) => replace z with (guard Neg z) by (cbn [guard]; rewrite S; reflexivity) end;
             apply R_un; auto; fail).
      apply orb_true_iff in H. destruct H as [H|H].
      * apply andb_true_iff in H. destruct H as [S H].
        replace (Paren y') with (guard Neg y') by (cbn [guard]; rewrite S; reflexivity). apply R_un; auto.
      * replace (Paren y') with (guard Neg (Paren y')) by reflexivity. apply R_un; auto.
    + replace y with (guard Not y) by reflexivity. apply R_un; auto.
    + replace y with (guard Len y) by reflexivity. apply R_un; auto.
    + replace y with (guard BNot y) by reflexivity. apply R_un; auto.
  - destruct o as [| |y|v y|b' l' r'|y|y]; try discriminate.
    apply andb_true_iff in H. destruct H as [H Hr]. apply andb_true_iff in H. destruct H as [E Hl].
    apply bop_eqb_eq in E. subst b'. apply orb_true_iff in Hl. destruct Hl as [Hl|Hl].
    + apply R_bin_single; auto.
    + apply R_bin_hang; auto.
  - destruct o; try discriminate. constructor; auto.
  - destruct o; try discriminate. constructor; auto.
Qed.

(* non-vacuity: a canonical input whose parentheses matter, with different results on the two paths *)
Example witness :
  let e := Bin Add (Paren (Paren (Un Not Atom))) (Bin Pow (Paren (Un Neg Atom)) (Un Neg (Paren (Un Neg Atom)))) in
  can e = true
  /\ fmt_single Std e = Bin Add (Paren (Un Not Atom)) (Bin Pow (Paren (Un Neg Atom)) (Un Neg (Paren (Un Neg Atom))))
  /\ fmt_hang Std e = Bin Add (Un Not Atom) (Bin Pow (Paren (Un Neg Atom)) (Un Neg (Paren (Un Neg Atom)))).
Proof. repeat split. Qed.
