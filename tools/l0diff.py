#!/usr/bin/env python3
# shows model vs binary for the first failing L0 cases: tools/l0diff.py <seed> <n> [max]
import subprocess, sys, difflib
seed, n = sys.argv[1], sys.argv[2]; mx = int(sys.argv[3]) if len(sys.argv) > 3 else 3
h = subprocess.run(["/verif/.cache/target/release/svh", "l0", "--seed", seed, "--n", n], capture_output=True, text=True).stdout
d = subprocess.run(["/verif/.cache/ml/drv_l0"], input=h, capture_output=True, text=True).stdout
recs = {}
for l in h.splitlines():
    w = l.split()
    if w and w[0] == "L0" and w[2:4] == ["0", "0"]: recs.setdefault(w[1], w)
model = {}
for l in d.splitlines():
    w = l.split()
    if w and w[0] == "SAMPLE" and w[1] not in model: model[w[1]] = bytes.fromhex(w[2].split("=")[1].lstrip("#")).decode()
bad = []
for l in d.splitlines():
    w = l.split()
    if w and w[0] == "BAD" and w[2] not in bad: bad.append(w[2])
print(d.splitlines()[-1], "distinct bad programs:", len(bad))
for i in list(model)[:mx]:
    w = recs[i]
    out = bytes.fromhex(w[9].lstrip("#")).decode()
    print("=====", i, "source:"); print(bytes.fromhex(w[7].lstrip("#")).decode())
    print("----- diff (binary -> model)")
    print("".join(difflib.unified_diff(out.splitlines(True), model[i].splitlines(True), "binary", "model", n=1)))
