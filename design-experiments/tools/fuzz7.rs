use stylua_lib::*;
use std::fs;
struct Rng(u64);
impl Rng { fn next(&mut self) -> u64 { self.0 ^= self.0 << 13; self.0 ^= self.0 >> 7; self.0 ^= self.0 << 17; self.0 } fn below(&mut self, n: usize) -> usize { if n == 0 {0} else {(self.next() % n as u64) as usize} } }
fn main() {
    let dirs = [("/repo/tests/inputs", LuaVersion::Lua51), ("/repo/tests/inputs-luau", LuaVersion::Luau), ("/repo/tests/inputs-lua52", LuaVersion::Lua52), ("/repo/tests/inputs-lua54", LuaVersion::Lua54),("/repo/tests/inputs-ignore", LuaVersion::Lua51),("/repo/tests/inputs-collapse-single-statement", LuaVersion::Luau)];
    std::panic::set_hook(Box::new(|_| {}));
    let mut rng = Rng(0x9E3779B97F4A7C15);
    let mut srcs = vec![];
    for (d, syn) in dirs.iter() { let mut files: Vec<_> = fs::read_dir(d).unwrap().map(|e| e.unwrap().path()).collect(); files.sort(); for f in files { if let Ok(s) = fs::read_to_string(&f) { srcs.push((f, *syn, s)); } } }
    let (mut runs, mut panics, mut slow) = (0, 0, 0);
    let mut seen = std::collections::HashSet::new();
    for iter in 0..6000 {
        let (f, syn, s) = &srcs[rng.below(srcs.len())];
        let mut cfg = Config::default(); cfg.syntax = *syn;
        cfg.column_width = [1, 10, 40, 80, 120, usize::MAX][rng.below(6)];
        cfg.indent_width = [1,2,4,8,16][rng.below(5)];
        cfg.indent_type = if rng.below(2)==0 {IndentType::Tabs} else {IndentType::Spaces};
        cfg.collapse_simple_statement = [CollapseSimpleStatement::Never, CollapseSimpleStatement::Always, CollapseSimpleStatement::FunctionOnly, CollapseSimpleStatement::ConditionalOnly][rng.below(4)];
        cfg.call_parentheses = [CallParenType::Always, CallParenType::None, CallParenType::Input, CallParenType::NoSingleString, CallParenType::NoSingleTable][rng.below(5)];
        cfg.sort_requires = SortRequiresConfig { enabled: rng.below(3)==0 };
        let mut src = s.clone();
        // mutation: sometimes truncate at char boundary, sometimes splice
        let m = rng.below(6);
        if m == 0 && !src.is_empty() { let mut k = rng.below(src.len()); while !src.is_char_boundary(k) { k -= 1; } src.truncate(k); }
        let range = match rng.below(4) { 0 => None, 1 => Some(Range::from_values(Some(rng.below(src.len()+5)), Some(rng.below(src.len()+5)))), 2 => Some(Range::from_values(Some(rng.below(src.len()+5)), None)), _ => Some(Range::from_values(None, Some(rng.below(src.len()+5)))) };
        runs += 1;
        let t = std::time::Instant::now();
        let s2 = src.clone();
        let r = std::panic::catch_unwind(move || format_code(&s2, cfg, range, OutputVerification::None).is_ok());
        if t.elapsed().as_millis() > 2000 { slow += 1; println!("SLOW {} {:?}", f.display(), t.elapsed()); }
        if r.is_err() { panics += 1; let key = format!("{}", f.display()); if seen.insert(key) { println!("PANIC iter={} {} w={} collapse={:?} range={:?} m={}", iter, f.display(), cfg.column_width, cfg.collapse_simple_statement, range, m); } }
    }
    println!("runs={} panics={} slow={}", runs, panics, slow);
}
