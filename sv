#!/usr/bin/env python3
"""sv - runner of the StyLua verification machinery.   ./sv setup | ./sv check Cxx [--tier quick|thorough] | ./sv replay <file>"""
import importlib, json, os, sys, traceback
sys.path.insert(0, os.path.dirname(os.path.abspath(__file__)))
from svlib import core

def main():
    a = sys.argv[1:]
    if not a:
        print(__doc__); return 2
    if a[0] == "setup":
        from svlib import setup
        return setup.run()
    if a[0] == "check":
        prop = a[1]
        tier = os.environ.get("VERIF_TIER", "quick")
        if "--tier" in a: tier = a[a.index("--tier") + 1]
        seed = int(os.environ.get("VERIF_SEED", "0") or 0)
        res = core.Result(prop, tier, seed)
        try:
            mod = importlib.import_module("svlib." + prop.lower())
            mod.run(res)
        except Exception as e:
            print("check raised: " + repr(e)[:600], file=sys.stderr)
            print("".join(traceback.format_exc().splitlines(True)[-6:]), file=sys.stderr)
            res.coverage.setdefault("obligations", 1); res.coverage.setdefault("discharged", 0)
            res.coverage.setdefault("checker_cmd", "sv check " + prop); res.coverage.setdefault("trusted_base", core.TRUSTED_BASE)
            res.violation(dict(kind="obligation", obligation=dict(machinery="check raised " + repr(e)[:2000])), no_input=True)
        return res.finish()
    if a[0] == "baseline":
        # maintenance only (never run by a check): lists today's failures of the fixed regression set
        from svlib import fmtprops, fmtrun
        core.build_harness(); core.build_ml()
        sp = fmtprops.SPEC[a[1]]
        print(a[1], fmtrun.make_baseline(a[1], sp["judge"], sp["flags_b"], sp["mode_b"], dirs=sp.get("dirs")), "listed")
        return 0
    if a[0] == "replay":
        payload = json.load(open(a[1]))
        mod = importlib.import_module("svlib." + payload["property"].lower())
        if payload.get("kind") == "obligation":
            print("obligation replay: re-running the check that owns it"); 
            res = core.Result(payload["property"], "quick", 0); mod.run(res); return res.finish()
        return mod.replay(payload)
    print(__doc__); return 2

if __name__ == "__main__":
    sys.exit(main())
