"""The validation halves of C01 C02 C03 C06 C10 C11 share one runner; this table says what differs."""
from .fmtrun import *

SPEC = {
 "C01": dict(judge="c01", flags_a=["--tokens", "--sort"], flags_b=["--tokens", "--sort", "--ranges"], mode_a="plain", mode_b="wild",
             rule="programs from the grammar-directed generator (6 dialects; every statement and expression kind; random blanks, tabs, newlines, CRLF; semicolons; require blocks; ignore directives), each under its default "
                  "configuration and 2 random configurations (6 column widths incl. 1 and usize::MAX, both indent types, 4 indent widths, both line endings, all quote / call-parentheses / collapse / space options, sort_requires); "
                  "region A (seeded): comments at statement boundaries, and (second half) also before and after the commas of expression and argument lists; region B (fixed seed, listed per input): comments at any token boundary, byte ranges, plus the repository's test inputs of every dialect",
             corr="every output is re-parsed by full_moon under the same syntax; the Coq lexer model agrees with full_moon's tokenizer on every input and every output (token lists compared)"),
 "C02": dict(judge="c02", flags_a=["--nf", "--ranges"], flags_b=["--nf", "--ranges"], mode_a="plain", mode_b="wild",
             rule="same generator and configurations as C01, with byte ranges in region A too (sort_requires off, as the property says)",
             corr="Census.erase (Coq lexer + string / number denotations) of input and output are equal; the normal form N computed from full_moon's AST (independent of --verify), with literals mapped through the Coq denotations, is equal"),
 "C03": dict(judge="c03", flags_a=["--trace", "--ranges", "--sort"], flags_b=["--trace", "--ranges", "--sort"], mode_a="plain", mode_b="wild",
             rule="same generator and configurations as C01, ranges and sort_requires included",
             corr="Census.census (Coq lexer) of input and output are equal as multisets; every traced call of load_token_trivia is replayed through Trivia.lead / Trivia.trail and must give the same trivia"),
 "C06": dict(judge="c06", flags_a=["--idem"], flags_b=["--idem"], mode_a="plain", mode_b="plain", region_a=False,
             rule="fixed regression set only (no region is established clean for whole-program idempotence): generator in plain mode under a constant seed and the repository's test inputs, each under 3 configurations; second pass byte-compared",
             corr="format(format(p)) = format(p) byte for byte; failures are compared with the per-input list baselines/C06.json"),
 "C10": dict(judge="c10", flags_a=["--trace"], flags_b=["--trace", "--skip-directives"], mode_a="plain-nodirectives", mode_b="wild-nodirectives", dirs=[d for d in CORPUS_DIRS if d != "tests/inputs-ignore"],
             rule="same generator and configurations as C01 without ignore directives and ranges (their text is excluded by the property); CRLF, LF and mixed inputs; both regions are clean, region B has no listed input",
             corr="Census.ws_check on the Coq lexer's tokens of the output: every newline of whitespace and block comments in the configured form, no other CR, indentation tabs-only or spaces in a multiple of indent_width, one final line ending"),
 "C11": dict(judge="c11", flags_a=[], flags_b=["--skip-directives"], mode_a="plain-nodirectives", mode_b="wild-nodirectives", dirs=[d for d in CORPUS_DIRS if d != "tests/inputs-ignore"],
             rule="same generator and configurations as C01 without ignore directives",
             corr="every quoted string token of the output satisfies the quote rule for the configured style (QuoteMore.needs on the output body)"),
}

def run_prop(res, prop, extra_obligations=1):
    sp = SPEC[prop]
    proof = proof_stage(res, prop, extra_obligations=extra_obligations)
    build_harness(); build_ml()
    ok, payloads = validate(res, prop, sp["judge"], sp["flags_a"], sp["flags_b"], sp["mode_a"], sp["mode_b"], region_a=sp.get("region_a", True), dirs=sp.get("dirs"))
    if proof["ok"] and ok: res.coverage["discharged"] = proof["discharged"] + extra_obligations
    res.coverage["rule"] = sp["rule"] + "; distinct cases are not deduplicated across configurations: non-trivial counts cases whose output differs from the input"
    res.coverage["correspondence"] = sp["corr"]
    res.assumptions = ["full_moon's parser and Display are modelled, not verified; the Coq lexer model is compared with its tokenizer on every case of C01",
                       "Luau interpolated strings are outside the lexer model (not generated)",
                       "region B failures listed in baselines/%s.json are known findings identified by case (fixed seed, index, configuration); a failure not listed there is a violation" % prop]
    for p in payloads[:5]:
        if p.get("kind") == "obligation": res.violation(p, no_input=True)
        else: res.violation(dict(p, expected=sp["corr"]))
    if not proof["ok"] and not payloads:
        res.violation(dict(kind="obligation", obligation=dict(theorem=proof.get("broken_at", prop), log=proof["log"][-2500:])), no_input=True)
    return res

def replay(payload, prop):
    build_harness(); build_ml()
    sp = SPEC[prop]
    if payload.get("source_hex"):
        h = [SVH, "run", "--one", payload["syntax"], payload["config"], payload["range"], payload["source_hex"]] + [f for f in payload.get("flags", []) if f in ("--tokens", "--nf", "--idem", "--trace")]
        lines, errs = run_pipeline_sharded(lambda i, n: (h, [driver("drv_fmt"), sp["judge"]]), shards=1)
        print("\n".join(l[:400] for l in lines))
        return 1 if errs or any(l.startswith("BAD") for l in lines) else 0
    print("corpus case: re-run the check"); return 1
