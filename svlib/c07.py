"""C07 - the formatter is total: it never panics or hangs (DESIGN 5/C07).  Partial: mostly a runtime property."""
from .core import *

PROBES = {   # known-finding id -> (probe family, how a reproduction looks)
    "F-C07-stack-binops": "probe-stack-binops", "F-C07-stack-parens": "probe-stack-parens",
    "F-C07-nested-calls-time": "probe-nested-calls", "F-C07-return-nesting-exponential": "probe-return-nesting",
    "F-C07-foreign-operator-panic": "probe-foreign-operator", "F-C07-silent-recovery": "probe-silent-recovery",
    "F-C07-type-lexer-error-panic": "probe-type-lexer-error",
}
def panic_msg(w):
    """(message, place) of a BADCASE record; the place is crate-relative file:line, written by the harness's panic hook"""
    m = bytes.fromhex(w[7][1:]).decode("utf-8", "replace") if len(w) > 7 else ""
    return tuple(m.rsplit(" @", 1)) if " @" in m else (m, "")
def invalid_family(w): return w[2].endswith(".trunc") or w[2].endswith(".splice") or w[2].startswith("probe")
def foreign_panic_class(w):
    m, at = panic_msg(w)
    return w[1] == "panic" and m == "called `Option::unwrap()` on a `None` value" and at.startswith("full_moon-")
def type_lexer_error_class(w):
    """the listed full_moon finding: in Luau a character the tokenizer rejects right behind a type (`x :: T\\`, `x :: T @`, an
    unfinished string there) makes parse_type_suffix leave its loop with neither a union nor an intersection: unreachable!()"""
    m, at = panic_msg(w)
    return w[1] == "panic" and m == "internal error: entered unreachable code" and at.startswith("full_moon-") and "/parsers.rs:" in at and w[3] == "Luau" and invalid_family(w)
def silent_recovery_class(w):
    """the listed full_moon finding: a truncated / spliced Luau text whose last table field value is an unfinished if-expression is
    returned as a tree (with a phantom closing brace at position 0) instead of an error; with overflow checks the brace-distance
    arithmetic in table.rs then panics, without them the field is silently dropped"""
    src = bytes.fromhex(w[8][1:]).decode("utf-8", "replace") if len(w) > 8 else ""
    m, at = panic_msg(w)
    return w[1] == "panic" and m == "attempt to subtract with overflow" and at.startswith("src/formatters/table.rs:") and w[3] == "Luau" and invalid_family(w) and "if " in src and "{" in src

def run(res):
    proof = proof_stage(res, "C07", extra_obligations=1)
    build_harness()
    n = 1500 if res.tier == "quick" else 40000
    lines, errs = run_pipeline_sharded(lambda i, k: ([SVH, "c07", "--seed", str(res.seed), "--n", str(n), "--shard", "%d/%d" % (i, k)], None))
    # nesting families in a child of their own: an abort there must not take the check down
    deep = subprocess.run([SVH, "c07", "--family", "deep"], stdout=subprocess.PIPE, stderr=subprocess.PIPE, text=True, timeout=900, env=ENV)
    lines += deep.stdout.splitlines()
    stats, bads, known_panics, known_recovery, known_nested, known_typelex = {}, [], 0, 0, 0, 0
    last_start = ""
    for l in lines:
        w = l.split()
        if not w: continue
        if w[0] == "STATS":
            for k, v in parse_kv(l).items(): stats[k] = max(stats.get(k, 0), int(v)) if k == "max_ms" else stats.get(k, 0) + int(v)
        elif w[0] == "START": last_start = " ".join(w[1:])
        elif w[0] == "BADCASE":
            # the listed dependency panic: full_moon's expression parser on an operator token of another dialect (input invalid)
            if foreign_panic_class(w): known_panics += 1
            elif silent_recovery_class(w): known_recovery += 1
            elif type_lexer_error_class(w): known_typelex += 1
            elif w[1] == "slow-nested-narrow": known_nested += 1
            else: bads.append(w)
    # the second shape of the silent recovery (listed): `x :: T < y` opens type arguments that never close; full_moon returns a
    # tree without the condition and without an error
    wsrc = "while x :: number < ... do\n\tlocal y = 1\nend\n"
    wout = sh([SVH, "fmt"], inp="w1 syntax=Luau #%s\n" % wsrc.encode().hex(), timeout=120, check=False).stdout.split()
    typeargs_reproduced = len(wout) > 2 and wout[1] == "ok" and b"while" not in bytes.fromhex(wout[2][1:])
    if deep.returncode != 0:
        bads.append(["BADCASE", "abort-exit-%d" % deep.returncode, "deep:" + last_start, "Lua51", "syntax=Lua51", "-", "0", "#", "#"])
    # the listed findings, each replayed on its own; printed while they reproduce
    reproduced = {}
    for e in known_findings("C07"):
        if e.get("id") == "F-C07-silent-recovery-typeargs":
            if typeargs_reproduced: res.known.append(e["what"])
            continue
        fam = PROBES.get(e.get("id"))
        if not fam: continue
        try:
            p = subprocess.run([SVH, "c07", "--family", fam], stdout=subprocess.PIPE, stderr=subprocess.DEVNULL, text=True, timeout=60, env=ENV)
            rep = p.returncode != 0 or "BADCASE" in p.stdout
            how = "exit %d" % p.returncode if p.returncode != 0 else (p.stdout.split()[1] + " " + p.stdout.split()[6] + " ms" if "BADCASE" in p.stdout else "-")
        except subprocess.TimeoutExpired:
            rep, how = True, "still running after 60 s"
        if e.get("id") == "F-C07-foreign-operator-panic": rep = rep or known_panics > 0
        if e.get("id") == "F-C07-silent-recovery": rep = rep or known_recovery > 0
        if e.get("id") == "F-C07-type-lexer-error-panic":
            rep = rep or known_typelex > 0
            if known_typelex: how += "; %d generated invalid inputs hit it" % known_typelex
        if e.get("id") == "F-C07-nested-calls-time" and known_nested: how += "; %d generated programs nested 8 deep or more at a column width of 20 or less exceeded the time budget" % known_nested
        reproduced[e["id"]] = how
        if rep: res.known.append("%s [%s%s]" % (e["what"], how, "; %d generated invalid inputs hit it" % known_panics if e["id"] == "F-C07-foreign-operator-panic" and known_panics else ""))
    tie_ok = not errs and not bads and stats.get("calls", 0) > 0
    if proof["ok"] and tie_ok: res.coverage["discharged"] = proof["discharged"] + 1
    res.coverage.update(
        evaluations=stats.get("calls", 0), distinct_nontrivial=stats.get("invalid_inputs", 0),
        rule="%d generated programs (comments anywhere, 6 dialects), each under its default, a width-1 / indent 1-16 spaces, an unbounded-width and a random configuration, with ranges drawn from {none, arbitrary incl. inverted, out of bounds, empty, huge}; "
             "plus per program: truncation at a random byte, splice with the next program (invalid inputs must give a parse error, never success), and 4 text mutations (block comment, line comment, parenthesis, blank lines at a random place); "
             "nesting families up to depth 100 (parentheses, tables, blocks, unary chains, method chains, index chains), binary chains of 400 terms, nested calls to depth 30, function-in-return nesting to 6, blocks of 10^4 statements; "
             "every call under catch_unwind with a budget of 1 s + 50 us per byte; built with overflow checks. non-trivial = invalid inputs" % n,
        samples=[" ".join(b[1:6]) for b in bads[:3]] or ["calls=%s valid=%s invalid=%s slowest=%s ms" % (stats.get("calls"), stats.get("valid_inputs"), stats.get("invalid_inputs"), stats.get("max_ms"))],
        input_distribution=dict(stats, listed_dependency_panics=known_panics, listed_silent_recoveries=known_recovery, listed_slow_nested_narrow=known_nested, listed_type_lexer_error_panics=known_typelex, probes=reproduced),
        correspondence="outcome of stylua_lib::format_code under catch_unwind: Ok for inputs full_moon parses, ParseError otherwise, no panic, no other error, within the budget")
    res.assumptions = ["stack overflow aborts the process and cannot be caught: the nesting families run in a child process; beyond the listed bounds the known findings apply",
                       "wall time is measured on this machine; the budget is generous (1 s + 50 us per byte) to stay clear of noise"]
    if not proof["ok"] or not tie_ok:
        if bads:
            seen = set()
            for w in bads:
                if w[1] in seen or len(seen) >= 4: continue
                seen.add(w[1])
                res.violation(dict(kind="input", check=w[1], case=w[2], syntax=w[3], config=w[4], range=w[5], ms=w[6], message=bytes.fromhex(w[7][1:]).decode("utf-8", "replace"), source_hex=w[8][:200000],
                                   expected="Ok or ParseError without panic within 1 s + 50 us per byte"))
        else:
            res.violation(dict(kind="obligation", obligation=dict(theorem=proof.get("broken_at", "C07"), log=proof["log"][-2500:] + "; ".join(errs))), no_input=True)
    return res

def replay(payload):
    build_harness()
    print("re-run: ./sv check C07 (the case is regenerated from its seed and index: %s)" % payload.get("case")); return 1
