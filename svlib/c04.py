"""C04 - literal values survive quote and number normalisation (DESIGN 5/C04)."""
from .core import *

BOUNDS = {"quick": dict(k_full=3, k_core=5, k_bracket=4, random=20000, all_syn=False),
          "thorough": dict(k_full=4, k_core=7, k_bracket=5, random=400000, all_syn=True)}

def run(res):
    b = BOUNDS[res.tier]
    t_ok, t_log = rs2v("quote_choice")        # Tie 1: the quote chooser is regenerated from general.rs
    proof = proof_stage(res, "C04", extra_obligations=2) if t_ok else dict(ok=False, discharged=0, theorems=[], log=t_log, broken_at="rs2v: " + t_log.strip()[-300:])
    if not t_ok: res.coverage.update(obligations=2, discharged=0, checker_cmd="rs2v /repo coq/gen", trusted_base=list(TRUSTED_BASE))
    build_harness(); build_ml()
    def cmds(i, n):
        h = [SVH, "c04", "--k-full", str(b["k_full"]), "--k-core", str(b["k_core"]), "--k-bracket", str(b["k_bracket"]),
             "--random", str(b["random"]), "--seed", str(res.seed), "--shard", "%d/%d" % (i, n)]
        if b["all_syn"]: h.append("--all-syntaxes")
        return h, [driver("drv_c04")]
    lines, errs = run_pipeline_sharded(cmds)
    tot = dict(records=0, outside_lexable=0, valid=0, nontrivial=0, bad=0, known_lone_cr=0, quoted=0, bracket=0, number=0)
    stats = dict(tried=0, lexed=0, records=0)
    bads, samples, known_lines = [], [], []
    for l in lines:
        if l.startswith("SUMMARY"):
            for k, v in parse_kv(l).items(): tot[k] = tot.get(k, 0) + int(v)
        elif l.startswith("STATS"):
            for k, v in parse_kv(l).items(): stats[k] = stats.get(k, 0) + int(v)
        elif l.startswith("BAD"): bads.append(l)
        elif l.startswith("SAMPLE") and len(samples) < 10: samples.append(l[7:])
        elif l.startswith("KNOWN") and len(known_lines) < 5: known_lines.append(l)
    tie_ok = not errs and not bads and tot["records"] > 0 and tot["records"] == stats["records"]
    if tie_ok and proof["ok"]:
        res.coverage["discharged"] = proof["discharged"] + 2
    res.coverage.update(
        evaluations=tot["records"], distinct_nontrivial=tot["nontrivial"],
        rule="every string body over the 23-symbol alphabet up to length %d and over the 8-symbol core alphabet up to length %d, single- and double-quoted, "
             "every long-bracket body over {LF CR a ] = \\ ' space} up to length %d at depths 0-2, %d seeded random bodies of length 5-24, 49 numeric spellings; "
             "each in 4 syntactic positions x 4 quote styles x 2 line endings x %s; a record is distinct by construction (enumeration without repetition) "
             "and non-trivial when the rewrite changes the body or the quote" % (b["k_full"], b["k_core"], b["k_bracket"], b["random"], "6 syntaxes" if b["all_syn"] else "Lua51/Lua54/Luau"),
        samples=samples, exhaustive=True, input_distribution=dict(stats, **tot),
        correspondence="model = implementation on every record: quote chosen, rewritten body, bracket conversion, number rewrite; "
                       "specification functions (decode51/decode/lexable/lua_nl/luau_nl/numval) evaluated on the implementation's own output")
    res.assumptions = ["the string denotations Quote51.decode51 / QuoteX.decode are the reference semantics of the dialects (written from the Lua and Luau lexers, not executed against them)",
                       "bodies full_moon lexes but no Lua accepts (raw newline after an escape) are outside the theorem's hypothesis and are only compared with the kernel model",
                       "full_moon's tokenizer is used to cut the output into tokens"]
    for e in known_findings("C04"):
        if e.get("class") == "lone_cr" and tot["known_lone_cr"] > 0:
            res.known.append("%s (%d enumerated literals in the class, e.g. %s)" % (e["what"], tot["known_lone_cr"], known_lines[0].split()[8] if known_lines else "-"))
    if not proof["ok"]:
        # the proof side broke: the tie above already searched the whole enumeration on the implementation
        if bads:
            _report(res, bads)
        else:
            res.violation(dict(kind="obligation", obligation=dict(theorem=proof.get("broken_at", "props/C04.v"), log=proof["log"][-3000:])), no_input=True)
    elif bads:
        _report(res, bads)
    elif not tie_ok:
        res.violation(dict(kind="obligation", obligation=dict(correspondence="C04 harness/driver run", log="; ".join(errs) or "record count mismatch %s vs %s" % (tot["records"], stats["records"]))), no_input=True)
    return res

def _report(res, bads):
    seen = set()
    for l in bads:
        w = l.split()
        kind = w[1]
        if kind in seen or len(seen) >= 5: continue
        seen.add(kind)
        rec = w[2:]
        if rec[0] == "S":
            payload = dict(kind="input", check=kind, syntax=rec[1], quote_style=rec[2], line_endings=rec[3], form=rec[4], depth=int(rec[5]), body_hex=rec[6], observed=" ".join(rec[7:]),
                           expected="output literal = rewrite (choose style body) body with unchanged denotation (C04 theorems)")
        else:
            payload = dict(kind="input", check=kind, syntax=rec[1], form="n", depth=0, body_hex=rec[2], observed=" ".join(rec[3:]), expected="number_rewrite text, same numval")
        res.violation(payload)

def replay(payload):
    build_harness(); build_ml()
    h = [SVH, "c04", "--one", payload["syntax"], payload["form"], str(payload["depth"]), payload["body_hex"]]
    lines, errs = run_pipeline_sharded(lambda i, n: (h, [driver("drv_c04")]), shards=1)
    bad = [l for l in lines if l.startswith("BAD")]
    print("\n".join(lines))
    return 1 if bad or errs else 0
