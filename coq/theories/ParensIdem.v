(* C06 for the parenthesis rule: the single-line formatter on operator shapes is idempotent on every shape in which no
   unary minus is written directly in front of something that starts with a unary minus (`- -x`); on such a shape the guard
   `parenthesise_double_minus` adds parentheses that can make a second pass drop others (Fmt0Proof.nprog_not_idempotent_refuted).
   What the formatter writes never has that shape, so two passes always reach a fixed point. *)
From Coq Require Import List Bool.
From SV Require Import Expr Parens ParensProof.

(* in a context that keeps parentheses (a type assertion's operand, a prefix) formatting does not change what the expression starts with *)
Lemma starts_neg_fmt_keeps : forall a c, keeps c = true -> starts_neg (fmt_single c a) = starts_neg a.
Proof.
  induction a as [| |x IH|u x IH|b l IHl r IHr|x IH|x IH]; intros c K; cbn [fmt_single starts_neg]; try reflexivity.
  - unfold droppable. rewrite K, andb_false_r. reflexivity.
  - apply IH. reflexivity.
Qed.
(* under the premise the guard fires only where parentheses were written (and have just been dropped) *)
Lemma guard_only_after_parentheses z : gf (Un Neg z) = true -> starts_neg (fmt_single UB z) = true ->
  exists w, z = Paren w /\ droppable UB w = true /\ starts_neg (fmt_single UB w) = true.
Proof.
  cbn [gf]. intros G S. apply andb_true_iff in G. destruct G as [G0 _]. apply negb_true_iff in G0.
  destruct z as [| |w|u w|b l r|w|w]; cbn [fmt_single starts_neg] in *; try discriminate.
  - exists w. split; [reflexivity|]. destruct (droppable UB w); [split; [reflexivity|exact S]|discriminate].
  - destruct u; congruence.
  - rewrite (starts_neg_fmt_keeps w TypeAssertion eq_refl) in S. congruence.
Qed.
(* what is not droppable stays not droppable once its inside has been formatted *)
Lemma check_stable : forall x c c', gf x = true -> check x c = false -> check (fmt_single c' x) c = false.
Proof.
  induction x as [| |x IHx|u x IHx|b l IHl r IHr|x IHx|x IHx]; intros c c' G H; cbn [fmt_single check] in *; try discriminate; try reflexivity; try exact H.
  assert (K : check x c = false -> check (guard u (fmt_single UB x)) c = false).
  { intros Hx. assert (Gx : gf x = true) by (cbn [gf] in G; apply andb_true_iff in G; apply G).
    unfold guard. destruct u; try (apply IHx; assumption).
    destruct (starts_neg (fmt_single UB x)) eqn:S; [|apply IHx; assumption].
    destruct (guard_only_after_parentheses x G S) as (w & -> & _). discriminate. }
  destruct c; try reflexivity; try (apply K; exact H). destruct u; try reflexivity; apply K; exact H.
Qed.
(* ... and under a unary operator what is droppable stays droppable *)
Lemma check_UB_stable : forall x, gf x = true -> check x UB = true -> check (fmt_single UB x) UB = true.
Proof.
  induction x as [| |x IHx|u x IHx|b l IHl r IHr|x IHx|x IHx]; intros G H; cbn [fmt_single check] in *; try discriminate; try reflexivity.
  - unfold droppable. cbn [keeps negb]. rewrite andb_true_r. destruct (check x UB) eqn:C; [apply IHx; assumption|reflexivity].
  - cbn [gf] in G. apply andb_true_iff in G. destruct G as [_ G]. unfold guard. destruct u; try (apply IHx; assumption).
    destruct (starts_neg (fmt_single UB x)); [reflexivity|apply IHx; assumption].
Qed.
Theorem fmt_single_idempotent : forall e c, gf e = true -> fmt_single c (fmt_single c e) = fmt_single c e.
Proof.
  induction e as [| |e IHe|u e IHe|b e1 IHe1 e2 IHe2|e IHe|e IHe]; intros c G; cbn [fmt_single]; try reflexivity.
  - (* parentheses *) cbn [gf] in G. destruct (droppable c e) eqn:D; [apply IHe; exact G|]. cbn [fmt_single].
    assert (D' : droppable c (fmt_single Std e) = false).
    { unfold droppable in *. apply andb_false_iff in D. apply andb_false_iff. destruct D as [D|D]; [left; apply check_stable; assumption|right; exact D]. }
    rewrite D', IHe by exact G. reflexivity.
  - (* unary *) assert (Ge : gf e = true) by (cbn [gf] in G; apply andb_true_iff in G; apply G).
    unfold guard at 2. destruct u; try (cbn [fmt_single guard]; rewrite IHe by exact Ge; reflexivity).
    destruct (starts_neg (fmt_single UB e)) eqn:S.
    + (* the guard fires: parentheses were written here, dropped, and come back; the second pass does the same *)
      destruct (guard_only_after_parentheses e G S) as (w & -> & Dw & Sw). cbn [gf] in Ge.
      assert (Y : fmt_single UB (Paren w) = fmt_single UB w) by (cbn [fmt_single]; rewrite Dw; reflexivity).
      rewrite Y. cbn [fmt_single].
      assert (D2 : droppable UB (fmt_single UB w) = true).
      { unfold droppable in *. cbn [keeps negb] in *. rewrite andb_true_r in *. apply check_UB_stable; assumption. }
      rewrite D2. specialize (IHe UB Ge). rewrite Y in IHe. rewrite IHe. unfold guard. rewrite Sw. reflexivity.
    + cbn [fmt_single]. rewrite IHe by exact Ge. unfold guard. rewrite S. reflexivity.
  - (* binary *) cbn [gf] in G. apply andb_true_iff in G. destruct G as [G1 G2]. rewrite IHe1, IHe2 by assumption. reflexivity.
  - rewrite IHe by exact G. reflexivity.
  - rewrite IHe by exact G. reflexivity.
Qed.
(* what the formatter writes meets the premise, whatever it was given: two passes always reach a fixed point *)
Lemma gf_fmt : forall e c, gf (fmt_single c e) = true.
Proof.
  induction e as [| |e IHe|u e IHe|b e1 IHe1 e2 IHe2|e IHe|e IHe]; intros c; cbn [fmt_single gf]; try reflexivity.
  - destruct (droppable c e); [apply IHe|cbn [gf]; apply IHe].
  - unfold guard. destruct u; try (rewrite IHe; reflexivity).
    destruct (starts_neg (fmt_single UB e)) eqn:S; [cbn [starts_neg gf negb andb]; apply IHe|rewrite S, IHe; reflexivity].
  - rewrite IHe1, IHe2. reflexivity.
  - apply IHe.
  - apply IHe.
Qed.
Theorem fmt_single_second_pass_is_a_fixed_point e c : fmt_single c (fmt_single c (fmt_single c e)) = fmt_single c (fmt_single c e).
Proof. apply fmt_single_idempotent. apply gf_fmt. Qed.
(* the condition is needed: the witness of the refutation *)
Example not_idempotent_with_a_double_minus :
  let e := Paren (Un Neg (Un Neg Multi)) in gf e = false /\ fmt_single Std (fmt_single Std e) <> fmt_single Std e.
Proof. split; [reflexivity|vm_compute; discriminate]. Qed.
(* ... and a minus in front of a parenthesised minus meets it *)
Example guarded_minus_meets_the_premise : gf (Un Neg (Paren (Un Neg Atom))) = true. Proof. reflexivity. Qed.

(* ---------- conditions (if / elseif / while / until): every layer of parentheses around them goes ---------- *)
(* A condition uses the first value of its expression only, so parentheses around it - which can only truncate to the first
   value - cannot matter; what remains is formatted by the ordinary rule, which keeps the grouping. *)
Lemma first_value_paren x : first_value (Sm (Paren x)) = first_value (Sm x).
Proof. cbn [Sm]. destruct (Sm x); reflexivity. Qed.
Theorem strip_keeps_first_value : forall e, first_value (Sm (strip e)) = first_value (Sm e).
Proof. induction e; try reflexivity. cbn [strip]. rewrite IHe. symmetry. apply first_value_paren. Qed.
Theorem condition_rule_keeps_first_value e : first_value (Sm (fmt_single Std (strip e))) = first_value (Sm e).
Proof. rewrite (ParensProof.R_sem Std _ _ (ParensProof.fmt_single_R (strip e) Std)). apply strip_keeps_first_value. Qed.
(* ... and it does matter elsewhere: the first value is not the value *)
Example parentheses_truncate : Sm (Paren Multi) <> Sm Multi /\ first_value (Sm (Paren Multi)) = first_value (Sm Multi).
Proof. split; [discriminate|reflexivity]. Qed.
