(* C04 core, one statement for both dialect families: whatever a quoted literal denotes,
   its rewritten form denotes the same.  No hypothesis on the literal other than that it denotes something. *)
From Coq Require Import List Ascii NArith Lia Bool Arith.
Import ListNotations.
Open Scope char_scope.
From SV Require Import Quote QuoteX.

Lemma keep_ws d : is_ws d = true -> keep_escaped d = true.
Proof.
  unfold is_ws. intros H.
  repeat (apply orb_true_iff in H; destruct H as [H|H]); eapply keep_of_eq; try exact H; reflexivity.
Qed.

(* look-ahead over digits and blanks is never disturbed by the rewriter *)
Lemma pdigit_ru_all q u : pdigit (ru q u) = pdigit u.
Proof.
  destruct u as [c|d|]; try reflexivity.
  - apply pdigit_ru. exact I.
  - destruct (keep_escaped d) eqn:K; [apply pdigit_ru; exact K|].
    cbn. destruct (is_quote d) eqn:Q.
    + destruct (quote_facts d Q) as (A & _). destruct (eqc d (qchar q)); cbn; rewrite ?A; reflexivity.
    + rewrite K. cbn. destruct (is_digit d) eqn:D; [rewrite (keep_digit d D) in K; discriminate|reflexivity].
Qed.
Lemma pws_ru_all q u : pws (ru q u) = pws u.
Proof.
  destruct u as [c|d|]; try reflexivity.
  - apply pws_ru. exact I.
  - destruct (keep_escaped d) eqn:K; [apply pws_ru; exact K|].
    cbn. destruct (is_quote d) eqn:Q.
    + destruct (quote_facts d Q) as (_ & _ & A & _). destruct (eqc d (qchar q)); cbn; rewrite ?A; reflexivity.
    + rewrite K. cbn. destruct (is_ws d) eqn:D; [rewrite (keep_ws d D) in K; discriminate|reflexivity].
Qed.
Lemma skip_ws_map_all q us : skip_ws (map (ru q) us) = map (ru q) (skip_ws us).
Proof. induction us as [|u r IH]; cbn; auto. rewrite (pws_ru_all q u). destruct (pws u); auto. Qed.

Lemma uhex_map_succ q : forall us acc seen n r,
  uhex acc seen us = Some (n, r) -> uhex acc seen (map (ru q) us) = Some (n, map (ru q) r).
Proof.
  induction us as [|u r IH]; intros acc seen n r' H; cbn in H; [discriminate|]. cbn [map uhex].
  destruct (phex u) eqn:P.
  - rewrite (phex_ru q u (phex_plain u _ P)), P. apply IH. exact H.
  - destruct (pchar "}" u && seen) eqn:C; [|discriminate]. inversion H; subst.
    apply andb_true_iff in C. destruct C as [C S].
    pose proof (pchar_plain _ _ C) as K.
    rewrite (phex_ru q u K), P, (pchar_ru q "}" u K eq_refl), C, S. reflexivity.
Qed.

Lemma option_map_some {A B} (f : A -> B) o v : option_map f o = Some v -> exists w, o = Some w /\ v = f w.
Proof. destruct o; cbn; intros H; inversion H; eauto. Qed.

Theorem val_ru_succ lenient q : forall fuel us v,
  val lenient fuel us = Some v -> val lenient fuel (map (ru q) us) = Some v.
Proof.
  induction fuel as [|fuel IH]; intros us v H; [discriminate|].
  destruct us as [|u r]; [exact H|].
  destruct u as [c|d|].
  - (* plain *)
    cbn [val] in H. apply option_map_some in H. destruct H as (w & Hw & ->).
    cbn [map ru]. destruct (is_quote c) eqn:Q.
    + destruct (eqc c (qchar q)).
      * cbn [val]. destruct (quote_facts c Q) as (A & _ & _ & _ & _ & X & Z & U). rewrite A, X, Z, U, (named_quote_val c Q).
        rewrite (IH r w Hw). reflexivity.
      * cbn [val]. rewrite (IH r w Hw). reflexivity.
    + cbn [val]. rewrite (IH r w Hw). reflexivity.
  - (* escape *)
    cbn [map ru]. destruct (is_quote d) eqn:Q.
    + destruct (quote_facts d Q) as (A & _ & _ & _ & _ & X & Z & U).
      cbn [val] in H. rewrite A, X, Z, U, (named_quote_val d Q) in H.
      apply option_map_some in H. destruct H as (w & Hw & ->).
      destruct (eqc d (qchar q)); cbn [val]; rewrite ?A, ?X, ?Z, ?U, ?(named_quote_val d Q), (IH r w Hw); reflexivity.
    + destruct (keep_escaped d) eqn:K.
      * cbn [val] in H |- *. destruct (is_digit d).
        -- (* decimal escape *)
           destruct r as [|u2 r2]; [exact H|]. cbn [map].
           rewrite (pdigit_ru_all q u2). destruct (pdigit u2).
           ++ destruct r2 as [|u3 r3]; [exact H|]. cbn [map]. rewrite (pdigit_ru_all q u3). destruct (pdigit u3).
              ** destruct (N.ltb 255 _); [discriminate|].
                 apply option_map_some in H. destruct H as (w & Hw & ->). rewrite (IH r3 w Hw). reflexivity.
              ** apply option_map_some in H. destruct H as (w & Hw & ->).
                 change (ru q u3 :: map (ru q) r3) with (map (ru q) (u3 :: r3)). rewrite (IH (u3 :: r3) w Hw). reflexivity.
           ++ apply option_map_some in H. destruct H as (w & Hw & ->).
              change (ru q u2 :: map (ru q) r2) with (map (ru q) (u2 :: r2)). rewrite (IH (u2 :: r2) w Hw). reflexivity.
        -- destruct (eqc d "x").
           ++ destruct r as [|u2 [|u3 r3]]; [discriminate|discriminate|]. cbn [map].
              destruct (phex u2) eqn:P2; [|discriminate]. destruct (phex u3) eqn:P3; [|discriminate].
              rewrite (phex_ru q u2 (phex_plain u2 _ P2)), (phex_ru q u3 (phex_plain u3 _ P3)), P2, P3.
              apply option_map_some in H. destruct H as (w & Hw & ->). rewrite (IH r3 w Hw). reflexivity.
           ++ destruct (eqc d "z").
              ** rewrite (skip_ws_map_all q r). apply IH. exact H.
              ** destruct (eqc d "u").
                 --- destruct r as [|u2 r2]; [discriminate|]. cbn [map].
                     destruct (pchar "{" u2) eqn:C; [|discriminate].
                     rewrite (pchar_ru q "{" u2 (pchar_plain _ _ C) eq_refl), C.
                     destruct (uhex 0%N false r2) as [[n r3]|] eqn:E; [|discriminate].
                     rewrite (uhex_map_succ q r2 0%N false n r3 E).
                     apply option_map_some in H. destruct H as (w & Hw & ->). rewrite (IH r3 w Hw). reflexivity.
                 --- destruct (named d).
                     +++ apply option_map_some in H. destruct H as (w & Hw & ->). rewrite (IH r w Hw). reflexivity.
                     +++ destruct lenient; [|discriminate].
                         apply option_map_some in H. destruct H as (w & Hw & ->). rewrite (IH r w Hw). reflexivity.
      * (* an unnecessary escape: only the lenient dialect gives it a value, namely the character itself *)
        cbn [val] in H.
        assert (D : is_digit d = false) by (destruct (is_digit d) eqn:D; [rewrite (keep_digit d D) in K; discriminate|reflexivity]).
        assert (X : eqc d "x" = false) by (destruct (eqc d "x") eqn:X; [rewrite (keep_of_eq d "x" X eq_refl) in K; discriminate|reflexivity]).
        assert (Z : eqc d "z" = false) by (destruct (eqc d "z") eqn:Z; [rewrite (keep_of_eq d "z" Z eq_refl) in K; discriminate|reflexivity]).
        assert (U : eqc d "u" = false) by (destruct (eqc d "u") eqn:U; [rewrite (keep_of_eq d "u" U eq_refl) in K; discriminate|reflexivity]).
        assert (Nm : named d = None) by (destruct (named d) eqn:Nm; [rewrite (named_keep d _ Nm) in K; discriminate|reflexivity]).
        rewrite D, X, Z, U, Nm in H. destruct lenient; [|discriminate].
        apply option_map_some in H. destruct H as (w & Hw & ->).
        cbn [val]. rewrite (IH r w Hw). reflexivity.
  - discriminate.
Qed.

Theorem rewrite_decode lenient q s v : decode lenient s = Some v -> decode lenient (rewrite q s) = Some v.
Proof.
  unfold decode. intros H. rewrite units_rewrite, flat_map_ru, map_length. apply val_ru_succ. exact H.
Qed.
