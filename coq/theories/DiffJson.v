(* (K) the JSON mismatch builder of output_diff_json and (S) the line-range patcher a consumer applies (C18) *)
From Coq Require Import List Arith Lia Bool.
Import ListNotations.

Section J.
Variable line : Type.

(* an edit script, valid by construction: segments carry their lines *)
Inductive seg :=
| Keep (ls : list line)
| Del (d : line) (ds : list line)                 (* at least one line *)
| Ins (i : line) (is_ : list line)
| Rep (d : line) (ds : list line) (i : line) (is_ : list line).

Definition old_of (s : seg) : list line :=
  match s with Keep ls => ls | Del d ds => d :: ds | Ins _ _ => [] | Rep d ds _ _ => d :: ds end.
Definition new_of (s : seg) : list line :=
  match s with Keep ls => ls | Del _ _ => [] | Ins i is_ => i :: is_ | Rep _ _ i is_ => i :: is_ end.
Definition olds (ss : list seg) := flat_map old_of ss.
Definition news (ss : list seg) := flat_map new_of ss.

Record mismatch := { os : nat; oe : nat; es : nat; ee : nat; original : list line; expected : list line }.

(* the JSON builder, with the repaired "all changes" text selection; [first_only] = the code as it stands *)
Variable first_only : bool.
Definition sel (l : list line) : list line := if first_only then firstn 1 l else l.

Fixpoint mismatches (oi ni : nat) (ss : list seg) : list mismatch :=
  match ss with
  | [] => []
  | Keep ls :: r => mismatches (oi + length ls) (ni + length ls) r
  | Del d ds :: r =>
      {| os := oi; oe := oi + S (length ds) - 1; es := ni; ee := ni; original := sel (d :: ds); expected := [] |}
      :: mismatches (oi + S (length ds)) ni r
  | Ins i is_ :: r =>
      {| os := oi; oe := oi; es := ni; ee := ni + S (length is_) - 1; original := []; expected := sel (i :: is_) |}
      :: mismatches oi (ni + S (length is_)) r
  | Rep d ds i is_ :: r =>
      {| os := oi; oe := oi + S (length ds) - 1; es := ni; ee := ni + S (length is_) - 1;
         original := d :: ds; expected := i :: is_ |}
      :: mismatches (oi + S (length ds)) (ni + S (length is_)) r
  end.

(* what the Rust code literally does: it copies the indices `similar` put into each DiffOp.
   [annotate] gives every segment the running indices; the theorems are about scripts whose indices are those. *)
Fixpoint mismatches_at (ops : list (nat * nat * seg)) : list mismatch :=
  match ops with
  | [] => []
  | (_, _, Keep _) :: r => mismatches_at r
  | (oi, ni, Del d ds) :: r =>
      {| os := oi; oe := oi + S (length ds) - 1; es := ni; ee := ni; original := sel (d :: ds); expected := [] |} :: mismatches_at r
  | (oi, ni, Ins i is_) :: r =>
      {| os := oi; oe := oi; es := ni; ee := ni + S (length is_) - 1; original := []; expected := sel (i :: is_) |} :: mismatches_at r
  | (oi, ni, Rep d ds i is_) :: r =>
      {| os := oi; oe := oi + S (length ds) - 1; es := ni; ee := ni + S (length is_) - 1; original := d :: ds; expected := i :: is_ |}
      :: mismatches_at r
  end.
Fixpoint annotate (oi ni : nat) (ss : list seg) : list (nat * nat * seg) :=
  match ss with
  | [] => []
  | s :: r => (oi, ni, s) :: annotate (oi + length (old_of s)) (ni + length (new_of s)) r
  end.

(* the consumer: line-range replacement, left to right, [c] = next old line not yet copied *)
Fixpoint apply_from (c : nat) (ms : list mismatch) (old : list line) : list line :=
  match ms with
  | [] => skipn c old
  | m :: r =>
      firstn (os m - c) (skipn c old) ++ expected m ++
      apply_from (match original m with [] => os m | _ => S (oe m) end) r old
  end.
Definition apply_json ms old := apply_from 0 ms old.

End J.

Arguments Keep {line}. Arguments Del {line}. Arguments Ins {line}. Arguments Rep {line}.


