From Coq Require Import List Ascii Bool Arith Lia.
Import ListNotations.
From SV Require Import Lex Bracket BracketProof Census Trivia.

Lemma len_ind (P : list tok -> Prop) : (forall l, (forall l', List.length l' < List.length l -> P l') -> P l) -> forall l, P l.
Proof. intros H l. remember (List.length l) as n eqn:E. revert l E. induction n as [n IH] using lt_wf_ind.
  intros l E. apply H. intros l' Hl. apply (IH (List.length l')); [lia|reflexivity]. Qed.

Lemma rstrip_rev_idem r : rstrip_rev (rstrip_rev r) = rstrip_rev r.
Proof. induction r as [|c r IH]; cbn; auto. destruct (is_ascii_ws c) eqn:E; auto. cbn. rewrite E. reflexivity. Qed.
Lemma trim_end_idem s : trim_end (trim_end s) = trim_end s.
Proof. unfold trim_end. rewrite rev_involutive, rstrip_rev_idem. reflexivity. Qed.
Lemma crlf_conv win b : Bracket.no_lone_cr b = true -> Bracket.crlf_to_lf (Bracket.conv (ending_of win) b) = Bracket.crlf_to_lf b.
Proof. intros H. unfold Bracket.conv. apply crlf_lf_to. apply crlf_no_cr. exact H. Qed.

(* formatting a comment does not change what the census sees of it *)
Lemma norm_fmt_comment win t : trivia_ok t = true -> norm_com (fmt_comment win t) = norm_com t.
Proof.
  destruct t; cbn; intros H; try reflexivity; try discriminate.
  - rewrite trim_end_idem. reflexivity.
  - rewrite (crlf_conv win body H). reflexivity.
  - rewrite trim_end_idem. reflexivity.
Qed.

Lemma census_app a b : census (a ++ b) = census a ++ census b.
Proof. induction a as [|t r IH]; cbn; auto. destruct (norm_com t); cbn; rewrite IH; reflexivity. Qed.

(* C03 for the leading gate: same comments, same order, only the allowed normalisation; nothing created *)
Theorem lead_census win : forall l cnt, forallb trivia_ok l = true -> census (otoks (lead win cnt l)) = census l.
Proof.
  induction l as [l IH] using len_ind. intros cnt H. destruct l as [|t r]; [reflexivity|].
  cbn [forallb] in H. apply andb_true_iff in H. destruct H as [Ht Hr].
  destruct t; try discriminate; cbn [lead].
  - (* whitespace *) cbn [census norm_com]. destruct (has_nl s); [destruct (Nat.eqb cnt 0)|]; cbn [otoks flat_map app]; apply IH; cbn; auto; lia.
  - (* line comment *)
    assert (E : census (otoks (lead win 0 (match r with w :: r2 => if is_ws_nl w then r2 else r | [] => r end))) = census r).
    { destruct r as [|w r2]; [reflexivity|]. destruct (is_ws_nl w) eqn:W.
      - destruct w; try discriminate. cbn [census norm_com]. apply IH; [cbn; lia|]. cbn [forallb] in Hr. apply andb_true_iff in Hr. tauto.
      - apply IH; [cbn; lia|exact Hr]. }
    cbn [otoks flat_map app census]. rewrite (norm_fmt_comment win (TLineCom s) Ht). cbn [norm_com]. fold (otoks (lead win 0 (match r with w :: r2 => if is_ws_nl w then r2 else r | [] => r end))). rewrite E. reflexivity.
  - (* block comment *)
    assert (E : census (otoks (lead win 0 (match r with w :: r2 => if is_ws_nl w then r2 else r | [] => r end))) = census r).
    { destruct r as [|w r2]; [reflexivity|]. destruct (is_ws_nl w) eqn:W.
      - destruct w; try discriminate. cbn [census norm_com]. apply IH; [cbn; lia|]. cbn [forallb] in Hr. apply andb_true_iff in Hr. tauto.
      - apply IH; [cbn; lia|exact Hr]. }
    cbn [otoks flat_map app census]. rewrite (norm_fmt_comment win (TBlockCom depth body) Ht). cbn [norm_com].
    fold (otoks (lead win 0 (match r with w :: r2 => if is_ws_nl w then r2 else r | [] => r end))). rewrite E. reflexivity.
  - (* shebang *)
    assert (E : census (otoks (lead win 0 (match r with w :: r2 => if is_ws_nl w then r2 else r | [] => r end))) = census r).
    { destruct r as [|w r2]; [reflexivity|]. destruct (is_ws_nl w) eqn:W.
      - destruct w; try discriminate. cbn [census norm_com]. apply IH; [cbn; lia|]. cbn [forallb] in Hr. apply andb_true_iff in Hr. tauto.
      - apply IH; [cbn; lia|exact Hr]. }
    cbn [otoks flat_map app census]. rewrite (norm_fmt_comment win (TShebang s) Ht). cbn [norm_com].
    fold (otoks (lead win 0 (match r with w :: r2 => if is_ws_nl w then r2 else r | [] => r end))). rewrite E. reflexivity.
Qed.

Lemma otoks_app a b : otoks (a ++ b) = otoks a ++ otoks b.
Proof. unfold otoks. apply flat_map_app. Qed.
(* C03 for the trailing gate *)
Theorem trail_census win : forall l, forallb trivia_ok l = true -> census (otoks (trail win l)) = census l.
Proof.
  induction l as [|t r IH]; [reflexivity|]. cbn [forallb]. intros H. apply andb_true_iff in H. destruct H as [Ht Hr].
  destruct t; try discriminate; cbn [trail].
  - rewrite otoks_app, census_app, (IH Hr). cbn [census norm_com].
    destruct r as [|[] r2]; try reflexivity. destruct (has_nl s); reflexivity.
  - cbn [otoks flat_map app census]. rewrite (norm_fmt_comment win (TLineCom s) Ht). cbn [norm_com]. fold (otoks (trail win r)). rewrite (IH Hr). reflexivity.
  - cbn [otoks flat_map app census]. rewrite (norm_fmt_comment win (TBlockCom depth body) Ht). cbn [norm_com]. fold (otoks (trail win r)). rewrite (IH Hr). reflexivity.
  - cbn [otoks flat_map app census]. rewrite (norm_fmt_comment win (TShebang s) Ht). cbn [norm_com]. fold (otoks (trail win r)). rewrite (IH Hr). reflexivity.
Qed.

(* no code can end up inside a leading comment: every comment is followed by a newline before anything else *)
Fixpoint com_then_nl (l : list otok) : Prop :=
  match l with
  | [] => True
  | OTok (TLineCom _ | TBlockCom _ _ | TShebang _) :: r => match r with ONl :: _ => com_then_nl r | _ => False end
  | _ :: r => com_then_nl r
  end.
Theorem lead_no_capture win : forall l cnt, forallb trivia_ok l = true -> com_then_nl (lead win cnt l).
Proof.
  induction l as [l IH] using len_ind. intros cnt H. destruct l as [|t r]; [exact I|].
  cbn [forallb] in H. apply andb_true_iff in H. destruct H as [Ht Hr].
  assert (Hrest : forall c0, com_then_nl (lead win c0 (match r with w :: r2 => if is_ws_nl w then r2 else r | [] => r end))).
  { intros c0. destruct r as [|w r2]; [exact I|]. destruct (is_ws_nl w).
    - apply IH; [cbn; lia|]. cbn [forallb] in Hr. apply andb_true_iff in Hr. tauto.
    - apply IH; [cbn; lia|exact Hr]. }
  destruct t; try discriminate; cbn [lead].
  - destruct (has_nl s); [destruct (Nat.eqb cnt 0)|]; cbn [com_then_nl]; apply IH; cbn; auto; lia.
  - cbn [com_then_nl fmt_comment]. apply Hrest.
  - cbn [com_then_nl fmt_comment]. apply Hrest.
  - cbn [com_then_nl fmt_comment]. apply Hrest.
Qed.

(* C10 for the gate: what it emits obeys the line-ending setting, and at most one blank line survives *)
Lemma lf_to_newlines_ok win : forall t, Bracket.no_cr t = true -> newlines_ok win (Bracket.lf_to (ending_of win) t) = true.
Proof.
  induction t as [|c r IH]; [reflexivity|]. cbn [Bracket.no_cr]. intros N. apply andb_true_iff in N. destruct N as [C N].
  apply negb_true_iff in C. unfold Bracket.lf_to. cbn [flat_map]. fold (Bracket.lf_to (ending_of win) r).
  unfold Quote.eqc, Bracket.CR, Bracket.LF in *.
  destruct (Ascii.eqb c "010"%char) eqn:L.
  - destruct win; cbn [ending_of Bracket.le_chars app newlines_ok]; unfold Lex.eqc, Lex.CR, Lex.LF, Bracket.CR, Bracket.LF; cbn [Ascii.eqb]; cbn; apply IH; exact N.
  - cbn [app]. change (newlines_ok win (c :: Bracket.lf_to (ending_of win) r)) with
      (if Ascii.eqb c "013"%char then match Bracket.lf_to (ending_of win) r with d :: r' => win && Lex.eqc d Lex.LF && newlines_ok win r' | [] => false end
       else if Ascii.eqb c "010"%char then negb win && newlines_ok win (Bracket.lf_to (ending_of win) r) else newlines_ok win (Bracket.lf_to (ending_of win) r)).
    rewrite C, L. apply IH. exact N.
Qed.
Theorem fmt_comment_newlines win d b : Bracket.no_lone_cr b = true ->
  match fmt_comment win (TBlockCom d b) with TBlockCom _ b' => newlines_ok win b' = true | _ => False end.
Proof. intros H. cbn [fmt_comment]. unfold Bracket.conv. apply lf_to_newlines_ok. apply crlf_no_cr. exact H. Qed.
Fixpoint max_nl_run (cur best : nat) (l : list otok) : nat :=
  match l with [] => Nat.max cur best | ONl :: r => max_nl_run (S cur) best r | _ :: r => max_nl_run 0 (Nat.max cur best) r end.
