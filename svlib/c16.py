"""C16 - exactly the selected files are processed, each once (DESIGN 5/C16)."""
import fnmatch, random
from .cli import *

UNF = "local   x   =   1\n"
DIRS = ["", "a", "a/b", "c", ".hid", "a/.hd"]
FILES = ["x.lua", "y.luau", "n.txt", ".h.lua", "skip.lua", "keep.lua"]
PATTERNS = ["skip.lua", "b/", "c/", "*.luau", "/x.lua", "!keep.lua", "keep.lua", "a/", "!x.lua", "*.lua"]
# the known finding (see known_findings.jsonl): a pattern anchored through a sub-directory, with that sub-directory as the argument
KNOWN_SCENARIO = dict(id="known-anchored-subdir", files=["a/b/x.lua", "a/skip.lua", "a/x.lua"], ignores={"": ["/a/x.lua"]}, args=["a"], respect=False, hidden=False)

class IgnoreFile:
    """gitignore semantics for the generated pattern class: basename patterns, `dir/`, `*.ext`, `/anchored`, `!negation`"""
    def __init__(self, base, lines):
        self.base, self.rules = base, []
        for l in lines:
            neg = l.startswith("!")
            if neg: l = l[1:]
            dironly = l.endswith("/")
            if dironly: l = l[:-1]
            anchored = l.startswith("/") or "/" in l
            self.rules.append((neg, dironly, anchored, l.lstrip("/")))
    def match(self, rel, is_dir):
        """rel: path relative to self.base.  -> None | 'ignore' | 'whitelist' (last matching rule)"""
        res = None
        for neg, dironly, anchored, pat in self.rules:
            if dironly and not is_dir: continue
            target = rel if anchored else os.path.basename(rel)
            if fnmatch.fnmatchcase(target, pat): res = "whitelist" if neg else "ignore"
        return res

def rel_to(base, path):
    return os.path.relpath(path, base) if base else path

def walk(tree_files, ignore_files, start, allow_hidden):
    """files the directory walker yields below `start` (a directory, '' = cwd): hidden and ignored entries pruned as it descends"""
    out = []
    def ignored(path, is_dir):
        # deepest ignore file first; the first one with an opinion decides
        d = os.path.dirname(path)
        chain = []
        while True:
            if d in ignore_files: chain.append(ignore_files[d])
            if d == "": break
            d = os.path.dirname(d)
        for ig in chain:
            m = ig.match(rel_to(ig.base, path), is_dir)
            if m is not None: return m == "ignore"
        return False
    def descend(d):
        kids_d = sorted(set(x for x in DIRS if x and os.path.dirname(x) == d))
        kids_f = sorted(f for f in tree_files if os.path.dirname(f) == d)
        for f in kids_f:
            if os.path.basename(f).startswith(".") and not allow_hidden: continue
            if ignored(f, False): continue
            out.append(f)
        for k in kids_d:
            if os.path.basename(k).startswith(".") and not allow_hidden: continue
            if ignored(k, True): continue
            descend(k)
    descend(start)
    return out

def explicit_ignored(path, ignore_files):
    """path_is_stylua_ignored: the .styluaignore of the file's own directory, else the working directory's; the path or any parent"""
    d = os.path.dirname(path)
    ig = ignore_files.get(d) or ignore_files.get("")
    if not ig: return False
    rel = rel_to(ig.base, path)
    if rel.startswith(".."): return False
    parts = rel.split("/")
    # matched_path_or_any_parents: the path itself, then each parent directory
    res = ig.match(rel, False)
    if res is not None: return res == "ignore"
    for i in range(len(parts) - 1, 0, -1):
        m = ig.match("/".join(parts[:i]), True)
        if m is not None: return m == "ignore"
    return False

def gen(rng, sid):
    files = sorted(set(os.path.join(rng.choice(DIRS), rng.choice(FILES)) for _ in range(rng.randint(3, 10))))
    igs = {}
    for d in ["", "a"]:
        if rng.random() < 0.55: igs[d] = rng.sample(PATTERNS, rng.randint(1, 3))
    args = []
    for _ in range(rng.randint(1, 4)):
        r = rng.random()
        if r < 0.35: args.append(rng.choice([".", "a", "c", "a/b"]))
        else:
            f = rng.choice(files)
            args.append(rng.choice([f, "./" + f]))
    return dict(id=sid, files=files, ignores=igs, args=args, respect=rng.random() < 0.4, hidden=rng.random() < 0.3)

def run_scn(sc):
    root = scratch("c16")
    try:
        for d in DIRS: os.makedirs(os.path.join(root, d), exist_ok=True)
        for f in sc["files"]: open(os.path.join(root, f), "w").write(UNF)
        igf = {}
        for d, lines in sc["ignores"].items():
            open(os.path.join(root, d, ".styluaignore"), "w").write("\n".join(lines) + "\n")
            igf[d] = IgnoreFile(d, lines)
        args = [a for a in sc["args"] if os.path.exists(os.path.join(root, a))]
        if not args: args = ["."]
        flags = ["--no-editorconfig"] + (["--respect-ignores"] if sc["respect"] else []) + (["--allow-hidden"] if sc["hidden"] else [])
        # check mode first: one diff header per processing of a file, so a file processed twice shows twice
        code0, out0, err0 = stylua(flags + ["--check", "--color=never"] + args, root)
        counts = {}
        for l in out0.decode("utf-8", "replace").splitlines():
            if l.startswith("Diff in ") and l.endswith(":"):
                k = os.path.normpath(l[len("Diff in "):-1]); counts[k] = counts.get(k, 0) + 1
        code, out, err = stylua(flags + args, root)
        recs = ["SCN %s 1 %d" % (sc["id"], 1 if sc["respect"] else 0)]
        for k, c in sorted(counts.items()): recs.append("TIMES %s %d" % (k, c))
        for a in args:
            if os.path.isdir(os.path.join(root, a)):
                start = os.path.normpath(a); start = "" if start == "." else start
                for f in walk(sc["files"], igf, start, sc["hidden"]):
                    sp = os.path.join(a, os.path.relpath(f, start) if start else f)
                    # an entry found by traversal counts as explicit when its spelling equals an argument; then
                    # path_is_stylua_ignored is asked about it like for any explicit path
                    recs.append("ENTRY %s %s %d %d %d" % (sp, f, 1 if sp in args else 0, 1 if f.endswith((".lua", ".luau")) else 0,
                                                          1 if (sp in args and explicit_ignored(f, igf)) else 0))
            else:
                key = os.path.normpath(a)
                recs.append("ENTRY %s %s 1 %d %d" % (a, key, 1 if key.endswith((".lua", ".luau")) else 0, 1 if explicit_ignored(key, igf) else 0))
        for f in sc["files"]:
            recs.append("ALL " + f)
            if open(os.path.join(root, f)).read() != UNF: recs.append("OBS " + f)
        recs.append("END")
        return recs, code
    finally:
        cleanup(root)

def run(res):
    proof = proof_stage(res, "C16", extra_obligations=1)
    build_ml(); build_cli()
    rng = random.Random(res.seed * 2741 + 16)
    n = 500 if res.tier == "quick" else 8000
    scs = [gen(rng, "s%04d" % i) for i in range(n)]
    # the listed finding, replayed on its own: printed while it reproduces, silent once it no longer does
    krecs, _ = run_scn(KNOWN_SCENARIO)
    kr = subprocess.run([driver("drv_c16")], input="\n".join(krecs) + "\n", stdout=subprocess.PIPE, text=True)
    kbad = [l for l in kr.stdout.splitlines() if l.startswith("BAD")]
    for e in known_findings("C16"):
        if e.get("id") == "F-C16-anchored-subdir" and kbad == ["BAD selected-but-not-processed:a/b/x.lua known-anchored-subdir"]:
            res.known.append(e["what"]); kbad = []
    # a second listed class, outside the generated scenarios (they pass no --glob): a user glob that matches a file overrides the
    # file's own .styluaignore entry.  One witness, read off the bytes of the ignored file.
    wroot = scratch("c16glob")
    try:
        os.makedirs(os.path.join(wroot, "src"))
        for f in ("src/a.lua", "src/skip.lua"): open(os.path.join(wroot, f), "w").write(UNF)
        open(os.path.join(wroot, ".styluaignore"), "w").write("src/skip.lua\n")
        stylua(["--glob", "**/*.lua", "."], wroot)
        if open(os.path.join(wroot, "src/skip.lua")).read() != UNF:
            kf = [e for e in known_findings("C16") if e.get("id") == "F-C16-glob-overrides-ignore-entry"]
            if kf: res.known.append(kf[0]["what"])
            else: kbad.append("BAD not-selected-but-processed:src/skip.lua glob-overrides-ignore-entry")
    finally:
        cleanup(wroot)
    results = pmap(run_scn, scs)
    lines = [l for recs, _ in results for l in recs]
    r = subprocess.run([driver("drv_c16")], input="\n".join(lines) + "\n", stdout=subprocess.PIPE, stderr=subprocess.PIPE, text=True)
    tot, bads, samples = {}, [], []
    for l in r.stdout.splitlines():
        if l.startswith("SUMMARY"): tot = {k: int(v) for k, v in parse_kv(l).items()}
        elif l.startswith("BAD"): bads.append(l)
        elif l.startswith("SAMPLE"): samples.append(l[7:])
    bads += kbad
    tie_ok = r.returncode == 0 and not bads and tot.get("scenarios") == n
    if proof["ok"] and tie_ok: res.coverage["discharged"] = proof["discharged"] + 1
    res.coverage.update(
        evaluations=tot.get("scenarios", 0), distinct_nontrivial=tot.get("nontrivial", 0),
        rule="%d seeded random trees over directories {., a, a/b, c, .hid, a/.hd} with 3-10 unformatted files named x.lua, y.luau, n.txt, .h.lua, skip.lua, keep.lua; .styluaignore in the root and/or in a/ with 1-3 patterns drawn from %s; "
             "1-4 arguments (directories, explicit files, `./` spellings, repeats); with and without --respect-ignores and --allow-hidden; write mode, a processed file is one whose bytes changed. "
             "non-trivial = some but not all files processed" % (n, PATTERNS),
        samples=samples or ["-"], input_distribution=tot,
        correspondence="the extracted Select.processed applied to the expected walker entries gives the set of files to process; equal to the set of files whose bytes changed; no file twice in the model's list")
    res.assumptions = ["the directory walker and .styluaignore matching (ignore / globset crates) are an oracle of the model; the expected entries are computed by an independent matcher for the generated pattern class (basename, dir/, *.ext, /anchored, !negation, nested files)",
                       "--glob overrides are not generated", "a file processed twice by the binary is only visible through its final bytes; double processing is excluded in the model (C16_processed_once) and observed through diffs in C13"]
    if not proof["ok"] or not tie_ok:
        if bads:
            by = {sc["id"]: sc for sc in scs}
            seen = set()
            for l in bads:
                w = l.split(); key = w[1].split(":")[0]
                if key in seen or len(seen) >= 4: continue
                seen.add(key)
                res.violation(dict(kind="input", check=w[1], cli=dict(scenario=by.get(w[2])), expected="Select.processed on the walker entries (C16 theorems)"))
        else:
            res.violation(dict(kind="obligation", obligation=dict(theorem=proof.get("broken_at", "C16 correspondence"), log=proof["log"][-2000:] + r.stderr[-500:])), no_input=True)
    return res

def replay(payload):
    build_ml(); build_cli()
    recs, code = run_scn(payload["cli"]["scenario"])
    r = subprocess.run([driver("drv_c16")], input="\n".join(recs) + "\n", stdout=subprocess.PIPE, text=True)
    print("\n".join(recs)); print(r.stdout)
    return 1 if "BAD" in r.stdout else 0
