import random, sys, os
rnd = random.Random(int(sys.argv[1])); outdir = sys.argv[2]; n = int(sys.argv[3])
names = ["a","b","foo","bar","x1","_y","self","Promise","t"]
binops = ["+","-","*","/","%","^","..","==","~=","<","<=",">",">=","and","or"]
def ws(): return rnd.choice([" ", " ", " ", "  ", "\t", " \n  ", "\n"]) if rnd.random()<0.3 else " "
def sp(): return rnd.choice(["", "", " ", "  "])
def string():
    body = "".join(rnd.choice(["a","b"," ","'",'"',"\\n","\\'",'\\"',"\\\\","\\q","\\065","x"]) for _ in range(rnd.randint(0,6)))
    k = rnd.random()
    if k<0.4: return '"' + body.replace('"','\\"') .replace('\\\\"','\\\\\\"')+ '"' if False else '"' + "".join(rnd.choice(["a","b"," ","'","\\n","\\'",'\\"',"\\\\","\\q","\\065","x"]) for _ in range(rnd.randint(0,6))) + '"'
    if k<0.8: return "'" + "".join(rnd.choice(["a","b"," ",'"',"\\n","\\'",'\\"',"\\\\","\\q","\\065","x"]) for _ in range(rnd.randint(0,6))) + "'"
    return rnd.choice(["[[", "[=["]) .replace("[=[","[=[") + "k" + ("]]" if True else "")
def bstring():
    d = rnd.randint(0,2); return "[" + "="*d + "[" + rnd.choice(["k","a b","x\ny"]) + "]" + "="*d + "]"
def number(): return rnd.choice(["0","1","42",".5","3.14","0x1F","1e10","1E-3","0.0"])
def atom(): 
    r = rnd.random()
    if r<0.35: return rnd.choice(names)
    if r<0.55: return number()
    if r<0.7: return string() if rnd.random()<0.8 else bstring()
    if r<0.8: return rnd.choice(["nil","true","false"])
    return rnd.choice(names)
def expr(d):
    if d<=0: return atom()
    r = rnd.random()
    if r<0.25: return atom()
    if r<0.45: return expr(d-1)+sp()+" "+rnd.choice(binops)+" "+sp()+expr(d-1)
    if r<0.55: return rnd.choice(["-","not ","#"])+sp()+expr(d-1)
    if r<0.68: return "("+sp()+expr(d-1)+sp()+")"
    if r<0.85: return chain(d-1)
    if r<0.93: return table(d-1)
    return "function("+params()+")"+ws()+"end"
def params(): return ", ".join(rnd.sample(names, rnd.randint(0,3)))+(", ..." if rnd.random()<0.1 else "") if rnd.random()<0.8 else ""
def args(d):
    r = rnd.random()
    if r<0.8: return "("+sp()+(","+sp()).join(expr(d) for _ in range(rnd.randint(0,3)))+sp()+")"
    if r<0.9: return sp()+string()
    return sp()+table(d)
def chain(d):
    s = rnd.choice(names) if rnd.random()<0.85 else "("+expr(d)+")"
    for _ in range(rnd.randint(1,3)):
        r = rnd.random()
        if r<0.3: s += "."+rnd.choice(names)
        elif r<0.45: s += "["+sp()+(bstring() if rnd.random()<0.3 else expr(d))+sp()+"]"
        elif r<0.8: s += args(d)
        else: s += ":"+rnd.choice(names)+args(d)
    return s
def callchain(d):
    s = rnd.choice(names) if rnd.random()<0.85 else "("+expr(d)+")"
    for _ in range(rnd.randint(0,2)):
        s += rnd.choice(["."+rnd.choice(names), ":"+rnd.choice(names)+args(d), args(d)])
    return s + rnd.choice([args(d), ":"+rnd.choice(names)+args(d)])
def var(d):
    if rnd.random()<0.6: return rnd.choice(names)
    s = rnd.choice(names) if rnd.random()<0.85 else "("+expr(d)+")"
    for _ in range(rnd.randint(0,2)): s += rnd.choice(["."+rnd.choice(names), args(d)])
    return s + rnd.choice(["."+rnd.choice(names), "["+expr(d)+"]"])
def table(d):
    k = rnd.randint(0,3)
    fs = []
    for _ in range(k):
        r = rnd.random()
        if r<0.4: fs.append(expr(d))
        elif r<0.75: fs.append(rnd.choice(names)+sp()+"="+sp()+expr(d))
        else: fs.append("["+sp()+(bstring() if rnd.random()<0.3 else expr(d))+sp()+"]"+sp()+"="+sp()+expr(d))
    sep = rnd.choice([",",";",", "])
    nl = "\n" if (k>0 and rnd.random()<0.25) else sp()
    return "{"+nl+sep.join(fs)+(rnd.choice([",",";",""]) if k>0 else "")+sp()+"}"
def lead(ind):
    s = ""
    for _ in range(rnd.randint(0,3)):
        r = rnd.random()
        if r<0.4: s += rnd.choice(["", "  "])+"\n"
        elif r<0.8: s += ind+"--"+rnd.choice([" c", "c  ", " stylua: nope", ""])+"\n"
        else: s += ind+"--[["+rnd.choice([" block ", "a\nb"])+"]]\n"
    return s
def trail():
    r = rnd.random()
    if r<0.7: return ""
    if r<0.9: return rnd.choice([" ","  ",""])+"-- t"+rnd.choice([""," "])
    return " --[[ t ]]"
def block(d, ind):
    out = ""
    k = rnd.randint(0,3) if d>0 else rnd.randint(0,2)
    for i in range(k):
        out += lead(ind)+ind+stmt(d, ind)+rnd.choice(["","",""," ;",";"])+trail()+"\n"
    if rnd.random()<0.2:
        out += lead(ind)+ind+rnd.choice(["return", "return "+expr(2), "return "+expr(1)+", "+expr(1), "break" if False else "return"])+rnd.choice(["",";"])+trail()+"\n"
    return out
def stmt(d, ind):
    r = rnd.random(); ni = ind+"  "
    if r<0.2: return "local "+", ".join(rnd.sample(names, rnd.randint(1,2)))+(sp()+"="+sp()+(","+sp()).join(expr(2) for _ in range(rnd.randint(1,2))) if rnd.random()<0.8 else "")
    if r<0.35: return var(1)+sp()+"="+sp()+expr(2)
    if r<0.55: return callchain(1)
    if d<=0: return "local z = "+expr(1)
    if r<0.62: return "do\n"+block(d-1,ni)+ind+"end"
    if r<0.7: return "while "+expr(2)+" do\n"+block(d-1,ni)+ind+"end"
    if r<0.75: return "repeat\n"+block(d-1,ni)+ind+"until "+expr(2)
    if r<0.85:
        s = "if "+expr(2)+" then\n"+block(d-1,ni)
        for _ in range(rnd.randint(0,1)): s += ind+"elseif "+expr(1)+" then\n"+block(d-1,ni)
        if rnd.random()<0.4: s += ind+"else\n"+block(d-1,ni)
        return s+ind+"end"
    if r<0.9: return "for i = "+expr(1)+", "+expr(1)+(", "+expr(1) if rnd.random()<0.3 else "")+" do\n"+block(d-1,ni)+ind+"end"
    if r<0.93: return "for k, v in "+expr(1)+" do\n"+block(d-1,ni)+ind+"end"
    if r<0.97: return "function "+".".join(rnd.sample(names, rnd.randint(1,2)))+(":m" if rnd.random()<0.3 else "")+"("+params()+")\n"+block(d-1,ni)+ind+"end"
    return "local function f("+params()+")\n"+block(d-1,ni)+ind+"end"
os.makedirs(outdir, exist_ok=True)
for i in range(n):
    src = rnd.choice(["","\n","\n\n"])+block(2,"")+rnd.choice(["","\n\n","-- eof comment\n","-- eof\n\n\n"])
    if rnd.random()<0.15: src = src.replace("\n","\r\n")
    open(os.path.join(outdir, "g%05d.lua"%i),"w",newline="").write(src)
