//! Views of the top-level statements of a program used by several ties: erased token keys, comment lists,
//! line spans, and the ignore-directive state (a transcription of context.rs, kept deliberately independent).
use crate::common::*;
use full_moon::ast::*;
use full_moon::node::Node;
use full_moon::tokenizer::{Token, TokenReference, TokenType};

pub fn comment_text(t: &Token) -> Option<String> {
    match t.token_type() {
        TokenType::SingleLineComment { comment } => Some(format!("--{}", comment.trim_end())),
        TokenType::MultiLineComment { blocks, comment } => Some(format!("--[{}[{}]{}]", "=".repeat(*blocks), comment.replace("\r\n", "\n"), "=".repeat(*blocks))),
        _ => None,
    }
}
pub fn directive_lines(t: &Token) -> Vec<String> {
    match t.token_type() {
        TokenType::SingleLineComment { comment } => comment.lines().map(|l| l.trim().to_string()).collect(),
        TokenType::MultiLineComment { comment, .. } => comment.lines().map(|l| l.trim().to_string()).collect(),
        _ => vec![],
    }
}
/// non-trivia tokens of a node, with quotes normalised and parentheses / semicolons dropped:
/// identifies a statement independently of how it is formatted
pub fn erased_key(node: &impl Node) -> String {
    let mut out = String::new();
    let mut toks: Vec<&TokenReference> = node.tokens().collect();
    toks.sort_by_key(|t| t.token().start_position().bytes());
    for t in toks {
        let s = match t.token_type() {
            TokenType::StringLiteral { literal, .. } => format!("\"{}\"", literal.replace('\\', "").replace('\'', "").replace('"', "")),
            TokenType::Symbol { symbol } => {
                let s = symbol.to_string();
                if s == "(" || s == ")" || s == ";" { continue } else { s }
            }
            _ => t.token().to_string(),
        };
        out.push_str(&s);
        out.push(' ');
    }
    out
}
// `tokens()` follows field order (both parentheses of a call come before its arguments): go by position
pub fn first_token(node: &impl Node) -> Option<TokenReference> { node.tokens().min_by_key(|t| t.token().start_position().bytes()).cloned() }
pub fn last_token(node: &impl Node) -> Option<TokenReference> { node.tokens().max_by_key(|t| t.token().end_position().bytes()).cloned() }

pub struct TopStmt {
    pub key: String,
    pub lead: Vec<String>,
    pub trail: Vec<String>,
    pub start_line: usize,
    pub end_line: usize,
    pub skip: bool,
    pub req: Option<(bool, String, usize)>, // (is GetService, variable name, line of the name)
}
fn req_kind(e: &Expression) -> Option<bool> {
    match e {
        Expression::FunctionCall(c) => {
            let name = match c.prefix() { Prefix::Name(t) => t.token().to_string(), _ => return None };
            if name == "require" { Some(false) }
            else if name == "game" {
                match c.suffixes().next() { Some(Suffix::Call(Call::MethodCall(m))) if m.name().token().to_string() == "GetService" => Some(true), _ => None }
            } else { None }
        }
        Expression::TypeAssertion { expression, .. } => req_kind(expression),
        _ => None,
    }
}
pub fn top_statements(ast: &Ast) -> Vec<TopStmt> {
    let mut out = vec![];
    let mut disabled = false;
    let block = ast.nodes();
    let mut handle = |node_first: Option<TokenReference>, node_last: Option<TokenReference>, semi: Option<&TokenReference>, key: String, req: Option<(bool, String, usize)>| {
        let first = node_first.unwrap();
        let last = semi.cloned().or(node_last).unwrap();
        let lead_tokens: Vec<&Token> = first.leading_trivia().collect();
        for t in &lead_tokens {
            for l in directive_lines(t) {
                if l == "stylua: ignore start" { disabled = true } else if l == "stylua: ignore end" { disabled = false }
            }
        }
        let single = lead_tokens.iter().any(|t| directive_lines(t).iter().any(|l| l == "stylua: ignore"));
        out.push(TopStmt {
            key,
            lead: lead_tokens.iter().filter_map(|t| comment_text(t)).collect(),
            trail: last.trailing_trivia().filter_map(comment_text).collect(),
            start_line: first.token().start_position().line(),
            end_line: last.token().end_position().line(),
            skip: disabled || single,
            req,
        });
    };
    for (stmt, semi) in block.stmts_with_semicolon() {
        let req = match stmt {
            Stmt::LocalAssignment(l) if l.names().len() == 1 && l.expressions().len() == 1 => {
                let name = l.names().iter().next().unwrap();
                req_kind(l.expressions().iter().next().unwrap()).map(|k| (k, name.token().to_string(), name.token().start_position().line()))
            }
            _ => None,
        };
        handle(first_token(stmt), last_token(stmt), semi.as_ref(), erased_key(stmt), req);
    }
    if let Some((last, semi)) = block.last_stmt_with_semicolon() {
        handle(first_token(last), last_token(last), semi.as_ref(), erased_key(last), None);
    }
    out
}
pub fn hexlist(v: &[String]) -> String {
    if v.is_empty() { "-".into() } else { v.iter().map(|s| hex(s.as_bytes())).collect::<Vec<_>>().join(",") }
}
