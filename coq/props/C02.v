(* C02 - formatting never changes what the program means.  Statements only.
   Partial: proved for the kernels that can change meaning (parenthesis rule on every layout path, literal rewriting)
   and for the observation itself (what the erasure can and cannot see); the whole formatter is validated against
   the erasure and against the normal form N on generated programs. *)
From Coq Require Import List Ascii.
From SV Require Lex Quote Quote51 QuoteX QuoteAll Number Census EraseProof Expr Parens ParensProof PrattProof.
Import ListNotations.

Theorem C02_grouping_preserved_on_every_layout : forall c e o, Parens.R c e o -> Expr.Sm o = Expr.Sm e.
Proof. exact ParensProof.R_sem. Qed.
Print Assumptions C02_grouping_preserved_on_every_layout.
Theorem C02_reparsed_expression_has_the_same_tree : forall c e o, Parens.R c e o -> Expr.can e = true ->
  exists o', Expr.parse (Expr.tokens o) = Some o' /\ Expr.Sm o' = Expr.Sm e.
Proof.
  intros c e o H K. exists o. split; [apply PrattProof.pratt_roundtrip; exact (ParensProof.R_can c e o H K)|exact (ParensProof.R_sem c e o H)].
Qed.
Print Assumptions C02_reparsed_expression_has_the_same_tree.
Theorem C02_string_value_51 : forall q s, Quote51.decode51 (Quote.rewrite q s) = Quote51.decode51 s.
Proof. exact Quote51.rewrite_decode51. Qed.
Print Assumptions C02_string_value_51.
Theorem C02_string_value : forall lenient q s v, QuoteX.decode lenient s = Some v -> QuoteX.decode lenient (Quote.rewrite q s) = Some v.
Proof. exact QuoteAll.rewrite_decode. Qed.
Print Assumptions C02_string_value.
Theorem C02_number_value : forall s v, Number.decval s = Some v -> Number.numval (Number.number_rewrite s) = Number.numval s.
Proof. exact EraseProof.erase_number. Qed.
Print Assumptions C02_number_value.
(* the observation: exactly whitespace, comments, parentheses, semicolons and commas are invisible to it *)
Theorem C02_erasure_ignores_only_the_allowed_differences : forall d ts,
  Census.erase d (filter (fun t => negb (EraseProof.invisible t)) ts) = Census.erase d ts.
Proof. exact EraseProof.erase_invisible. Qed.
Print Assumptions C02_erasure_ignores_only_the_allowed_differences.
Theorem C02_erasure_compositional : forall d a b, Census.erase d (a ++ b) = Census.erase d a ++ Census.erase d b.
Proof. exact EraseProof.erase_app. Qed.
Print Assumptions C02_erasure_compositional.

(* the semicolon rule of format_block (regenerated from src/formatters/block.rs on every run) is exactly
   "this statement can end in an expression and the next one begins with `(`": nothing is merged into a call,
   and every other semicolon is one of the redundant ones the property lets go *)
From SV Require FmAst Semicolon SemicolonProof.
From SVgen Require SemiRule.
Theorem C02_generated_semicolon_rule_is_the_specification : forall s next,
  match next with Some (n, _) => Semicolon.wf_stmt n = true | None => True end ->
  SemiRule.check_stmt_requires_semicolon s next = Semicolon.needs_semicolon s next.
Proof. exact SemicolonProof.generated_rule_is_spec. Qed.
Print Assumptions C02_generated_semicolon_rule_is_the_specification.
Theorem C02_statements_never_merged_by_a_dropped_semicolon : forall s n semi,
  Semicolon.wf_stmt n = true -> Semicolon.open_ended s = true -> Semicolon.starts_with_paren n = true ->
  SemiRule.check_stmt_requires_semicolon s (Some (n, semi)) = true.
Proof. exact SemicolonProof.semicolon_kept_where_needed. Qed.
Print Assumptions C02_statements_never_merged_by_a_dropped_semicolon.

(* L0 - the whole-formatter model on a fragment of Lua 5.1 (Fmt0.v), tied to the binary byte for byte on every run:
   for every program of the fragment and every configuration (whitespace, quotes, call_parentheses,
   space_after_function_names), what is printed has exactly the erased token
   sequence of the program itself, and every expression keeps its operator grouping *)
From SV Require Fmt0 Fmt0Proof.
Theorem C02_L0_output_has_the_erasure_of_the_program : forall dl c p,
  Census.erase dl (Fmt0.pprog c (Fmt0.norm0 c p)) = Census.erase dl (Fmt0.pprog c p).
Proof. exact Fmt0Proof.format0_keeps_erasure. Qed.
Print Assumptions C02_L0_output_has_the_erasure_of_the_program.
Theorem C02_L0_expressions_keep_their_grouping : forall e c, Expr.Sm (Fmt0.shape (Fmt0.nexp c e)) = Expr.Sm (Fmt0.shape e).
Proof. exact Fmt0Proof.nexp_keeps_grouping. Qed.
Print Assumptions C02_L0_expressions_keep_their_grouping.
