(* C10, the end-of-file clause on L0: a non-empty output of format0 ends with exactly one line ending.
   The printed tokens of a non-empty program end with the line ending token, and the token in front of it ends in a
   character that is not a line feed (a name, a number, a closing quote, a keyword or bracket, or a line comment without a
   line break) - for every well-formed program in the sense of the lexical theorem (Fmt0Lex.wfb). *)
From Coq Require Import List Ascii String Bool Arith Lia.
Import ListNotations.
From SV Require Import Lex LexRender LexNum LexAdj Expr Quote QuoteMore Number Census Fmt0 Fmt0Proof Fmt0Lex.
Open Scope char_scope.

(* the last character of a token's text is not a line feed (and the text is not empty) *)
Definition tail_ok (t : Lex.tok) : bool :=
  match t with TWs _ | TBlockCom _ _ | TShebang _ => false | _ => negb (Lex.eqc (last (show t) LF) LF) end.
Definition ends_tail (ts : list Lex.tok) : Prop := exists X t, ts = X ++ [t] /\ tail_ok t = true.
Lemma ends_tail_one t : tail_ok t = true -> ends_tail [t]. Proof. intros H. exists [], t. split; [reflexivity|exact H]. Qed.
Lemma ends_tail_app a b : ends_tail b -> ends_tail (a ++ b).
Proof. intros (X & t & -> & H). exists (a ++ X), t. split; [rewrite app_assoc; reflexivity|exact H]. Qed.
Lemma ends_tail_cons x b : ends_tail b -> ends_tail (x :: b). Proof. apply (ends_tail_app [x]). Qed.
Lemma ends_tail_snoc a t : tail_ok t = true -> ends_tail (a ++ [t]). Proof. intros H. apply ends_tail_app. apply ends_tail_one. exact H. Qed.
Lemma ends_tail_commas l : l <> [] -> Forall ends_tail l -> ends_tail (commas l).
Proof.
  intros N H. induction H as [|x r Hx Hr IH]; [contradiction|]. destruct r as [|y r'].
  - cbn [commas]. exact Hx.
  - change (commas (x :: y :: r')) with (x ++ kw "," :: sp :: commas (y :: r')). apply ends_tail_app. apply ends_tail_cons. apply ends_tail_cons. apply IH. discriminate.
Qed.
(* characters *)
Lemma class_not_lf (P : ascii -> bool) : P LF = false -> forall ch, P ch = true -> Lex.eqc ch LF = false.
Proof. intros H ch Hc. destruct (Lex.eqc ch LF) eqn:E; [|reflexivity]. apply Ascii.eqb_eq in E. subst ch. congruence. Qed.
Lemma last_in {A} (l : list A) d : l <> [] -> In (last l d) l.
Proof. induction l as [|x r IH]; [contradiction|]. intros _. destruct r as [|y r']; [left; reflexivity|]. right. apply IH. discriminate. Qed.
Lemma last_app_ne {A} (a b : list A) d : b <> [] -> last (a ++ b) d = last b d.
Proof.
  intros N. induction a as [|x r IH]; [reflexivity|]. change ((x :: r) ++ b) with (x :: (r ++ b)).
  destruct (r ++ b) as [|y l] eqn:E; [destruct r; [contradiction|discriminate]|]. exact IH.
Qed.
Lemma last_all (P : ascii -> bool) l d : l <> [] -> forallb P l = true -> P (last l d) = true.
Proof. intros N H. apply (proj1 (forallb_forall P l) H). apply last_in. exact N. Qed.
Lemma tail_ident n : wf_ident n -> tail_ok (TIdent n) = true.
Proof.
  destruct n as [|c0 a]; [intros []|]. intros [Hc Ha]. unfold tail_ok. cbn [show]. apply negb_true_iff.
  apply (class_not_lf Lex.is_ident_char eq_refl). apply last_all; [discriminate|]. cbn [forallb]. unfold Lex.is_ident_char at 1. rewrite Hc, Ha. reflexivity.
Qed.
Lemma tail_str q b : tail_ok (pstr q b) = true.
Proof. unfold pstr, tail_ok. destruct (qkind_of (QuoteMore.choose q b)) eqn:E; cbn [show]; try (rewrite app_comm_cons, last_last; reflexivity). destruct (QuoteMore.choose q b); discriminate. Qed.
Lemma tail_com x : no_lf x = true -> tail_ok (TLineCom x) = true.
Proof.
  intros H. unfold tail_ok. cbn [show]. apply negb_true_iff. destruct x as [|y r]; [reflexivity|].
  change ("-" :: "-" :: y :: r) with (["-"; "-"] ++ y :: r). rewrite last_app_ne by discriminate.
  apply (class_not_lf (fun ch => negb (Lex.eqc ch LF)) eq_refl). apply (last_all (fun x => negb (Lex.eqc x LF))); [discriminate|exact H].
Qed.
(* numbers: the scanner of the lexer model consumes no line feed *)
Definition nlf (ch : ascii) : bool := negb (Lex.eqc ch LF).
Lemma nlf_class (P : ascii -> bool) : P LF = false -> forall ch, P ch = true -> nlf ch = true.
Proof. intros H ch Hc. unfold nlf. rewrite (class_not_lf P H ch Hc). reflexivity. Qed.
Lemma digitish_nlf v ch : Lex.is_digit ch || vluau v && Lex.eqc ch "_" = true -> nlf ch = true.
Proof.
  intros H. apply (nlf_class (fun x => Lex.is_digit x || Lex.eqc x "_") eq_refl). apply orb_true_iff in H. apply orb_true_iff.
  destruct H as [H|H]; [left; exact H|right]. apply andb_true_iff in H. apply H.
Qed.
Lemma digits_us_all v : forall s a, Lex.digits_us v s = (a, []) -> forallb nlf s = true.
Proof.
  induction s as [|ch r IH]; intros a H; [reflexivity|]. cbn [Lex.digits_us] in H.
  destruct (Lex.is_digit ch || vluau v && Lex.eqc ch "_") eqn:D; [|discriminate].
  destruct (Lex.digits_us v r) as [a' b'] eqn:E. inversion H; subst. cbn [forallb]. rewrite (digitish_nlf v ch D), (IH a' eq_refl). reflexivity.
Qed.
Lemma exponent_all v acc s n : Lex.exponent v acc s = Some (n, []) -> (match s with e :: _ => Lex.is_e e | [] => false end) = true -> forallb nlf s = true.
Proof.
  unfold Lex.exponent. destruct s as [|e r]; [discriminate|]. intros H He. cbn [forallb]. rewrite (nlf_class Lex.is_e eq_refl e He). cbn [andb].
  destruct r as [|ch r']; [discriminate|].
  destruct (Lex.eqc ch "+" || Lex.eqc ch "-") eqn:S.
  - destruct r' as [|d r'']; [discriminate|]. destruct (Lex.is_digit d); [|discriminate].
    destruct (Lex.digits_us v (d :: r'')) as [ds r2] eqn:E. inversion H; subst.
    cbn [forallb]. rewrite (nlf_class (fun x => Lex.eqc x "+" || Lex.eqc x "-") eq_refl ch S). cbn [andb]. apply (digits_us_all v (d :: r'') ds E).
  - destruct (Lex.is_digit ch); [|discriminate]. destruct (Lex.digits_us v (ch :: r')) as [ds r2] eqn:E. inversion H; subst. apply (digits_us_all v (ch :: r') ds E).
Qed.
Lemma number_body_all v : vjit v = false -> forall s fuel hit acc n, Lex.number_body v fuel hit acc s = Some (n, []) -> forallb nlf s = true.
Proof.
  intros Hj. induction s as [|ch s IH]; intros fuel hit acc n H; [reflexivity|]. destruct fuel; [discriminate|]. cbn [Lex.number_body] in H.
  destruct (Lex.is_digit ch || vluau v && Lex.eqc ch "_") eqn:D.
  { cbn [forallb]. rewrite (digitish_nlf v ch D). exact (IH _ _ _ _ H). }
  destruct (Lex.eqc ch ".") eqn:Dot.
  { cbn [forallb]. rewrite (nlf_class (fun x => Lex.eqc x ".") eq_refl ch Dot). destruct hit; [discriminate|]. exact (IH _ _ _ _ H). }
  destruct (Lex.is_e ch) eqn:E; [exact (exponent_all v acc (ch :: s) n H E)|].
  rewrite Hj in H. cbn [andb] in H. discriminate.
Qed.
Lemma tail_num v c0 s' : vjit v = false -> wf_decimal v c0 s' -> tail_ok (TNum (c0 :: s')) = true.
Proof.
  intros Hj (D & _ & H). unfold tail_ok. cbn [show]. change (negb (Lex.eqc (last (c0 :: s') LF) LF)) with (nlf (last (c0 :: s') LF)).
  apply (last_all nlf); [discriminate|]. cbn [forallb]. rewrite (nlf_class Lex.is_digit eq_refl c0 D). exact (number_body_all v Hj _ _ _ _ _ H).
Qed.

Section Eof.
Variable v : ver.
Hypothesis Hjit : vjit v = false.
Variable cf : cfg0.
Notation wfe := (Fmt0Lex.wfe v cf).
Notation pexp := (Fmt0.pexp cf).
Lemma tail_name n : Fmt0Lex.wf_name v n -> tail_ok (TIdent n) = true. Proof. intros [W _]. apply tail_ident. exact W. Qed.
(* every expression ends in such a token *)
Lemma wfl_tails d l fld : Forall (fun e => forall d0, wfe e -> ends_tail (pexp d0 e)) l -> Fmt0Lex.wfl v cf l fld -> Forall ends_tail (map (pexp d) l).
Proof.
  induction 1 as [|x r Hx Hr IH]; intros W; [constructor|]. destruct W as [[Wx _] Wr]. cbn [map]. constructor; [apply Hx; exact Wx|apply IH; exact Wr].
Qed.
Lemma tail_pargs sg xs : (sg = true -> ends_tail xs) -> ends_tail (pargs cf sg xs).
Proof.
  intros H. unfold pargs. destruct sg; [apply ends_tail_cons; apply H; reflexivity|].
  apply ends_tail_app. apply ends_tail_cons. apply ends_tail_snoc. reflexivity.
Qed.
Lemma sugarable_ne args : sugarable args = true -> args <> []. Proof. destruct args; [discriminate|discriminate]. Qed.
Lemma ends_tail_brk b xs : ends_tail (brk b xs).
Proof.
  unfold brk. destruct b.
  - do 2 apply ends_tail_cons. apply ends_tail_app. apply (ends_tail_app [sp]). apply ends_tail_one. reflexivity.
  - apply ends_tail_cons. apply ends_tail_snoc. reflexivity.
Qed.
Lemma tail_pexp : forall e d, wfe e -> ends_tail (pexp d e).
Proof.
  induction e using exp_ind'; intros d W; try (apply ends_tail_one; reflexivity).
  - (* number *) cbn [Fmt0Lex.wfe] in W. destruct s as [|c0 s']; [contradiction|]. cbn [Fmt0.pexp]. destruct (wf_decimal_digit v _ _ W) as [D _].
    rewrite (number_rewrite_digit c0 s' D). apply ends_tail_one. apply (tail_num v c0 s' Hjit W).
  - (* string *) apply ends_tail_one. apply tail_str.
  - (* name *) apply ends_tail_one. apply tail_name. exact W.
  - (* long string: outside the premise *) destruct W.
  - (* field *) cbn [Fmt0.pexp]. destruct W as (_ & _ & Wn). apply ends_tail_app. apply ends_tail_cons. apply ends_tail_one. apply tail_name. exact Wn.
  - (* index *) cbn [Fmt0.pexp]. apply ends_tail_app. apply ends_tail_brk.
  - (* call *) cbn [Fmt0.pexp]. destruct W as (_ & _ & Wa). apply ends_tail_app. apply tail_pargs. intros S. apply andb_true_iff in S. destruct S as [_ S].
    apply ends_tail_commas; [intros Q; apply map_eq_nil in Q; exact (sugarable_ne args S Q)|]. apply (wfl_tails d args false H). exact Wa.
  - (* method *) cbn [Fmt0.pexp]. destruct W as (_ & _ & _ & Wa). apply ends_tail_app. apply ends_tail_cons. apply ends_tail_cons. apply tail_pargs. intros S. apply andb_true_iff in S. destruct S as [_ S].
    apply ends_tail_commas; [intros Q; apply map_eq_nil in Q; exact (sugarable_ne args S Q)|]. apply (wfl_tails d args false H). exact Wa.
  - (* unary *) cbn [Fmt0.pexp]. destruct W as (Wx & _). apply ends_tail_app. apply IHe. exact Wx.
  - (* binary *) cbn [Fmt0.pexp]. destruct W as (_ & _ & _ & Wr & _). apply ends_tail_app. do 3 apply ends_tail_cons. apply IHe2. exact Wr.
  - (* parentheses *) cbn [Fmt0.pexp]. apply ends_tail_cons. apply ends_tail_snoc. reflexivity.
  - (* table *) destruct fs as [|f fs]; [apply (ends_tail_app [kw "{"]); apply ends_tail_one; reflexivity|].
    change (pexp d (ETable (f :: fs))) with (kw "{" :: sp :: commas (map (pexp d) (f :: fs)) ++ [sp; kw "}"]).
    do 2 apply ends_tail_cons. apply ends_tail_app. apply (ends_tail_app [sp]). apply ends_tail_one. reflexivity.
  - (* positional field *) cbn [Fmt0.pexp]. destruct W as (Wx & _). apply IHe. exact Wx.
  - (* named field *) cbn [Fmt0.pexp]. destruct W as (_ & Wx & _). do 4 apply ends_tail_cons. apply IHe. exact Wx.
  - (* keyed field *) cbn [Fmt0.pexp]. destruct W as (_ & _ & Wx & _). apply ends_tail_app. do 3 apply ends_tail_cons. apply IHe2. exact Wx.
  - (* table over several lines *) destruct fs as [|f fs]; [apply (ends_tail_app [kw "{"]); apply ends_tail_one; reflexivity|].
    rewrite p_tableml. do 2 apply ends_tail_cons. apply ends_tail_app. apply ends_tail_app. apply ends_tail_one. reflexivity.
  - (* a line of such a table, on its own *) cbn [Fmt0.pexp]. destruct W as (Wf & _). apply IHe. exact Wf.
Qed.
Ltac fin := repeat first [ apply ends_tail_one; reflexivity | apply ends_tail_cons | apply ends_tail_app ].
Lemma tail_pexps d es : es <> [] -> Fmt0Lex.wfes v cf es -> ends_tail (pexps cf d es).
Proof.
  intros N W. unfold pexps. apply ends_tail_commas; [intros Q; apply map_eq_nil in Q; contradiction|].
  apply Forall_map. eapply Forall_impl; [|exact W]. intros e [We _]. apply tail_pexp. exact We.
Qed.
Lemma tail_pnames ns : ns <> [] -> Forall (Fmt0Lex.wf_name v) ns -> ends_tail (pnames ns).
Proof.
  intros N W. unfold pnames. apply ends_tail_commas; [intros Q; apply map_eq_nil in Q; contradiction|].
  apply Forall_map. eapply Forall_impl; [|exact W]. intros n Wn. apply ends_tail_one. apply tail_name. exact Wn.
Qed.
Definition flat (s : stmt) : bool := match s with SLocal _ _ | SAssign _ _ | SCall _ | SReturn _ | SBreak => true | _ => false end.
Lemma tail_psimple d s : Fmt0Lex.wfs v cf s -> flat s = true -> ends_tail (psimple cf d s).
Proof.
  destruct s; intros W S; try discriminate; cbn [psimple Fmt0Lex.wfs] in *.
  - (* local *) destruct W as (N & Wn & We). destruct es as [|e es]; [fin; apply tail_pnames; assumption|]. fin. apply tail_pexps; [discriminate|exact We].
  - (* assignment *) destruct W as (_ & N & _ & We). fin. apply tail_pexps; assumption.
  - (* call *) apply tail_pexp. apply W.
  - (* return *) destruct es as [|e es]; [fin|]. fin. apply tail_pexps; [discriminate|exact W].
  - (* break *) fin.
Qed.
Lemma simple_flat s : simple_stmt s = true -> flat s = true. Proof. destruct s; try discriminate; reflexivity. Qed.
Lemma tail_fbody d b : Fmt0Lex.wfb v cf b -> ends_tail (Fmt0Proof.fbody cf d b).
Proof.
  intros W. unfold Fmt0Proof.fbody. destruct (blk_empty b); [fin|]. destruct (fun_guard cf b) as [s1|]; [|fin].
  destruct (oneline (psimple cf d s1) && nocom (psimple cf d s1)); fin.
Qed.
Lemma tail_pstmt d s : Fmt0Lex.wfs v cf s -> ends_tail (pstmt cf d s).
Proof.
  destruct s as [ns es|vs es|e|b|e b|b e|e t r|x a b0 st body|ns es body|p m ps va body|n ps va body|es|]; intros W; try (apply (tail_psimple d _ W); reflexivity).
  - rewrite p_do. fin.
  - rewrite p_while. fin.
  - rewrite p_repeat. fin. apply tail_pexp. apply W.
  - rewrite p_if. destruct (if_guard cf t r) as [s1|]; [destruct (nocom (psimple cf d s1))|]; fin.
  - rewrite p_numfor. fin.
  - rewrite p_genfor. fin.
  - rewrite p_function. fin. apply tail_fbody. apply W.
  - rewrite p_localfunction. fin. apply tail_fbody. apply W.
Qed.
(* lines: ... a token that does not end in a line feed, then the line ending *)
Definition ends_line (ts : list Lex.tok) : Prop := exists X t, ts = X ++ [t; eol cf] /\ tail_ok t = true.
Lemma ends_line_app a b : ends_line b -> ends_line (a ++ b).
Proof. intros (X & t & -> & H). exists (a ++ X), t. split; [rewrite app_assoc; reflexivity|exact H]. Qed.
Lemma ends_line_tail a : ends_tail a -> ends_line (a ++ [eol cf]).
Proof. intros (X & t & -> & H). exists X, t. split; [rewrite <- app_assoc; reflexivity|exact H]. Qed.
Lemma wf_com_nolf x : Fmt0Lex.wf_com cf x -> no_lf x = true. Proof. intros [H _]. exact H. Qed.
Lemma line_ptrivia d tv : tv <> [] -> Fmt0Lex.wf_triv cf tv -> ends_line (ptrivia cf d tv).
Proof.
  intros N W. unfold ptrivia. induction W as [|[b x] r Hx Hr IH]; [contradiction|]. cbn [map List.concat]. destruct r as [|y r'].
  - cbn [map List.concat]. rewrite app_nil_r. apply ends_line_app. apply ends_line_app. exists [], (TLineCom x). split; [reflexivity|]. apply tail_com. apply wf_com_nolf. exact Hx.
  - apply ends_line_app. apply IH. discriminate.
Qed.
Lemma line_pitem d i : Fmt0Lex.wfi v cf i -> ends_line (pitem cf d i).
Proof.
  destruct i as [l bl s t]. intros (_ & Ws & Wt). rewrite p_item. do 3 apply ends_line_app. destruct t as [x|]; cbn [ptrail].
  - apply ends_line_app. exists [sp], (TLineCom x). split; [reflexivity|]. apply tail_com. apply wf_com_nolf. exact Wt.
  - cbn [app]. apply ends_line_tail. apply tail_pstmt. exact Ws.
Qed.
Lemma line_pitems d is : is <> [] -> Fmt0Lex.wfis v cf is -> ends_line (List.concat (map (pitem cf d) is)).
Proof.
  induction is as [|i r IH]; intros N W; [contradiction|]. destruct W as [Wi Wr]. cbn [map List.concat]. destruct r as [|j r'].
  - cbn [map List.concat]. rewrite app_nil_r. apply line_pitem. exact Wi.
  - apply ends_line_app. apply IH; [discriminate|exact Wr].
Qed.
Theorem line_pblk d b : Fmt0Lex.wfb v cf b -> blk_empty b = false -> ends_line (pblk cf d b).
Proof.
  destruct b as [is tl]. rewrite Fmt0Lex.wfb_eq. intros [Wi Wt] N. rewrite p_blk. destruct tl as [|c0 tl'].
  - rewrite app_nil_r. apply line_pitems; [destruct is; [discriminate|discriminate]|exact Wi].
  - apply ends_line_app. apply line_ptrivia; [discriminate|exact Wt].
Qed.
(* bytes: a text that ends in such a line ends with exactly one line ending *)
Lemma beqb_refl a : Lex.beqb a a = true.
Proof. induction a as [|x r IH]; [reflexivity|]. cbn [Lex.beqb]. unfold Lex.eqc. rewrite Ascii.eqb_refl, IH. reflexivity. Qed.
Lemma ends_with_app pre suf : ends_with suf (pre ++ suf) = true.
Proof.
  unfold ends_with. rewrite app_length. replace (List.length pre + List.length suf - List.length suf) with (List.length pre + 0) by lia.
  rewrite skipn_app, Nat.add_0_r, skipn_all, Nat.sub_diag. cbn [app skipn]. apply beqb_refl.
Qed.
Lemma ends_with_inv suf s : ends_with suf s = true -> exists pre, s = pre ++ suf.
Proof. unfold ends_with. intros H. apply LexAdj.beqb_eq in H. exists (firstn (List.length s - List.length suf) s). rewrite <- (firstn_skipn (List.length s - List.length suf) s) at 1. rewrite H. reflexivity. Qed.
Definition le0 : bytes := if windows0 cf then [CR; LF] else [LF].
Lemma le0_snoc : exists l0, le0 = l0 ++ [LF]. Proof. unfold le0. destruct (windows0 cf); [exists [CR]|exists []]; reflexivity. Qed.
Lemma eof_ok_line ts eof : ends_line ts -> eof_ok (wcfg cf eof) (render ts) = true.
Proof.
  intros (X & t & -> & T). unfold render. rewrite map_app, concat_app. cbn [map List.concat]. rewrite app_nil_r.
  change (show (eol cf)) with le0.
  (* the text of t ends in a character that is not a line feed *)
  assert (S : exists B b0, show t = B ++ [b0] /\ Lex.eqc b0 LF = false).
  { unfold tail_ok in T. assert (N : show t <> []) by (intros Q; rewrite Q in T; destruct t; discriminate).
    exists (removelast (show t)), (last (show t) LF). split; [apply app_removelast_last; exact N|]. destruct t; try discriminate; apply negb_true_iff in T; exact T. }
  destruct S as (B & b0 & Sh & Nb). rewrite Sh. set (pre := List.concat (map show X) ++ B).
  replace (List.concat (map show X) ++ (B ++ [b0]) ++ le0) with ((pre ++ [b0]) ++ le0) by (unfold pre; rewrite <- !app_assoc; reflexivity).
  unfold eof_ok. destruct ((pre ++ [b0]) ++ le0) as [|z zs] eqn:E; [reflexivity|]. rewrite <- E. clear E z zs.
  change (if windows (wcfg cf eof) then [Lex.CR; Lex.LF] else [Lex.LF]) with le0.
  rewrite ends_with_app. cbn [andb].
  destruct le0_snoc as (l0 & L).
  assert (F : forall q, ends_with (q ++ le0) ((pre ++ [b0]) ++ le0) = true -> (exists q0, q = q0 ++ [LF]) -> False).
  { intros q H (q0 & ->). apply ends_with_inv in H. destruct H as (p0 & H). rewrite app_assoc in H. apply app_inv_tail in H.
    rewrite app_assoc in H. apply app_inj_tail in H. destruct H as [_ H]. subst b0. unfold Lex.eqc in Nb. rewrite Ascii.eqb_refl in Nb. discriminate. }
  destruct (ends_with (le0 ++ le0) ((pre ++ [b0]) ++ le0)) eqn:E1; [exfalso; apply (F le0 E1); exists l0; exact L|].
  destruct (ends_with (Lex.LF :: le0) ((pre ++ [b0]) ++ le0)) eqn:E2; [exfalso; apply (F [LF] E2); exists []; reflexivity|].
  reflexivity.
Qed.
(* ---------- C10, end of file: a non-empty output of format0 ends with exactly one line ending ---------- *)
Theorem format0_ends_with_one_line_ending p eof : Fmt0Lex.wfb1 v cf p -> eof_ok (wcfg cf eof) (format0 cf p) = true.
Proof.
  intros W. unfold format0. destruct (blk_empty (norm0 cf p)) eqn:E.
  - destruct (norm0 cf p) as [[|i r] [|t tl]]; try discriminate. reflexivity.
  - apply eof_ok_line. unfold pprog. apply line_pblk; [|exact E]. apply Fmt0Lex.wfb_norm0; assumption.
Qed.
Theorem format0_empty_for_an_empty_program p : blk_empty p = true -> format0 cf p = [].
Proof. intros E. unfold format0, norm0, cprog, nprog. destruct p as [[|i r] [|t tl]]; try discriminate. reflexivity. Qed.
End Eof.
