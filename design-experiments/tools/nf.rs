// C02 oracle experiment: semantic normal form N of a full_moon AST (Lua 5.1 core), compared before/after formatting.
use full_moon::ast::*;
use full_moon::ast::punctuated::Punctuated;
use full_moon::node::Node;
use full_moon::tokenizer::{Token, TokenReference, TokenType, StringLiteralQuoteType, Symbol};
use stylua_lib as st;

struct Unsup(String);
type R<T> = Result<T, Unsup>;
fn unsup<T>(s: &str) -> R<T> { Err(Unsup(s.to_string())) }
fn hexb(b: &[u8]) -> String { if b.is_empty() { "#".into() } else { format!("#{}", b.iter().map(|x| format!("{:02x}", x)).collect::<String>()) } }
// Lua 5.1-style denotation of a quoted string body (decimal escapes, named escapes, \newline, otherwise the char itself)
fn decode(s: &str) -> Vec<u8> {
    let b = s.as_bytes(); let mut out = vec![]; let mut i = 0;
    while i < b.len() {
        if b[i] == b'\\' && i + 1 < b.len() {
            let d = b[i + 1];
            if d.is_ascii_digit() { let mut v: u32 = 0; let mut k = 0; while k < 3 && i + 1 + k < b.len() && b[i + 1 + k].is_ascii_digit() { v = v * 10 + (b[i + 1 + k] - b'0') as u32; k += 1; } out.push(v as u8); i += 1 + k; }
            else { out.push(match d { b'a' => 7, b'b' => 8, b'f' => 12, b'n' => 10, b'r' => 13, b't' => 9, b'v' => 11, b'\r' => { if i + 2 < b.len() && b[i + 2] == b'\n' { i += 1; } 10 } x => x }); i += 2; }
        } else { out.push(b[i]); i += 1; }
    }
    out
}
fn hex(s: &str) -> String { if s.is_empty() { "#".into() } else { format!("#{}", s.bytes().map(|b| format!("{:02x}", b)).collect::<String>()) } }

fn triv(t: &Token) -> R<String> {
    Ok(match t.token_type() {
        TokenType::Whitespace { characters } => format!("(ws {})", hex(characters)),
        TokenType::SingleLineComment { comment } => format!("(lc {})", hex(comment)),
        TokenType::MultiLineComment { blocks, comment } => format!("(bc {} {})", blocks, hex(comment)),
        TokenType::Shebang { line } => format!("(sb {})", hex(line)),
        _ => return unsup("trivia kind"),
    })
}
fn trivs<'a>(it: impl Iterator<Item = &'a Token>) -> R<String> { let mut v = vec![]; for t in it { v.push(triv(t)?); } Ok(format!("({})", v.join(" "))) }
fn has_comment<'a>(mut it: impl Iterator<Item = &'a Token>) -> bool { it.any(|t| matches!(t.token_type(), TokenType::SingleLineComment{..} | TokenType::MultiLineComment{..} | TokenType::Shebang{..})) }

struct Ser { nested: Vec<(usize, usize)> }
impl Ser {
    fn name(&self, t: &TokenReference) -> R<String> { match t.token_type() { TokenType::Identifier { identifier } => Ok(hex(identifier)), _ => unsup("name token") } }
    fn exprs(&mut self, p: &Punctuated<Expression>) -> R<String> {
        let mut v = vec![]; let n = p.len();
        for (i, e) in p.iter().enumerate() { let mut x = self.expr(e)?; if i + 1 < n { if let Some(inner) = x.strip_prefix("(trunc ") { x = inner[..inner.len() - 1].to_string(); } } v.push(x); }
        Ok(format!("({})", v.join(" "))) }
    fn fields(&mut self, t: &TableConstructor) -> R<String> {
        let mut v = vec![];
        for f in t.fields().iter() { v.push(match f {
            Field::NoKey(e) => format!("(fpos {})", self.expr(e)?),
            Field::NameKey { key, value, .. } => format!("(fname {} {})", self.name(key)?, self.expr(value)?),
            Field::ExpressionKey { key, value, .. } => format!("(fexpr {} {})", self.expr(key)?, self.expr(value)?),
            _ => return unsup("field"),
        }); }
        let nl = t.braces().tokens().0.trailing_trivia().any(|x| matches!(x.token_type(), TokenType::Whitespace { characters } if characters.contains('\n')));
        let _ = nl; Ok(format!("(tbl ({}))", v.join(" ")))
    }
    fn strtok(&self, t: &TokenReference) -> R<String> { match t.token_type() {
        TokenType::StringLiteral { literal, multi_line_depth, quote_type } => Ok(match quote_type {
            StringLiteralQuoteType::Single | StringLiteralQuoteType::Double => format!("(str {})", hexb(&decode(literal))),
            StringLiteralQuoteType::Brackets => { let _ = multi_line_depth; let t = literal.replace("\r\n", "\n"); let t = t.strip_prefix('\n').unwrap_or(&t).to_string(); format!("(str {})", hexb(t.as_bytes())) }
            _ => return unsup("quote type"),
        }), _ => unsup("string token") } }
    fn args(&mut self, a: &FunctionArgs) -> R<String> { Ok(match a {
        FunctionArgs::Parentheses { arguments, .. } => format!("(aparen {})", self.exprs(arguments)?),
        FunctionArgs::String(t) => format!("(aparen ({}))", self.strtok(t)?),
        FunctionArgs::TableConstructor(t) => format!("(aparen ({}))", self.fields(t)?),
        _ => return unsup("args"),
    }) }
    fn suffix(&mut self, s: &Suffix) -> R<String> { Ok(match s {
        Suffix::Index(Index::Dot { name, .. }) => format!("(sdot {})", self.name(name)?),
        Suffix::Index(Index::Brackets { expression, .. }) => format!("(sidx {})", self.expr(expression)?),
        Suffix::Call(Call::AnonymousCall(a)) => format!("(scall {})", self.args(a)?),
        Suffix::Call(Call::MethodCall(m)) => format!("(smeth {} {})", self.name(m.name())?, self.args(m.args())?),
        _ => return unsup("suffix"),
    }) }
    fn prefix(&mut self, p: &Prefix) -> R<String> { Ok(match p {
        Prefix::Name(n) => format!("(pname {})", self.name(n)?),
        Prefix::Expression(e) => match &**e { Expression::Parentheses { expression, .. } => format!("(pparen {})", self.expr(expression)?), _ => return unsup("prefix expr") },
        _ => return unsup("prefix"),
    }) }
    fn callish<'a>(&mut self, p: &Prefix, sufs: impl Iterator<Item = &'a Suffix>) -> R<String> {
        let pre = self.prefix(p)?; let mut v = vec![]; for s in sufs { v.push(self.suffix(s)?); }
        let is_call = v.last().map_or(false, |x| x.starts_with("(scall") || x.starts_with("(smeth"));
        Ok(format!("({} {} ({}))", if is_call { "MULTI" } else { "chain" }, pre, v.join(" ")))
    }
    fn body(&mut self, b: &FunctionBody) -> R<String> {
        let mut ps = vec![];
        for p in b.parameters().iter() { ps.push(match p { Parameter::Name(n) => format!("(pn {})", self.name(n)?), Parameter::Ellipsis(_) => "(pvar)".to_string(), _ => return unsup("param") }); }
        if b.return_type().is_some() || b.type_specifiers().any(|x| x.is_some()) || b.generics().is_some() { return unsup("types"); }
        Ok(format!("({}) {}", ps.join(" "), self.block(b.block())?))
    }
    fn expr(&mut self, e: &Expression) -> R<String> { Ok(match e {
        Expression::Symbol(t) => match t.token_type() { TokenType::Symbol { symbol } => match symbol { Symbol::Nil => "(nil)".into(), Symbol::True => "(true)".into(), Symbol::False => "(false)".into(), Symbol::Ellipsis => "(varargs)".into(), _ => return unsup("symbol expr") }, _ => return unsup("symbol expr") },
        Expression::Number(t) => match t.token_type() { TokenType::Number { text } => { let t = if text.starts_with('.') { format!("0{}", text) } else { text.to_string() }; format!("(num {})", hex(&t)) }, _ => return unsup("number") },
        Expression::String(t) => self.strtok(t)?,
        Expression::Var(Var::Name(n)) => format!("(name {})", self.name(n)?),
        Expression::Var(Var::Expression(v)) => self.callish(v.prefix(), v.suffixes())?,
        Expression::FunctionCall(c) => self.callish(c.prefix(), c.suffixes())?,
        Expression::Parentheses { expression, .. } => { let inner = self.expr(expression)?; if inner.starts_with("(MULTI ") || inner == "(varargs)" { format!("(trunc {})", inner) } else { inner } }
        Expression::UnaryOperator { unop, expression } => format!("(un {} {})", match unop { UnOp::Minus(_) => "neg", UnOp::Not(_) => "not", UnOp::Hash(_) => "len", UnOp::Tilde(_) => "bnot", _ => return unsup("unop") }, self.expr(expression)?),
        Expression::BinaryOperator { lhs, binop, rhs } => format!("(bin {} {} {})", hex(binop.token().token().to_string().trim()), self.expr(lhs)?, self.expr(rhs)?),
        Expression::Function(f) => format!("(func {})", self.body(&f.1)?),
        Expression::TableConstructor(t) => self.fields(t)?,
        _ => return unsup("expression kind"),
    }) }
    fn vars(&mut self, p: &Punctuated<Var>) -> R<String> { let mut v = vec![]; for x in p.iter() { v.push(match x { Var::Name(n) => format!("(name {})", self.name(n)?), Var::Expression(ve) => self.callish(ve.prefix(), ve.suffixes())?, _ => return unsup("var") }); } Ok(format!("({})", v.join(" "))) }
    fn names(&self, p: &Punctuated<TokenReference>) -> R<String> { let mut v = vec![]; for n in p.iter() { v.push(self.name(n)?); } Ok(format!("({})", v.join(" "))) }
    fn stmt(&mut self, s: &Stmt) -> R<String> { Ok(match s {
        Stmt::LocalAssignment(l) => { if l.attributes().any(|x| x.is_some()) || l.type_specifiers().any(|x| x.is_some()) { return unsup("attribs"); } format!("(local {} {})", self.names(l.names())?, self.exprs(l.expressions())?) }
        Stmt::Assignment(a) => format!("(assign {} {})", self.vars(a.variables())?, self.exprs(a.expressions())?),
        Stmt::FunctionCall(c) => format!("(callstmt {})", self.callish(c.prefix(), c.suffixes())?),
        Stmt::Do(d) => format!("(do {})", self.block(d.block())?),
        Stmt::While(w) => format!("(while {} {})", self.expr(w.condition())?, self.block(w.block())?),
        Stmt::Repeat(r) => format!("(repeat {} {})", self.block(r.block())?, self.expr(r.until())?),
        Stmt::If(i) => { let mut v = vec![]; if let Some(eis) = i.else_if() { for ei in eis { v.push(format!("({} {})", self.expr(ei.condition())?, self.block(ei.block())?)); } }
            let els = match i.else_block() { Some(b) => format!("(some {})", self.block(b)?), None => "(none)".into() };
            format!("(if {} {} ({}) {})", self.expr(i.condition())?, self.block(i.block())?, v.join(" "), els) }
        Stmt::NumericFor(f) => { if f.type_specifier().is_some() { return unsup("types"); } format!("(numfor {} {} {} {} {})", self.name(f.index_variable())?, self.expr(f.start())?, self.expr(f.end())?, match f.step() { Some(e) => format!("(some {})", self.expr(e)?), None => "(none)".into() }, self.block(f.block())?) }
        Stmt::GenericFor(f) => { if f.type_specifiers().any(|x| x.is_some()) { return unsup("types"); } format!("(genfor {} {} {})", self.names(f.names())?, self.exprs(f.expressions())?, self.block(f.block())?) }
        Stmt::FunctionDeclaration(f) => { let n = f.name(); let meth = match n.method_name() { Some(m) => format!("(some {})", self.name(m)?), None => "(none)".into() }; format!("(function {} {} {})", self.names(n.names())?, meth, self.body(f.body())?) }
        Stmt::LocalFunction(f) => format!("(localfunction {} {})", self.name(f.name())?, self.body(f.body())?),
        _ => return unsup("statement kind"),
    }) }
    fn item(&mut self, _node: &impl Node, body: String, _semi: Option<&TokenReference>, _nested_from: usize) -> R<String> { Ok(body) }
    fn block(&mut self, b: &Block) -> R<String> {
        let mut v = vec![];
        for (s, semi) in b.stmts_with_semicolon() {
            let from = self.nested.len();
            let body = self.stmt(s)?;
            v.push(self.item(s, body, semi.as_ref(), from)?);
        }
        if let Some((ls, semi)) = b.last_stmt_with_semicolon() {
            let from = self.nested.len();
            let body = match ls { LastStmt::Break(_) => "(break)".to_string(), LastStmt::Return(r) => format!("(return {})", self.exprs(r.returns())?), _ => return unsup("last stmt") };
            v.push(self.item(ls, body, semi.as_ref(), from)?);
        }
        if let (Some(a), Some(z)) = (b.start_position(), b.end_position()) { self.nested.push((a.bytes(), z.bytes() + 1)); }
        Ok(format!("(block {})", v.join(" ")))
    }
}

fn nf(src: &str) -> Result<String, String> {
    let ast = full_moon::parse_fallible(src, full_moon::LuaVersion::lua51()).into_result().map_err(|_| "parse".to_string())?;
    let mut ser = Ser { nested: vec![] };
    ser.block(ast.nodes()).map_err(|Unsup(w)| format!("unsupported {}", w))
}
fn main() {
    let args: Vec<String> = std::env::args().collect();
    let (mut n, mut bad, mut skipped) = (0, 0, 0);
    for path in &args[1..] {
        let src = match std::fs::read_to_string(path) { Ok(s) => s, Err(_) => continue };
        let ni = match nf(&src) { Ok(x) => x, Err(_) => { skipped += 1; continue } };
        for w in [1usize, 20, 40, 80, 120, usize::MAX] { for variant in 0..2 {
            let mut cfg = st::Config::default(); cfg.syntax = st::LuaVersion::Lua51; cfg.column_width = w;
            if variant == 1 { cfg.call_parentheses = st::CallParenType::None; cfg.quote_style = st::QuoteStyle::AutoPreferSingle; cfg.collapse_simple_statement = st::CollapseSimpleStatement::Always; }
            if let Ok(out) = st::format_code(&src, cfg, None, st::OutputVerification::None) {
                n += 1;
                match nf(&out) { Ok(no) => if no != ni { bad += 1; if bad <= 12 { 
                        let (a, b) = (ni.as_bytes(), no.as_bytes()); let mut k = 0; while k < a.len() && k < b.len() && a[k] == b[k] { k += 1; }
                        println!("N-DIFF {} w={} v={}\n   in : …{}\n   out: …{}", path, w, variant, &ni[k.saturating_sub(60)..(k+60).min(ni.len())], &no[k.saturating_sub(60)..(k+60).min(no.len())]); } }
                    Err(e) => { bad += 1; if bad <= 12 { println!("N-ERR {} w={} v={} {}", path, w, variant, e); } } }
            }
        } }
    }
    println!("runs={} N-violations={} skipped-files={}", n, bad, skipped);
}
