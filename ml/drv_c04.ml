(* C04 judge: reads the records the harness wrote (svh c04) and evaluates, with the functions extracted from
   Coq, (K) the kernel model  out = rewrite (choose style body) body / conv ending body / number_rewrite text
        (S) the specification  decode_dialect out = decode_dialect body, lexable, lua_nl / luau_nl, numval.
   Output: BAD lines, KNOWN lines for the lone-CR class, SAMPLE lines, one SUMMARY line. *)
open Util

let style_of = function
  | "AutoPreferDouble" -> QuoteMore.AutoDouble | "AutoPreferSingle" -> QuoteMore.AutoSingle
  | "ForceDouble" -> QuoteMore.ForceDouble | "ForceSingle" -> QuoteMore.ForceSingle
  | s -> failwith ("style " ^ s)
let letter = function Quote.QS -> "s" | Quote.QD -> "d"
let ending_of = function "Windows" -> Bracket.Windows | _ -> Bracket.Unix

(* the denotation the dialect gives a quoted body; None = the dialect rejects it *)
type den = D51 of BinNums.coq_N list option | DX of QuoteX.value list option
let denote syn body = match syn with
  | "Lua51" -> D51 (Quote51.decode51 body)
  | "Luau" -> DX (QuoteX.decode true body)
  | _ -> DX (QuoteX.decode false body)
let is_some = function D51 (Some _) | DX (Some _) -> true | _ -> false

let outside = ref 0
let records = ref 0 and valid = ref 0 and nontrivial = ref 0 and bad = ref 0 and known = ref 0 and samples = ref 0
let by_kind = Hashtbl.create 8
let bump k = Hashtbl.replace by_kind k (1 + try Hashtbl.find by_kind k with Not_found -> 0)
let report kind line = incr bad; Printf.printf "BAD %s %s\n" kind line
let sample line = if !samples < 12 && (!records mod 9973 = 1 || !samples < 3) then (incr samples; Printf.printf "SAMPLE %s\n" line)

let rec triples = function
  | q :: d :: b :: rest -> (q, int_of_string d, unhex b) :: triples rest
  | [] -> [] | _ -> failwith "triples"

let handle line =
  match words line with
  | "S" :: syn :: style :: ending :: form :: depth :: body :: status :: rest ->
    incr records;
    let body = unhex body and depth = int_of_string depth in
    (* full_moon reads a raw CR or LF that follows any escape as part of a quoted string; no Lua does.
       Such bodies are outside the hypothesis of rewrite_lexable (and of the property: they are not string literals). *)
    let inl = form = "b" || QuoteMore.lexable (if form = "s" then Quote.QS else Quote.QD) body in
    if not inl then incr outside;
    if status <> "ok" then (if inl then report ("status-" ^ status) line)
    else if L.mem "nolex" rest then (if inl then report "output-does-not-lex" line)
    else begin
      let outs = triples rest in
      if L.length outs <> 4 then report "string-token-count" line
      else if form = "b" then begin
        bump "bracket";
        let e = ending_of ending in
        let expected = Bracket.conv e body in
        let inside = Bracket.no_lone_cr body in
        if expected <> body then incr nontrivial;
        if inside then incr valid;
        L.iter (fun (q, d, b) ->
          if q <> "b" || d <> depth then report "bracket-form-changed" line
          else if b <> expected then report "model-disagrees-conv" line
          else begin
            let same = if syn = "Luau" then Bracket.luau_nl b = Bracket.luau_nl body else Bracket.lua_nl b = Bracket.lua_nl body in
            if not same then (if inside then report "bracket-value-changed" line
                              else (incr known; Printf.printf "KNOWN lone-cr %s\n" line))
          end) [L.hd outs]; (* the four positions carry the same token; judge one, compare the rest *)
        if L.exists (fun o -> o <> L.hd outs) outs then report "positions-differ" line
      end else begin
        bump "quoted";
        let q = QuoteMore.choose (style_of style) body in
        let expected = Quote.rewrite q body in
        if expected <> body || letter q <> form then incr nontrivial;
        let den = denote syn body in
        if inl && is_some den then incr valid;
        let (oq, od, ob) = L.hd outs in
        if L.exists (fun o -> o <> L.hd outs) outs then report "positions-differ" line
        else if od <> 0 || oq <> letter q then report "model-disagrees-quote" line
        else if ob <> expected then report "model-disagrees-rewrite" line
        else begin
          (* specification side, judged on the implementation's own output *)
          let oqq = if oq = "s" then Quote.QS else Quote.QD in
          if inl && not (QuoteMore.lexable oqq ob) then report "output-not-lexable" line;
          if inl && is_some den && denote syn ob <> den then report "value-changed" line;
          (match style with
           | "ForceDouble" -> if oq <> "d" then report "force-double" line
           | "ForceSingle" -> if oq <> "s" then report "force-single" line
           | _ ->
             let pref = if style = "AutoPreferDouble" then Quote.QD else Quote.QS in
             let oth = if pref = Quote.QD then Quote.QS else Quote.QD in
             let np = nat_to_int (QuoteMore.needs pref body) and no = nat_to_int (QuoteMore.needs oth body) in
             if oqq <> pref && not (no < np) then report "quote-not-minimal" line;
             if oqq = pref && no < np then report "quote-not-minimal" line)
        end
      end;
      sample line
    end
  | "N" :: _syn :: text :: status :: rest ->
    incr records; bump "number";
    let text = unhex text in
    if status <> "ok" then report ("status-" ^ status) line
    else if L.mem "nolex" rest then report "output-does-not-lex" line
    else begin
      let expected = Number.number_rewrite text in
      if expected <> text then incr nontrivial;
      incr valid;
      let outs = L.map unhex rest in
      if L.length outs <> 5 then report "number-token-count" line
      else L.iter (fun o ->
        if o <> expected then report "model-disagrees-number" line
        else if Number.numval o <> Number.numval text then
          (* a Raw value compares texts: only the leading 0 may differ *)
          (match Number.numval o, Number.numval text with
           | Number.Raw a, Number.Raw b when a = '0' :: b -> ()
           | _ -> report "number-value-changed" line)) outs;
      sample line
    end
  | "STATS" :: _ -> print_endline line
  | [] -> ()
  | _ -> report "unreadable-record" line

let () =
  iter_lines handle;
  Printf.printf "SUMMARY records=%d outside_lexable=%d valid=%d nontrivial=%d bad=%d known_lone_cr=%d quoted=%d bracket=%d number=%d\n"
    !records !outside !valid !nontrivial !bad !known
    (try Hashtbl.find by_kind "quoted" with Not_found -> 0)
    (try Hashtbl.find by_kind "bracket" with Not_found -> 0)
    (try Hashtbl.find by_kind "number" with Not_found -> 0)
