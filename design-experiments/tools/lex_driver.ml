let hex l = String.concat "" (List.map (fun c -> Printf.sprintf "%02x" (Char.code c)) l)
let rec n2i = function Lexmodel.O -> 0 | Lexmodel.S n -> 1 + n2i n
let read path = let ic = open_in_bin path in let n = in_channel_length ic in let s = really_input_string ic n in close_in ic; s
let contains s c = try ignore (String.index s c); true with Not_found -> false
let () =
  let v = match Sys.argv.(1) with
    | "51" -> { Lexmodel.v52 = false; v53 = false; v54 = false; vluau = false; vjit = false }
    | "52" -> { Lexmodel.v52 = true; v53 = false; v54 = false; vluau = false; vjit = false }
    | "53" -> { Lexmodel.v52 = true; v53 = true; v54 = false; vluau = false; vjit = false }
    | "54" -> { Lexmodel.v52 = true; v53 = true; v54 = true; vluau = false; vjit = false }
    | "luau" -> { Lexmodel.v52 = false; v53 = false; v54 = false; vluau = true; vjit = false }
    | "jit" -> { Lexmodel.v52 = false; v53 = false; v54 = false; vluau = false; vjit = true }
    | _ -> { Lexmodel.v52 = true; v53 = true; v54 = true; vluau = true; vjit = true } in
  let cases = if Sys.argv.(2) = "--hexlines" then begin
      let ic = open_in Sys.argv.(3) in let acc = ref [] in let i = ref 0 in
      (try while true do let l = input_line ic in
         let b = Bytes.create (String.length l / 2) in
         for k = 0 to String.length l / 2 - 1 do Bytes.set b k (Char.chr (int_of_string ("0x" ^ String.sub l (2*k) 2))) done;
         acc := (Printf.sprintf "case%d" !i, Bytes.to_string b) :: !acc; incr i done with End_of_file -> ());
      List.rev !acc end
    else List.map (fun p -> (p, read p)) (List.tl (List.tl (Array.to_list Sys.argv))) in
  List.iter (fun (path, s) ->
    Printf.printf "FILE %s\n" path;
    if contains s '`' then print_endline "SKIP" else
    let l = List.init (String.length s) (String.get s) in
    match Lexmodel.lex v l with
    | None -> print_endline "ERROR"
    | Some toks -> List.iter (fun t -> match t with
        | Lexmodel.TIdent s -> Printf.printf "Ident %s\n" (hex s)
        | Lexmodel.TSym s -> Printf.printf "Sym %s\n" (hex s)
        | Lexmodel.TNum s -> Printf.printf "Num %s\n" (hex s)
        | Lexmodel.TStr (q, d, b) -> Printf.printf "Str %s %d %s\n" (match q with Lexmodel.QSingle -> "s" | Lexmodel.QDouble -> "d" | Lexmodel.QBrackets -> "b") (n2i d) (hex b)
        | Lexmodel.TWs s -> Printf.printf "Ws %s\n" (hex s)
        | Lexmodel.TLineCom s -> Printf.printf "LCom %s\n" (hex s)
        | Lexmodel.TBlockCom (d, b) -> Printf.printf "BCom %d %s\n" (n2i d) (hex b)
        | Lexmodel.TShebang s -> Printf.printf "Shebang %s\n" (hex s)) toks) cases
