(* C07 (partial): the library call as a pipeline, and the cost of trial formatting.
   Everything in the models is a Coq Fixpoint, so the models are total by construction; what the runtime adds (panics,
   stack depth, wall time) cannot be exhibited here and is validated by running the code. *)
From Coq Require Import List Arith Lia.
Import ListNotations.

Section Pipeline.
Variables src ast : Type.
Variable parse : src -> option ast.        (* full_moon::parse_fallible(..).into_result() *)
Variable fmt : ast -> ast.                 (* sort_requires + CodeFormatter::format: total functions on the tree *)
Variable print : ast -> src.
Inductive result := Formatted (s : src) | ParseError.
Definition format_code (p : src) : result := match parse p with Some a => Formatted (print (fmt a)) | None => ParseError end.
(* success exactly for the texts that parse; never a formatted program for one that did not *)
Theorem parse_error_iff p : format_code p = ParseError <-> parse p = None.
Proof. unfold format_code. destruct (parse p); split; intros H; try discriminate; reflexivity. Qed.
Theorem success_only_if_parsed p s : format_code p = Formatted s -> exists a, parse p = Some a /\ s = print (fmt a).
Proof. unfold format_code. destruct (parse p) as [a|]; intros H; [inversion H; eauto|discriminate]. Qed.
End Pipeline.

(* format_return formats a single multi-line return value three times (a probe at unbounded width, the hanging
   variant, the normal variant) and keeps one.  When that value is a call whose argument is a function whose body ends
   in such a return again, the number of times the innermost body is formatted triples per level. *)
Fixpoint trial_cost (k : nat) : nat := match k with O => 1 | S k => 1 + 3 * trial_cost k end.
Theorem trial_cost_closed_form k : 2 * trial_cost k + 1 = 3 ^ (S k).
Proof. induction k as [|k IH]; [reflexivity|]. cbn [trial_cost]. change (3 ^ S (S k)) with (3 * 3 ^ S k). lia. Qed.
(* no polynomial bounds it: it dominates 2^k, while the input grows by a constant number of bytes per level *)
Theorem trial_cost_exponential k : 2 ^ k <= trial_cost k.
Proof.
  induction k as [|k IH]; [cbn; lia|]. cbn [trial_cost]. change (2 ^ S k) with (2 * 2 ^ k). lia.
Qed.
(* with the argument heuristic alone (one extra pass per call level, `simple_heuristics`) the cost stays quadratic:
   size * (2 + depth) formatting steps for a chain of depth nested calls *)
Fixpoint args_cost (depth : nat) : nat := match depth with O => 1 | S d => 2 + args_cost d end.
Theorem args_cost_linear depth : args_cost depth = 2 * depth + 1.
Proof. induction depth as [|d IH]; [reflexivity|]. cbn [args_cost]. lia. Qed.
