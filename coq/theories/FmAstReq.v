(* Mirror of the full_moon nodes that src/sort_requires.rs :: get_expression_kind inspects (kept apart from FmAst.v,
   whose Expression mirrors what the parenthesis rule looks at).  Strings are character lists. *)
From Coq Require Import List Ascii Bool.
Inductive TokenType := TokenType_Identifier (identifier : list ascii) | TokenType_Other.
Definition TokenReference := TokenType.
Definition token_type (t : TokenReference) : TokenType := t.
Record MethodCall := { method_name : TokenReference }.
Inductive Call := Call_MethodCall (m : MethodCall) | Call_AnonymousCall (u : unit).
Inductive Suffix := Suffix_Call (c : Call) | Suffix_Index (u : unit).
Inductive Prefix := Prefix_Name (t : TokenReference) | Prefix_Expression (u : unit).
Record FunctionCall := { prefix : Prefix; suffixes : list Suffix }.
Inductive Expression :=
| Expression_FunctionCall (f : FunctionCall)
| Expression_TypeAssertion (expression : Expression) (type_assertion : unit)
| Expression_Other.
Inductive GroupKind := GroupKind_Require | GroupKind_GetService.
Fixpoint str_eqb (a b : list ascii) : bool :=
  match a, b with nil, nil => true | x :: a', y :: b' => Ascii.eqb x y && str_eqb a' b' | _, _ => false end.
