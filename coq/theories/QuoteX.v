From Coq Require Import List Ascii NArith Lia Bool Arith Wf_nat.
Import ListNotations.
Open Scope char_scope.
From SV Require Import Quote.

(* Denotation for the dialects with \x, \z, \u{...}; [lenient] = unknown escapes denote the character itself (Luau),
   otherwise they are errors (Lua 5.2-5.4, LuaJIT).  Values: bytes and abstract code points. *)
Inductive value := VB (n : N) | VU (n : N).
Definition code (c : ascii) : N := N_of_ascii c.
Definition in_range (lo hi : N) (c : ascii) : bool := (N.leb lo (code c) && N.leb (code c) hi)%bool.
Definition is_hex (c : ascii) : bool := in_range 48 57 c || in_range 97 102 c || in_range 65 70 c.
Definition hex_val (c : ascii) : N :=
  if in_range 48 57 c then code c - 48 else if in_range 97 102 c then code c - 87 else code c - 55.
Definition is_ws (c : ascii) : bool :=
  eqc c " " || eqc c "009" || eqc c "010" || eqc c "011" || eqc c "012" || eqc c "013".
Definition digit_val (c : ascii) : N := code c - 48.
Definition pdigit (u : unit_) : option N := match u with Plain c => if is_digit c then Some (digit_val c) else None | _ => None end.
Definition phex (u : unit_) : option N := match u with Plain c => if is_hex c then Some (hex_val c) else None | _ => None end.
Definition pws (u : unit_) : bool := match u with Plain c => is_ws c | _ => false end.
Definition pchar (x : ascii) (u : unit_) : bool := match u with Plain c => eqc c x | _ => false end.

Definition named (c : ascii) : option N :=
  (if eqc c "a" then Some 7 else if eqc c "b" then Some 8 else if eqc c "f" then Some 12 else if eqc c "n" then Some 10
  else if eqc c "r" then Some 13 else if eqc c "t" then Some 9 else if eqc c "v" then Some 11
  else if eqc c "\" || is_quote c then Some (code c) else if eqc c "010" || eqc c "013" then Some 10 else None)%N.

Fixpoint skip_ws (us : list unit_) : list unit_ := match us with u :: r => if pws u then skip_ws r else us | [] => [] end.
(* hex digits of \u{...}: returns the value and the rest after the closing brace *)
Fixpoint uhex (acc : N) (seen : bool) (us : list unit_) : option (N * list unit_) :=
  match us with
  | u :: r => match phex u with
              | Some h => uhex (acc * 16 + h) true r
              | None => if pchar "}" u && seen then Some (acc, r) else None
              end
  | [] => None
  end.
Lemma uhex_shorter : forall us acc seen n r, uhex acc seen us = Some (n, r) -> length r < length us.
Proof. induction us as [|u r IH]; intros acc seen n r' H; cbn in H; [discriminate|].
  destruct (phex u); [apply IH in H; cbn; lia|]. destruct (pchar "}" u && seen); inversion H; subst; cbn; lia. Qed.
Lemma skip_ws_shorter us : length (skip_ws us) <= length us.
Proof. induction us as [|u r IH]; cbn; auto. destruct (pws u); cbn; lia. Qed.

Section V.
Variable lenient : bool.
Fixpoint val (fuel : nat) (us : list unit_) : option (list value) :=
  match fuel with O => None | S fuel =>
  match us with
  | [] => Some []
  | Dangling :: _ => None
  | Plain c :: r => option_map (cons (VB (code c))) (val fuel r)
  | Esc d :: r =>
    if is_digit d then
      match r with
      | u2 :: r2 =>
        match pdigit u2 with
        | Some v2 =>
          match r2 with
          | u3 :: r3 =>
            match pdigit u3 with
            | Some v3 => let v := (digit_val d * 100 + v2 * 10 + v3)%N in
                         if N.ltb 255 v then None else option_map (cons (VB v)) (val fuel r3)
            | None => option_map (cons (VB (digit_val d * 10 + v2))) (val fuel r2)
            end
          | [] => option_map (cons (VB (digit_val d * 10 + v2))) (val fuel r2)
          end
        | None => option_map (cons (VB (digit_val d))) (val fuel r)
        end
      | [] => option_map (cons (VB (digit_val d))) (val fuel r)
      end
    else if eqc d "x" then
      match r with
      | u2 :: u3 :: r3 => match phex u2, phex u3 with
                          | Some a, Some b => option_map (cons (VB (a * 16 + b))) (val fuel r3)
                          | _, _ => None end
      | _ => None
      end
    else if eqc d "z" then val fuel (skip_ws r)
    else if eqc d "u" then
      match r with
      | u2 :: r2 => if pchar "{" u2 then match uhex 0%N false r2 with Some (n, r3) => option_map (cons (VU n)) (val fuel r3) | None => None end
                    else None
      | [] => None
      end
    else match named d with
         | Some n => option_map (cons (VB n)) (val fuel r)
         | None => if lenient then option_map (cons (VB (code d))) (val fuel r) else None
         end
  end end.
End V.
Definition decode (lenient : bool) (s : list ascii) : option (list value) := val lenient (S (length (units s))) (units s).

Example strict_same :
  decode false (rewrite QD ["\"; "z"; " "; "'"; "\"; """"; "\"; "x"; "4"; "1"]) = decode false ["\"; "z"; " "; "'"; "\"; """"; "\"; "x"; "4"; "1"].
Proof. vm_compute. reflexivity. Qed.

(* ---- every rewritten unit is again a single unit ---- *)
Definition ru (q : quote) (u : unit_) : unit_ :=
  match u with
  | Plain c => if is_quote c then (if eqc c (qchar q) then Esc c else Plain c) else Plain c
  | Esc d => if is_quote d then (if eqc d (qchar q) then Esc d else Plain d)
             else if keep_escaped d then Esc d else Plain d
  | Dangling => Dangling
  end.
Lemma rewrite_u_single q u : rewrite_u q u = [ru q u].
Proof. destruct u as [c|d|]; cbn; repeat match goal with |- context [if ?b then _ else _] => destruct b end; reflexivity. Qed.
Lemma flat_map_ru q us : flat_map (rewrite_u q) us = map (ru q) us.
Proof. induction us as [|u r IH]; cbn; auto. rewrite rewrite_u_single, IH. reflexivity. Qed.

(* a unit is [known] when it is not an unnecessary escape *)
Definition known (u : unit_) : Prop := match u with Esc d => keep_escaped d = true | _ => True end.

Lemma quote_facts c : is_quote c = true -> is_digit c = false /\ is_hex c = false /\ is_ws c = false /\ eqc c "{" = false /\ eqc c "}" = false
  /\ eqc c "x" = false /\ eqc c "z" = false /\ eqc c "u" = false.
Proof. unfold is_quote, eqc, sq, dq. intros H. apply orb_true_iff in H. destruct H as [H|H]; apply Ascii.eqb_eq in H; subst; repeat split; reflexivity. Qed.

Lemma pdigit_ru q u : known u -> pdigit (ru q u) = pdigit u.
Proof. destruct u as [c|d|]; cbn; intros K; auto.
  - destruct (is_quote c) eqn:Q; auto. destruct (quote_facts c Q) as (A & _). destruct (eqc c (qchar q)); cbn; rewrite ?A; auto.
  - destruct (is_quote d) eqn:Q; [destruct (quote_facts d Q) as (A & _); destruct (eqc d (qchar q)); cbn; rewrite ?A; auto|].
    rewrite K. reflexivity. Qed.
Lemma phex_ru q u : known u -> phex (ru q u) = phex u.
Proof. destruct u as [c|d|]; cbn; intros K; auto.
  - destruct (is_quote c) eqn:Q; auto. destruct (quote_facts c Q) as (_ & A & _). destruct (eqc c (qchar q)); cbn; rewrite ?A; auto.
  - destruct (is_quote d) eqn:Q; [destruct (quote_facts d Q) as (_ & A & _); destruct (eqc d (qchar q)); cbn; rewrite ?A; auto|].
    rewrite K. reflexivity. Qed.
Lemma pws_ru q u : known u -> pws (ru q u) = pws u.
Proof. destruct u as [c|d|]; cbn; intros K; auto.
  - destruct (is_quote c) eqn:Q; auto. destruct (quote_facts c Q) as (_ & _ & A & _). destruct (eqc c (qchar q)); cbn; rewrite ?A; auto.
  - destruct (is_quote d) eqn:Q; [destruct (quote_facts d Q) as (_ & _ & A & _); destruct (eqc d (qchar q)); cbn; rewrite ?A; auto|].
    rewrite K. reflexivity. Qed.
Lemma pchar_ru q x u : known u -> is_quote x = false -> pchar x (ru q u) = pchar x u.
Proof. destruct u as [c|d|]; cbn; intros K X; auto.
  - destruct (is_quote c) eqn:Q; auto. destruct (eqc c (qchar q)); cbn; auto.
    destruct (eqc c x) eqn:E; auto. apply Ascii.eqb_eq in E. subst. congruence.
  - destruct (is_quote d) eqn:Q.
    + destruct (eqc d (qchar q)); cbn; auto. destruct (eqc d x) eqn:E; auto. apply Ascii.eqb_eq in E. subst. congruence.
    + rewrite K. reflexivity. Qed.

Lemma skip_ws_map q us : Forall known us -> skip_ws (map (ru q) us) = map (ru q) (skip_ws us).
Proof. induction 1 as [|u r K _ IH]; cbn; auto. rewrite (pws_ru q u K). destruct (pws u); auto. Qed.
Lemma skip_ws_known us : Forall known us -> Forall known (skip_ws us).
Proof. induction 1 as [|u r K F IH]; cbn; auto. destruct (pws u); auto. Qed.
Lemma uhex_map q : forall us acc seen, Forall known us ->
  uhex acc seen (map (ru q) us) = option_map (fun '(n, r) => (n, map (ru q) r)) (uhex acc seen us).
Proof.
  induction us as [|u r IH]; intros acc seen F; cbn; auto. inversion F as [|? ? K F']; subst.
  rewrite (phex_ru q u K). destruct (phex u); [apply IH; auto|].
  rewrite (pchar_ru q "}" u K eq_refl). destruct (pchar "}" u && seen); reflexivity.
Qed.
Lemma uhex_known : forall us acc seen n r, Forall known us -> uhex acc seen us = Some (n, r) -> Forall known r.
Proof.
  induction us as [|u r IH]; intros acc seen n r' F H; cbn in H; [discriminate|]. inversion F as [|? ? K F']; subst.
  destruct (phex u); [eapply IH; eauto|]. destruct (pchar "}" u && seen); inversion H; subst; auto.
Qed.

Lemma named_quote_val d : is_quote d = true -> named d = Some (code d).
Proof. unfold is_quote, eqc, sq, dq. intros H. apply orb_true_iff in H. destruct H as [H|H]; apply Ascii.eqb_eq in H; subst; reflexivity. Qed.

(* T1: on known units the value does not change, in either dialect family *)
Theorem val_ru lenient q : forall fuel us, Forall known us -> val lenient fuel (map (ru q) us) = val lenient fuel us.
Proof.
  induction fuel as [|fuel IH]; intros us F; [reflexivity|].
  destruct us as [|u r]; [reflexivity|]. inversion F as [|? ? K F']; subst.
  destruct u as [c|d|].
  - (* plain *)
    cbn [map ru]. destruct (is_quote c) eqn:Q.
    + destruct (eqc c (qchar q)).
      * cbn [val]. destruct (quote_facts c Q) as (A & _ & _ & _ & _ & X & Z & U). rewrite A, X, Z, U, (named_quote_val c Q).
        rewrite (IH r F'). reflexivity.
      * cbn [val]. rewrite (IH r F'). reflexivity.
    + cbn [val]. rewrite (IH r F'). reflexivity.
  - (* escape *)
    cbn [map ru]. cbn in K. destruct (is_quote d) eqn:Q.
    + destruct (quote_facts d Q) as (A & _ & _ & _ & _ & X & Z & U).
      destruct (eqc d (qchar q)); cbn [val]; rewrite ?A, ?X, ?Z, ?U, ?(named_quote_val d Q), (IH r F'); reflexivity.
    + rewrite K. cbn [val]. destruct (is_digit d).
      * (* decimal escape *)
        destruct r as [|u2 r2]; [reflexivity|]. inversion F' as [|? ? K2 F2]; subst. cbn [map].
        rewrite (pdigit_ru q u2 K2). destruct (pdigit u2).
        -- destruct r2 as [|u3 r3]; [reflexivity|].
           inversion F2 as [|? ? K3 F3]; subst. cbn [map]. rewrite (pdigit_ru q u3 K3). destruct (pdigit u3).
           ++ destruct (N.ltb 255 _); [reflexivity|]. rewrite (IH r3 F3). reflexivity.
           ++ change (ru q u3 :: map (ru q) r3) with (map (ru q) (u3 :: r3)). rewrite (IH (u3 :: r3) F2). reflexivity.
        -- change (ru q u2 :: map (ru q) r2) with (map (ru q) (u2 :: r2)). rewrite (IH (u2 :: r2) F'). reflexivity.
      * destruct (eqc d "x").
        -- destruct r as [|u2 [|u3 r3]]; [reflexivity|reflexivity|].
           inversion F' as [|? ? K2 F2]; subst. inversion F2 as [|? ? K3 F3]; subst. cbn [map].
           rewrite (phex_ru q u2 K2), (phex_ru q u3 K3). destruct (phex u2), (phex u3); try reflexivity.
           rewrite (IH r3 F3). reflexivity.
        -- destruct (eqc d "z").
           ++ rewrite (skip_ws_map q r F'). apply IH. apply skip_ws_known. exact F'.
           ++ destruct (eqc d "u").
              ** destruct r as [|u2 r2]; [reflexivity|]. inversion F' as [|? ? K2 F2]; subst. cbn [map].
                 rewrite (pchar_ru q "{" u2 K2 eq_refl). destruct (pchar "{" u2); [|reflexivity].
                 rewrite (uhex_map q r2 0%N false F2). destruct (uhex 0%N false r2) as [[n r3]|] eqn:E; [|reflexivity].
                 cbn [option_map]. rewrite (IH r3 (uhex_known r2 0%N false n r3 F2 E)). reflexivity.
              ** destruct (named d); rewrite (IH r F'); reflexivity.
  - reflexivity.
Qed.
Print Assumptions val_ru.

Lemma keep_digit d : is_digit d = true -> keep_escaped d = true.
Proof. intros H. unfold keep_escaped. rewrite H. rewrite !orb_true_r. reflexivity. Qed.
Lemma keep_of_eq d x : eqc d x = true -> keep_escaped x = true -> keep_escaped d = true.
Proof. intros E K. apply Ascii.eqb_eq in E. subst. exact K. Qed.
Lemma named_keep d n : named d = Some n -> keep_escaped d = true.
Proof.
  unfold named. intros H.
  repeat match type of H with
         | (if eqc d ?x then _ else _) = _ => destruct (eqc d x) eqn:?; [eapply keep_of_eq; [eassumption|reflexivity]|]
         end.
  destruct (eqc d "\" || is_quote d) eqn:E1.
  - apply orb_true_iff in E1. destruct E1 as [E|E]; [eapply keep_of_eq; [exact E|reflexivity]|].
    unfold keep_escaped. rewrite E. rewrite !orb_true_r. reflexivity.
  - destruct (eqc d "010" || eqc d "013") eqn:E2; [|discriminate].
    apply orb_true_iff in E2. destruct E2 as [E|E]; eapply keep_of_eq; try exact E; reflexivity.
Qed.
Lemma pdigit_plain u v : pdigit u = Some v -> known u. Proof. destruct u; cbn; auto; discriminate. Qed.
Lemma phex_plain u v : phex u = Some v -> known u. Proof. destruct u; cbn; auto; discriminate. Qed.
Lemma pchar_plain x u : pchar x u = true -> known u. Proof. destruct u; cbn; auto; discriminate. Qed.
Lemma skip_ws_known_inv us : Forall known (skip_ws us) -> Forall known us.
Proof. induction us as [|u r IH]; cbn; auto. destruct (pws u) eqn:E; auto. intros H. constructor; auto. destruct u; cbn in *; auto; discriminate. Qed.
Lemma uhex_known_inv : forall us acc seen n r, uhex acc seen us = Some (n, r) -> Forall known r -> Forall known us.
Proof.
  induction us as [|u r IH]; intros acc seen n r' H F; cbn in H; [discriminate|].
  destruct (phex u) eqn:P; [constructor; [eapply phex_plain; eauto|eapply IH; eauto]|].
  destruct (pchar "}" u && seen) eqn:C; inversion H; subst. apply andb_true_iff in C. destruct C as [C _].
  constructor; auto. eapply pchar_plain; eauto.
Qed.

(* T2: in the strict dialects a string that denotes anything has no unnecessary escape *)
Theorem strict_known : forall fuel us v, val false fuel us = Some v -> Forall known us.
Proof.
  induction fuel as [|fuel IH]; intros us v H; [discriminate|].
  destruct us as [|u r]; [constructor|]. destruct u as [c|d|]; cbn [val] in H.
  - destruct (val false fuel r) eqn:E; [|discriminate]. constructor; [exact I|eapply IH; eauto].
  - destruct (is_digit d) eqn:D.
    + assert (K : known (Esc d)) by (cbn; apply keep_digit; exact D).
      destruct r as [|u2 r2]; [constructor; auto|].
      destruct (pdigit u2) eqn:P2.
      * destruct r2 as [|u3 r3].
        -- constructor; auto. constructor; [eapply pdigit_plain; eauto|constructor].
        -- destruct (pdigit u3) eqn:P3.
           ++ destruct (N.ltb 255 _); [discriminate|]. destruct (val false fuel r3) eqn:E; [|discriminate].
              constructor; auto. constructor; [eapply pdigit_plain; eauto|]. constructor; [eapply pdigit_plain; eauto|eapply IH; eauto].
           ++ destruct (val false fuel (u3 :: r3)) eqn:E; [|discriminate].
              constructor; auto. constructor; [eapply pdigit_plain; eauto|eapply IH; eauto].
      * destruct (val false fuel (u2 :: r2)) eqn:E; [|discriminate]. constructor; auto. eapply IH; eauto.
    + destruct (eqc d "x") eqn:X.
      * assert (K : known (Esc d)) by (cbn; eapply keep_of_eq; [exact X|reflexivity]).
        destruct r as [|u2 [|u3 r3]]; try discriminate.
        destruct (phex u2) eqn:P2; [|discriminate]. destruct (phex u3) eqn:P3; [|discriminate].
        destruct (val false fuel r3) eqn:E; [|discriminate].
        constructor; auto. constructor; [eapply phex_plain; eauto|]. constructor; [eapply phex_plain; eauto|eapply IH; eauto].
      * destruct (eqc d "z") eqn:Z.
        -- assert (K : known (Esc d)) by (cbn; eapply keep_of_eq; [exact Z|reflexivity]).
           constructor; auto. apply skip_ws_known_inv. eapply IH; eauto.
        -- destruct (eqc d "u") eqn:U.
           ++ assert (K : known (Esc d)) by (cbn; eapply keep_of_eq; [exact U|reflexivity]).
              destruct r as [|u2 r2]; [discriminate|]. destruct (pchar "{" u2) eqn:B; [|discriminate].
              destruct (uhex 0%N false r2) as [[n r3]|] eqn:E; [|discriminate].
              destruct (val false fuel r3) eqn:E2; [|discriminate].
              constructor; auto. constructor; [eapply pchar_plain; eauto|]. eapply uhex_known_inv; eauto.
           ++ destruct (named d) eqn:N; [|discriminate].
              destruct (val false fuel r) eqn:E; [|discriminate].
              constructor; [cbn; eapply named_keep; eauto|eapply IH; eauto].
  - discriminate.
Qed.

Lemma units_length s : length (units (rewrite QD s)) = length (units s) /\ length (units (rewrite QS s)) = length (units s).
Proof. split; rewrite units_rewrite, flat_map_ru, map_length; reflexivity. Qed.

(* C04 for Lua 5.2 / 5.3 / 5.4 / LuaJIT: whatever a literal denotes, its rewritten form denotes the same *)
Theorem rewrite_decode_strict q s v : decode false s = Some v -> decode false (rewrite q s) = Some v.
Proof.
  unfold decode. intros H. pose proof (strict_known _ _ _ H) as K.
  rewrite units_rewrite, flat_map_ru, map_length. rewrite (val_ru false q _ _ K). exact H.
Qed.
(* C04 for Luau: the same, provided the literal has no unnecessary escape; without the proviso it is false *)
Theorem rewrite_decode_luau q s : Forall known (units s) -> decode true (rewrite q s) = decode true s.
Proof. unfold decode. intros K. rewrite units_rewrite, flat_map_ru, map_length. apply val_ru. exact K. Qed.
Print Assumptions rewrite_decode_strict.
Print Assumptions rewrite_decode_luau.
