(* C01 on L0: what the whole-formatter model prints lexes back to exactly the tokens it printed.
   The proof goes through the checker of LexAdj.v: every printed token is well formed in itself and compatible with
   the first character of what follows it.  Hypotheses (the wf_ predicates): names are identifiers that are not keywords, numbers
   are decimal with a leading non-zero digit, string bodies are lexable after rewriting, operators are those of
   Lua 5.1, a prefix expression is a name / a parenthesised expression / a chain, no unary minus is applied to
   something that starts with a minus sign (which normalisation guarantees: Fmt0Proof.nexp_no_double_minus), comments
   hold no line break and do not start with `[`; with comments the line ending must be LF (full_moon makes the CR of
   a CR LF behind a line comment part of the comment, so the token list - not the text - differs). *)
From Coq Require Import List Ascii String Bool Arith Lia.
Import ListNotations.
From SV Require Import Lex LexRender LexSym LexNum LexAdj Expr Quote QuoteMore Number Fmt0 Fmt0Proof.
Notation tok := Lex.tok (only parsing).
Open Scope char_scope.

Section Lexical.
Variable v : ver.
Hypothesis Hjit : vjit v = false.
Variable st : QuoteMore.style.
Notation pexp := (Fmt0.pexp st).
Notation adj_ok := (LexAdj.adj_ok).
Notation wf_tok := (LexAdj.wf_tok v).

(* ---- first characters ---- *)
Definition hd0 (s : bytes) : ascii := match s with c :: _ => c | [] => " " end.
Fixpoint fc (e : exp) : ascii :=
  match e with
  | ENil => "n" | ETrue => "t" | EFalse => "f" | EVararg => "."
  | ENum s => hd0 (Number.number_rewrite s)
  | EStr s => match QuoteMore.choose st s with QS => "'" | QD => """" end
  | EName n => hd0 n
  | EField p _ | EIndex p _ | ECall p _ | EMethod p _ _ => fc p
  | EUn Neg _ => "-" | EUn Not _ => "n" | EUn Len _ => "#" | EUn BNot _ => "~"
  | EBin _ l _ => fc l
  | EParen _ => "(" | ETable _ => "{"
  | FPos x => fc x | FNamed n _ => hd0 n | FKey _ _ => "["
  end.
(* the first characters an expression that is not a table field can have *)
Definition good (c : ascii) : bool :=
  Lex.is_ident_start c || Lex.is_digit c || Ascii.eqb c """" || Ascii.eqb c "'" || Ascii.eqb c "(" || Ascii.eqb c "{" || Ascii.eqb c "-" || Ascii.eqb c "#" || Ascii.eqb c ".".
Lemma good_ne c x : good x = false -> good c = true -> Ascii.eqb c x = false.
Proof. intros Hx Hc. destruct (Ascii.eqb c x) eqn:E; [|reflexivity]. apply Ascii.eqb_eq in E. subst. rewrite Hx in Hc. discriminate. Qed.

Definition prefixlike (e : exp) : bool :=
  match e with EName _ | EParen _ | EField _ _ | EIndex _ _ | ECall _ _ | EMethod _ _ _ => true | _ => false end.
Definition isfield (e : exp) : bool := match e with FPos _ | FNamed _ _ | FKey _ _ => true | _ => false end.
Definition wf_name (n : bytes) : Prop := wf_ident n /\ is_keyword v n = false.
Definition wf_bop (b : bop) : bool :=
  match b with BOr | BXor | BAnd | Shl | Shr | IDiv => false | _ => true end.
Fixpoint wfe (e : exp) : Prop :=
  let all := fix all (l : list exp) (fld : bool) : Prop := match l with [] => True | x :: r => (wfe x /\ isfield x = fld) /\ all r fld end in
  match e with
  | ENil | ETrue | EFalse | EVararg => True
  | ENum s => match s with c0 :: s' => wf_decimal v c0 s' | [] => False end
  | EStr s => forall q, wf_qbody v (qchar q) (Quote.rewrite q s)
  | EName n => wf_name n
  | EField p n => wfe p /\ prefixlike p = true /\ wf_name n
  | EIndex p k => wfe p /\ prefixlike p = true /\ wfe k /\ isfield k = false
  | ECall f args => wfe f /\ prefixlike f = true /\ all args false
  | EMethod o m args => wfe o /\ prefixlike o = true /\ wf_name m /\ all args false
  | EUn u x => wfe x /\ isfield x = false /\ match u with Neg => Ascii.eqb (fc x) "-" = false | Not | Len => True | BNot => False end
  | EBin b l r => wf_bop b = true /\ wfe l /\ isfield l = false /\ wfe r /\ isfield r = false
  | EParen x => wfe x /\ isfield x = false
  | ETable fs => all fs true
  | FPos x => wfe x /\ isfield x = false
  | FNamed n x => wf_name n /\ wfe x /\ isfield x = false
  | FKey k x => wfe k /\ isfield k = false /\ wfe x /\ isfield x = false
  end.
Fixpoint wfl (l : list exp) (fld : bool) : Prop := match l with [] => True | x :: r => (wfe x /\ isfield x = fld) /\ wfl r fld end.
Lemma wfl_Forall l fld : wfl l fld -> Forall (fun x => wfe x /\ isfield x = fld) l.
Proof. induction l as [|x r IH]; cbn; [constructor|]. intros [A B]. constructor; [exact A|apply IH; exact B]. Qed.

Lemma wf_name_hd n : wf_name n -> exists c r, n = c :: r /\ Lex.is_ident_start c = true.
Proof. intros [W _]. destruct n as [|c r]; [destruct W|]. exists c, r. split; [reflexivity|apply W]. Qed.
Lemma wf_decimal_digit c0 s' : wf_decimal v c0 s' -> Lex.is_digit c0 = true /\ Ascii.eqb c0 "0" = false.
Proof. intros (A & B & _). auto. Qed.
Lemma number_rewrite_digit c0 s' : Lex.is_digit c0 = true -> Number.number_rewrite (c0 :: s') = c0 :: s'.
Proof.
  intros D. unfold Number.number_rewrite.
  assert (E1 : Quote.eqc c0 "." = false) by (destruct (Quote.eqc c0 ".") eqn:E; [apply Ascii.eqb_eq in E; subst; discriminate|reflexivity]).
  assert (E2 : Quote.eqc c0 "-" = false) by (destruct (Quote.eqc c0 "-") eqn:E; [apply Ascii.eqb_eq in E; subst; discriminate|reflexivity]).
  rewrite E1. destruct s'; [reflexivity|]. rewrite E2. reflexivity.
Qed.

(* the first token of what an expression prints starts with fc, whatever follows *)
Lemma pexp_ne e : pexp e <> [].
Proof.
  induction e; cbn [Fmt0.pexp]; try discriminate; try (destruct (pexp e) eqn:E; [contradiction|discriminate]);
    try (destruct (pexp e1) eqn:E; [contradiction|discriminate]).
  - destruct u; discriminate.
  - destruct fs; discriminate.
Qed.
Lemma nextc_app_ne a b n : a <> [] -> LexAdj.nextc (a ++ b) n = LexAdj.nextc a None.
Proof. destruct a; [contradiction|reflexivity]. Qed.
Lemma nextc_pexp : forall e nx, wfe e -> LexAdj.nextc (pexp e) nx = Some (fc e).
Proof.
  induction e; intros nx W; cbn [Fmt0.pexp fc]; try reflexivity.
  - cbn [wfe] in W. destruct s as [|c0 s']; [contradiction|]. destruct (wf_decimal_digit _ _ W) as [D _].
    rewrite (number_rewrite_digit c0 s' D). reflexivity.
  - unfold pstr. destruct (QuoteMore.choose st s); reflexivity.
  - destruct (wf_name_hd n W) as (c & r & E & _). subst. reflexivity.
  - destruct W as (W & _). rewrite nextc_app_ne by apply pexp_ne. apply IHe. exact W.
  - destruct W as (W & _). rewrite nextc_app_ne by apply pexp_ne. apply IHe1. exact W.
  - destruct W as (W & _). rewrite nextc_app_ne by apply pexp_ne. apply IHe. exact W.
  - destruct W as (W & _). rewrite nextc_app_ne by apply pexp_ne. apply IHe. exact W.
  - destruct u; reflexivity.
  - destruct W as (_ & W & _). rewrite nextc_app_ne by apply pexp_ne. apply IHe1. exact W.
  - destruct fs; reflexivity.
  - destruct W as (W & _). apply IHe. exact W.
  - destruct W as (W & _). destruct (wf_name_hd n W) as (c & r & E & _). subst. reflexivity.
Qed.
Lemma fc_good : forall e, wfe e -> isfield e = false -> good (fc e) = true.
Proof.
  induction e; intros W F; cbn [fc]; try reflexivity; try discriminate.
  - cbn [wfe] in W. destruct s as [|c0 s']; [contradiction|]. destruct (wf_decimal_digit _ _ W) as [D _].
    rewrite (number_rewrite_digit c0 s' D). cbn [hd0]. unfold good. rewrite D. apply orb_true_iff. left. apply orb_true_iff. left. apply orb_true_iff. left.
    apply orb_true_iff. left. apply orb_true_iff. left. apply orb_true_iff. left. apply orb_true_iff. left. apply orb_true_r.
  - destruct (QuoteMore.choose st s); reflexivity.
  - destruct (wf_name_hd n W) as (c & r & E & I). subst. cbn [hd0]. unfold good. rewrite I. reflexivity.
  - destruct W as (W & P & _). apply IHe; [exact W|]. destruct e; try discriminate; reflexivity.
  - destruct W as (W & P & _). apply IHe1; [exact W|]. destruct e1; try discriminate; reflexivity.
  - destruct W as (W & P & _). apply IHe; [exact W|]. destruct e; try discriminate; reflexivity.
  - destruct W as (W & P & _). apply IHe; [exact W|]. destruct e; try discriminate; reflexivity.
  - destruct W as (_ & _ & W). destruct u; try reflexivity. contradiction.
  - destruct W as (_ & W & Fl & _). apply IHe1; assumption.
Qed.

(* ---- what may follow an expression ---- *)
Definition clo (n : LexAdj.nc) : bool :=
  match n with None => true | Some c => Ascii.eqb c SP || Ascii.eqb c CR || Ascii.eqb c LF || Ascii.eqb c ")" || Ascii.eqb c "," || Ascii.eqb c "]" end.
Definition clop (n : LexAdj.nc) : bool := match n with Some c => Ascii.eqb c "." || Ascii.eqb c ":" || Ascii.eqb c "(" || Ascii.eqb c "[" | None => false end.
Definition okn (e : exp) (n : LexAdj.nc) : bool := clo n || (prefixlike e && clop n).
Ltac cases_of H := repeat (apply orb_true_iff in H; destruct H as [H|H]); apply Ascii.eqb_eq in H; subst.
Lemma clo_word n : clo n = true -> LexAdj.word_follow n = true.
Proof. destruct n as [c|]; [|reflexivity]. cbn. intros H. cases_of H; reflexivity. Qed.
Lemma clop_word n : clop n = true -> LexAdj.word_follow n = true.
Proof. destruct n as [c|]; [|discriminate]. cbn. intros H. cases_of H; reflexivity. Qed.
Lemma okn_word e n : okn e n = true -> LexAdj.word_follow n = true.
Proof. unfold okn. intros H. apply orb_true_iff in H. destruct H as [H|H]; [apply clo_word; exact H|]. apply andb_true_iff in H. apply clop_word. apply H. Qed.
Lemma clo_num n : clo n = true -> match n with Some c => num_stop c | None => true end = true.
Proof. destruct n as [c|]; [|reflexivity]. cbn [clo]. intros H. cases_of H; reflexivity. Qed.
Lemma okn_clo e n : prefixlike e = false -> okn e n = true -> clo n = true.
Proof. unfold okn. intros P H. rewrite P in H. rewrite orb_false_r in H. exact H. Qed.
Lemma okn_of_clo e n : clo n = true -> okn e n = true. Proof. unfold okn. intros H. rewrite H. reflexivity. Qed.
Lemma okn_of_clop e n : prefixlike e = true -> clop n = true -> okn e n = true.
Proof. unfold okn. intros P H. rewrite P, H. apply orb_true_r. Qed.

Definition nb (c : ascii) : bool := negb (blank c) && negb (Ascii.eqb c LF) && negb (Ascii.eqb c CR).
Lemma good_nb c : good c = true -> nb c = true.
Proof.
  intros G. unfold nb, blank, Lex.eqc. rewrite (good_ne c SP), (good_ne c TAB), (good_ne c LF), (good_ne c CR); try reflexivity; exact G.
Qed.
Lemma start_good c : Lex.is_ident_start c = true -> good c = true. Proof. intros H. unfold good. rewrite H. reflexivity. Qed.
Lemma fc_nb : forall e, wfe e -> nb (fc e) = true.
Proof.
  intros e W. destruct (isfield e) eqn:F; [|apply good_nb; apply fc_good; assumption].
  destruct e; try discriminate; cbn [fc].
  - destruct W as [W Fl]. apply good_nb. apply fc_good; assumption.
  - destruct W as (W & _). destruct (wf_name_hd n W) as (c & r & E & I). subst. apply good_nb. apply start_good. exact I.
  - reflexivity.
Qed.
Lemma safe_sp c : nb c = true -> LexAdj.safe sp (Some c) = true.
Proof. intros H. cbn. exact H. Qed.
Lemma safe_kw_word s n : (match str s with c0 :: _ => Lex.is_ident_start c0 | [] => false end) = true -> LexAdj.word_follow n = true -> LexAdj.safe (kw s) n = true.
Proof. unfold kw. cbn [LexAdj.safe]. destruct (str s) as [|c0 r]; [discriminate|]. intros H W. rewrite H. exact W. Qed.

(* ---- every printed token is well formed ---- *)
Lemma wf_kw_word s : wf_ident (str s) -> is_keyword v (str s) = true -> wf_tok (kw s).
Proof. intros W K. unfold kw. cbn [LexAdj.wf_tok]. destruct (str s) as [|c0 r] eqn:E; [destruct W|]. destruct W as [W1 W2]. rewrite W1. split; [split; assumption|exact K]. Qed.
Lemma wf_kw_sym s : (match str s with c0 :: _ => Lex.is_ident_start c0 | [] => true end) = false -> wf_tok (kw s).
Proof. unfold kw. cbn [LexAdj.wf_tok]. destruct (str s) as [|c0 r]; [discriminate|]. intros H. rewrite H. exact I. Qed.
Lemma wf_sp : wf_tok sp. Proof. right. right. split; [discriminate|reflexivity]. Qed.
Lemma wf_ident_tok n : wf_name n -> wf_tok (TIdent n). Proof. intros W. exact W. Qed.
Lemma is_keyword_base s : mem (str s) keywords = true -> is_keyword v (str s) = true.
Proof. intros H. unfold is_keyword. rewrite H. reflexivity. Qed.
Lemma wf_bop_tok b : wf_bop b = true -> wf_tok (kw (bop_text b)).
Proof.
  destruct b; try discriminate; intros _;
    try (apply wf_kw_sym; reflexivity);
    (apply wf_kw_word; [split; reflexivity|apply is_keyword_base; reflexivity]).
Qed.
Lemma wf_commas l : Forall (Forall wf_tok) l -> Forall wf_tok (commas l).
Proof.
  induction 1 as [|x r Hx Hr IH]; [constructor|]. destruct r as [|y r']; [exact Hx|].
  change (commas (x :: y :: r')) with (x ++ kw "," :: sp :: commas (y :: r')).
  apply Forall_app. split; [exact Hx|]. constructor; [apply wf_kw_sym; reflexivity|]. constructor; [apply wf_sp|exact IH].
Qed.
Lemma wf_toks_pexp : forall e, wfe e -> Forall wf_tok (pexp e).
Proof.
  induction e using exp_ind'; intros W; cbn [Fmt0.pexp].
  - repeat constructor.
  - repeat constructor.
  - repeat constructor.
  - repeat constructor.
  - cbn [wfe] in W. destruct s as [|c0 s']; [contradiction|]. destruct (wf_decimal_digit _ _ W) as [D _].
    rewrite (number_rewrite_digit c0 s' D). constructor; [exact W|constructor].
  - constructor; [|constructor]. unfold pstr. cbn [wfe] in W. specialize (W (QuoteMore.choose st s)). destruct (QuoteMore.choose st s); cbn [qkind_of LexAdj.wf_tok]; (split; [reflexivity|exact W]).
  - constructor; [exact W|constructor].
  - destruct W as (W & _ & N). apply Forall_app. split; [apply IHe; exact W|]. constructor; [apply wf_kw_sym; reflexivity|]. constructor; [exact N|constructor].
  - destruct W as (W1 & _ & W2 & _). apply Forall_app. split; [apply IHe1; exact W1|]. constructor; [apply wf_kw_sym; reflexivity|].
    apply Forall_app. split; [apply IHe2; exact W2|]. constructor; [apply wf_kw_sym; reflexivity|constructor].
  - destruct W as (W1 & _ & W2). apply Forall_app. split; [apply IHe; exact W1|]. constructor; [apply wf_kw_sym; reflexivity|].
    apply Forall_app. split; [|constructor; [apply wf_kw_sym; reflexivity|constructor]].
    apply wf_commas. apply Forall_map. apply wfl_Forall in W2. rewrite Forall_forall in *. intros x Hx. apply H; [exact Hx|]. apply (W2 x Hx).
  - destruct W as (W1 & _ & N & W2). apply Forall_app. split; [apply IHe; exact W1|]. constructor; [apply wf_kw_sym; reflexivity|]. constructor; [exact N|].
    constructor; [apply wf_kw_sym; reflexivity|]. apply Forall_app. split; [|constructor; [apply wf_kw_sym; reflexivity|constructor]].
    apply wf_commas. apply Forall_map. apply wfl_Forall in W2. rewrite Forall_forall in *. intros x Hx. apply H; [exact Hx|]. apply (W2 x Hx).
  - destruct W as (W & _ & U). apply Forall_app. split; [|apply IHe; exact W]. destruct u; cbn [uop_toks]; try contradiction.
    + constructor; [apply wf_kw_sym; reflexivity|constructor].
    + constructor; [apply wf_kw_word; [split; reflexivity|apply is_keyword_base; reflexivity]|]. constructor; [apply wf_sp|constructor].
    + constructor; [apply wf_kw_sym; reflexivity|constructor].
  - destruct W as (B & W1 & _ & W2 & _). apply Forall_app. split; [apply IHe1; exact W1|]. constructor; [apply wf_sp|]. constructor; [apply wf_bop_tok; exact B|].
    constructor; [apply wf_sp|apply IHe2; exact W2].
  - destruct W as (W & _). constructor; [apply wf_kw_sym; reflexivity|]. apply Forall_app. split; [apply IHe; exact W|]. constructor; [apply wf_kw_sym; reflexivity|constructor].
  - destruct fs as [|f fs]; [repeat constructor; apply wf_kw_sym; reflexivity|].
    constructor; [apply wf_kw_sym; reflexivity|]. constructor; [apply wf_sp|]. apply Forall_app. split; [|constructor; [apply wf_sp|constructor; [apply wf_kw_sym; reflexivity|constructor]]].
    apply wf_commas. apply Forall_map. change (wfl (f :: fs) true) in W. apply wfl_Forall in W. rewrite Forall_forall in *. intros x Hx. apply H; [exact Hx|]. apply (W x Hx).
  - destruct W as (W & _). apply IHe. exact W.
  - destruct W as (N & W & _). constructor; [exact N|]. constructor; [apply wf_sp|]. constructor; [apply wf_kw_sym; reflexivity|]. constructor; [apply wf_sp|apply IHe; exact W].
  - destruct W as (W1 & _ & W2 & _). constructor; [apply wf_kw_sym; reflexivity|]. apply Forall_app. split; [apply IHe1; exact W1|].
    constructor; [apply wf_kw_sym; reflexivity|]. constructor; [apply wf_sp|]. constructor; [apply wf_kw_sym; reflexivity|]. constructor; [apply wf_sp|apply IHe2; exact W2].
Qed.

(* ---- adjacency: every token of an expression is compatible with what follows it ---- *)
Notation safe := LexAdj.safe.
Notation nextc := LexAdj.nextc.
Lemma adj_cons t r n : adj_ok (t :: r) n = safe t (nextc r n) && adj_ok r n. Proof. reflexivity. Qed.
Lemma adj_app a b n : adj_ok (a ++ b) n = adj_ok a (nextc b n) && adj_ok b n. Proof. apply LexAdj.adj_ok_app. Qed.
Definition elem (x : list tok) : Prop :=
  exists c, nb c = true /\ (forall n, nextc x n = Some c) /\ (forall n, clo n = true -> adj_ok x n = true).
Lemma nextc_commas x r n : elem x -> nextc (commas (x :: r)) n = nextc x None.
Proof.
  intros (c & _ & N & _). destruct r as [|y r']; [cbn [commas]; rewrite (N n), (N None); reflexivity|].
  change (commas (x :: y :: r')) with (x ++ kw "," :: sp :: commas (y :: r')).
  destruct x as [|t x']; [specialize (N None); discriminate|reflexivity].
Qed.
Lemma adj_commas l : Forall elem l -> forall m, clo m = true -> adj_ok (commas l) m = true.
Proof.
  induction 1 as [|x r Hx Hr IH]; intros m M; [reflexivity|]. destruct r as [|y r'].
  - cbn [commas]. destruct Hx as (c & _ & _ & A). apply A. exact M.
  - change (commas (x :: y :: r')) with (x ++ kw "," :: sp :: commas (y :: r')).
    rewrite adj_app. apply andb_true_iff. split.
    + destruct Hx as (c & _ & _ & A). apply A. reflexivity.
    + rewrite adj_cons. apply andb_true_iff. split; [reflexivity|]. rewrite adj_cons. apply andb_true_iff. split; [|apply IH; exact M].
      inversion Hr as [|? ? Hy _]; subst. rewrite (nextc_commas y r' m Hy). destruct Hy as (c & B & N & _). rewrite (N None). apply safe_sp. exact B.
Qed.
Lemma start_facts c : Lex.is_ident_start c = true -> Ascii.eqb c "." = false /\ Lex.is_digit c = false /\ Ascii.eqb c ":" = false.
Proof.
  intros H. assert (G := start_good c H). repeat split.
  - destruct (Ascii.eqb c ".") eqn:E; [|reflexivity]. apply Ascii.eqb_eq in E. subst. discriminate.
  - revert H. clear G. destruct c as [[] [] [] [] [] [] [] []]; vm_compute; intros H; try reflexivity; discriminate.
  - destruct (Ascii.eqb c ":") eqn:E; [|reflexivity]. apply Ascii.eqb_eq in E. subst. discriminate.
Qed.

Lemma elem_pexp a : wfe a -> (forall n, okn a n = true -> adj_ok (pexp a) n = true) -> elem (pexp a).
Proof.
  intros W A. exists (fc a). split; [apply fc_nb; exact W|]. split; [intros n; apply nextc_pexp; exact W|].
  intros n C. apply A. apply okn_of_clo. exact C.
Qed.
Lemma good_safe_facts c : good c = true ->
  LexAdj.ne "[" (Some c) = true /\ LexAdj.ne "=" (Some c) = true /\ LexAdj.ne ">" (Some c) = true.
Proof. intros G. unfold LexAdj.ne, Lex.eqc. rewrite (good_ne c "["), (good_ne c "="), (good_ne c ">"); try reflexivity; try exact G. repeat split. Qed.
Lemma safe_bop b : wf_bop b = true -> safe (kw (bop_text b)) (Some SP) = true.
Proof. destruct b; try discriminate; intros _; reflexivity. Qed.

Theorem adj_pexp : forall e, wfe e -> forall nx, okn e nx = true -> adj_ok (pexp e) nx = true.
Proof.
  induction e using exp_ind'; intros W nx K; cbn [Fmt0.pexp].
  - (* nil *) rewrite adj_cons, andb_true_r. apply safe_kw_word; [reflexivity|]. apply (okn_word _ _ K).
  - rewrite adj_cons, andb_true_r. apply safe_kw_word; [reflexivity|]. apply (okn_word _ _ K).
  - rewrite adj_cons, andb_true_r. apply safe_kw_word; [reflexivity|]. apply (okn_word _ _ K).
  - (* ... *) reflexivity.
  - (* number *) rewrite adj_cons, andb_true_r. cbn [safe nextc]. apply clo_num. eapply okn_clo; [|exact K]; reflexivity.
  - (* string *) unfold pstr. reflexivity.
  - (* name *) rewrite adj_cons, andb_true_r. cbn [safe nextc]. apply (okn_word _ _ K).
  - (* p.n *) destruct W as (W & P & N). rewrite adj_app. apply andb_true_iff. split.
    + apply IHe; [exact W|]. apply okn_of_clop; [exact P|reflexivity].
    + rewrite adj_cons. apply andb_true_iff. split.
      * destruct (wf_name_hd n N) as (c & r & E & I). subst n. destruct (start_facts c I) as (A & B & _).
        change (LexAdj.dot_follow (Some c) = true). unfold LexAdj.dot_follow, LexAdj.ne, Lex.eqc. cbn beta iota. rewrite A, B. reflexivity.
      * rewrite adj_cons, andb_true_r. cbn [safe nextc]. apply (okn_word _ _ K).
  - (* p[k] *) destruct W as (W1 & P & W2 & F). rewrite adj_app. apply andb_true_iff. split.
    + apply IHe1; [exact W1|]. apply okn_of_clop; [exact P|reflexivity].
    + rewrite adj_cons. apply andb_true_iff. split.
      * rewrite nextc_app_ne by apply pexp_ne. rewrite (nextc_pexp e2 None W2).
        destruct (good_safe_facts _ (fc_good e2 W2 F)) as (A & B & _).
        change (LexAdj.ne "[" (Some (fc e2)) && LexAdj.ne "=" (Some (fc e2)) = true). rewrite A, B. reflexivity.
      * rewrite adj_app. apply andb_true_iff. split; [|reflexivity]. apply IHe2; [exact W2|]. apply okn_of_clo. reflexivity.
  - (* f(args) *) destruct W as (W1 & P & W2). rewrite adj_app. apply andb_true_iff. split.
    + apply IHe; [exact W1|]. apply okn_of_clop; [exact P|reflexivity].
    + rewrite adj_cons. apply andb_true_iff. split; [reflexivity|]. rewrite adj_app. apply andb_true_iff. split; [|reflexivity].
      apply adj_commas; [|reflexivity]. apply Forall_map. apply wfl_Forall in W2. rewrite Forall_forall in *. intros x Hx.
      apply elem_pexp; [apply (W2 x Hx)|]. intros m M. apply H; [exact Hx|apply (W2 x Hx)|exact M].
  - (* o:m(args) *) destruct W as (W1 & P & N & W2). rewrite adj_app. apply andb_true_iff. split.
    + apply IHe; [exact W1|]. apply okn_of_clop; [exact P|reflexivity].
    + rewrite adj_cons. apply andb_true_iff. split.
      * destruct (wf_name_hd m N) as (c & r & E & I). subst m. destruct (start_facts c I) as (_ & _ & A).
        change (LexAdj.ne ":" (Some c) = true). unfold LexAdj.ne, Lex.eqc. rewrite A. reflexivity.
      * rewrite adj_cons. apply andb_true_iff. split; [reflexivity|]. rewrite adj_cons. apply andb_true_iff. split; [reflexivity|].
        rewrite adj_app. apply andb_true_iff. split; [|reflexivity].
        apply adj_commas; [|reflexivity]. apply Forall_map. apply wfl_Forall in W2. rewrite Forall_forall in *. intros x Hx.
        apply elem_pexp; [apply (W2 x Hx)|]. intros m0 M. apply H; [exact Hx|apply (W2 x Hx)|exact M].
  - (* unary *) destruct W as (W & F & U). assert (C : clo nx = true) by (eapply okn_clo; [|exact K]; reflexivity).
    rewrite adj_app. apply andb_true_iff. split; [|apply IHe; [exact W|apply okn_of_clo; exact C]].
    rewrite (nextc_pexp e nx W). destruct u; cbn [uop_toks]; try contradiction.
    + (* minus *) rewrite adj_cons, andb_true_r. destruct (good_safe_facts _ (fc_good e W F)) as (_ & B & D).
      change (LexAdj.ne "-" (Some (fc e)) && LexAdj.ne "=" (Some (fc e)) && LexAdj.ne ">" (Some (fc e)) = true). rewrite B, D.
      unfold LexAdj.ne, Lex.eqc. rewrite U. reflexivity.
    + (* not *) rewrite adj_cons. apply andb_true_iff. split; [reflexivity|]. rewrite adj_cons, andb_true_r. apply safe_sp. apply fc_nb. exact W.
    + (* # *) reflexivity.
  - (* binary *) destruct W as (B & W1 & F1 & W2 & F2). assert (C : clo nx = true) by (eapply okn_clo; [|exact K]; reflexivity).
    rewrite adj_app. apply andb_true_iff. split; [apply IHe1; [exact W1|apply okn_of_clo; reflexivity]|].
    rewrite adj_cons. apply andb_true_iff. split; [destruct b; try discriminate; reflexivity|].
    rewrite adj_cons. apply andb_true_iff. split; [apply safe_bop; exact B|].
    rewrite adj_cons. apply andb_true_iff. split; [rewrite (nextc_pexp e2 nx W2); apply safe_sp; apply fc_nb; exact W2|].
    apply IHe2; [exact W2|apply okn_of_clo; exact C].
  - (* parens *) destruct W as (W & F). rewrite adj_cons. apply andb_true_iff. split; [reflexivity|].
    rewrite adj_app. apply andb_true_iff. split; [|reflexivity]. apply IHe; [exact W|apply okn_of_clo; reflexivity].
  - (* table *) destruct fs as [|f fs]; [reflexivity|]. change (wfl (f :: fs) true) in W.
    rewrite adj_cons. apply andb_true_iff. split; [reflexivity|]. rewrite adj_cons. apply wfl_Forall in W.
    assert (E : Forall elem (map pexp (f :: fs))).
    { apply Forall_map. rewrite Forall_forall in *. intros x Hx. apply elem_pexp; [apply (W x Hx)|]. intros m M. apply H; [exact Hx|apply (W x Hx)|exact M]. }
    apply andb_true_iff. split.
    + cbn [map] in E |- *. inversion E as [|? ? Ef _]; subst.
      assert (NE : commas (pexp f :: map pexp fs) <> []).
      { intros Hc. pose proof (nextc_commas (pexp f) (map pexp fs) None Ef) as Q. rewrite Hc in Q. destruct Ef as (c & _ & N & _). rewrite (N None) in Q. discriminate. }
      rewrite (nextc_app_ne _ _ nx NE), (nextc_commas (pexp f) (map pexp fs) None Ef). destruct Ef as (c & B & N & _). rewrite (N None). apply safe_sp. exact B.
    + rewrite adj_app. apply andb_true_iff. split; [apply adj_commas; [exact E|reflexivity]|reflexivity].
  - (* positional field *) destruct W as (W & F). apply IHe; [exact W|]. apply okn_of_clo. eapply okn_clo; [|exact K]; reflexivity.
  - (* named field *) destruct W as (N & W & F). assert (C : clo nx = true) by (eapply okn_clo; [|exact K]; reflexivity).
    rewrite adj_cons. apply andb_true_iff. split; [reflexivity|]. rewrite adj_cons. apply andb_true_iff. split; [reflexivity|].
    rewrite adj_cons. apply andb_true_iff. split; [reflexivity|]. rewrite adj_cons. apply andb_true_iff. split; [rewrite (nextc_pexp e nx W); apply safe_sp; apply fc_nb; exact W|].
    apply IHe; [exact W|apply okn_of_clo; exact C].
  - (* keyed field *) destruct W as (W1 & F1 & W2 & F2). assert (C : clo nx = true) by (eapply okn_clo; [|exact K]; reflexivity).
    rewrite adj_cons. apply andb_true_iff. split.
    + rewrite nextc_app_ne by apply pexp_ne. rewrite (nextc_pexp e1 None W1). destruct (good_safe_facts _ (fc_good e1 W1 F1)) as (A & B & _).
      change (LexAdj.ne "[" (Some (fc e1)) && LexAdj.ne "=" (Some (fc e1)) = true). rewrite A, B. reflexivity.
    + rewrite adj_app. apply andb_true_iff. split; [apply IHe1; [exact W1|apply okn_of_clo; reflexivity]|].
      rewrite adj_cons. apply andb_true_iff. split; [reflexivity|]. rewrite adj_cons. apply andb_true_iff. split; [reflexivity|].
      rewrite adj_cons. apply andb_true_iff. split; [reflexivity|]. rewrite adj_cons. apply andb_true_iff. split; [rewrite (nextc_pexp e2 nx W2); apply safe_sp; apply fc_nb; exact W2|].
      apply IHe2; [exact W2|apply okn_of_clo; exact C].
Qed.
End Lexical.
