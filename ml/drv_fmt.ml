(* Judge of the whole-formatter validations (C01 C02 C03 C06 C10 C11): every observation is computed by functions
   extracted from Coq - the lexer model (Lex.lex), the comment census, the semantic erasure with the string / number
   denotations, the whitespace discipline, the quote rule.   usage: drv_fmt <c01|c02|c03|c06|c10|c11>
   Input: CASE / FM / NF / CALLS records of `svh run`.  Output: BAD <kind> <case id>, OUTSIDE ..., SAMPLE ..., SUMMARY ... *)
open Util
open Lex
let mode = Sys.argv.(1)
let mode_is_trivia () = (mode = "c03" || mode = "c10")
let ver_of = function
  | "Lua51" -> { v52 = false; v53 = false; v54 = false; vluau = false; vjit = false }
  | "Lua52" -> { v52 = true; v53 = false; v54 = false; vluau = false; vjit = false }
  | "Lua53" -> { v52 = true; v53 = true; v54 = false; vluau = false; vjit = false }
  | "Lua54" -> { v52 = true; v53 = true; v54 = true; vluau = false; vjit = false }
  | "LuaJIT" -> { v52 = false; v53 = false; v54 = false; vluau = false; vjit = true }
  | "Luau" -> { v52 = false; v53 = false; v54 = false; vluau = true; vjit = false }
  | _ -> { v52 = true; v53 = true; v54 = true; vluau = true; vjit = true }
let dial_of = function "Lua51" -> Census.D51 | "Luau" -> Census.DLuau | _ -> Census.DStrict
let cfgval words k d = try L.assoc k (L.filter_map (fun w -> match SS.index_opt w '=' with Some i -> Some (SS.sub w 0 i, SS.sub w (i + 1) (SS.length w - i - 1)) | None -> None) words) with Not_found -> d

let cases = ref 0 and bad = ref 0 and nontrivial = ref 0 and samples = ref 0 and outside = ref 0 and tokens_cmp = ref 0
let kinds = Hashtbl.create 16
let report kind id = incr bad; Hashtbl.replace kinds kind (1 + try Hashtbl.find kinds kind with Not_found -> 0); Printf.printf "BAD %s %s\n" kind id
let dump_tok = function
  | TIdent s -> "Ident," ^ hex s | TSym s -> "Sym," ^ hex s | TNum s -> "Num," ^ hex s
  | TStr (q, d, b) -> Printf.sprintf "Str,%s,%d,%s" (match q with QSingle -> "s" | QDouble -> "d" | QBrackets -> "b") (nat_to_int d) (hex b)
  | TWs s -> "Ws," ^ hex s | TLineCom s -> "LCom," ^ hex s | TBlockCom (d, b) -> Printf.sprintf "BCom,%d,%s" (nat_to_int d) (hex b)
  | TShebang s -> "Shebang," ^ hex s
(* last CASE, kept for the FM / NF lines that follow it *)
let cur_words = ref []
let cur_id = ref "" and cur_syn = ref "" and cur_src = ref [] and cur_out = ref [] and cur_ok = ref false

let lexed = Hashtbl.create 4
let lex_of tag = match Hashtbl.find_opt lexed tag with
  | Some r -> r
  | None -> let r = Lex.lex (ver_of !cur_syn) (if tag = "src" then !cur_src else !cur_out) in Hashtbl.replace lexed tag r; r

let quote_rule words (ts : tok list) id =
  let style = cfgval words "quote_style" "AutoPreferDouble" in
  (* the judge of the theorem C11_L0_every_string_obeys_quote_style (Fmt0.quote_ok, extracted), next to the rule spelled out below *)
  let st = match style with "ForceDouble" -> QuoteMore.ForceDouble | "ForceSingle" -> QuoteMore.ForceSingle | "AutoPreferSingle" -> QuoteMore.AutoSingle | _ -> QuoteMore.AutoDouble in
  if not (L.for_all (Fmt0.quote_ok st) ts) then report "quote-judge-of-the-theorem" id;
  L.iter (function
    | TStr (q, _, body) when q <> QBrackets ->
      let form = if q = QSingle then Quote.QS else Quote.QD in
      (match style with
       | "ForceDouble" -> if form <> Quote.QD then report "quote-force-double" id
       | "ForceSingle" -> if form <> Quote.QS then report "quote-force-single" id
       | _ ->
         let pref = if style = "AutoPreferSingle" then Quote.QS else Quote.QD in
         let oth = if pref = Quote.QD then Quote.QS else Quote.QD in
         let np = nat_to_int (QuoteMore.needs pref body) and no = nat_to_int (QuoteMore.needs oth body) in
         if form = pref && no < np then report "quote-not-minimal" id;
         if form <> pref && not (no < np) then report "quote-not-preferred" id)
    | _ -> ()) ts

let handle_case id syn words range src status rest =
  incr cases; cur_id := id; cur_syn := syn; cur_src := unhex src; Hashtbl.reset lexed; cur_ok := false;
  let wl = SS.split_on_char ';' words in
  cur_words := wl;
  match status, rest with
  | "ok", out :: reparse :: idem :: _ ->
    cur_out := unhex out; cur_ok := true;
    if !cur_out <> !cur_src then incr nontrivial;
    (match mode with
     | "c01" -> if reparse <> "1" then report "output-does-not-parse" id
     | "c06" -> if idem <> "same" && idem <> "skipped" then report ("second-pass-" ^ (if SS.length idem >= 4 && SS.sub idem 0 4 = "diff" then "differs" else idem)) id
     | "c03" | "c02" | "c10" | "c11" ->
       (match lex_of "src", lex_of "out" with
        | None, _ -> incr outside; Printf.printf "OUTSIDE lexer-model-rejects-input %s\n" id
        | Some _, None ->
          (* an output that does not even lex is C01's finding (and C02's / C03's: the program and its comments are gone);
             the whitespace and quote rules have nothing to look at *)
          if reparse = "1" || mode = "c10" || mode = "c11" then (incr outside; Printf.printf "OUTSIDE lexer-model-rejects-output %s\n" id) else report "output-does-not-lex" id
        | Some ti, Some tout ->
          (match mode with
           | "c03" ->
             let a = Census.census ti and b = Census.census tout in
             if not (Census.census_eq a b) then
               report (match Census.first_missing a b with
                       | Some (Census.LineC _) -> "line-comment-count" | Some (Census.BlockC _) -> "block-comment-count" | Some (Census.Sheb _) -> "shebang" | None -> "comment-count") id
           | "c02" ->
             if range = "-" && cfgval wl "sort_requires" "false" <> "true" then
               if Census.erase (dial_of syn) ti <> Census.erase (dial_of syn) tout then report "erased-token-sequence-changed" id
           | "c10" ->
             let cfg = { Census.windows = (cfgval wl "line_endings" "Unix" = "Windows"); spaces = (cfgval wl "indent_type" "Tabs" = "Spaces");
                         width = int_to_nat (int_of_string (cfgval wl "indent_width" "4")); eof_formatted = (range = "-") } in
             (match Census.ws_check cfg !cur_out tout with
              | None -> ()
              | Some Census.BadNewline -> report "line-ending" id | Some Census.BadIndent -> report "indentation" id
              | Some Census.BadCRInComment -> report "carriage-return-in-comment" id | Some Census.BadEOF -> report "end-of-file" id)
           | "c11" -> quote_rule wl tout id
           | _ -> ()))
     | _ -> ());
    if !samples < 6 && !cases mod 997 = 3 then (incr samples; Printf.printf "SAMPLE %s %s %s bytes_in=%d bytes_out=%d\n" id syn words (L.length !cur_src) (L.length !cur_out))
  | ("panic" | "error" | "parseerror"), _ -> report ("format-" ^ status) id
  | _ -> report "unreadable-case" id

let handle_fm id tag toks =
  (* Tie of the lexer model: full_moon's token list for this text = Lex.lex *)
  if mode = "c01" && !cur_ok && id = !cur_id then begin
    incr tokens_cmp;
    let mine = match lex_of tag with None -> "ERROR" | Some ts -> SS.concat "|" (L.map dump_tok ts) in
    let theirs = if toks = "ERROR" then "ERROR" else (if SS.length toks > 0 && (SS.get toks (0)) = '|' then SS.sub toks 1 (SS.length toks - 1) else toks) in
    if mine <> theirs then
      (* the model has no Luau interpolated strings: rejecting what full_moon accepts is outside its domain, not a disagreement *)
      if mine = "ERROR" && L.exists (fun c -> c = '`') (if tag = "src" then !cur_src else !cur_out) then incr outside
      else report ("lexer-model-differs-from-full_moon:" ^ tag) id
  end

let nf_norm syn (s : string) : string list =
  L.map (fun t ->
    if SS.length t > 2 && SS.sub t 0 2 = "S:" then
      (match SS.split_on_char ':' t with
       | [_; q; _; h] -> let body = unhex h in
         let qk = (match q with "s" -> QSingle | "d" -> QDouble | _ -> QBrackets) in
         (match Census.str_den (dial_of syn) qk body with
          | Census.EStr51 (Some v) -> "S51:" ^ SS.concat "." (L.map (fun n -> string_of_int (Drvutil.n_to_int n)) v)
          | Census.EStrX (Some v) -> "SX:" ^ SS.concat "." (L.map (function QuoteX.VB n -> string_of_int (Drvutil.n_to_int n) | QuoteX.VU n -> "u" ^ string_of_int (Drvutil.n_to_int n)) v)
          | Census.ELong b -> "SL:" ^ hex b
          | _ -> "SRAW:" ^ h)
       | _ -> t)
    else if SS.length t > 2 && SS.sub t 0 2 = "N:" then
      (match Number.numval (unhex (SS.sub t 2 (SS.length t - 2))) with
       | Number.Dec (m, f, e) -> Printf.sprintf "ND:%d:%d:%s" (Drvutil.n_to_int m) (nat_to_int f) (Drvutil.z_to_string e)
       | Number.Raw r -> "NR:" ^ hex (match r with '0' :: ('.' :: _ as rest) -> rest | _ -> r))
    else t) (SS.split_on_char ',' s)
let nf_src = ref None
let handle_nf id tag body =
  if mode = "c02" && id = !cur_id then
    if tag = "src" then nf_src := Some body
    else match !nf_src with
      | Some a -> if nf_norm !cur_syn a <> nf_norm !cur_syn body then report "normal-form-changed" id; nf_src := None
      | None -> ()

(* C11: call forms and the blank after function names, observed on full_moon's ASTs of input and output, judged by
   CallForm.call_form / form_ok / space_call / space_definition (extracted) *)
let calls_seen = ref 0 and calls_exempt = ref 0 and defs_seen = ref 0
let cl_src = ref None
let handle_cl id tag body =
  if mode = "c11" && id = !cur_id && !cur_ok then
    if tag = "src" then cl_src := Some body
    else match !cl_src with
      | None -> ()
      | Some a ->
        cl_src := None;
        let items s = if s = "-" then [] else SS.split_on_char ',' s in
        let ia = items a and ib = items body in
        if a = "ERROR" || body = "ERROR" then ()
        (* a different number of calls means the program itself changed: that is C02's finding (and listed there per input);
           the rule about the form of calls has nothing to compare *)
        else if L.length ia <> L.length ib then (incr outside; Printf.printf "OUTSIDE call-sequence-changed %s\n" id)
        else begin
          let m = (match cfgval !cur_words "call_parentheses" "Always" with
                   | "Always" -> CallForm.Always | "NoSingleString" -> CallForm.NoSingleString | "NoSingleTable" -> CallForm.NoSingleTable
                   | "None" -> CallForm.NoneM | _ -> CallForm.Input) in
          let sm = (match cfgval !cur_words "space_after_function_names" "Never" with
                    | "Never" -> CallForm.SNever | "Definitions" -> CallForm.SDefinitions | "Calls" -> CallForm.SCalls | _ -> CallForm.SAlways) in
          let form c = (match c with 'P' -> CallForm.FParen | 'S' -> CallForm.FStr | _ -> CallForm.FTbl) in
          let kind c = (match c with 'S' | 'K' -> CallForm.KStr | 'T' | 'U' -> CallForm.KTbl | _ -> CallForm.KOther) in
          let gap_ok want g = (g = '3' || g = (if want then '1' else '0')) in
          L.iter2 (fun x y ->
            if SS.length x < 3 || SS.length y < 3 || SS.get x 0 <> SS.get y 0 then report "call-sequence-changed" id
            else if SS.get x 0 = 'D' then begin
              incr defs_seen;
              if SS.get y 1 = '0' && not (gap_ok (CallForm.space_definition sm) (SS.get y 2)) then report "space-after-definition-name" id
            end else begin
              incr calls_seen;
              let fi = form (SS.get x 1) and ki = kind (SS.get x 2) and ob = (SS.get x 3 = '1') and com = (SS.get x 4 = '1') in
              let fo = form (SS.get y 1) and ko = kind (SS.get y 2) in
              if com || SS.get y 4 = '1' then incr calls_exempt     (* a comment on the parentheses keeps them: outside the rule *)
              else begin
                if (SS.get y 3 = '1') <> ob then report "call-sequence-changed" id
                else if CallForm.call_form m fi ki ob <> fo then report "call-form-differs-from-model" id
                else if not (CallForm.form_ok m fo ko ob) then report "call-form-breaks-the-rule" id;
                if fo = CallForm.FParen && not (gap_ok (CallForm.space_call sm) (SS.get y 5)) then report "space-after-call-name" id
              end
            end) ia ib
        end

(* Tie of Trivia.v: every traced call of load_token_trivia is replayed through the model *)
let trace_calls = ref 0 and trace_comments = ref 0
let triv_of (w : string) : tok option =
  match SS.split_on_char ':' w with
  | ["ws"; h] -> Some (TWs (unhex h)) | ["lc"; h] -> Some (TLineCom ('-' :: '-' :: unhex h))
  | ["bc"; d; h] -> Some (TBlockCom (int_to_nat (int_of_string d), unhex h)) | ["sb"; h] -> Some (TShebang (unhex h))
  | _ -> None
let parse_trivs s = if s = "-" then Some [] else
  let l = L.map triv_of (SS.split_on_char ',' s) in if L.mem None l then None else Some (L.filter_map (fun x -> x) l)
let abstract_out win (t : tok) : string = match t with
  | TWs s -> if L.mem '\n' s then (if s = (if win then ['\r'; '\n'] else ['\n']) then "nl" else "BADNL") else "blank"
  | t -> dump_tok t
let abstract_model = function
  | Trivia.ONl -> "nl" | Trivia.OIndent | Trivia.OSpace -> "blank" | Trivia.OTok t -> dump_tok t
let handle_tr id mode win ins outs =
  if mode_is_trivia () then begin
    incr trace_calls;
    let win = (win = "true") in
    match parse_trivs ins, parse_trivs outs with
    | Some i, Some o ->
      (* full_moon keeps the comment text without its leading dashes; the Coq lexer's token has them: normalise both *)
      trace_comments := !trace_comments + L.length (L.filter (function TLineCom _ | TBlockCom _ | TShebang _ -> true | _ -> false) i);
      let model = (match mode with
        | "LeadingTrivia" -> Trivia.lead win Datatypes.O i
        | "TrailingTrivia" -> Trivia.trail win i
        | _ -> L.filter_map (function TWs _ -> None | t -> Some (Trivia.OTok (Trivia.fmt_comment win t))) i) in
      if L.map abstract_model model <> L.map (abstract_out win) o then report ("load_token_trivia-differs-from-model:" ^ mode) id
    | _ -> report "trace-record-unreadable" id
  end
let handle line =
  match words line with
  | ["TR"; id; "load_token_trivia"; mode; win; _indent; ins; outs] -> handle_tr id mode win ins outs
  | "CASE" :: id :: syn :: ws :: range :: src :: status :: rest -> handle_case id syn ws range src status rest
  | ["FM"; id; tag; toks] -> handle_fm id tag toks
  | ["FM"; id; tag] -> handle_fm id tag ""
  | ["NF"; id; tag; body] -> handle_nf id tag body
  | ["CL"; id; tag; body] -> handle_cl id tag body
  | "NF" :: _ -> ()
  | "STATS" :: _ -> print_endline line
  | [] -> ()
  | _ -> report "unreadable-record" "?"

let () =
  iter_lines handle;
  Printf.printf "SUMMARY cases=%d nontrivial=%d outside_model=%d token_lists_compared=%d trivia_calls_replayed=%d comments_in_replayed_calls=%d calls_judged=%d calls_exempt_for_comments=%d definitions_judged=%d bad=%d %s\n" !cases !nontrivial !outside !tokens_cmp !trace_calls !trace_comments !calls_seen !calls_exempt !defs_seen !bad
    (SS.concat " " (Hashtbl.fold (fun k v acc -> (k ^ "=" ^ string_of_int v) :: acc) kinds []))
