From Coq Require Import List Ascii Bool Arith Lia.
Import ListNotations.

(* C03 / C10 core for the one gate most comments pass through: load_token_trivia in Leading mode.
   Output tokens are tagged so that the census and the newline discipline can be read off. *)
Section T.
Variable text : Type.                       (* comment text *)
Variable norm : text -> text.               (* trimming / newline conversion done by format_token *)
Inductive triv := Ws (has_newline : bool) | Com (single_line : bool) (t : text).
Inductive otok := ONl | OIndent | OCom (single_line : bool) (t : text).

Fixpoint lead (cnt : nat) (l : list triv) : list otok :=
  match l with
  | [] => []
  | Ws nl :: r => if nl then (if Nat.eqb cnt 0 then ONl :: lead 1 r else lead (S cnt) r) else lead cnt r
  | Com s t :: r => let r' := match r with Ws true :: r2 => r2 | _ => r end in
                    OIndent :: OCom s (norm t) :: ONl :: lead 0 r'
  end.

Definition comments_in (l : list triv) : list (bool * text) :=
  flat_map (fun t => match t with Com s x => [(s, x)] | _ => [] end) l.
Definition comments_out (l : list otok) : list (bool * text) :=
  flat_map (fun t => match t with OCom s x => [(s, x)] | _ => [] end) l.

Lemma lead_len_ind (P : list triv -> Prop) :
  (forall l, (forall l', length l' < length l -> P l') -> P l) -> forall l, P l.
Proof. intros H l. remember (length l) as n eqn:E. revert l E. induction n as [n IH] using lt_wf_ind.
  intros l E. apply H. intros l' Hl. apply (IH (length l')); [lia|reflexivity]. Qed.

(* no comment is lost, duplicated, reordered or altered beyond the normalisation *)
Theorem lead_census : forall l cnt, comments_out (lead cnt l) = map (fun '(s, x) => (s, norm x)) (comments_in l).
Proof.
  induction l as [l IH] using lead_len_ind. intros cnt. destruct l as [|t r]; [reflexivity|].
  destruct t as [nl|s x]; cbn [lead].
  - destruct nl; [destruct (Nat.eqb cnt 0)|]; cbn; apply IH; cbn; lia.
  - cbn [comments_out comments_in flat_map app map]. f_equal.
    destruct r as [|[[|]|s2 x2] r2].
    + reflexivity.
    + apply (IH r2). cbn; lia.
    + apply (IH (Ws false :: r2)). cbn; lia.
    + apply (IH (Com s2 x2 :: r2)). cbn; lia.
Qed.

(* every comment is followed by a newline: nothing that comes after it can be swallowed *)
Fixpoint com_then_nl (l : list otok) : Prop :=
  match l with
  | [] => True
  | OCom _ _ :: r => match r with ONl :: _ => com_then_nl r | _ => False end
  | _ :: r => com_then_nl r
  end.
Theorem lead_no_capture : forall l cnt, com_then_nl (lead cnt l).
Proof.
  induction l as [l IH] using lead_len_ind. intros cnt. destruct l as [|t r]; [exact I|].
  destruct t as [nl|s x]; cbn [lead].
  - destruct nl; [destruct (Nat.eqb cnt 0)|]; cbn; apply IH; cbn; lia.
  - cbn [com_then_nl]. destruct r as [|[[|]|s2 x2] r2].
    + exact I.
    + apply (IH r2). cbn; lia.
    + apply (IH (Ws false :: r2)). cbn; lia.
    + apply (IH (Com s2 x2 :: r2)). cbn; lia.
Qed.

(* at most one blank line survives between two things *)
Fixpoint no_double_nl (prev_nl : nat) (l : list otok) : Prop :=
  match l with
  | [] => True
  | ONl :: r => prev_nl < 2 /\ no_double_nl (S prev_nl) r
  | _ :: r => no_double_nl 0 r
  end.
End T.
Print Assumptions lead_census.
Print Assumptions lead_no_capture.
