(* Mirror of the full_moon node kinds the translated kernels (coq/gen, written by rs2v) inspect.
   Constructor names are the Rust paths with `::` replaced by `_`; payloads the kernels never look at are unit. *)
Inductive Symbol := Symbol_Ellipsis | Symbol_True | Symbol_False | Symbol_Nil.
Inductive TokenType := TokenType_Symbol (symbol : Symbol) | TokenType_Other.
Definition TokenReference := TokenType.
Definition token_type (t : TokenReference) : TokenType := t.
Inductive UnOp := UnOp_Minus (t : unit) | UnOp_Not (t : unit) | UnOp_Hash (t : unit) | UnOp_Tilde (t : unit).
Inductive Expression :=
| Expression_Parentheses (contained : unit) (expression : Expression)
| Expression_UnaryOperator (unop : UnOp) (expression : Expression)
| Expression_BinaryOperator (lhs : Expression) (binop : unit) (rhs : Expression)
| Expression_TypeAssertion (expression : Expression) (type_assertion : unit)
| Expression_FunctionCall (call : unit)
| Expression_Symbol (token : TokenReference)
| Expression_IfExpression (else_branch : Expression)
| Expression_Other.   (* Number, String, Var, TableConstructor, Function, InterpolatedString *)
Inductive ExpressionContext :=
| ExpressionContext_Standard | ExpressionContext_Prefix | ExpressionContext_TypeAssertion
| ExpressionContext_BinaryLHS | ExpressionContext_BinaryLHSExponent | ExpressionContext_UnaryOrBinary.

(* Statements, as far as check_stmt_requires_semicolon (src/formatters/block.rs) looks into them.
   FunctionCall and VarExpression share the one accessor the rule uses (`prefix`). *)
Inductive Prefix := Prefix_Expression (expression : Expression) | Prefix_Name (name : TokenReference).
Record Chain := { prefix : Prefix }.
Inductive Var := Var_Expression (var_expression : Chain) | Var_Name (name : TokenReference).
Record AssignmentNode := { variables : list Var }.
Record CompoundNode := { lhs : Var }.
Inductive Stmt :=
| Stmt_Assignment (a : AssignmentNode) | Stmt_Do (u : unit) | Stmt_FunctionCall (c : Chain) | Stmt_FunctionDeclaration (u : unit)
| Stmt_GenericFor (u : unit) | Stmt_If (u : unit) | Stmt_LocalAssignment (u : unit) | Stmt_LocalFunction (u : unit)
| Stmt_NumericFor (u : unit) | Stmt_Repeat (u : unit) | Stmt_While (u : unit)
| Stmt_CompoundAssignment (c : CompoundNode) | Stmt_ExportedTypeDeclaration (u : unit) | Stmt_TypeDeclaration (u : unit)
| Stmt_ExportedTypeFunction (u : unit) | Stmt_TypeFunction (u : unit) | Stmt_Goto (u : unit) | Stmt_Label (u : unit).

(* get_quote_to_use (src/formatters/general.rs): the configured style, the quote kinds, strings as character lists.
   `unreachable!()` is mirrored by a distinguished value which the theorems show is never returned. *)
From Coq Require Import List Ascii Arith.
Inductive QuoteStyle := QuoteStyle_AutoPreferDouble | QuoteStyle_AutoPreferSingle | QuoteStyle_ForceDouble | QuoteStyle_ForceSingle.
Inductive StringLiteralQuoteType := StringLiteralQuoteType_Brackets | StringLiteralQuoteType_Double | StringLiteralQuoteType_Single | StringLiteralQuoteType_Unreachable.
Definition rs_unreachable := StringLiteralQuoteType_Unreachable.
Inductive Ordering := std_cmp_Ordering_Less | std_cmp_Ordering_Equal | std_cmp_Ordering_Greater.
Definition nat_cmp (a b : nat) : Ordering := match Nat.compare a b with Lt => std_cmp_Ordering_Less | Eq => std_cmp_Ordering_Equal | Gt => std_cmp_Ordering_Greater end.
Definition str_contains (s : list ascii) (c : ascii) : bool := existsb (Ascii.eqb c) s.
Fixpoint str_count (s : list ascii) (c : ascii) : nat := match s with nil => 0 | x :: r => (if Ascii.eqb x c then 1 else 0) + str_count r c end.

(* Context::should_format_node (src/context.rs): the verdict, the range, a node's byte positions.
   The scan of the leading comments for `stylua: ignore` is a `for` loop: rs2v turns it into the oracle parameter
   for_loop_1 (Some r: the loop returned r; None: it fell through); the C08 harness ties that scan. *)
Inductive FormatNode := FormatNode_Skip | FormatNode_NotInRange | FormatNode_Normal.
Record FormatRange := { start : option nat; end_ : option nat }.
Record Position := { bytes : nat }.
Record NodePos := { start_position : option Position; end_position : option Position }.

(* the option-dependent creators of src/context.rs: whitespace tokens as (kind, count), the configuration enums *)
Inductive LineEndings := LineEndings_Unix | LineEndings_Windows.
Inductive IndentType := IndentType_Tabs | IndentType_Spaces.
Inductive SpaceAfterFunctionNames := SpaceAfterFunctionNames_Never | SpaceAfterFunctionNames_Definitions | SpaceAfterFunctionNames_Calls | SpaceAfterFunctionNames_Always.
Inductive CollapseSimpleStatement := CollapseSimpleStatement_Never | CollapseSimpleStatement_FunctionOnly | CollapseSimpleStatement_ConditionalOnly | CollapseSimpleStatement_Always.
Inductive CallParenType := CallParenType_Always | CallParenType_NoSingleString | CallParenType_NoSingleTable | CallParenType_None | CallParenType_Input.
Inductive WsToken := TokenType_tabs (n : nat) | TokenType_spaces (n : nat).
Definition Token_new (t : WsToken) : WsToken := t.
