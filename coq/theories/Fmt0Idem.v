(* C06 on the L0 model: the tree format0 writes is a fixed point of format0's two passes, for every program in which no
   unary minus is written directly in front of something that starts with a unary minus (`- -x`).  The condition is needed
   (Fmt0Proof.norm0_not_idempotent_refuted: `(- -f())`, the listed known finding).  What format0 writes never has such a
   minus, so formatting twice always reaches a fixed point. *)
From Coq Require Import List Bool.
From SV Require Import Expr Parens ParensIdem CallForm Fmt0 Fmt0Proof.
From Coq Require Import String.
Import ListNotations.
Open Scope string_scope.

Lemma gfe_gf : forall e, gfe e = true -> gf (shape e) = true.
Proof.
  induction e; intros G; cbn [shape gf gfe] in *; try reflexivity.
  - apply andb_true_iff in G. destruct G as [G0 G]. rewrite G0, IHe by exact G. reflexivity.
  - apply andb_true_iff in G. destruct G as [G1 G2]. rewrite IHe1, IHe2 by assumption. reflexivity.
  - apply IHe. exact G.
Qed.
Lemma shape_cexp m : forall e o, shape (cexp m o e) = shape e.
Proof. induction e; intros o; cbn [cexp shape]; rewrite ?IHe, ?IHe1, ?IHe2; reflexivity. Qed.
(* parentheses that stay keep staying around the normalised inside *)
Lemma droppable_stable c x : gfe x = true -> droppable c (shape x) = false -> droppable c (fmt_single Std (shape x)) = false.
Proof.
  intros G D. unfold droppable in *. apply andb_false_iff in D. apply andb_false_iff.
  destruct D as [D|D]; [left; apply check_stable; [apply gfe_gf; exact G|exact D]|right; exact D].
Qed.
Lemma shape_paren_inv z s0 : shape z = Paren s0 -> exists w, z = EParen w /\ shape w = s0.
Proof. destruct z; cbn [shape]; intros H; try discriminate. injection H as <-. eexists; split; reflexivity. Qed.
(* the guard either does nothing, or puts back parentheses that were written there and have just been dropped *)
Lemma guard0_cases u e : gfe (EUn u e) = true ->
  (guard0 u (nexp UB e) = nexp UB e /\ (u = Neg -> starts_neg (shape (nexp UB e)) = false))
  \/ (u = Neg /\ exists w, e = EParen w /\ droppable UB (shape w) = true /\ starts_neg (shape (nexp UB w)) = true /\
       nexp UB e = nexp UB w /\ guard0 u (nexp UB e) = EParen (nexp UB w)).
Proof.
  intros G. unfold guard0. destruct u; try (left; split; [reflexivity|discriminate]).
  destruct (starts_neg (shape (nexp UB e))) eqn:S; [|left; split; [reflexivity|intros _; reflexivity]].
  right. split; [reflexivity|]. rewrite shape_nexp in S.
  assert (Gs : gf (Un Neg (shape e)) = true) by (apply (gfe_gf (EUn Neg e)); exact G).
  destruct (guard_only_after_parentheses (shape e) Gs S) as (s0 & E & D & S2).
  destruct (shape_paren_inv e s0 E) as (w & -> & <-). exists w.
  assert (Y : nexp UB (EParen w) = nexp UB w) by (cbn [nexp]; rewrite D; reflexivity).
  split; [reflexivity|]. split; [exact D|]. split; [rewrite shape_nexp; exact S2|]. split; [exact Y|]. rewrite Y. reflexivity.
Qed.
Lemma droppable_UB_stable w : gfe w = true -> droppable UB (shape w) = true -> droppable UB (fmt_single UB (shape w)) = true.
Proof.
  intros G D. unfold droppable in *. cbn [keeps negb] in *. rewrite andb_true_r in *. apply check_UB_stable; [apply gfe_gf; exact G|exact D].
Qed.

Section Idem.
Variable m : cmode.
(* the second pass of the parenthesis rule finds nothing to do, also after the call-form pass *)
Theorem nexp_cexp_nexp : forall e c o, gfe e = true -> nexp c (cexp m o (nexp c e)) = cexp m o (nexp c e).
Proof.
  assert (M : forall l, Forall (fun e => forall c o, gfe e = true -> nexp c (cexp m o (nexp c e)) = cexp m o (nexp c e)) l -> forallb gfe l = true ->
              map (nexp Std) (map (cexp m false) (map (nexp Std) l)) = map (cexp m false) (map (nexp Std) l)).
  { induction 1 as [|x r Hx Hr IH]; [reflexivity|]. cbn [forallb map]. intros G. apply andb_true_iff in G. destruct G as [G1 G2].
    rewrite (Hx Std false G1), (IH G2). reflexivity. }
  induction e using exp_ind'; intros c o G; try reflexivity.
  - (* EField *) cbn [gfe] in G. cbn [nexp cexp]. rewrite IHe by exact G. reflexivity.
  - (* EIndex *) cbn [gfe] in G. apply andb_true_iff in G. destruct G as [G1 G2]. cbn [nexp cexp]. rewrite IHe1, IHe2 by assumption. reflexivity.
  - (* ECall *) cbn [gfe] in G. apply andb_true_iff in G. destruct G as [G1 G2]. cbn [nexp cexp]. rewrite IHe, (M args H G2) by assumption. reflexivity.
  - (* EMethod *) cbn [gfe] in G. apply andb_true_iff in G. destruct G as [G1 G2]. cbn [nexp cexp]. rewrite IHe, (M args H G2) by assumption. reflexivity.
  - (* EUn *) assert (Ge : gfe e = true) by (cbn [gfe] in G; apply andb_true_iff in G; apply G).
    cbn [nexp]. destruct (guard0_cases u e G) as [[E0 N]|(-> & w & -> & D & S & Y & E0)]; rewrite E0; cbn [cexp nexp].
    + rewrite IHe by exact Ge. f_equal. unfold guard0. destruct u; try reflexivity. rewrite shape_cexp, (N eq_refl). reflexivity.
    + (* the guard fired: the parentheses it wrote are dropped and written again *)
      cbn [gfe] in Ge. specialize (IHe UB false Ge). rewrite Y in IHe.
      rewrite shape_cexp, shape_nexp, (droppable_UB_stable w Ge D), IHe. unfold guard0. rewrite shape_cexp, S. reflexivity.
  - (* EBin *) cbn [gfe] in G. apply andb_true_iff in G. destruct G as [G1 G2]. cbn [nexp cexp]. rewrite IHe1, IHe2 by assumption. reflexivity.
  - (* EParen *) cbn [gfe] in G. cbn [nexp]. destruct (droppable c (shape e)) eqn:D; [apply IHe; exact G|].
    cbn [cexp nexp]. rewrite shape_cexp, shape_nexp, (droppable_stable c e G D), IHe by exact G. reflexivity.
  - (* ETable *) cbn [gfe] in G. cbn [nexp cexp]. rewrite (M fs H G). reflexivity.
  - (* FPos *) cbn [gfe] in G. cbn [nexp cexp]. rewrite IHe by exact G. reflexivity.
  - (* FNamed *) cbn [gfe] in G. cbn [nexp cexp]. rewrite IHe by exact G. reflexivity.
  - (* FKey *) cbn [gfe] in G. apply andb_true_iff in G. destruct G as [G1 G2]. cbn [nexp cexp]. rewrite IHe1, IHe2 by assumption. reflexivity.
  - (* ETableML *) cbn [gfe] in G. cbn [nexp cexp]. rewrite (M fs H G). reflexivity.
  - (* FLine *) cbn [gfe] in G. cbn [nexp cexp]. rewrite IHe by exact G. reflexivity.
Qed.
End Idem.
(* ... and on its own *)
Theorem nexp_idempotent : forall e c, gfe e = true -> nexp c (nexp c e) = nexp c e.
Proof.
  assert (M : forall l, Forall (fun e => forall c, gfe e = true -> nexp c (nexp c e) = nexp c e) l -> forallb gfe l = true ->
              map (nexp Std) (map (nexp Std) l) = map (nexp Std) l).
  { induction 1 as [|x r Hx Hr IH]; [reflexivity|]. cbn [forallb map]. intros G. apply andb_true_iff in G. destruct G as [G1 G2].
    rewrite (Hx Std G1), (IH G2). reflexivity. }
  induction e using exp_ind'; intros c G; try reflexivity.
  - cbn [gfe] in G. cbn [nexp]. rewrite IHe by exact G. reflexivity.
  - cbn [gfe] in G. apply andb_true_iff in G. destruct G as [G1 G2]. cbn [nexp]. rewrite IHe1, IHe2 by assumption. reflexivity.
  - cbn [gfe] in G. apply andb_true_iff in G. destruct G as [G1 G2]. cbn [nexp]. rewrite IHe, (M args H G2) by assumption. reflexivity.
  - cbn [gfe] in G. apply andb_true_iff in G. destruct G as [G1 G2]. cbn [nexp]. rewrite IHe, (M args H G2) by assumption. reflexivity.
  - assert (Ge : gfe e = true) by (cbn [gfe] in G; apply andb_true_iff in G; apply G).
    cbn [nexp]. destruct (guard0_cases u e G) as [[E0 N]|(-> & w & -> & D & S & Y & E0)]; rewrite E0; cbn [nexp].
    + rewrite IHe by exact Ge. f_equal. unfold guard0. destruct u; try reflexivity. rewrite (N eq_refl). reflexivity.
    + cbn [gfe] in Ge. specialize (IHe UB Ge). rewrite Y in IHe.
      rewrite shape_nexp, (droppable_UB_stable w Ge D), IHe. unfold guard0. rewrite S. reflexivity.
  - cbn [gfe] in G. apply andb_true_iff in G. destruct G as [G1 G2]. cbn [nexp]. rewrite IHe1, IHe2 by assumption. reflexivity.
  - cbn [gfe] in G. cbn [nexp]. destruct (droppable c (shape e)) eqn:D; [apply IHe; exact G|].
    cbn [nexp]. rewrite shape_nexp, (droppable_stable c e G D), IHe by exact G. reflexivity.
  - cbn [gfe] in G. cbn [nexp]. rewrite (M fs H G). reflexivity.
  - cbn [gfe] in G. cbn [nexp]. rewrite IHe by exact G. reflexivity.
  - cbn [gfe] in G. cbn [nexp]. rewrite IHe by exact G. reflexivity.
  - cbn [gfe] in G. apply andb_true_iff in G. destruct G as [G1 G2]. cbn [nexp]. rewrite IHe1, IHe2 by assumption. reflexivity.
  - cbn [gfe] in G. cbn [nexp]. rewrite (M fs H G). reflexivity.
  - cbn [gfe] in G. cbn [nexp]. rewrite IHe by exact G. reflexivity.
Qed.

(* conditions: every layer of parentheses goes, then the rule *)
Definition isparen (e : exp) : bool := match e with EParen _ => true | _ => false end.
Fixpoint core (e : exp) : exp := match e with EParen x => core x | _ => e end.
Lemma ncond_core e : ncond e = nexp Std (core e).
Proof. induction e; try reflexivity. exact IHe. Qed.
Lemma core_isparen e : isparen (core e) = false. Proof. induction e; try reflexivity. exact IHe. Qed.
Lemma gfe_core e : gfe (core e) = gfe e. Proof. induction e; try reflexivity. exact IHe. Qed.
Lemma ncond_nonparen e : isparen e = false -> ncond e = nexp Std e. Proof. destruct e; try reflexivity. discriminate. Qed.
Lemma isparen_nexp c e : isparen e = false -> isparen (nexp c e) = false. Proof. destruct e; try reflexivity. discriminate. Qed.
Lemma isparen_cexp m o e : isparen (cexp m o e) = isparen e. Proof. destruct e; reflexivity. Qed.
Theorem ncond_cexp_ncond m e o : gfe e = true -> ncond (cexp m o (ncond e)) = cexp m o (ncond e).
Proof.
  intros G. rewrite (ncond_core e). rewrite ncond_nonparen.
  - apply nexp_cexp_nexp. rewrite gfe_core. exact G.
  - rewrite isparen_cexp. apply isparen_nexp. apply core_isparen.
Qed.
Theorem ncond_idempotent e : gfe e = true -> ncond (ncond e) = ncond e.
Proof.
  intros G. rewrite (ncond_core e). rewrite ncond_nonparen.
  - apply nexp_idempotent. rewrite gfe_core. exact G.
  - apply isparen_nexp. apply core_isparen.
Qed.

(* ---------- whole programs ---------- *)
Section Prog.
Variable m : cmode.
Notation fe := (cexp m false).
Lemma nexps_fixed es : pall gfe es = true -> nexps (map fe (nexps es)) = map fe (nexps es).
Proof.
  unfold pall, nexps. induction es as [|x r IH]; [reflexivity|]. cbn [forallb map]. intros G. apply andb_true_iff in G. destruct G as [G1 G2].
  rewrite (nexp_cexp_nexp m x Std false G1), (IH G2). reflexivity.
Qed.
Lemma nexps_idem es : pall gfe es = true -> nexps (nexps es) = nexps es.
Proof.
  unfold pall, nexps. induction es as [|x r IH]; [reflexivity|]. cbn [forallb map]. intros G. apply andb_true_iff in G. destruct G as [G1 G2].
  rewrite (nexp_idempotent x Std G1), (IH G2). reflexivity.
Qed.
Ltac split_and := repeat match goal with H : _ && _ = true |- _ => apply andb_true_iff in H; destruct H end.
Theorem nblk_smap_nblk : forall b, sall_b gfe b = true -> nblk (smap_b fe (nblk b)) = smap_b fe (nblk b).
Proof.
  assert (HI : forall is, Forall (fun i => sall_i gfe i = true -> nitem (smap_i fe (nitem i)) = smap_i fe (nitem i)) is -> forallb (sall_i gfe) is = true ->
               map nitem (map (smap_i fe) (map nitem is)) = map (smap_i fe) (map nitem is)).
  { induction 1 as [|i r Hi Hr IH]; [reflexivity|]. cbn [map forallb]. intros G. apply andb_true_iff in G. destruct G as [G1 G2]. rewrite (Hi G1), (IH G2). reflexivity. }
  assert (H : forall s, sall_s gfe s = true -> nstmt (smap_s fe (nstmt s)) = smap_s fe (nstmt s)).
  - apply (stmt_ind' (fun s => sall_s gfe s = true -> nstmt (smap_s fe (nstmt s)) = smap_s fe (nstmt s))
                     (fun r => sall_r gfe r = true -> nels (smap_r fe (nels r)) = smap_r fe (nels r))
                     (fun i => sall_i gfe i = true -> nitem (smap_i fe (nitem i)) = smap_i fe (nitem i))
                     (fun b => sall_b gfe b = true -> nblk (smap_b fe (nblk b)) = smap_b fe (nblk b)));
      intros; try (match goal with G : sall_b _ (Blk _ _) = true |- _ => cbn [nblk smap_b sall_b] in *; f_equal; apply HI; assumption end);
      cbn [sall_s sall_r sall_i] in *; split_and; cbn [nstmt nels nitem smap_s smap_r smap_i];
      try (match goal with st : option exp |- _ => destruct st; cbn [option_map] end);
      f_equal; try (match goal with |- Some _ = Some _ => f_equal end);
      first [ reflexivity | apply nexps_fixed; assumption | apply ncond_cexp_ncond; assumption | apply nexp_cexp_nexp; assumption
            | match goal with IH : _ -> _ = _ |- _ => apply IH; assumption end ].
  - intros [is tl] G. cbn [nblk smap_b sall_b] in *. f_equal. apply HI; [|exact G]. apply Forall_forall. intros [l bl s t] _ Gi. cbn [nitem smap_i sall_i] in *. f_equal. apply H. exact Gi.
Qed.
End Prog.
(* a pass whose expression rewrite is idempotent is idempotent *)
Section SMapIdem.
Variable fe : exp -> exp.
Hypothesis Hfe : forall e, fe (fe e) = fe e.
Lemma map_idem es : map fe (map fe es) = map fe es.
Proof. induction es as [|x r IH]; [reflexivity|]. cbn [map]. rewrite Hfe, IH. reflexivity. Qed.
Theorem smap_idem : forall b, smap_b fe (smap_b fe b) = smap_b fe b.
Proof.
  assert (HI : forall is, Forall (fun i => smap_i fe (smap_i fe i) = smap_i fe i) is -> map (smap_i fe) (map (smap_i fe) is) = map (smap_i fe) is).
  { induction 1 as [|i r Hi Hr IH]; [reflexivity|]. cbn [map]. rewrite Hi, IH. reflexivity. }
  assert (H : forall s, smap_s fe (smap_s fe s) = smap_s fe s).
  - apply (stmt_ind' (fun s => smap_s fe (smap_s fe s) = smap_s fe s) (fun r => smap_r fe (smap_r fe r) = smap_r fe r)
                     (fun i => smap_i fe (smap_i fe i) = smap_i fe i) (fun b => smap_b fe (smap_b fe b) = smap_b fe b));
      intros; try (cbn [smap_b]; f_equal; apply HI; assumption); cbn [smap_s smap_r smap_i];
      try (match goal with st : option exp |- _ => destruct st; cbn [option_map] end);
      f_equal; try (match goal with |- Some _ = Some _ => f_equal end);
      first [ reflexivity | apply map_idem | apply Hfe | assumption ].
  - intros [is tl]. cbn [smap_b]. f_equal. apply HI. apply Forall_forall. intros [l bl s t] _. cbn [smap_i]. f_equal. apply H.
Qed.
End SMapIdem.
Theorem nblk_idempotent : forall b, sall_b gfe b = true -> nblk (nblk b) = nblk b.
Proof.
  assert (HI : forall is, Forall (fun i => sall_i gfe i = true -> nitem (nitem i) = nitem i) is -> forallb (sall_i gfe) is = true -> map nitem (map nitem is) = map nitem is).
  { induction 1 as [|i r Hi Hr IH]; [reflexivity|]. cbn [map forallb]. intros G. apply andb_true_iff in G. destruct G as [G1 G2]. rewrite (Hi G1), (IH G2). reflexivity. }
  assert (H : forall s, sall_s gfe s = true -> nstmt (nstmt s) = nstmt s).
  - apply (stmt_ind' (fun s => sall_s gfe s = true -> nstmt (nstmt s) = nstmt s) (fun r => sall_r gfe r = true -> nels (nels r) = nels r)
                     (fun i => sall_i gfe i = true -> nitem (nitem i) = nitem i) (fun b => sall_b gfe b = true -> nblk (nblk b) = nblk b));
      intros; try (match goal with G : sall_b _ (Blk _ _) = true |- _ => cbn [nblk sall_b] in *; f_equal; apply HI; assumption end);
      cbn [sall_s sall_r sall_i] in *; repeat match goal with H : _ && _ = true |- _ => apply andb_true_iff in H; destruct H end; cbn [nstmt nels nitem];
      try (match goal with st : option exp |- _ => destruct st; cbn [option_map] end);
      f_equal; try (match goal with |- Some _ = Some _ => f_equal end);
      first [ reflexivity | apply nexps_idem; assumption | apply ncond_idempotent; assumption | apply nexp_idempotent; assumption
            | match goal with IH : _ -> _ = _ |- _ => apply IH; assumption end ].
  - intros [is tl] G. cbn [nblk sall_b] in *. f_equal. apply HI; [|exact G]. apply Forall_forall. intros [l bl s t] _ Gi. cbn [nitem sall_i] in *. f_equal. apply H. exact Gi.
Qed.

(* ---------- C06 on L0: what format0 writes is a fixed point of its two passes ---------- *)
Theorem norm0_idempotent c p : guard_free p = true -> norm0 c (norm0 c p) = norm0 c p.
Proof.
  intros G. unfold norm0, cprog, nprog. rewrite (nblk_smap_nblk (callp0 c) p G). apply smap_idem. intros e. apply cexp_idempotent.
Qed.
Theorem format0_of_its_tree c p : guard_free p = true -> format0 c (norm0 c p) = format0 c p.
Proof. intros G. unfold format0. rewrite (norm0_idempotent c p G). reflexivity. Qed.
(* the premise holds of programs that exist - parentheses that stay, parentheses that go, a wrapped condition, a minus, a call in
   sugar form - and the witness of the refutation is outside it *)
Notation str := Lex.str.
Definition idem_example : blk :=
  Blk [ Item [] false (SLocal [str "x"] [EBin Mul (EParen (EBin Add (EName (str "a")) (EParen (EName (str "b"))))) (EUn Neg (EParen (EName (str "c"))))]) None;
        Item [] true (SIf (EParen (EParen (EBin Lt (EName (str "x")) (ENum (str "3"))))) (Blk [Item [] false (SCall (ECall (EName (str "f")) true [EStr (str "s")])) None] []) NoElse) None ] [].
Example guard_free_example : guard_free idem_example = true /\ guard_free witness_not_idempotent = false
  /\ norm0 cfg_witness idem_example <> idem_example.
Proof. repeat split; try (vm_compute; reflexivity). vm_compute. discriminate. Qed.

(* ---------- what format0 writes meets the premise: formatting twice always reaches a fixed point ---------- *)
Lemma gfe_nexp : forall e c, gfe (nexp c e) = true.
Proof.
  assert (M : forall l, Forall (fun e => forall c, gfe (nexp c e) = true) l -> forallb gfe (map (nexp Std) l) = true).
  { induction 1 as [|x r Hx Hr IH]; [reflexivity|]. cbn [map forallb]. rewrite Hx, IH. reflexivity. }
  induction e using exp_ind'; intros c; cbn [nexp gfe]; try reflexivity; rewrite ?IHe, ?IHe1, ?IHe2, ?(M _ H); try reflexivity.
  - (* unary *) unfold guard0. destruct u; try (rewrite IHe; reflexivity).
    destruct (starts_neg (shape (nexp UB e))) eqn:S; [cbn [shape starts_neg gfe negb andb]; apply IHe|rewrite S, IHe; reflexivity].
  - (* parentheses *) destruct (droppable c (shape e)); [apply IHe|cbn [gfe]; apply IHe].
Qed.
Lemma gfe_cexp m : forall e o, gfe (cexp m o e) = gfe e.
Proof.
  assert (M : forall l, Forall (fun e => forall o, gfe (cexp m o e) = gfe e) l -> forallb gfe (map (cexp m false) l) = forallb gfe l).
  { induction 1 as [|x r Hx Hr IH]; [reflexivity|]. cbn [map forallb]. rewrite Hx, IH. reflexivity. }
  induction e using exp_ind'; intros o; cbn [cexp gfe]; try reflexivity; rewrite ?shape_cexp, ?IHe, ?IHe1, ?IHe2, ?(M _ H); reflexivity.
Qed.
Lemma gfe_ncond e : gfe (ncond e) = true. Proof. rewrite ncond_core. apply gfe_nexp. Qed.
Lemma pall_nexps_true es : pall gfe (nexps es) = true.
Proof. unfold pall, nexps. induction es as [|x r IH]; [reflexivity|]. cbn [map forallb]. rewrite gfe_nexp, IH. reflexivity. Qed.
Theorem guard_free_nblk : forall b, sall_b gfe (nblk b) = true.
Proof.
  assert (HI : forall is, Forall (fun i => sall_i gfe (nitem i) = true) is -> forallb (sall_i gfe) (map nitem is) = true).
  { induction 1 as [|i r Hi Hr IH]; [reflexivity|]. cbn [map forallb]. rewrite Hi, IH. reflexivity. }
  assert (H : forall s, sall_s gfe (nstmt s) = true).
  - apply (stmt_ind' (fun s => sall_s gfe (nstmt s) = true) (fun r => sall_r gfe (nels r) = true) (fun i => sall_i gfe (nitem i) = true) (fun b => sall_b gfe (nblk b) = true));
      intros; try (cbn [nblk sall_b]; apply HI; assumption); cbn [nstmt nels nitem sall_s sall_r sall_i];
      try (match goal with st : option exp |- _ => destruct st; cbn [option_map] end);
      rewrite ?pall_nexps_true, ?gfe_ncond, ?gfe_nexp; cbn [andb];
      repeat (apply andb_true_iff; split); try reflexivity; try assumption.
  - intros [is tl]. cbn [nblk sall_b]. apply HI. apply Forall_forall. intros [l bl s t] _. cbn [nitem sall_i]. apply H.
Qed.
Theorem guard_free_norm0 c p : guard_free (norm0 c p) = true.
Proof.
  unfold guard_free, norm0, cprog, nprog. rewrite (proj2 (sall_smap_eq gfe (cexp (callp0 c) false) (fun e => gfe_cexp _ e false))). apply guard_free_nblk.
Qed.
Theorem norm0_second_pass_is_a_fixed_point c p : norm0 c (norm0 c (norm0 c p)) = norm0 c (norm0 c p).
Proof. apply norm0_idempotent. apply guard_free_norm0. Qed.
Theorem format0_third_pass_changes_nothing c p : format0 c (norm0 c (norm0 c p)) = format0 c (norm0 c p).
Proof. apply format0_of_its_tree. apply guard_free_norm0. Qed.

(* ---------- C02 / C05 for conditions on L0: the layers of parentheses a condition loses cannot matter ---------- *)
Lemma shape_core e : shape (core e) = strip (shape e).
Proof. induction e; try reflexivity. exact IHe. Qed.
Theorem ncond_keeps_the_first_value e : first_value (Sm (shape (ncond e))) = first_value (Sm (shape e)).
Proof. rewrite ncond_core, shape_nexp, shape_core. apply condition_rule_keeps_first_value. Qed.
