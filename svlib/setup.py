"""./sv setup : build everything from files on disk, offline."""
from .core import *

def run():
    t0 = time.time()
    log("setup: harness"); build_harness()
    log("setup: rs2v (coq/gen from /repo's source)"); rs2v()
    log("setup: coq (all theories and props)")
    ok, out = coq_make([])
    if not ok:
        print(out[-5000:]); return 1
    log("setup: extraction + drivers"); build_ml()
    log("setup: stylua CLI"); build_cli()
    bad = grep_forbidden()
    if bad:
        print("\n".join(bad)); return 1
    log("setup done in %.0fs" % (time.time() - t0))
    return 0
