#!/bin/sh
# runs the thorough tier of every property (or the given ones) once; prints one line per property plus alarms
./sv setup >/dev/null 2>&1
[ $# -eq 0 ] && set -- C01 C02 C03 C04 C05 C06 C07 C08 C09 C10 C11 C12 C13 C14 C15 C16 C17 C18 C19 C20
for p in "$@"; do
  ./sv check $p --tier thorough 2>&1 | grep -v "^KNOWN-FINDING" | tail -n 4 | cut -c1-240
done
