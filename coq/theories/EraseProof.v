(* what the semantic erasure (C02) and the census (C03) cannot see: the differences the property allows *)
From Coq Require Import List Ascii String Bool Arith.
Import ListNotations.
From SV Require Import Lex Quote Number Census.

Lemma erase_app d a b : erase d (a ++ b) = erase d a ++ erase d b.
Proof. induction a as [|t r IH]; [reflexivity|]. cbn [app erase]. destruct t; try (rewrite IH; reflexivity). destruct (dropped_sym s); cbn [app]; rewrite IH; reflexivity. Qed.
Definition invisible (t : tok) : bool :=
  match t with TWs _ | TLineCom _ | TBlockCom _ _ | TShebang _ => true | TSym s => dropped_sym s | _ => false end.
(* whitespace, comments, parentheses, semicolons and commas can be added, removed or moved freely *)
Theorem erase_invisible d : forall ts, erase d (filter (fun t => negb (invisible t)) ts) = erase d ts.
Proof.
  induction ts as [|t r IH]; [reflexivity|]. cbn [filter]. destruct t; cbn [invisible negb erase]; try (rewrite IH; reflexivity); try exact IH.
  destruct (dropped_sym s) eqn:D; cbn [negb erase]; [exact IH|]. rewrite D, IH. reflexivity.
Qed.
(* a quoted string may change its quote and its escape spelling, as far as the rewriter goes *)
Theorem erase_rewrite_51 q q' body : str_den D51 q' (Quote.rewrite q body) = str_den D51 q' body \/ q' = QBrackets.
Proof. destruct q'; [left|left|right; reflexivity]; cbn [str_den]; rewrite Quote51.rewrite_decode51; reflexivity. Qed.
(* .5 and 0.5 erase to the same token *)
Theorem erase_number s v : Number.decval s = Some v -> Number.numval (Number.number_rewrite s) = Number.numval s.
Proof. intros H. unfold Number.numval. rewrite (Number.number_rewrite_value s v H), H. reflexivity. Qed.

(* the census sees comments only, in order; nothing else can create or hide one *)
Definition is_comment (t : tok) : bool := match norm_com t with Some _ => true | None => false end.
Theorem census_only_comments : forall ts, census (filter is_comment ts) = census ts.
Proof. induction ts as [|t r IH]; [reflexivity|]. cbn [filter]. unfold is_comment at 1. cbn [census]. destruct (norm_com t) eqn:E; cbn [census]; rewrite ?E, IH; reflexivity. Qed.
Lemma count_com_app c a b : count_com c (a ++ b) = count_com c a + count_com c b.
Proof. unfold count_com. rewrite filter_app, app_length. reflexivity. Qed.
