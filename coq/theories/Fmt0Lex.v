(* C01 on L0: what the whole-formatter model prints lexes back to exactly the tokens it printed.
   The proof goes through the checker of LexAdj.v: every printed token is well formed in itself and compatible with
   the first character of what follows it.  Hypotheses (the wf_ predicates): names are identifiers that are not keywords, numbers
   are decimal with a leading non-zero digit, string bodies are lexable after rewriting, operators are those of
   Lua 5.1, a prefix expression is a name / a parenthesised expression / a chain, no unary minus is applied to
   something that starts with a minus sign (which normalisation guarantees: Fmt0Proof.nexp_no_double_minus), comments
   hold no line break and do not start with `[`; with comments the line ending must be Lex.LF (full_moon makes the Lex.CR of
   a Lex.CR Lex.LF behind a line comment part of the comment, so the token list - not the text - differs). *)
From Coq Require Import List Ascii String Bool Arith Lia.
Import ListNotations.
From SV Require Import Lex LexRender LexSym LexNum LexAdj Expr Quote QuoteMore Number Fmt0 Fmt0Proof.
Notation tok := Lex.tok (only parsing).
Open Scope char_scope.

Section Lexical.
Variable v : ver.
Hypothesis Hjit : vjit v = false.
Variable cf : cfg0.
Notation sty := (style0 cf).
Notation pexp := (Fmt0.pexp cf).
Notation adj_ok := (LexAdj.adj_ok).
Notation wf_tok := (LexAdj.wf_tok v).

(* a line comment the lexer reads back: no line feed inside, not the opening of a long comment, and LF line endings
   (full_moon makes the CR of a CR LF behind a line comment part of the comment) *)
Definition wf_com (x : bytes) : Prop :=
  no_lf x = true /\ (match x with ch :: _ => Lex.eqc ch "[" = false | [] => True end) /\ windows0 cf = false.
(* ---- first characters ---- *)
Definition hd0 (s : bytes) : ascii := match s with c :: _ => c | [] => " " end.
Fixpoint fc (e : exp) : ascii :=
  match e with
  | ENil => "n" | ETrue => "t" | EFalse => "f" | EVararg => "."
  | ENum s => hd0 (Number.number_rewrite s)
  | EStr s => match QuoteMore.choose sty s with QS => "'" | QD => """" end
  | EName n => hd0 n
  | EBrk _ _ => "["
  | EField p _ | EIndex p _ | ECall p _ _ | EMethod p _ _ _ => fc p
  | EUn Neg _ => "-" | EUn Not _ => "n" | EUn Len _ => "#" | EUn BNot _ => "~"
  | EBin _ l _ => fc l
  | EParen _ => "(" | ETable _ | ETableML _ => "{"
  | FPos x => fc x | FNamed n _ => hd0 n | FKey _ _ => "["
  | FLine _ f _ => fc f | FCom _ _ => "n"
  end.
(* the first characters an expression that is not a table field can have *)
Definition good (c : ascii) : bool :=
  Lex.is_ident_start c || Lex.is_digit c || Ascii.eqb c """" || Ascii.eqb c "'" || Ascii.eqb c "(" || Ascii.eqb c "{" || Ascii.eqb c "-" || Ascii.eqb c "#" || Ascii.eqb c ".".
Lemma good_ne c x : good x = false -> good c = true -> Ascii.eqb c x = false.
Proof. intros Hx Hc. destruct (Ascii.eqb c x) eqn:E; [|reflexivity]. apply Ascii.eqb_eq in E. subst. rewrite Hx in Hc. discriminate. Qed.

Definition prefixlike (e : exp) : bool :=
  match e with EName _ | EParen _ | EField _ _ | EIndex _ _ | ECall _ _ _ | EMethod _ _ _ _ => true | _ => false end.
(* fields, and the lines of a table over several lines: what may not stand where a plain expression is expected *)
Definition isfield (e : exp) : bool := match e with FPos _ | FNamed _ _ | FKey _ _ | FLine _ _ _ | FCom _ _ => true | _ => false end.
Notation isline := Fmt0Proof.isline.
Definition wft (t : option bytes) : Prop := match t with Some x => wf_com x | None => True end.
Definition wf_name (n : bytes) : Prop := wf_ident n /\ is_keyword v n = false.
Definition wf_bop (b : bop) : bool :=
  match b with BOr | BXor | BAnd | Shl | Shr | IDiv => false | _ => true end.
Fixpoint wfe (e : exp) : Prop :=
  let all := fix all (l : list exp) (fld : bool) : Prop := match l with [] => True | x :: r => (wfe x /\ isfield x = fld) /\ all r fld end in
  match e with
  | ENil | ETrue | EFalse | EVararg => True
  | ENum s => match s with c0 :: s' => wf_decimal v c0 s' | [] => False end
  | EStr s => forall q, wf_qbody v (qchar q) (Quote.rewrite q s)
  | EName n => wf_name n
  | EBrk _ _ => False                     (* long-bracket strings are outside the lexical theorem (LexAdj has no case for them) *)
  | EField p n => wfe p /\ prefixlike p = true /\ wf_name n
  | EIndex p k => wfe p /\ prefixlike p = true /\ wfe k /\ isfield k = false
  | ECall f sg args => wfe f /\ prefixlike f = true /\ all args false
  | EMethod o m sg args => wfe o /\ prefixlike o = true /\ wf_name m /\ all args false
  | EUn u x => wfe x /\ isfield x = false /\ match u with Neg => Ascii.eqb (fc x) "-" = false | Not | Len => True | BNot => False end
  | EBin b l r => wf_bop b = true /\ wfe l /\ isfield l = false /\ wfe r /\ isfield r = false
  | EParen x => wfe x /\ isfield x = false
  | ETable fs => all fs true /\ forallb (fun x => negb (isline x)) fs = true
  | ETableML fs => all fs true
  | FLine _ f t => wfe f /\ isfield f = true /\ isline f = false /\ wft t
  | FCom _ x => wf_com x
  | FPos x => wfe x /\ isfield x = false
  | FNamed n x => wf_name n /\ wfe x /\ isfield x = false
  | FKey k x => wfe k /\ isfield k = false /\ wfe x /\ isfield x = false
  end.
(* a well-formed expression holds no long-bracket string: the brackets of an index or key never need their blanks *)
Lemma bstr_wfe : forall k, wfe k -> bstr k = false.
Proof.
  induction k; intros W; cbn [bstr]; try reflexivity.
  - destruct W.
  - destruct W as (_ & Wl & _). apply IHk1. exact Wl.
  - destruct W as (Wx & _). apply IHk. exact Wx.
Qed.
Lemma brk_wfe_index d k : wfe k -> brk (bstr k) (pexp d k) = kw "[" :: pexp d k ++ [kw "]"].
Proof. intros W. rewrite (bstr_wfe k W). reflexivity. Qed.
Lemma brk_wfe_key d k rest : wfe k -> brk (bstr k) (pexp d k) ++ rest = kw "[" :: pexp d k ++ kw "]" :: rest.
Proof. intros W. rewrite (bstr_wfe k W). cbn [brk app]. rewrite <- app_assoc. reflexivity. Qed.
Fixpoint wfl (l : list exp) (fld : bool) : Prop := match l with [] => True | x :: r => (wfe x /\ isfield x = fld) /\ wfl r fld end.
Lemma wfl_Forall l fld : wfl l fld -> Forall (fun x => wfe x /\ isfield x = fld) l.
Proof. induction l as [|x r IH]; cbn; [constructor|]. intros [A B]. constructor; [exact A|apply IH; exact B]. Qed.

Lemma wf_name_hd n : wf_name n -> exists c r, n = c :: r /\ Lex.is_ident_start c = true.
Proof. intros [W _]. destruct n as [|c r]; [destruct W|]. exists c, r. split; [reflexivity|apply W]. Qed.
Lemma wf_decimal_digit c0 s' : wf_decimal v c0 s' -> Lex.is_digit c0 = true /\ Ascii.eqb c0 "0" = false.
Proof. intros (A & B & _). auto. Qed.
Lemma number_rewrite_digit c0 s' : Lex.is_digit c0 = true -> Number.number_rewrite (c0 :: s') = c0 :: s'.
Proof.
  intros D. unfold Number.number_rewrite.
  assert (E1 : Quote.eqc c0 "." = false) by (destruct (Quote.eqc c0 ".") eqn:E; [apply Ascii.eqb_eq in E; subst; discriminate|reflexivity]).
  assert (E2 : Quote.eqc c0 "-" = false) by (destruct (Quote.eqc c0 "-") eqn:E; [apply Ascii.eqb_eq in E; subst; discriminate|reflexivity]).
  rewrite E1. destruct s'; [reflexivity|]. rewrite E2. reflexivity.
Qed.

(* the first token of what an expression prints starts with fc, whatever follows *)
Lemma pexp_ne d e : pexp d e <> [].
Proof.
  revert d. induction e; intros d; cbn [Fmt0.pexp]; try discriminate; try (destruct (pexp d e) eqn:E; [exfalso; apply (IHe d); exact E|discriminate]);
    try (destruct (pexp d e1) eqn:E; [exfalso; apply (IHe1 d); exact E|discriminate]); try (unfold brk; destruct (bstr e1); discriminate).
  - destruct u; discriminate.
  - destruct fs; discriminate.
  - destruct fs; discriminate.
Qed.
Lemma nextc_app_ne a b n : a <> [] -> LexAdj.nextc (a ++ b) n = LexAdj.nextc a None.
Proof. destruct a; [contradiction|reflexivity]. Qed.
Lemma nextc_pexp : forall e d nx, wfe e -> LexAdj.nextc (pexp d e) nx = Some (fc e).
Proof.
  induction e; intros d nx W; cbn [Fmt0.pexp fc]; try reflexivity.
  - cbn [wfe] in W. destruct s as [|c0 s']; [contradiction|]. destruct (wf_decimal_digit _ _ W) as [D _].
    rewrite (number_rewrite_digit c0 s' D). reflexivity.
  - unfold pstr. destruct (QuoteMore.choose sty s); reflexivity.
  - destruct (wf_name_hd n W) as (c & r & E & _). subst. reflexivity.
  - destruct W as (W & _). rewrite nextc_app_ne by apply pexp_ne. apply IHe. exact W.
  - destruct W as (W & _). rewrite nextc_app_ne by apply pexp_ne. apply IHe1. exact W.
  - destruct W as (W & _). rewrite nextc_app_ne by apply pexp_ne. apply IHe. exact W.
  - destruct W as (W & _). rewrite nextc_app_ne by apply pexp_ne. apply IHe. exact W.
  - destruct u; reflexivity.
  - destruct W as (_ & W & _). rewrite nextc_app_ne by apply pexp_ne. apply IHe1. exact W.
  - destruct fs; reflexivity.
  - destruct W as (W & _). apply IHe. exact W.
  - destruct W as (W & _). destruct (wf_name_hd n W) as (c & r & E & _). subst. reflexivity.
  - unfold brk. destruct (bstr e1); reflexivity.
  - destruct fs; reflexivity.
  - destruct W as (W & _). apply IHe. exact W.
Qed.
Lemma fc_good : forall e, wfe e -> isfield e = false -> good (fc e) = true.
Proof.
  induction e; intros W F; cbn [fc]; try reflexivity; try discriminate; try (exfalso; exact W).
  - cbn [wfe] in W. destruct s as [|c0 s']; [contradiction|]. destruct (wf_decimal_digit _ _ W) as [D _].
    rewrite (number_rewrite_digit c0 s' D). cbn [hd0]. unfold good. rewrite D. apply orb_true_iff. left. apply orb_true_iff. left. apply orb_true_iff. left.
    apply orb_true_iff. left. apply orb_true_iff. left. apply orb_true_iff. left. apply orb_true_iff. left. apply orb_true_r.
  - destruct (QuoteMore.choose sty s); reflexivity.
  - destruct (wf_name_hd n W) as (c & r & E & I). subst. cbn [hd0]. unfold good. rewrite I. reflexivity.
  - destruct W as (W & P & _). apply IHe; [exact W|]. destruct e; try discriminate; reflexivity.
  - destruct W as (W & P & _). apply IHe1; [exact W|]. destruct e1; try discriminate; reflexivity.
  - destruct W as (W & P & _). apply IHe; [exact W|]. destruct e; try discriminate; reflexivity.
  - destruct W as (W & P & _). apply IHe; [exact W|]. destruct e; try discriminate; reflexivity.
  - destruct W as (_ & _ & W). destruct u; try reflexivity. contradiction.
  - destruct W as (_ & W & Fl & _). apply IHe1; assumption.
Qed.

(* ---- what may follow an expression ---- *)
Definition clo (n : LexAdj.nc) : bool :=
  match n with None => true | Some c => Ascii.eqb c Lex.SP || Ascii.eqb c Lex.CR || Ascii.eqb c Lex.LF || Ascii.eqb c ")" || Ascii.eqb c "," || Ascii.eqb c "]" end.
Definition clop (n : LexAdj.nc) : bool := match n with Some c => Ascii.eqb c "." || Ascii.eqb c ":" || Ascii.eqb c "(" || Ascii.eqb c "[" | None => false end.
Definition okn (e : exp) (n : LexAdj.nc) : bool := clo n || (prefixlike e && clop n).
Ltac cases_of H := repeat (apply orb_true_iff in H; destruct H as [H|H]); apply Ascii.eqb_eq in H; subst.
Lemma clo_word n : clo n = true -> LexAdj.word_follow n = true.
Proof. destruct n as [c|]; [|reflexivity]. cbn. intros H. cases_of H; reflexivity. Qed.
Lemma clop_word n : clop n = true -> LexAdj.word_follow n = true.
Proof. destruct n as [c|]; [|discriminate]. cbn. intros H. cases_of H; reflexivity. Qed.
Lemma okn_word e n : okn e n = true -> LexAdj.word_follow n = true.
Proof. unfold okn. intros H. apply orb_true_iff in H. destruct H as [H|H]; [apply clo_word; exact H|]. apply andb_true_iff in H. apply clop_word. apply H. Qed.
Lemma clo_num n : clo n = true -> match n with Some c => num_stop c | None => true end = true.
Proof. destruct n as [c|]; [|reflexivity]. cbn [clo]. intros H. cases_of H; reflexivity. Qed.
Lemma okn_clo e n : prefixlike e = false -> okn e n = true -> clo n = true.
Proof. unfold okn. intros P H. rewrite P in H. rewrite orb_false_r in H. exact H. Qed.
Lemma okn_of_clo e n : clo n = true -> okn e n = true. Proof. unfold okn. intros H. rewrite H. reflexivity. Qed.
Lemma okn_of_clop e n : prefixlike e = true -> clop n = true -> okn e n = true.
Proof. unfold okn. intros P H. rewrite P, H. apply orb_true_r. Qed.

Definition nb (c : ascii) : bool := negb (blank c) && negb (Ascii.eqb c Lex.LF) && negb (Ascii.eqb c Lex.CR).
Lemma good_nb c : good c = true -> nb c = true.
Proof.
  intros G. unfold nb, blank, Lex.eqc. rewrite (good_ne c Lex.SP), (good_ne c Lex.TAB), (good_ne c Lex.LF), (good_ne c Lex.CR); try reflexivity; exact G.
Qed.
Lemma start_good c : Lex.is_ident_start c = true -> good c = true. Proof. intros H. unfold good. rewrite H. reflexivity. Qed.
Lemma fc_nb_field : forall e, wfe e -> isfield e = true -> isline e = false -> nb (fc e) = true.
Proof.
  intros e W F L. destruct e; try discriminate; cbn [fc].
  - destruct W as [W Fl]. apply good_nb. apply fc_good; assumption.
  - destruct W as (W & _). destruct (wf_name_hd n W) as (c & r & E & I). subst. apply good_nb. apply start_good. exact I.
  - reflexivity.
Qed.
Lemma fc_nb : forall e, wfe e -> nb (fc e) = true.
Proof.
  intros e W. destruct (isfield e) eqn:F; [|apply good_nb; apply fc_good; assumption].
  destruct (isline e) eqn:L; [|apply fc_nb_field; assumption].
  destruct e; try discriminate; cbn [fc]; [|reflexivity]. destruct W as (W & Ff & Lf & _). apply fc_nb_field; assumption.
Qed.
Lemma safe_sp c : nb c = true -> LexAdj.safe sp (Some c) = true.
Proof. intros H. cbn. exact H. Qed.
Lemma safe_kw_word s n : (match str s with c0 :: _ => Lex.is_ident_start c0 | [] => false end) = true -> LexAdj.word_follow n = true -> LexAdj.safe (kw s) n = true.
Proof. unfold kw. cbn [LexAdj.safe]. destruct (str s) as [|c0 r]; [discriminate|]. intros H W. rewrite H. exact W. Qed.

(* ---- every printed token is well formed ---- *)
(* the indentation of a line (an indent width of zero would print an empty whitespace token: excluded) *)
Hypothesis Hwidth : spaces0 cf = true -> width0 cf <> 0.
Lemma wf_eol : wf_tok (eol cf). Proof. unfold eol. destruct (windows0 cf); [right; left; reflexivity|left; reflexivity]. Qed.
Lemma indent_chars d : exists x k, (if spaces0 cf return bytes then repeat Lex.SP (S d * width0 cf) else repeat Lex.TAB (S d)) = x :: k /\ blank x = true /\ forallb blank k = true.
Proof.
  destruct (spaces0 cf) eqn:Sp.
  - destruct (width0 cf) as [|w] eqn:Wd; [exfalso; apply (Hwidth eq_refl); reflexivity|].
    exists Lex.SP, (repeat Lex.SP (w + d * S w)). split; [reflexivity|]. split; [reflexivity|]. apply Fmt0Proof.forallb_repeat. reflexivity.
  - exists Lex.TAB, (repeat Lex.TAB d). split; [reflexivity|]. split; [reflexivity|]. apply Fmt0Proof.forallb_repeat. reflexivity.
Qed.
Lemma wf_indent d : Forall wf_tok (indent cf d).
Proof.
  destruct d as [|d]; [constructor|]. unfold indent. destruct (indent_chars d) as (x & k & EQ & B1 & B2). rewrite EQ.
  constructor; [|constructor]. right. right. split; [discriminate|]. cbn [forallb]. rewrite B1, B2. reflexivity.
Qed.
Lemma wf_kw_word s : wf_ident (str s) -> is_keyword v (str s) = true -> wf_tok (kw s).
Proof. intros W K. unfold kw. cbn [LexAdj.wf_tok]. destruct (str s) as [|c0 r] eqn:E; [destruct W|]. destruct W as [W1 W2]. rewrite W1. split; [split; assumption|exact K]. Qed.
Lemma wf_kw_sym s : (match str s with c0 :: _ => Lex.is_ident_start c0 | [] => true end) = false -> wf_tok (kw s).
Proof. unfold kw. cbn [LexAdj.wf_tok]. destruct (str s) as [|c0 r]; [discriminate|]. intros H. rewrite H. exact I. Qed.
Lemma wf_sp : wf_tok sp. Proof. right. right. split; [discriminate|reflexivity]. Qed.
Lemma wf_ident_tok n : wf_name n -> wf_tok (TIdent n). Proof. intros W. exact W. Qed.
Lemma is_keyword_base s : mem (str s) keywords = true -> is_keyword v (str s) = true.
Proof. intros H. unfold is_keyword. rewrite H. reflexivity. Qed.
Lemma wf_bop_tok b : wf_bop b = true -> wf_tok (kw (bop_text b)).
Proof.
  destruct b; try discriminate; intros _;
    try (apply wf_kw_sym; reflexivity);
    (apply wf_kw_word; [split; reflexivity|apply is_keyword_base; reflexivity]).
Qed.
Lemma wf_commas l : Forall (Forall wf_tok) l -> Forall wf_tok (commas l).
Proof.
  induction 1 as [|x r Hx Hr IH]; [constructor|]. destruct r as [|y r']; [exact Hx|].
  change (commas (x :: y :: r')) with (x ++ kw "," :: sp :: commas (y :: r')).
  apply Forall_app. split; [exact Hx|]. constructor; [apply wf_kw_sym; reflexivity|]. constructor; [apply wf_sp|exact IH].
Qed.
Lemma wf_pargs b xs : Forall wf_tok xs -> Forall wf_tok (pargs cf b xs).
Proof.
  intros H. unfold pargs, gap_call, gap_sugar. destruct b.
  - constructor; [|exact H]. right. right. destruct (CallForm.space_call (space0 cf)); (split; [discriminate|reflexivity]).
  - apply Forall_app. split; [destruct (CallForm.space_call (space0 cf)); [constructor; [apply wf_sp|constructor]|constructor]|].
    constructor; [apply wf_kw_sym; reflexivity|]. apply Forall_app. split; [exact H|constructor; [apply wf_kw_sym; reflexivity|constructor]].
Qed.
Lemma wf_toks_pexp : forall e, wfe e -> forall d, Forall wf_tok (pexp d e).
Proof.
  induction e using exp_ind'; intros W d; cbn [Fmt0.pexp].
  - repeat constructor.
  - repeat constructor.
  - repeat constructor.
  - repeat constructor.
  - cbn [wfe] in W. destruct s as [|c0 s']; [contradiction|]. destruct (wf_decimal_digit _ _ W) as [D _].
    rewrite (number_rewrite_digit c0 s' D). constructor; [exact W|constructor].
  - constructor; [|constructor]. unfold pstr. cbn [wfe] in W. specialize (W (QuoteMore.choose sty s)). destruct (QuoteMore.choose sty s); cbn [qkind_of LexAdj.wf_tok]; (split; [reflexivity|exact W]).
  - constructor; [exact W|constructor].
  - destruct W.
  - destruct W as (W & _ & N). apply Forall_app. split; [apply IHe; exact W|]. constructor; [apply wf_kw_sym; reflexivity|]. constructor; [exact N|constructor].
  - destruct W as (W1 & _ & W2 & _). apply Forall_app. split; [apply IHe1; exact W1|]. rewrite (brk_wfe_index d e2 W2). constructor; [apply wf_kw_sym; reflexivity|].
    apply Forall_app. split; [apply IHe2; exact W2|]. constructor; [apply wf_kw_sym; reflexivity|constructor].
  - destruct W as (W1 & _ & W2). apply Forall_app. split; [apply IHe; exact W1|]. apply wf_pargs.
    apply wf_commas. apply Forall_map. apply wfl_Forall in W2. rewrite Forall_forall in *. intros x Hx. apply H; [exact Hx|]. apply (W2 x Hx).
  - destruct W as (W1 & _ & N & W2). apply Forall_app. split; [apply IHe; exact W1|]. constructor; [apply wf_kw_sym; reflexivity|]. constructor; [exact N|].
    apply wf_pargs.
    apply wf_commas. apply Forall_map. apply wfl_Forall in W2. rewrite Forall_forall in *. intros x Hx. apply H; [exact Hx|]. apply (W2 x Hx).
  - destruct W as (W & _ & U). apply Forall_app. split; [|apply IHe; exact W]. destruct u; cbn [uop_toks]; try contradiction.
    + constructor; [apply wf_kw_sym; reflexivity|constructor].
    + constructor; [apply wf_kw_word; [split; reflexivity|apply is_keyword_base; reflexivity]|]. constructor; [apply wf_sp|constructor].
    + constructor; [apply wf_kw_sym; reflexivity|constructor].
  - destruct W as (B & W1 & _ & W2 & _). apply Forall_app. split; [apply IHe1; exact W1|]. constructor; [apply wf_sp|]. constructor; [apply wf_bop_tok; exact B|].
    constructor; [apply wf_sp|apply IHe2; exact W2].
  - destruct W as (W & _). constructor; [apply wf_kw_sym; reflexivity|]. apply Forall_app. split; [apply IHe; exact W|]. constructor; [apply wf_kw_sym; reflexivity|constructor].
  - destruct fs as [|f fs]; [repeat constructor; apply wf_kw_sym; reflexivity|].
    constructor; [apply wf_kw_sym; reflexivity|]. constructor; [apply wf_sp|]. apply Forall_app. split; [|constructor; [apply wf_sp|constructor; [apply wf_kw_sym; reflexivity|constructor]]].
    apply wf_commas. apply Forall_map. destruct W as [W _]. change (wfl (f :: fs) true) in W. apply wfl_Forall in W. rewrite Forall_forall in *. intros x Hx. apply H; [exact Hx|]. apply (W x Hx).
  - destruct W as (W & _). apply IHe. exact W.
  - destruct W as (N & W & _). constructor; [exact N|]. constructor; [apply wf_sp|]. constructor; [apply wf_kw_sym; reflexivity|]. constructor; [apply wf_sp|apply IHe; exact W].
  - destruct W as (W1 & _ & W2 & _). rewrite (brk_wfe_key d e1 _ W1). constructor; [apply wf_kw_sym; reflexivity|]. apply Forall_app. split; [apply IHe1; exact W1|].
    constructor; [apply wf_kw_sym; reflexivity|]. constructor; [apply wf_sp|]. constructor; [apply wf_kw_sym; reflexivity|]. constructor; [apply wf_sp|apply IHe2; exact W2].
  - (* a table over several lines *) destruct fs as [|f fs]; [repeat constructor; apply wf_kw_sym; reflexivity|].
    change (Forall wf_tok (kw "{" :: eol cf :: Fmt0Proof.tlines cf d (f :: fs) ++ indent cf d ++ [kw "}"])).
    constructor; [apply wf_kw_sym; reflexivity|]. constructor; [apply wf_eol|]. apply Forall_app. split; [|apply Forall_app; split; [apply wf_indent|constructor; [apply wf_kw_sym; reflexivity|constructor]]].
    change (wfl (f :: fs) true) in W. apply wfl_Forall in W. unfold Fmt0Proof.tlines. apply Forall_concat. apply Forall_map. rewrite Forall_forall in *. intros x Hx.
    destruct (W x Hx) as [Wx _]. pose proof (H x Hx Wx (S d)) as Hp.
    assert (B : forall (bl : bool) k, Forall wf_tok k -> Forall wf_tok ((if bl then [eol cf] else []) ++ k)) by (intros bl k Hk; destruct bl; [constructor; [apply wf_eol|exact Hk]|exact Hk]).
    destruct (isline x) eqn:L.
    + destruct x; try discriminate; cbn [Fmt0Proof.tline].
      * (* a field line *) cbn [Fmt0.pexp] in Hp. destruct Wx as (_ & _ & _ & Wt). apply B. apply Forall_app. split; [apply wf_indent|]. apply Forall_app. split; [exact Hp|].
        constructor; [apply wf_kw_sym; reflexivity|]. apply Forall_app. split; [|constructor; [apply wf_eol|constructor]].
        destruct t as [t1|]; [|constructor]. destruct Wt as (A1 & A2 & _). constructor; [apply wf_sp|]. constructor; [split; assumption|constructor].
      * (* a comment line *) destruct Wx as (A1 & A2 & _). apply B. apply Forall_app. split; [apply wf_indent|]. constructor; [split; assumption|]. constructor; [apply wf_eol|constructor].
    + rewrite (Fmt0Proof.tline_plain cf d x L). apply Forall_app. split; [apply wf_indent|]. apply Forall_app. split; [exact Hp|]. constructor; [apply wf_kw_sym; reflexivity|constructor; [apply wf_eol|constructor]].
  - (* a field line outside a table *) destruct W as (W & _). apply IHe. exact W.
  - (* a comment line outside a table *) constructor; [apply wf_kw_word; [split; reflexivity|apply is_keyword_base; reflexivity]|constructor].
Qed.

(* ---- adjacency: every token of an expression is compatible with what follows it ---- *)
Notation safe := LexAdj.safe.
Notation nextc := LexAdj.nextc.
Lemma adj_cons t r n : adj_ok (t :: r) n = safe t (nextc r n) && adj_ok r n. Proof. reflexivity. Qed.
Lemma adj_app a b n : adj_ok (a ++ b) n = adj_ok a (nextc b n) && adj_ok b n. Proof. apply LexAdj.adj_ok_app. Qed.
Definition elem (x : list tok) : Prop :=
  exists c, nb c = true /\ (forall n, nextc x n = Some c) /\ (forall n, clo n = true -> adj_ok x n = true).
Lemma nextc_commas x r n : elem x -> nextc (commas (x :: r)) n = nextc x None.
Proof.
  intros (c & _ & N & _). destruct r as [|y r']; [cbn [commas]; rewrite (N n), (N None); reflexivity|].
  change (commas (x :: y :: r')) with (x ++ kw "," :: sp :: commas (y :: r')).
  destruct x as [|t x']; [specialize (N None); discriminate|reflexivity].
Qed.
Lemma adj_commas l : Forall elem l -> forall m, clo m = true -> adj_ok (commas l) m = true.
Proof.
  induction 1 as [|x r Hx Hr IH]; intros m M; [reflexivity|]. destruct r as [|y r'].
  - cbn [commas]. destruct Hx as (c & _ & _ & A). apply A. exact M.
  - change (commas (x :: y :: r')) with (x ++ kw "," :: sp :: commas (y :: r')).
    rewrite adj_app. apply andb_true_iff. split.
    + destruct Hx as (c & _ & _ & A). apply A. reflexivity.
    + rewrite adj_cons. apply andb_true_iff. split; [reflexivity|]. rewrite adj_cons. apply andb_true_iff. split; [|apply IH; exact M].
      inversion Hr as [|? ? Hy _]; subst. rewrite (nextc_commas y r' m Hy). destruct Hy as (c & B & N & _). rewrite (N None). apply safe_sp. exact B.
Qed.
Lemma start_facts c : Lex.is_ident_start c = true -> Ascii.eqb c "." = false /\ Lex.is_digit c = false /\ Ascii.eqb c ":" = false.
Proof.
  intros H. assert (G := start_good c H). repeat split.
  - destruct (Ascii.eqb c ".") eqn:E; [|reflexivity]. apply Ascii.eqb_eq in E. subst. discriminate.
  - revert H. clear G. destruct c as [[] [] [] [] [] [] [] []]; vm_compute; intros H; try reflexivity; discriminate.
  - destruct (Ascii.eqb c ":") eqn:E; [|reflexivity]. apply Ascii.eqb_eq in E. subst. discriminate.
Qed.

Lemma elem_pexp d a : wfe a -> (forall n, okn a n = true -> adj_ok (pexp d a) n = true) -> elem (pexp d a).
Proof.
  intros W A. exists (fc a). split; [apply fc_nb; exact W|]. split; [intros n; apply nextc_pexp; exact W|].
  intros n C. apply A. apply okn_of_clo. exact C.
Qed.
Lemma good_safe_facts c : good c = true ->
  LexAdj.ne "[" (Some c) = true /\ LexAdj.ne "=" (Some c) = true /\ LexAdj.ne ">" (Some c) = true.
Proof. intros G. unfold LexAdj.ne, Lex.eqc. rewrite (good_ne c "["), (good_ne c "="), (good_ne c ">"); try reflexivity; try exact G. repeat split. Qed.
Lemma safe_bop b : wf_bop b = true -> safe (kw (bop_text b)) (Some Lex.SP) = true.
Proof. destruct b; try discriminate; intros _; reflexivity. Qed.

(* call arguments *)
Lemma nextc_pargs b xs n : nextc (pargs cf b xs) n = Some (if b then Lex.SP else if CallForm.space_call (space0 cf) then Lex.SP else "(").
Proof. unfold pargs, gap_call, gap_sugar. destruct b; [reflexivity|]. destruct (CallForm.space_call (space0 cf)); reflexivity. Qed.
(* a string or a table is compatible with whatever follows it *)
Lemma adj_sugar_indep d x nx nx' : sugarable [x] = true -> adj_ok (pexp d x) nx = adj_ok (pexp d x) nx'.
Proof.
  destruct x; try discriminate; intros _; [reflexivity|reflexivity| |].
  - destruct fs as [|f fs]; [reflexivity|].
    change (pexp d (ETable (f :: fs))) with (kw "{" :: sp :: commas (map (pexp d) (f :: fs)) ++ [sp; kw "}"]).
    rewrite !adj_cons, !adj_app.
    replace (nextc (commas (map (pexp d) (f :: fs)) ++ [sp; kw "}"]) nx) with (nextc (commas (map (pexp d) (f :: fs)) ++ [sp; kw "}"]) nx') by (destruct (commas (map (pexp d) (f :: fs))); reflexivity).
    reflexivity.
  - destruct fs as [|f fs]; [reflexivity|]. rewrite !(Fmt0Proof.p_tableml cf). rewrite !adj_cons, !adj_app.
    replace (nextc (Fmt0Proof.tlines cf d (f :: fs) ++ indent cf d ++ [kw "}"]) nx) with (nextc (Fmt0Proof.tlines cf d (f :: fs) ++ indent cf d ++ [kw "}"]) nx')
      by (destruct (Fmt0Proof.tlines cf d (f :: fs)); [destruct (indent cf d); reflexivity|reflexivity]).
    replace (nextc (indent cf d ++ [kw "}"]) nx) with (nextc (indent cf d ++ [kw "}"]) nx') by (destruct (indent cf d); reflexivity).
    reflexivity.
Qed.
Lemma adj_pargs d sg args nx :
  Forall (fun e => wfe e -> forall d nx, okn e nx = true -> adj_ok (pexp d e) nx = true) args -> wfl args false ->
  adj_ok (pargs cf (sg && sugarable args) (commas (map (pexp d) args))) nx = true.
Proof.
  intros H W2. apply wfl_Forall in W2. rewrite Forall_forall in *.
  assert (E : Forall elem (map (pexp d) args)).
  { apply Forall_map. apply Forall_forall. intros x Hx. apply elem_pexp; [apply (W2 x Hx)|]. intros m M. apply H; [exact Hx|apply (W2 x Hx)|exact M]. }
  unfold pargs. destruct (sg && sugarable args) eqn:S.
  - apply andb_true_iff in S. destruct S as [_ S]. destruct args as [|x [|y r]]; [discriminate| |destruct x; discriminate].
    cbn [map commas]. rewrite adj_cons. assert (Wx : wfe x) by (apply (W2 x); left; reflexivity). apply andb_true_iff. split.
    + rewrite (nextc_pexp x d nx Wx). unfold gap_sugar. assert (B := fc_nb x Wx).
      destruct (CallForm.space_call (space0 cf)); exact B.
    + rewrite (adj_sugar_indep d x nx None S). apply H; [left; reflexivity|exact Wx|reflexivity].
  - unfold gap_call. assert (G : adj_ok (kw "(" :: commas (map (pexp d) args) ++ [kw ")"]) nx = true).
    { rewrite adj_cons. apply andb_true_iff. split; [reflexivity|]. rewrite adj_app. apply andb_true_iff. split; [|reflexivity]. apply adj_commas; [exact E|reflexivity]. }
    destruct (CallForm.space_call (space0 cf)); [|exact G]. cbn [app]. rewrite adj_cons, G. reflexivity.
Qed.

(* ---- good segments: the combinators the multi-line table and the statements are assembled with ---- *)
Definition gs (x : list tok) (n : LexAdj.nc) : Prop := Forall wf_tok x /\ adj_ok x n = true.
Lemma gs_nil n : gs [] n. Proof. split; [constructor|reflexivity]. Qed.
Lemma gs_cons t r n : wf_tok t -> safe t (nextc r n) = true -> gs r n -> gs (t :: r) n.
Proof. intros W S [A B]. split; [constructor; assumption|]. rewrite adj_cons, S, B. reflexivity. Qed.
Lemma gs_app a b n : gs a (nextc b n) -> gs b n -> gs (a ++ b) n.
Proof. intros [A1 A2] [B1 B2]. split; [apply Forall_app; split; assumption|]. rewrite adj_app, A2, B2. reflexivity. Qed.
Definition eolc : ascii := if windows0 cf then Lex.CR else Lex.LF.
Lemma nextc_eol r n : nextc (eol cf :: r) n = Some eolc. Proof. unfold eol, eolc. destruct (windows0 cf); reflexivity. Qed.
Lemma safe_eol n : safe (eol cf) n = true. Proof. unfold eol. destruct (windows0 cf); reflexivity. Qed.
Lemma clo_eolc : clo (Some eolc) = true. Proof. unfold eolc. destruct (windows0 cf); reflexivity. Qed.
Lemma word_eolc : LexAdj.word_follow (Some eolc) = true. Proof. unfold eolc. destruct (windows0 cf); reflexivity. Qed.
Lemma gs_eol r n : gs r n -> gs (eol cf :: r) n.
Proof. intros H. apply gs_cons; [apply wf_eol|apply safe_eol|exact H]. Qed.
(* what may follow a statement on its line: the blank before a trailing comment, or the line ending *)
Definition eolish (n : LexAdj.nc) : bool := match n with Some x => Ascii.eqb x Lex.SP || Ascii.eqb x Lex.CR || Ascii.eqb x Lex.LF | None => false end.
Lemma eolish_clo n : eolish n = true -> clo n = true.
Proof. destruct n as [x|]; [|discriminate]. cbn. intros H. cases_of H; reflexivity. Qed.
Lemma eolish_word n : eolish n = true -> LexAdj.word_follow n = true. Proof. intros H. apply clo_word. apply eolish_clo. exact H. Qed.
Lemma eolish_eolc : eolish (Some eolc) = true. Proof. unfold eolc. destruct (windows0 cf); reflexivity. Qed.

(* keywords *)
Lemma gs_word s r n : wf_tok (kw s) -> (match str s with c0 :: _ => Lex.is_ident_start c0 | [] => false end) = true ->
  LexAdj.word_follow (nextc r n) = true -> gs r n -> gs (kw s :: r) n.
Proof. intros W I F H. apply gs_cons; [exact W|apply safe_kw_word; assumption|exact H]. Qed.
Lemma gs_sp r n : (exists ch, nextc r n = Some ch /\ nb ch = true) -> gs r n -> gs (sp :: r) n.
Proof. intros (ch & E & B) H. apply gs_cons; [apply wf_sp|rewrite E; apply safe_sp; exact B|exact H]. Qed.
Lemma gs_sym s r n : wf_tok (kw s) -> safe (kw s) (nextc r n) = true -> gs r n -> gs (kw s :: r) n.
Proof. intros. apply gs_cons; assumption. Qed.
Lemma gs_com x r n : wf_com x -> nextc r n = Some Lex.LF -> gs r n -> gs (TLineCom x :: r) n.
Proof. intros (A & B & _) E H. apply gs_cons; [split; assumption|rewrite E; reflexivity|exact H]. Qed.
Lemma eol_unix : windows0 cf = false -> forall r n, nextc (eol cf :: r) n = Some Lex.LF.
Proof. intros H r n. unfold eol. rewrite H. reflexivity. Qed.

Lemma blank_nb_follow ch : nb ch = true -> negb (blank ch) && negb (Lex.eqc ch Lex.LF) && negb (Lex.eqc ch Lex.CR) = true.
Proof. intros H. exact H. Qed.
Lemma gs_indent d r n : (exists ch, nextc r n = Some ch /\ nb ch = true) -> gs r n -> gs (indent cf d ++ r) n.
Proof.
  intros (ch & E & B) H. destruct d as [|d]; [exact H|]. unfold indent. cbn [app].
  assert (X : exists x k, (if spaces0 cf return bytes then repeat Lex.SP (S d * width0 cf) else repeat Lex.TAB (S d)) = x :: k /\ blank x = true /\ forallb blank k = true).
  { destruct (spaces0 cf) eqn:Sp.
    - destruct (width0 cf) as [|w] eqn:Wd; [exfalso; apply (Hwidth eq_refl); reflexivity|].
      exists Lex.SP, (repeat Lex.SP (w + d * S w)). split; [reflexivity|]. split; [reflexivity|]. apply Fmt0Proof.forallb_repeat. reflexivity.
    - exists Lex.TAB, (repeat Lex.TAB d). split; [reflexivity|]. split; [reflexivity|]. apply Fmt0Proof.forallb_repeat. reflexivity. }
  destruct X as (x & k & EQ & B1 & B2). rewrite EQ. apply gs_cons; [| |exact H].
  - right. right. split; [discriminate|]. cbn [forallb]. rewrite B1, B2. reflexivity.
  - rewrite E. cbn [safe].
    assert (N1 : beqb (x :: k) [Lex.LF] = false).
    { destruct k; cbn [beqb]; [|apply andb_false_r]. rewrite andb_true_r. unfold blank in B1. destruct (Lex.eqc x Lex.LF) eqn:Q; [|reflexivity]. apply Ascii.eqb_eq in Q. subst x. discriminate. }
    assert (N2 : beqb (x :: k) [Lex.CR; Lex.LF] = false).
    { cbn [beqb]. unfold blank in B1. destruct (Lex.eqc x Lex.CR) eqn:Q; [|reflexivity]. apply Ascii.eqb_eq in Q. subst x. discriminate. }
    rewrite N1, N2. cbn [orb]. exact B.
Qed.


Theorem adj_pexp : forall e, wfe e -> forall d nx, okn e nx = true -> adj_ok (pexp d e) nx = true.
Proof.
  induction e using exp_ind'; intros W d nx K; cbn [Fmt0.pexp].
  - (* nil *) rewrite adj_cons, andb_true_r. apply safe_kw_word; [reflexivity|]. apply (okn_word _ _ K).
  - rewrite adj_cons, andb_true_r. apply safe_kw_word; [reflexivity|]. apply (okn_word _ _ K).
  - rewrite adj_cons, andb_true_r. apply safe_kw_word; [reflexivity|]. apply (okn_word _ _ K).
  - (* ... *) reflexivity.
  - (* number *) rewrite adj_cons, andb_true_r. cbn [safe nextc]. apply clo_num. eapply okn_clo; [|exact K]; reflexivity.
  - (* string *) unfold pstr. reflexivity.
  - (* name *) rewrite adj_cons, andb_true_r. cbn [safe nextc]. apply (okn_word _ _ K).
  - (* long string: outside the premise *) destruct W.
  - (* p.n *) destruct W as (W & P & N). rewrite adj_app. apply andb_true_iff. split.
    + apply IHe; [exact W|]. apply okn_of_clop; [exact P|reflexivity].
    + rewrite adj_cons. apply andb_true_iff. split.
      * destruct (wf_name_hd n N) as (c & r & E & I). subst n. destruct (start_facts c I) as (A & B & _).
        change (LexAdj.dot_follow (Some c) = true). unfold LexAdj.dot_follow, LexAdj.ne, Lex.eqc. cbn beta iota. rewrite A, B. reflexivity.
      * rewrite adj_cons, andb_true_r. cbn [safe nextc]. apply (okn_word _ _ K).
  - (* p[k] *) destruct W as (W1 & P & W2 & F). rewrite (brk_wfe_index d e2 W2). rewrite adj_app. apply andb_true_iff. split.
    + apply IHe1; [exact W1|]. apply okn_of_clop; [exact P|reflexivity].
    + rewrite adj_cons. apply andb_true_iff. split.
      * rewrite nextc_app_ne by apply pexp_ne. rewrite (nextc_pexp e2 d None W2).
        destruct (good_safe_facts _ (fc_good e2 W2 F)) as (A & B & _).
        change (LexAdj.ne "[" (Some (fc e2)) && LexAdj.ne "=" (Some (fc e2)) = true). rewrite A, B. reflexivity.
      * rewrite adj_app. apply andb_true_iff. split; [|reflexivity]. apply IHe2; [exact W2|]. apply okn_of_clo. reflexivity.
  - (* f(args) *) destruct W as (W1 & P & W2). rewrite adj_app. apply andb_true_iff. split.
    + apply IHe; [exact W1|]. rewrite nextc_pargs. destruct (sg && sugarable args); [apply okn_of_clo; reflexivity|].
      destruct (CallForm.space_call (space0 cf)); [apply okn_of_clo; reflexivity|apply okn_of_clop; [exact P|reflexivity]].
    + apply adj_pargs; assumption.
  - (* o:m(args) *) destruct W as (W1 & P & N & W2). rewrite adj_app. apply andb_true_iff. split.
    + apply IHe; [exact W1|]. apply okn_of_clop; [exact P|reflexivity].
    + rewrite adj_cons. apply andb_true_iff. split.
      * destruct (wf_name_hd m N) as (c & r & E & I). subst m. destruct (start_facts c I) as (_ & _ & A).
        change (LexAdj.ne ":" (Some c) = true). unfold LexAdj.ne, Lex.eqc. rewrite A. reflexivity.
      * rewrite adj_cons. apply andb_true_iff. split; [|apply adj_pargs; assumption].
        cbn [safe]. rewrite nextc_pargs. destruct (sg && sugarable args); [reflexivity|]. destruct (CallForm.space_call (space0 cf)); reflexivity.
  - (* unary *) destruct W as (W & F & U). assert (C : clo nx = true) by (eapply okn_clo; [|exact K]; reflexivity).
    rewrite adj_app. apply andb_true_iff. split; [|apply IHe; [exact W|apply okn_of_clo; exact C]].
    rewrite (nextc_pexp e d nx W). destruct u; cbn [uop_toks]; try contradiction.
    + (* minus *) rewrite adj_cons, andb_true_r. destruct (good_safe_facts _ (fc_good e W F)) as (_ & B & D).
      change (LexAdj.ne "-" (Some (fc e)) && LexAdj.ne "=" (Some (fc e)) && LexAdj.ne ">" (Some (fc e)) = true). rewrite B, D.
      unfold LexAdj.ne, Lex.eqc. rewrite U. reflexivity.
    + (* not *) rewrite adj_cons. apply andb_true_iff. split; [reflexivity|]. rewrite adj_cons, andb_true_r. apply safe_sp. apply fc_nb. exact W.
    + (* # *) reflexivity.
  - (* binary *) destruct W as (B & W1 & F1 & W2 & F2). assert (C : clo nx = true) by (eapply okn_clo; [|exact K]; reflexivity).
    rewrite adj_app. apply andb_true_iff. split; [apply IHe1; [exact W1|apply okn_of_clo; reflexivity]|].
    rewrite adj_cons. apply andb_true_iff. split; [destruct b; try discriminate; reflexivity|].
    rewrite adj_cons. apply andb_true_iff. split; [apply safe_bop; exact B|].
    rewrite adj_cons. apply andb_true_iff. split; [rewrite (nextc_pexp e2 d nx W2); apply safe_sp; apply fc_nb; exact W2|].
    apply IHe2; [exact W2|apply okn_of_clo; exact C].
  - (* parens *) destruct W as (W & F). rewrite adj_cons. apply andb_true_iff. split; [reflexivity|].
    rewrite adj_app. apply andb_true_iff. split; [|reflexivity]. apply IHe; [exact W|apply okn_of_clo; reflexivity].
  - (* table *) destruct fs as [|f fs]; [reflexivity|]. destruct W as [W _]. change (wfl (f :: fs) true) in W.
    rewrite adj_cons. apply andb_true_iff. split; [reflexivity|]. rewrite adj_cons. apply wfl_Forall in W.
    assert (E : Forall elem (map (pexp d) (f :: fs))).
    { apply Forall_map. rewrite Forall_forall in *. intros x Hx. apply elem_pexp; [apply (W x Hx)|]. intros m M. apply H; [exact Hx|apply (W x Hx)|exact M]. }
    apply andb_true_iff. split.
    + cbn [map] in E |- *. inversion E as [|? ? Ef _]; subst.
      assert (NE : commas (pexp d f :: map (pexp d) fs) <> []).
      { intros Hc. pose proof (nextc_commas (pexp d f) (map (pexp d) fs) None Ef) as Q. rewrite Hc in Q. destruct Ef as (c & _ & N & _). rewrite (N None) in Q. discriminate. }
      rewrite (nextc_app_ne _ _ nx NE), (nextc_commas (pexp d f) (map (pexp d) fs) None Ef). destruct Ef as (c & B & N & _). rewrite (N None). apply safe_sp. exact B.
    + rewrite adj_app. apply andb_true_iff. split; [apply adj_commas; [exact E|reflexivity]|reflexivity].
  - (* positional field *) destruct W as (W & F). apply IHe; [exact W|]. apply okn_of_clo. eapply okn_clo; [|exact K]; reflexivity.
  - (* named field *) destruct W as (N & W & F). assert (C : clo nx = true) by (eapply okn_clo; [|exact K]; reflexivity).
    rewrite adj_cons. apply andb_true_iff. split; [reflexivity|]. rewrite adj_cons. apply andb_true_iff. split; [reflexivity|].
    rewrite adj_cons. apply andb_true_iff. split; [reflexivity|]. rewrite adj_cons. apply andb_true_iff. split; [rewrite (nextc_pexp e d nx W); apply safe_sp; apply fc_nb; exact W|].
    apply IHe; [exact W|apply okn_of_clo; exact C].
  - (* keyed field *) destruct W as (W1 & F1 & W2 & F2). rewrite (brk_wfe_key d e1 _ W1). assert (C : clo nx = true) by (eapply okn_clo; [|exact K]; reflexivity).
    rewrite adj_cons. apply andb_true_iff. split.
    + rewrite nextc_app_ne by apply pexp_ne. rewrite (nextc_pexp e1 d None W1). destruct (good_safe_facts _ (fc_good e1 W1 F1)) as (A & B & _).
      change (LexAdj.ne "[" (Some (fc e1)) && LexAdj.ne "=" (Some (fc e1)) = true). rewrite A, B. reflexivity.
    + rewrite adj_app. apply andb_true_iff. split; [apply IHe1; [exact W1|apply okn_of_clo; reflexivity]|].
      rewrite adj_cons. apply andb_true_iff. split; [reflexivity|]. rewrite adj_cons. apply andb_true_iff. split; [reflexivity|].
      rewrite adj_cons. apply andb_true_iff. split; [reflexivity|]. rewrite adj_cons. apply andb_true_iff. split; [rewrite (nextc_pexp e2 d nx W2); apply safe_sp; apply fc_nb; exact W2|].
      apply IHe2; [exact W2|apply okn_of_clo; exact C].
  - (* a table over several lines: assembled from good segments *)
    destruct fs as [|f fs]; [reflexivity|]. change (wfl (f :: fs) true) in W. apply wfl_Forall in W.
    change (adj_ok (kw "{" :: eol cf :: Fmt0Proof.tlines cf d (f :: fs) ++ indent cf d ++ [kw "}"]) nx = true).
    assert (L : forall l m, Forall (fun x => wfe x /\ isfield x = true) l -> Forall (fun e => wfe e -> forall d nx, okn e nx = true -> adj_ok (pexp d e) nx = true) l -> gs (Fmt0Proof.tlines cf d l) m).
    { intros l m Wl Hl. unfold Fmt0Proof.tlines. induction Wl as [|x r [Wx _] Wr IH]; [apply gs_nil|]. inversion Hl as [|? ? Hx Hr]; subst. cbn [map List.concat].
      apply gs_app; [|apply IH; exact Hr]. generalize (nextc (List.concat (map (Fmt0Proof.tline cf d) r)) m). intros n0.
      assert (B : forall (bl : bool) k, gs k n0 -> gs ((if bl then [eol cf] else []) ++ k) n0) by (intros bl k Hk; destruct bl; [apply gs_eol; exact Hk|exact Hk]).
      assert (P : forall g k, wfe g -> (forall d, adj_ok (pexp d g) (Some ","%char) = true) -> gs (kw "," :: k) n0 -> gs (indent cf (S d) ++ pexp (S d) g ++ kw "," :: k) n0).
      { intros g k Wg Hg Hk. apply gs_indent.
        - exists (fc g). split; [rewrite nextc_app_ne by apply pexp_ne; apply nextc_pexp; exact Wg|apply fc_nb; exact Wg].
        - apply gs_app; [split; [apply wf_toks_pexp; exact Wg|apply Hg]|exact Hk]. }
      destruct (isline x) eqn:Lx.
      - destruct x; try discriminate; cbn [Fmt0Proof.tline].
        + (* a field line *) pose proof Wx as Wx0. destruct Wx as (Wg & _ & _ & Wt). apply B. apply P; [exact Wg|intros d0; apply (Hx Wx0 d0 (Some ","%char)); reflexivity|].
          apply gs_sym; [apply wf_kw_sym; reflexivity|reflexivity|]. destruct t as [t1|]; cbn [app].
          * apply gs_sp; [eexists; split; reflexivity|]. apply gs_com; [exact Wt|apply eol_unix; apply Wt|]. apply gs_eol. apply gs_nil.
          * apply gs_eol. apply gs_nil.
        + (* a comment line *) apply B. apply gs_indent; [eexists; split; reflexivity|]. cbn [app]. apply gs_com; [exact Wx|apply eol_unix; apply Wx|]. apply gs_eol. apply gs_nil.
      - rewrite (Fmt0Proof.tline_plain cf d x Lx). apply P; [exact Wx|intros d0; apply (Hx Wx d0 (Some ","%char)); reflexivity|].
        apply gs_sym; [apply wf_kw_sym; reflexivity|reflexivity|]. apply gs_eol. apply gs_nil. }
    assert (G : gs (kw "{" :: eol cf :: Fmt0Proof.tlines cf d (f :: fs) ++ indent cf d ++ [kw "}"]) nx); [|exact (proj2 G)].
    apply gs_sym; [apply wf_kw_sym; reflexivity|reflexivity|]. apply gs_eol. apply gs_app; [apply L; assumption|].
    apply gs_indent; [exists "}"%char; split; reflexivity|]. apply gs_sym; [apply wf_kw_sym; reflexivity|reflexivity|apply gs_nil].
  - (* a field line outside a table *) destruct W as (W & _ & _ & _). apply IHe; [exact W|]. apply okn_of_clo. eapply okn_clo; [|exact K]; reflexivity.
  - (* a comment line outside a table *) rewrite adj_cons, andb_true_r. apply safe_kw_word; [reflexivity|]. apply (okn_word _ _ K).
Qed.

(* ================= normalisation preserves well-formedness ================= *)
(* wfe without its condition on the unary minus, plus "every expression root is a tree the parser can return" *)
Fixpoint wfe1 (e : exp) : Prop :=
  let all := fix all (l : list exp) (fld : bool) : Prop := match l with [] => True | x :: r => (wfe1 x /\ isfield x = fld) /\ all r fld end in
  match e with
  | ENil | ETrue | EFalse | EVararg => True
  | ENum s => match s with c0 :: s' => wf_decimal v c0 s' | [] => False end
  | EStr s => forall q, wf_qbody v (qchar q) (Quote.rewrite q s)
  | EName n => wf_name n
  | EBrk _ _ => False
  | EField p n => wfe1 p /\ prefixlike p = true /\ wf_name n
  | EIndex p k => wfe1 p /\ prefixlike p = true /\ wfe1 k /\ isfield k = false
  | ECall f sg args => wfe1 f /\ prefixlike f = true /\ all args false
  | EMethod o m sg args => wfe1 o /\ prefixlike o = true /\ wf_name m /\ all args false
  | EUn u x => wfe1 x /\ isfield x = false /\ can (shape (EUn u x)) = true /\ match u with BNot => False | _ => True end
  | EBin b l r => wf_bop b = true /\ wfe1 l /\ isfield l = false /\ wfe1 r /\ isfield r = false
  | EParen x => wfe1 x /\ isfield x = false
  | ETable fs => all fs true /\ forallb (fun x => negb (isline x)) fs = true
  | ETableML fs => all fs true
  | FLine _ f t => wfe1 f /\ isfield f = true /\ isline f = false /\ wft t
  | FCom _ x => wf_com x
  | FPos x => wfe1 x /\ isfield x = false
  | FNamed n x => wf_name n /\ wfe1 x /\ isfield x = false
  | FKey k x => wfe1 k /\ isfield k = false /\ wfe1 x /\ isfield x = false
  end.
Fixpoint wfl1 (l : list exp) (fld : bool) : Prop := match l with [] => True | x :: r => (wfe1 x /\ isfield x = fld) /\ wfl1 r fld end.
Lemma isfield_nexp e cx : wfe1 e -> isfield (nexp cx e) = isfield e.
Proof.
  revert cx. induction e; intros cx W; cbn [nexp]; try reflexivity.
  destruct W as (W & F). destruct (Parens.droppable cx (shape e)); [|reflexivity]. rewrite (IHe cx W). exact F.
Qed.
Lemma isfield_paren_inner e : isfield e = false -> True. Proof. trivial. Qed.
Lemma prefixlike_nexp e : prefixlike e = true -> prefixlike (nexp Parens.Prefix e) = true.
Proof. destruct e; try discriminate; intros _; cbn [nexp]; try reflexivity. unfold Parens.droppable. cbn. rewrite andb_false_r. reflexivity. Qed.
Lemma prefix_fc p : wfe p -> prefixlike p = true -> Ascii.eqb (fc p) "-" = false.
Proof.
  induction p; intros W P; try discriminate; cbn [fc].
  - destruct (wf_name_hd n W) as (ch & r & E & I). subst n. cbn [hd0]. apply (good_ne ch "-" eq_refl) in I || idtac.
    destruct (Ascii.eqb ch "-") eqn:Q; [|reflexivity]. apply Ascii.eqb_eq in Q. subst ch. discriminate.
  - destruct W as (W & P1 & _). apply IHp; assumption.
  - destruct W as (W & P1 & _). apply IHp1; assumption.
  - destruct W as (W & P1 & _). apply IHp; assumption.
  - destruct W as (W & P1 & _). apply IHp; assumption.
  - reflexivity.
Qed.
Lemma fc_lmost : forall y, wfe y -> isfield y = false -> lmost_neg (shape y) = false -> Ascii.eqb (fc y) "-" = false.
Proof.
  induction y; intros W F L; try discriminate; cbn [fc]; try reflexivity.
  - cbn [wfe] in W. destruct s as [|c0 s']; [contradiction|]. destruct (wf_decimal_digit _ _ W) as [D _]. rewrite (number_rewrite_digit c0 s' D). cbn [hd0].
    destruct (Ascii.eqb c0 "-") eqn:Q; [|reflexivity]. apply Ascii.eqb_eq in Q. subst c0. discriminate.
  - destruct (QuoteMore.choose sty s); reflexivity.
  - apply (prefix_fc (EName n) W eq_refl).
  - apply (prefix_fc (EField y n) W eq_refl).
  - apply (prefix_fc (EIndex y1 y2) W eq_refl).
  - apply (prefix_fc (ECall y sg args) W eq_refl).
  - apply (prefix_fc (EMethod y m sg args) W eq_refl).
  - destruct u; try reflexivity. cbn in L. discriminate.
  - destruct W as (_ & W & Fl & _). cbn [shape lmost_neg] in L. apply IHy1; assumption.
Qed.
Lemma wfe_guard u y : wfe y -> isfield y = false -> (u = Neg -> Parens.starts_neg (shape y) = false -> lmost_neg (shape y) = false) ->
  match u with BNot => False | _ => True end -> wfe (EUn u (guard0 u y)).
Proof.
  intros W F L U. cbn [wfe]. unfold guard0. destruct u; try contradiction.
  - destruct (Parens.starts_neg (shape y)) eqn:S.
    + split; [cbn [wfe]; split; assumption|]. split; reflexivity.
    + split; [exact W|]. split; [exact F|]. apply fc_lmost; [exact W|exact F|]. apply L; reflexivity.
  - split; [exact W|]. split; [exact F|exact I].
  - split; [exact W|]. split; [exact F|exact I].
Qed.
Theorem wfe_nexp : forall e, wfe1 e -> forall cx, wfe (nexp cx e).
Proof.
  induction e using exp_ind'; intros W cx; cbn [nexp]; try exact W.
  - (* field *) destruct W as (W & P & N). cbn [wfe]. split; [apply IHe; exact W|]. split; [apply prefixlike_nexp; exact P|exact N].
  - (* index *) destruct W as (W1 & P & W2 & F). cbn [wfe]. split; [apply IHe1; exact W1|]. split; [apply prefixlike_nexp; exact P|].
    split; [apply IHe2; exact W2|]. rewrite (isfield_nexp _ _ W2). exact F.
  - (* call *) destruct W as (W1 & P & W2). cbn [wfe]. split; [apply IHe; exact W1|]. split; [apply prefixlike_nexp; exact P|].
    change (wfl (map (nexp Parens.Std) args) false). change (wfl1 args false) in W2. clear IHe W1 P. induction args as [|a r IHr]; [exact I|].
    inversion H as [|? ? Ha Hr]; subst. destruct W2 as [[Wa Fa] Wr]. cbn [map wfl]. split; [split; [apply Ha; exact Wa|rewrite (isfield_nexp _ _ Wa); exact Fa]|apply IHr; assumption].
  - (* method *) destruct W as (W1 & P & N & W2). cbn [wfe]. split; [apply IHe; exact W1|]. split; [apply prefixlike_nexp; exact P|]. split; [exact N|].
    change (wfl (map (nexp Parens.Std) args) false). change (wfl1 args false) in W2. clear IHe W1 P. induction args as [|a r IHr]; [exact I|].
    inversion H as [|? ? Ha Hr]; subst. destruct W2 as [[Wa Fa] Wr]. cbn [map wfl]. split; [split; [apply Ha; exact Wa|rewrite (isfield_nexp _ _ Wa); exact Fa]|apply IHr; assumption].
  - (* unary *) destruct W as (W & F & K & U). apply wfe_guard; [apply IHe; exact W|rewrite (isfield_nexp _ _ W); exact F| |exact U].
    intros -> S. pose proof (Fmt0Proof.nexp_no_double_minus (EUn Neg e) cx K) as ND. cbn [nexp shape no_double_minus] in ND.
    rewrite Fmt0Proof.shape_guard in ND. unfold Parens.guard in ND. rewrite S in ND. apply andb_true_iff in ND. destruct ND as [_ ND]. apply negb_true_iff in ND. exact ND.
  - (* binary *) destruct W as (B & W1 & F1 & W2 & F2). cbn [wfe]. split; [exact B|]. split; [apply IHe1; exact W1|]. split; [rewrite (isfield_nexp _ _ W1); exact F1|].
    split; [apply IHe2; exact W2|rewrite (isfield_nexp _ _ W2); exact F2].
  - (* parentheses *) destruct W as (W & F). destruct (Parens.droppable cx (shape e)); [apply IHe; exact W|]. cbn [wfe]. split; [apply IHe; exact W|rewrite (isfield_nexp _ _ W); exact F].
  - (* table *) destruct W as [W Nl]. cbn [wfe]. split.
    + change (wfl (map (nexp Parens.Std) fs) true). change (wfl1 fs true) in W. clear Nl. induction fs as [|a r IHr]; [exact I|].
      inversion H as [|? ? Ha Hr]; subst. destruct W as [[Wa Fa] Wr]. cbn [map wfl]. split; [split; [apply Ha; exact Wa|rewrite (isfield_nexp _ _ Wa); exact Fa]|apply IHr; assumption].
    + clear -Nl. induction fs as [|a r IHr]; [reflexivity|]. cbn [map forallb] in *. apply andb_true_iff in Nl. destruct Nl as [Na Nr].
      apply negb_true_iff in Na. rewrite (Fmt0Proof.isline_nexp a Parens.Std Na), (IHr Nr). reflexivity.
  - destruct W as (W & F). cbn [wfe]. split; [apply IHe; exact W|rewrite (isfield_nexp _ _ W); exact F].
  - destruct W as (N & W & F). cbn [wfe]. split; [exact N|]. split; [apply IHe; exact W|rewrite (isfield_nexp _ _ W); exact F].
  - destruct W as (W1 & F1 & W2 & F2). cbn [wfe]. split; [apply IHe1; exact W1|]. split; [rewrite (isfield_nexp _ _ W1); exact F1|]. split; [apply IHe2; exact W2|rewrite (isfield_nexp _ _ W2); exact F2].
  - (* table over several lines *) change (wfl (map (nexp Parens.Std) fs) true). change (wfl1 fs true) in W. induction fs as [|a r IHr]; [exact I|].
    inversion H as [|? ? Ha Hr]; subst. destruct W as [[Wa Fa] Wr]. cbn [map wfl]. split; [split; [apply Ha; exact Wa|rewrite (isfield_nexp _ _ Wa); exact Fa]|apply IHr; assumption].
  - (* a field line *) destruct W as (W & F & L & T). cbn [wfe]. split; [apply IHe; exact W|]. split; [rewrite (isfield_nexp _ _ W); exact F|]. split; [apply Fmt0Proof.isline_nexp; exact L|exact T].
Qed.

(* ================= statements ================= *)
(* "good segment": its tokens are well formed and each is compatible with what follows, given the first character [n]
   of what follows the segment *)
Lemma gs_pexp d e n : wfe e -> okn e n = true -> gs (pexp d e) n.
Proof. intros W K. split; [apply wf_toks_pexp; exact W|apply adj_pexp; assumption]. Qed.

Notation c := cf (only parsing).
(* lists separated by `, ` *)
Definition elemg (x : list tok) : Prop :=
  exists ch, nb ch = true /\ (forall n, nextc x n = Some ch) /\ (forall n, clo n = true -> gs x n).
Lemma elemg_elem x : elemg x -> elem x.
Proof. intros (ch & B & N & G). exists ch. split; [exact B|]. split; [exact N|]. intros n C. apply (G n C). Qed.
Lemma gs_commas l : Forall elemg l -> forall m, clo m = true -> gs (commas l) m.
Proof.
  intros H m M. split.
  - apply wf_commas. eapply Forall_impl; [|exact H]. intros x (ch & _ & _ & G). apply (G None eq_refl).
  - apply adj_commas; [|exact M]. eapply Forall_impl; [|exact H]. intros x Hx. apply elemg_elem. exact Hx.
Qed.
Lemma nextc_commas_g x r n : elemg x -> exists ch, nextc (commas (x :: r)) n = Some ch /\ nb ch = true.
Proof.
  intros Hx. rewrite (nextc_commas x r n (elemg_elem x Hx)). destruct Hx as (ch & B & N & _). exists ch. split; [apply N|exact B].
Qed.
Lemma elemg_pexp d e : wfe e -> elemg (pexp d e).
Proof.
  intros W. exists (fc e). split; [apply fc_nb; exact W|]. split; [intros n; apply nextc_pexp; exact W|].
  intros n C. apply gs_pexp; [exact W|apply okn_of_clo; exact C].
Qed.
Lemma elemg_name nm : wf_name nm -> elemg [TIdent nm].
Proof.
  intros W. destruct (wf_name_hd nm W) as (ch & r & E & I). exists ch. split; [apply good_nb; apply start_good; exact I|].
  split; [intros n; subst nm; reflexivity|]. intros n C. apply gs_cons; [exact W|apply clo_word; exact C|apply gs_nil].
Qed.
Definition wfes (es : list exp) : Prop := Forall (fun e => wfe e /\ isfield e = false) es.
Lemma gs_pexps d es m : wfes es -> clo m = true -> gs (Fmt0.pexps cf d es) m.
Proof. intros W M. apply gs_commas; [|exact M]. apply Forall_map. eapply Forall_impl; [|exact W]. intros e [We _]. apply elemg_pexp. exact We. Qed.
Lemma gs_pnames ns m : Forall wf_name ns -> clo m = true -> gs (pnames ns) m.
Proof. intros W M. apply gs_commas; [|exact M]. apply Forall_map. eapply Forall_impl; [|exact W]. intros nm. apply elemg_name. Qed.
Lemma first_pexps d e es n : wfe e -> exists ch, nextc (Fmt0.pexps cf d (e :: es)) n = Some ch /\ nb ch = true.
Proof. intros W. unfold Fmt0.pexps. cbn [map]. apply nextc_commas_g. apply elemg_pexp. exact W. Qed.
Lemma first_pnames nm ns n : wf_name nm -> exists ch, nextc (pnames (nm :: ns)) n = Some ch /\ nb ch = true.
Proof. intros W. unfold pnames. cbn [map]. apply nextc_commas_g. apply elemg_name. exact W. Qed.

(* ---- well-formed statements ---- *)
Definition wf_triv (tv : trivia) : Prop := Forall (fun bc : bool * bytes => wf_com (snd bc)) tv.
Definition wfcond (e : exp) : Prop := wfe e /\ isfield e = false.
Fixpoint wfs (s : stmt) : Prop :=
  match s with
  | SLocal ns es => ns <> [] /\ Forall wf_name ns /\ wfes es
  | SAssign vs es => vs <> [] /\ es <> [] /\ wfes vs /\ wfes es
  | SCall e => wfcond e
  | SDo b => wfb b
  | SWhile e b => wfcond e /\ wfb b
  | SRepeat b e => wfb b /\ wfcond e
  | SIf e t r => wfcond e /\ wfb t /\ wfr r
  | SNumFor x a b so body => wf_name x /\ wfcond a /\ wfcond b /\ match so with Some y => wfcond y | None => True end /\ wfb body
  | SGenFor ns es body => ns <> [] /\ Forall wf_name ns /\ es <> [] /\ wfes es /\ wfb body
  | SFunction p m ps va body => p <> [] /\ Forall wf_name p /\ match m with Some y => wf_name y | None => True end /\ Forall wf_name ps /\ wfb body
  | SLocalFunction x ps va body => wf_name x /\ Forall wf_name ps /\ wfb body
  | SReturn es => wfes es
  | SBreak => True
  end
with wfr (r : els) : Prop := match r with NoElse => True | Else b => wfb b | ElseIf e t r2 => wfcond e /\ wfb t /\ wfr r2 end
with wfi (i : item) : Prop :=
  match i with Item l _ s t => wf_triv l /\ wfs s /\ match t with Some x => wf_com x | None => True end end
with wfb (b : blk) : Prop :=
  match b with Blk is tl => (fix all (l : list item) : Prop := match l with [] => True | x :: r => wfi x /\ all r end) is /\ wf_triv tl end.
Fixpoint wfis (l : list item) : Prop := match l with [] => True | x :: r => wfi x /\ wfis r end.
Lemma wfb_eq is tl : wfb (Blk is tl) = (wfis is /\ wf_triv tl). Proof. reflexivity. Qed.

Notation pexps := (Fmt0.pexps cf).
(* the first character of a statement *)
Lemma first_pstmt s d n : wfs s -> exists ch, nextc (pstmt c d s) n = Some ch /\ nb ch = true.
Proof.
  destruct s; intros W; try (eexists; split; [reflexivity|reflexivity]);
    try (rewrite Fmt0Proof.p_if; match goal with |- context [if_guard ?a ?b ?c] => destruct (if_guard a b c) end; try match goal with |- context [nocom ?x] => destruct (nocom x) end; eexists; split; reflexivity).
  - destruct es; eexists; split; reflexivity.
  - cbn [pstmt psimple]. destruct W as (N & _ & W & _). destruct vs as [|x vs]; [contradiction|]. inversion W as [|? ? [Wx _] _]; subst.
    destruct (first_pexps d x vs None Wx) as (ch & E & B). exists ch. split; [|exact B].
    rewrite nextc_app_ne; [exact E|]. intros Q. rewrite Q in E. discriminate.
  - cbn [pstmt psimple]. destruct W as [W _]. exists (fc e). split; [apply nextc_pexp; exact W|apply fc_nb; exact W].
  - destruct es; eexists; split; reflexivity.
Qed.

Ltac wfkw := first [ exact I | (cbn; repeat split; reflexivity) ].
Ltac word := apply gs_word; [wfkw | reflexivity | try reflexivity; try (rewrite nextc_eol; apply word_eolc) | ].
Ltac spc := apply gs_sp; [try (eexists; split; [reflexivity|reflexivity]) | ].
Lemma gs_end d n : eolish n = true -> gs (indent c d ++ [kw "end"]) n.
Proof.
  intros E. apply gs_indent; [eexists; split; reflexivity|]. apply gs_word; [wfkw|reflexivity|apply eolish_word; exact E|apply gs_nil].
Qed.
Lemma gs_any_then_eol x r n : gs x (Some eolc) -> gs r n -> gs (x ++ eol c :: r) n.
Proof. intros A B. apply gs_app; [rewrite nextc_eol; exact A|apply gs_eol; exact B]. Qed.
Definition Ps (s : stmt) : Prop := wfs s -> forall d n, eolish n = true -> gs (pstmt c d s) n.
Definition Qs (r : els) : Prop := wfr r -> forall d n, gs (pels c d r) n.
Definition Is (i : item) : Prop := wfi i -> forall d n, gs (pitem c d i) n.
Definition Bs (b : blk) : Prop := wfb b -> forall d n, gs (pblk c d b) n.
Lemma gs_block_end b d n : Bs b -> wfb b -> eolish n = true -> gs (pblk c (S d) b ++ indent c d ++ [kw "end"]) n.
Proof. intros H W E. apply gs_app; [apply H; exact W|apply gs_end; exact E]. Qed.
Lemma first_cond d e r n : wfe e -> exists ch, nextc (pexp d e ++ r) n = Some ch /\ nb ch = true.
Proof. intros W. rewrite nextc_app_ne by apply pexp_ne. exists (fc e). split; [apply nextc_pexp; exact W|apply fc_nb; exact W]. Qed.
Lemma gs_ptrivia d tv r n : wf_triv tv -> gs r n -> gs (ptrivia c d tv ++ r) n.
Proof.
  unfold ptrivia. induction 1 as [|[b x] k Hx Hk IH]; intros H; [exact H|]. cbn [map List.concat fst snd]. rewrite <- !app_assoc.
  assert (G : gs (indent c d ++ [TLineCom x; eol c] ++ List.concat (map (fun bc : bool * bytes => (if fst bc then [eol c] else []) ++ indent c d ++ [TLineCom (snd bc); eol c]) k) ++ r) n).
  { apply gs_indent; [eexists; split; reflexivity|]. cbn [app]. cbn [snd] in Hx. apply gs_com; [exact Hx|apply eol_unix; apply Hx|]. apply gs_eol. apply IH. exact H. }
  destruct b; [cbn [app]; apply gs_eol; exact G|exact G].
Qed.

Lemma gs_items is : Forall Is is -> wfis is -> forall d n, gs (List.concat (map (pitem c d) is)) n.
Proof.
  induction 1 as [|i r Hi Hr IH]; intros W d n; [apply gs_nil|]. destruct W as [W1 W2]. cbn [map List.concat].
  apply gs_app; [apply Hi; exact W1|apply IH; exact W2].
Qed.
(* the statements without a block inside, as the collapsed forms print them *)
Lemma gs_psimple d s n : wfs s -> simple_stmt s = true -> eolish n = true -> gs (psimple c d s) n.
Proof.
  intros H S H0. destruct s; try discriminate; cbn [wfs] in H.
  - (* local *) destruct H as (N & Wn & We). destruct ns as [|x ns']; [contradiction|]. inversion Wn as [|? ? Wx _]; subst.
    destruct es as [|e es']; cbn [psimple]; idtac.
    + word. apply gs_sp; [destruct (first_pnames x ns' n Wx) as (ch & E & B); exists ch; split; assumption|]. apply gs_pnames; [exact Wn|apply eolish_clo; exact H0].
    + inversion We as [|? ? [Wee _] _]; subst. word. apply gs_sp; [destruct (first_pnames x ns' None Wx) as (ch & E & B); exists ch; split; [|exact B]; rewrite nextc_app_ne; [exact E|intros Q; rewrite Q in E; discriminate]|].
      apply gs_app; [apply gs_pnames; [exact Wn|reflexivity]|]. spc. apply gs_sym; [wfkw|reflexivity|]. apply gs_sp; [apply (first_pexps d e es' n Wee)|]. apply gs_pexps; [exact We|apply eolish_clo; exact H0].
  - (* assignment *) destruct H as (N1 & N2 & Wv & We). cbn [psimple]. destruct es as [|e es']; [contradiction|]. inversion We as [|? ? [Wee _] _]; subst.
    apply gs_app; [apply gs_pexps; [exact Wv|reflexivity]|]. spc. apply gs_sym; [wfkw|reflexivity|]. apply gs_sp; [apply (first_pexps d e es' n Wee)|]. apply gs_pexps; [exact We|apply eolish_clo; exact H0].
  - (* call *) destruct H as [W _]. cbn [psimple]. apply gs_pexp; [exact W|apply okn_of_clo; apply eolish_clo; exact H0].
  - (* return *) destruct es as [|e es']; cbn [psimple]; idtac.
    + apply gs_word; [wfkw|reflexivity|apply eolish_word; exact H0|apply gs_nil].
    + inversion H as [|? ? [Wee _] _]; subst. word. apply gs_sp; [apply (first_pexps d e es' n Wee)|]. apply gs_pexps; [exact H|apply eolish_clo; exact H0].
  - (* break *) cbn [psimple]. apply gs_word; [wfkw|reflexivity|apply eolish_word; exact H0|apply gs_nil].
Qed.
Lemma pstmt_simple s d : simple_stmt s = true -> pstmt c d s = psimple c d s.
Proof. destruct s; try discriminate; reflexivity. Qed.
Lemma simple_blk_wfs b s1 : simple_blk b = Some s1 -> wfb b -> wfs s1 /\ simple_stmt s1 = true.
Proof.
  destruct b as [is tl]. destruct is as [|[l bl s t] [|i2 r]]; try discriminate; cbn [simple_blk].
  - destruct l; [|discriminate]. destruct t; [discriminate|]. destruct tl; [|discriminate]. destruct (simple_stmt s) eqn:S; [|discriminate].
    intros E W. injection E as <-. rewrite wfb_eq in W. destruct W as [[(_ & W & _) _] _]. split; [exact W|exact S].
  - destruct l; [|discriminate]. destruct t; discriminate.
Qed.
(* ` <statement> end` behind `then` or a function header *)
Lemma gs_collapsed d s1 n : wfs s1 -> simple_stmt s1 = true -> eolish n = true -> gs (sp :: psimple c d s1 ++ [sp; kw "end"]) n.
Proof.
  intros W S E. apply gs_sp.
  - destruct (first_pstmt s1 d None W) as (ch & E1 & B). rewrite (pstmt_simple s1 d S) in E1. exists ch. split; [|exact B].
    rewrite nextc_app_ne; [exact E1|intros Q; rewrite Q in E1; discriminate].
  - apply gs_app; [apply gs_psimple; [exact W|exact S|reflexivity]|]. spc. apply gs_word; [wfkw|reflexivity|apply eolish_word; exact E|apply gs_nil].
Qed.
Lemma gs_fbody b d n : Bs b -> wfb b -> eolish n = true -> gs (Fmt0Proof.fbody c d b) n.
Proof.
  intros H W E. unfold Fmt0Proof.fbody. destruct (blk_empty b).
  - spc. apply gs_word; [wfkw|reflexivity|apply eolish_word; exact E|apply gs_nil].
  - destruct (fun_guard c b) as [s1|] eqn:G.
    + destruct (oneline (psimple c d s1) && nocom (psimple c d s1)); [|apply gs_eol; apply gs_block_end; assumption].
      unfold fun_guard in G. destruct (collapse_fun (collapse0 c)); [|discriminate]. destruct (simple_blk_wfs b s1 G W) as [W1 S1]. apply gs_collapsed; assumption.
    + apply gs_eol. apply gs_block_end; assumption.
Qed.
Lemma nextc_pparams ps va r n : exists ch, nextc (pparams c ps va ++ r) n = Some ch /\ LexAdj.word_follow (Some ch) = true.
Proof. unfold pparams. destruct (CallForm.space_definition (space0 c)); eexists; split; reflexivity. Qed.
Lemma gs_pparams ps va r n : Forall wf_name ps -> gs r n -> gs (pparams c ps va ++ r) n.
Proof.
  intros W H. unfold pparams.
  assert (G : gs (kw "(" :: (commas (map (fun n0 => [TIdent n0]) ps ++ (if va then [[kw "..."]] else [])) ++ [kw ")"]) ++ r) n); [|destruct (CallForm.space_definition (space0 c)); cbn [app]; [apply gs_sp; [eexists; split; reflexivity|exact G]|exact G]].
  apply gs_sym; [wfkw|reflexivity|]. rewrite <- app_assoc. apply gs_app; [|cbn [app]; apply gs_sym; [wfkw|reflexivity|exact H]].
  cbn [app nextc]. apply gs_commas; [|reflexivity]. apply Forall_app. split; [apply Forall_map; eapply Forall_impl; [|exact W]; intros nm; apply elemg_name|].
  destruct va; [|constructor]. constructor; [|constructor]. exists ".". split; [reflexivity|]. split; [reflexivity|]. intros m _. apply gs_sym; [wfkw|reflexivity|apply gs_nil].
Qed.
Lemma gs_dotted p r n : Forall wf_name p -> p <> [] -> (exists ch, nextc r n = Some ch /\ LexAdj.word_follow (Some ch) = true) -> gs r n -> gs (dotted p ++ r) n.
Proof.
  intros W N (ch & E & F) H. induction p as [|x k IH]; [contradiction|]. inversion W as [|? ? Wx Wk]; subst. destruct k as [|y k'].
  - cbn [dotted app]. apply gs_cons; [exact Wx|rewrite E; exact F|exact H].
  - change (dotted (x :: y :: k')) with (TIdent x :: kw "." :: dotted (y :: k')). cbn [app].
    apply gs_cons; [exact Wx|reflexivity|]. apply gs_sym; [wfkw| |apply IH; [exact Wk|discriminate]].
    inversion Wk as [|? ? Wy _]; subst. destruct (wf_name_hd y Wy) as (cy & ry & Ey & Iy). subst y. destruct (start_facts cy Iy) as (A & B & _).
    destruct k'; cbn [dotted app nextc LexAdj.fct show LexAdj.hdc]; change (LexAdj.dot_follow (Some cy) = true); unfold LexAdj.dot_follow, LexAdj.ne, Lex.eqc; cbn beta iota; rewrite A, B; reflexivity.
Qed.

Theorem gs_all : (forall s, Ps s) /\ (forall b, Bs b).
Proof.
  assert (Hitem : forall l bl s t, Ps s -> Is (Item l bl s t)).
  { intros l bl s t H (W1 & W2 & W3) d n. rewrite Fmt0Proof.p_item. apply gs_ptrivia; [exact W1|].
    assert (G : gs (indent c d ++ pstmt c d s ++ ptrail t ++ [eol c]) n).
    { apply gs_indent; [destruct (first_pstmt s d None W2) as (ch & E & B); exists ch; split; [|exact B]; rewrite nextc_app_ne; [exact E|intros Q; rewrite Q in E; discriminate]|].
      destruct t as [x|]; cbn [ptrail app].
      - apply gs_app; [apply H; [exact W2|reflexivity]|]. spc. apply gs_com; [exact W3|apply eol_unix; apply W3|]. apply gs_eol. apply gs_nil.
      - apply gs_app; [apply H; [exact W2|rewrite nextc_eol; apply eolish_eolc]|]. apply gs_eol. apply gs_nil. }
    destruct bl; [cbn [app]; apply gs_eol; exact G|exact G]. }
  assert (Hblk : forall is tl, Forall Is is -> Bs (Blk is tl)).
  { intros is tl H W d n. rewrite wfb_eq in W. destruct W as [W1 W2]. rewrite Fmt0Proof.p_blk. apply gs_app; [apply gs_items; assumption|].
    rewrite <- (app_nil_r (ptrivia c d tl)). apply gs_ptrivia; [exact W2|apply gs_nil]. }
  assert (H : forall s, Ps s); [|split; [exact H|]].
  - apply (stmt_ind' Ps Qs Is Bs); unfold Ps, Qs, Bs; intros; try (apply Hitem; assumption); try (apply Hblk; assumption).
    + (* local *) destruct H as (N & Wn & We). destruct ns as [|x ns']; [contradiction|]. inversion Wn as [|? ? Wx _]; subst.
      destruct es as [|e es']; cbn [pstmt psimple]; idtac.
      * word. apply gs_sp; [destruct (first_pnames x ns' n Wx) as (ch & E & B); exists ch; split; assumption|]. apply gs_pnames; [exact Wn|apply eolish_clo; exact H0].
      * inversion We as [|? ? [Wee _] _]; subst. word. apply gs_sp; [destruct (first_pnames x ns' None Wx) as (ch & E & B); exists ch; split; [|exact B]; rewrite nextc_app_ne; [exact E|intros Q; rewrite Q in E; discriminate]|].
        apply gs_app; [apply gs_pnames; [exact Wn|reflexivity]|]. spc. apply gs_sym; [wfkw|reflexivity|]. apply gs_sp; [apply (first_pexps d e es' n Wee)|]. apply gs_pexps; [exact We|apply eolish_clo; exact H0].
    + (* assignment *) destruct H as (N1 & N2 & Wv & We). cbn [pstmt psimple]. destruct es as [|e es']; [contradiction|]. inversion We as [|? ? [Wee _] _]; subst.
      apply gs_app; [apply gs_pexps; [exact Wv|reflexivity]|]. spc. apply gs_sym; [wfkw|reflexivity|]. apply gs_sp; [apply (first_pexps d e es' n Wee)|]. apply gs_pexps; [exact We|apply eolish_clo; exact H0].
    + (* call *) destruct H as [W _]. cbn [pstmt psimple]. apply gs_pexp; [exact W|apply okn_of_clo; apply eolish_clo; exact H0].
    + (* do *) rewrite Fmt0Proof.p_do. word. apply gs_eol. apply gs_block_end; assumption.
    + (* while *) destruct H0 as [[We _] Wb]. rewrite Fmt0Proof.p_while. word. apply gs_sp; [apply first_cond; exact We|].
      apply gs_app; [apply gs_pexp; [exact We|apply okn_of_clo; reflexivity]|]. spc. word. apply gs_eol. apply gs_block_end; assumption.
    + (* repeat *) destruct H0 as [Wb [We _]]. rewrite Fmt0Proof.p_repeat. word. apply gs_eol. apply gs_app; [apply H; exact Wb|].
      apply gs_indent; [eexists; split; reflexivity|]. word. apply gs_sp; [exists (fc e); split; [apply nextc_pexp; exact We|apply fc_nb; exact We]|].
      apply gs_pexp; [exact We|apply okn_of_clo; apply eolish_clo; exact H1].
    + (* if *) destruct H1 as ([We _] & Wt & Wr). rewrite Fmt0Proof.p_if.
      assert (N : gs (kw "if" :: sp :: pexp d e ++ sp :: kw "then" :: eol c :: pblk c (S d) t ++ pels c d r ++ indent c d ++ [kw "end"]) n).
      { word. apply gs_sp; [apply first_cond; exact We|].
        apply gs_app; [apply gs_pexp; [exact We|apply okn_of_clo; reflexivity]|]. spc. word. apply gs_eol. apply gs_app; [apply H; exact Wt|].
        apply gs_app; [apply H0; exact Wr|]. apply gs_end. exact H2. }
      destruct (if_guard c t r) as [s1|] eqn:G; [destruct (nocom (psimple c d s1)); [|exact N]|exact N].
      unfold if_guard in G. destruct (collapse_if (collapse0 c)); [|discriminate]. destruct r; try discriminate. destruct (simple_blk_wfs t s1 G Wt) as [W1 S1].
      word. apply gs_sp; [apply first_cond; exact We|]. apply gs_app; [apply gs_pexp; [exact We|apply okn_of_clo; reflexivity]|]. spc. word.
      apply gs_collapsed; assumption.
    + (* numeric for *) destruct H0 as (Wx & [Wa _] & [Wb _] & Wst & Wbody). rewrite Fmt0Proof.p_numfor. word.
      apply gs_sp; [destruct (wf_name_hd _ Wx) as (cx & rx & Ex & Ix); rewrite Ex; eexists; split; [reflexivity|apply good_nb; apply start_good; exact Ix]|].
      apply gs_cons; [exact Wx|reflexivity|]. spc. apply gs_sym; [wfkw|reflexivity|]. apply gs_sp; [apply first_cond; exact Wa|].
      apply gs_app; [apply gs_pexp; [exact Wa|apply okn_of_clo; reflexivity]|]. apply gs_sym; [wfkw|reflexivity|]. apply gs_sp; [apply first_cond; exact Wb|].
      assert (T : gs (sp :: kw "do" :: eol c :: pblk c (S d) body ++ indent c d ++ [kw "end"]) n) by (spc; word; apply gs_eol; apply gs_block_end; assumption).
      destruct st as [y|]; cbn [app].
      * destruct Wst as [Wy _]. apply gs_app; [apply gs_pexp; [exact Wb|apply okn_of_clo; reflexivity]|]. apply gs_sym; [wfkw|reflexivity|]. apply gs_sp; [apply first_cond; exact Wy|].
        apply gs_app; [apply gs_pexp; [exact Wy|apply okn_of_clo; reflexivity]|exact T].
      * apply gs_app; [apply gs_pexp; [exact Wb|apply okn_of_clo; reflexivity]|exact T].
    + (* generic for *) destruct H0 as (N1 & Wn & N2 & We & Wbody). rewrite Fmt0Proof.p_genfor. destruct ns as [|x ns']; [contradiction|]. inversion Wn as [|? ? Wx _]; subst.
      destruct es as [|e es']; [contradiction|]. inversion We as [|? ? [Wee _] _]; subst.
      word. apply gs_sp; [destruct (first_pnames x ns' None Wx) as (ch & E & B); exists ch; split; [|exact B]; rewrite nextc_app_ne; [exact E|intros Q; rewrite Q in E; discriminate]|].
      apply gs_app; [apply gs_pnames; [exact Wn|reflexivity]|]. spc. word.
      apply gs_sp; [destruct (first_pexps d e es' None Wee) as (ch & E & B); exists ch; split; [|exact B]; rewrite nextc_app_ne; [exact E|intros Q; rewrite Q in E; discriminate]|].
      apply gs_app; [apply gs_pexps; [exact We|reflexivity]|]. spc. word. apply gs_eol. apply gs_block_end; assumption.
    + (* function *) destruct H0 as (N & Wp & Wm & Wps & Wbody). rewrite Fmt0Proof.p_function. word.
      assert (T : gs (pparams c ps va ++ Fmt0Proof.fbody c d body) n) by (apply gs_pparams; [exact Wps|apply gs_fbody; assumption]).
      apply gs_sp; [destruct p as [|x p']; [contradiction|]; inversion Wp as [|? ? Wx _]; subst; destruct (wf_name_hd x Wx) as (cx & rx & Ex & Ix); subst x;
                     exists cx; split; [destruct p'; reflexivity|apply good_nb; apply start_good; exact Ix]|].
      destruct m as [y|].
      * apply gs_dotted; [exact Wp|exact N|eexists; split; reflexivity|]. cbn [app].
        destruct (wf_name_hd y Wm) as (cy & ry & Ey & Iy). subst y. destruct (start_facts cy Iy) as (_ & _ & A).
        apply gs_sym; [wfkw|change (LexAdj.ne ":" (Some cy) = true); unfold LexAdj.ne, Lex.eqc; rewrite A; reflexivity|].
        apply gs_cons; [exact Wm|destruct (nextc_pparams ps va (Fmt0Proof.fbody c d body) n) as (ch & E1 & E2); rewrite E1; exact E2|exact T].
      * cbn [app]. apply gs_dotted; [exact Wp|exact N|apply nextc_pparams|exact T].
    + (* local function *) destruct H0 as (Wx & Wps & Wbody). rewrite Fmt0Proof.p_localfunction. word. spc. word.
      apply gs_sp; [destruct (wf_name_hd _ Wx) as (cx & rx & Ex & Ix); rewrite Ex; eexists; split; [reflexivity|apply good_nb; apply start_good; exact Ix]|].
      apply gs_cons; [exact Wx|destruct (nextc_pparams ps va (Fmt0Proof.fbody c d body) n0) as (ch & E1 & E2); rewrite E1; exact E2|]. apply gs_pparams; [exact Wps|apply gs_fbody; assumption].
    + (* return *) destruct es as [|e es']; cbn [pstmt psimple]; idtac.
      * apply gs_word; [wfkw|reflexivity|apply eolish_word; exact H0|apply gs_nil].
      * inversion H as [|? ? [Wee _] _]; subst. word. apply gs_sp; [apply (first_pexps d e es' n Wee)|]. apply gs_pexps; [exact H|apply eolish_clo; exact H0].
    + (* break *) cbn [pstmt psimple]. apply gs_word; [wfkw|reflexivity|apply eolish_word; exact H0|apply gs_nil].
    + (* no else *) apply gs_nil.
    + (* else *) rewrite Fmt0Proof.p_else. apply gs_indent; [eexists; split; reflexivity|]. word. apply gs_eol. apply H. exact H0.
    + (* elseif *) destruct H1 as ([We _] & Wt & Wr). rewrite Fmt0Proof.p_elseif. apply gs_indent; [eexists; split; reflexivity|]. word.
      apply gs_sp; [apply first_cond; exact We|]. apply gs_app; [apply gs_pexp; [exact We|apply okn_of_clo; reflexivity]|]. spc. word. apply gs_eol.
      apply gs_app; [apply H; exact Wt|apply H0; exact Wr].
  - intros b. destruct b as [is tl]. apply Hblk. apply Forall_forall. intros i _. destruct i as [l bl s t]. apply Hitem. apply H.
Qed.

(* C01 on L0: the printed text lexes back to the printed tokens *)
Theorem pprog_relexes p : wfb p ->
  lex_loop v (S (List.length (render (pprog c p)))) (render (pprog c p)) = Some (pprog c p).
Proof.
  intros W. destruct (proj2 gs_all p W 0 None) as [A B]. apply (LexAdj.adj_relex v Hjit); assumption.
Qed.

(* ---- normalisation preserves the well-formedness of programs: the lexical theorem applies to what format0 prints ---- *)
Definition wfes1 (es : list exp) : Prop := Forall (fun e => wfe1 e /\ isfield e = false) es.
Definition wfcond1 (e : exp) : Prop := wfe1 e /\ isfield e = false.
Fixpoint wfs1 (s : stmt) : Prop :=
  match s with
  | SLocal ns es => ns <> [] /\ Forall wf_name ns /\ wfes1 es
  | SAssign vs es => vs <> [] /\ es <> [] /\ wfes1 vs /\ wfes1 es
  | SCall e => wfcond1 e
  | SDo b => wfb1 b
  | SWhile e b => wfcond1 e /\ wfb1 b
  | SRepeat b e => wfb1 b /\ wfcond1 e
  | SIf e t r => wfcond1 e /\ wfb1 t /\ wfr1 r
  | SNumFor x a b so body => wf_name x /\ wfcond1 a /\ wfcond1 b /\ match so with Some y => wfcond1 y | None => True end /\ wfb1 body
  | SGenFor ns es body => ns <> [] /\ Forall wf_name ns /\ es <> [] /\ wfes1 es /\ wfb1 body
  | SFunction p m ps va body => p <> [] /\ Forall wf_name p /\ match m with Some y => wf_name y | None => True end /\ Forall wf_name ps /\ wfb1 body
  | SLocalFunction x ps va body => wf_name x /\ Forall wf_name ps /\ wfb1 body
  | SReturn es => wfes1 es
  | SBreak => True
  end
with wfr1 (r : els) : Prop := match r with NoElse => True | Else b => wfb1 b | ElseIf e t r2 => wfcond1 e /\ wfb1 t /\ wfr1 r2 end
with wfi1 (i : item) : Prop :=
  match i with Item l _ s t => wf_triv l /\ wfs1 s /\ match t with Some x => wf_com x | None => True end end
with wfb1 (b : blk) : Prop :=
  match b with Blk is tl => (fix all (l : list item) : Prop := match l with [] => True | x :: r => wfi1 x /\ all r end) is /\ wf_triv tl end.
Fixpoint wfis1 (l : list item) : Prop := match l with [] => True | x :: r => wfi1 x /\ wfis1 r end.
Lemma wfes_nexps es : wfes1 es -> wfes (nexps es).
Proof.
  unfold wfes1, wfes, nexps. intros H. apply Forall_map. eapply Forall_impl; [|exact H]. intros e [W F]. split; [apply wfe_nexp; exact W|rewrite (isfield_nexp _ _ W); exact F].
Qed.
Lemma nexps_ne es : es <> [] -> nexps es <> []. Proof. destruct es; [contradiction|discriminate]. Qed.
Lemma wfcond_nexp e : wfcond1 e -> wfcond (nexp Parens.Std e).
Proof. intros [W F]. split; [apply wfe_nexp; exact W|rewrite (isfield_nexp _ _ W); exact F]. Qed.
Lemma wfcond_ncond e : wfcond1 e -> wfcond (ncond e).
Proof.
  induction e; intros [W F]; try (apply wfcond_nexp; split; assumption).
  cbn [ncond]. destruct W as [W Fx]. apply IHe. split; assumption.
Qed.
Theorem wfb_nblk : (forall s, wfs1 s -> wfs (nstmt s)) /\ (forall b, wfb1 b -> wfb (nblk b)).
Proof.
  assert (HI : forall is, Forall (fun i => wfi1 i -> wfi (nitem i)) is -> wfis1 is -> wfis (map nitem is)).
  { induction 1 as [|i r Hi Hr IH]; intros W; [exact I|]. destruct W as [W1 W2]. cbn [map wfis]. split; [apply Hi; exact W1|apply IH; exact W2]. }
  assert (H : forall s, wfs1 s -> wfs (nstmt s)).
  - apply (stmt_ind' (fun s => wfs1 s -> wfs (nstmt s)) (fun r => wfr1 r -> wfr (nels r)) (fun i => wfi1 i -> wfi (nitem i)) (fun b => wfb1 b -> wfb (nblk b))); intros; cbn [nstmt nels nitem nblk wfs wfr wfi] in *.
    + destruct H as (A & B & C). split; [exact A|]. split; [exact B|apply wfes_nexps; exact C].
    + destruct H as (A & B & C & D). split; [apply nexps_ne; exact A|]. split; [apply nexps_ne; exact B|]. split; apply wfes_nexps; assumption.
    + apply wfcond_nexp. exact H.
    + apply H. exact H0.
    + destruct H0 as [A B]. split; [apply wfcond_ncond; exact A|apply H; exact B].
    + destruct H0 as [A B]. split; [apply H; exact A|apply wfcond_ncond; exact B].
    + destruct H1 as (A & B & C). split; [apply wfcond_ncond; exact A|]. split; [apply H; exact B|apply H0; exact C].
    + destruct H0 as (A & B & C & D & E). split; [exact A|]. split; [apply wfcond_nexp; exact B|]. split; [apply wfcond_nexp; exact C|].
      split; [destruct st; cbn [option_map]; [apply wfcond_nexp; exact D|exact I]|apply H; exact E].
    + destruct H0 as (A & B & C & D & E). split; [exact A|]. split; [exact B|]. split; [apply nexps_ne; exact C|]. split; [apply wfes_nexps; exact D|apply H; exact E].
    + destruct H0 as (A & B & C & D & E). split; [exact A|]. split; [exact B|]. split; [exact C|]. split; [exact D|apply H; exact E].
    + destruct H0 as (A & B & C). split; [exact A|]. split; [exact B|apply H; exact C].
    + apply wfes_nexps. exact H.
    + exact I.
    + exact I.
    + apply H. exact H0.
    + destruct H1 as (A & B & C). split; [apply wfcond_ncond; exact A|]. split; [apply H; exact B|apply H0; exact C].
    + destruct H0 as (A & B & C). split; [exact A|]. split; [apply H; exact B|exact C].
    + change (wfis1 is /\ wf_triv tl) in H0. destruct H0 as [A B]. change (wfis (map nitem is) /\ wf_triv tl). split; [apply HI; assumption|exact B].
  - split; [exact H|]. intros b. destruct b as [is tl]. intros W. change (wfis1 is /\ wf_triv tl) in W. destruct W as [A B]. cbn [nblk]. change (wfis (map nitem is) /\ wf_triv tl).
    split; [|exact B]. apply HI; [|exact A]. apply Forall_forall. intros i _. destruct i as [l bl s t]. intros (X & Y & Z). cbn [nitem wfi]. split; [exact X|]. split; [apply H; exact Y|exact Z].
Qed.
(* ---- so does any pass that maps well-formed expressions to well-formed expressions of the same kind ... ---- *)
Section SMapWf.
Variable fe : exp -> exp.
Hypothesis Hfe : forall e, wfe e -> wfe (fe e).
Hypothesis Hfld : forall e, isfield (fe e) = isfield e.
Lemma wfes_map es : wfes es -> wfes (map fe es).
Proof. unfold wfes. intros H. apply Forall_map. eapply Forall_impl; [|exact H]. intros e [W F]. split; [apply Hfe; exact W|rewrite Hfld; exact F]. Qed.
Lemma map_ne es : es <> [] -> map fe es <> []. Proof. destruct es; [contradiction|discriminate]. Qed.
Lemma wfcond_fe e : wfcond e -> wfcond (fe e).
Proof. intros [W F]. split; [apply Hfe; exact W|rewrite Hfld; exact F]. Qed.
Theorem wfb_smap : (forall s, wfs s -> wfs (smap_s fe s)) /\ (forall b, wfb b -> wfb (smap_b fe b)).
Proof.
  assert (HI : forall is, Forall (fun i => wfi i -> wfi (smap_i fe i)) is -> wfis is -> wfis (map (smap_i fe) is)).
  { induction 1 as [|i r Hi Hr IH]; intros W; [exact I|]. destruct W as [W1 W2]. cbn [map wfis]. split; [apply Hi; exact W1|apply IH; exact W2]. }
  assert (H : forall s, wfs s -> wfs (smap_s fe s)).
  - apply (stmt_ind' (fun s => wfs s -> wfs (smap_s fe s)) (fun r => wfr r -> wfr (smap_r fe r)) (fun i => wfi i -> wfi (smap_i fe i)) (fun b => wfb b -> wfb (smap_b fe b))); intros; cbn [smap_s smap_r smap_i smap_b wfs wfr wfi] in *.
    + destruct H as (A & B & C). split; [exact A|]. split; [exact B|apply wfes_map; exact C].
    + destruct H as (A & B & C & D). split; [apply map_ne; exact A|]. split; [apply map_ne; exact B|]. split; apply wfes_map; assumption.
    + apply wfcond_fe. exact H.
    + apply H. exact H0.
    + destruct H0 as [A B]. split; [apply wfcond_fe; exact A|apply H; exact B].
    + destruct H0 as [A B]. split; [apply H; exact A|apply wfcond_fe; exact B].
    + destruct H1 as (A & B & C). split; [apply wfcond_fe; exact A|]. split; [apply H; exact B|apply H0; exact C].
    + destruct H0 as (A & B & C & D & E). split; [exact A|]. split; [apply wfcond_fe; exact B|]. split; [apply wfcond_fe; exact C|].
      split; [destruct st; cbn [option_map]; [apply wfcond_fe; exact D|exact I]|apply H; exact E].
    + destruct H0 as (A & B & C & D & E). split; [exact A|]. split; [exact B|]. split; [apply map_ne; exact C|]. split; [apply wfes_map; exact D|apply H; exact E].
    + destruct H0 as (A & B & C & D & E). split; [exact A|]. split; [exact B|]. split; [exact C|]. split; [exact D|apply H; exact E].
    + destruct H0 as (A & B & C). split; [exact A|]. split; [exact B|apply H; exact C].
    + apply wfes_map. exact H.
    + exact I.
    + exact I.
    + apply H. exact H0.
    + destruct H1 as (A & B & C). split; [apply wfcond_fe; exact A|]. split; [apply H; exact B|apply H0; exact C].
    + destruct H0 as (A & B & C). split; [exact A|]. split; [apply H; exact B|exact C].
    + change (wfis is /\ wf_triv tl) in H0. destruct H0 as [A B]. change (wfis (map (smap_i fe) is) /\ wf_triv tl). split; [apply HI; assumption|exact B].
  - split; [exact H|]. intros b. destruct b as [is tl]. intros W. change (wfis is /\ wf_triv tl) in W. destruct W as [A B]. cbn [smap_b]. change (wfis (map (smap_i fe) is) /\ wf_triv tl).
    split; [|exact B]. apply HI; [|exact A]. apply Forall_forall. intros i _. destruct i as [l bl s t]. intros (X & Y & Z). cbn [smap_i wfi]. split; [exact X|]. split; [apply H; exact Y|exact Z].
Qed.
End SMapWf.
(* ---- ... and the call-form pass is one ---- *)
Lemma isfield_cexp m o e : isfield (cexp m o e) = isfield e. Proof. destruct e; reflexivity. Qed.
Lemma prefixlike_cexp m o e : prefixlike (cexp m o e) = prefixlike e. Proof. destruct e; reflexivity. Qed.
Lemma fc_cexp m : forall e o, fc (cexp m o e) = fc e.
Proof. induction e; intros o; cbn [cexp fc]; try reflexivity; auto. Qed.
Lemma wfl_map_cexp m l fld : Forall (fun e => wfe e -> forall o, wfe (cexp m o e)) l -> wfl l fld -> wfl (map (cexp m false) l) fld.
Proof.
  induction 1 as [|a r Ha Hr IH]; intros W; [exact I|]. destruct W as [[Wa Fa] Wr]. cbn [map wfl].
  split; [split; [apply Ha; exact Wa|rewrite isfield_cexp; exact Fa]|apply IH; exact Wr].
Qed.
Theorem wfe_cexp m : forall e, wfe e -> forall o, wfe (cexp m o e).
Proof.
  induction e using exp_ind'; intros W o; cbn [cexp]; try exact W.
  - destruct W as (W & P & N). cbn [wfe]. split; [apply IHe; exact W|]. split; [rewrite prefixlike_cexp; exact P|exact N].
  - destruct W as (W1 & P & W2 & F). cbn [wfe]. split; [apply IHe1; exact W1|]. split; [rewrite prefixlike_cexp; exact P|]. split; [apply IHe2; exact W2|rewrite isfield_cexp; exact F].
  - destruct W as (W1 & P & W2). cbn [wfe]. split; [apply IHe; exact W1|]. split; [rewrite prefixlike_cexp; exact P|].
    change (wfl (map (cexp m false) args) false). apply wfl_map_cexp; assumption.
  - destruct W as (W1 & P & N & W2). cbn [wfe]. split; [apply IHe; exact W1|]. split; [rewrite prefixlike_cexp; exact P|]. split; [exact N|].
    change (wfl (map (cexp m false) args) false). apply wfl_map_cexp; assumption.
  - destruct W as (W & F & U). cbn [wfe]. split; [apply IHe; exact W|]. split; [rewrite isfield_cexp; exact F|]. rewrite fc_cexp. exact U.
  - destruct W as (B & W1 & F1 & W2 & F2). cbn [wfe]. split; [exact B|]. split; [apply IHe1; exact W1|]. split; [rewrite isfield_cexp; exact F1|]. split; [apply IHe2; exact W2|rewrite isfield_cexp; exact F2].
  - destruct W as (W & F). cbn [wfe]. split; [apply IHe; exact W|rewrite isfield_cexp; exact F].
  - destruct W as [W Nl]. cbn [wfe]. split; [change (wfl (map (cexp m false) fs) true); apply wfl_map_cexp; assumption|].
    clear -Nl. induction fs as [|a r IHr]; [reflexivity|]. cbn [map forallb] in *. apply andb_true_iff in Nl. destruct Nl as [Na Nr]. rewrite (IHr Nr), andb_true_r.
    destruct a; try discriminate; reflexivity.
  - destruct W as (W & F). cbn [wfe]. split; [apply IHe; exact W|rewrite isfield_cexp; exact F].
  - destruct W as (N & W & F). cbn [wfe]. split; [exact N|]. split; [apply IHe; exact W|rewrite isfield_cexp; exact F].
  - destruct W as (W1 & F1 & W2 & F2). cbn [wfe]. split; [apply IHe1; exact W1|]. split; [rewrite isfield_cexp; exact F1|]. split; [apply IHe2; exact W2|rewrite isfield_cexp; exact F2].
  - change (wfl (map (cexp m false) fs) true). apply wfl_map_cexp; assumption.
  - destruct W as (W & F & L & T). cbn [wfe]. split; [apply IHe; exact W|]. split; [rewrite isfield_cexp; exact F|]. split; [destruct e; try discriminate; reflexivity|exact T].
Qed.
Theorem wfb_norm0 p : wfb1 p -> wfb (norm0 c p).
Proof.
  intros W. unfold norm0, cprog. apply (proj2 (wfb_smap (cexp (callp0 c) false) (fun e We => wfe_cexp _ e We false) (isfield_cexp _ false))).
  apply (proj2 wfb_nblk). exact W.
Qed.
(* C01 on L0, end to end: what the model of the formatter prints for a well-formed program lexes back to its tokens *)
Theorem format0_relexes p : wfb1 p ->
  lex_loop v (S (List.length (format0 c p))) (format0 c p) = Some (pprog c (norm0 c p)).
Proof. intros W. unfold format0. apply pprog_relexes. apply wfb_norm0. exact W. Qed.
End Lexical.

(* non-vacuity: a program with a comment, a guarded double minus, a call with a number and a string, a nested block,
   a table written over several lines with another one inside *)
Definition v51 : ver := {| v52 := false; v53 := false; v54 := false; vluau := false; vjit := false |}.
Definition cfg_example : cfg0 := {| windows0 := false; spaces0 := false; width0 := 4; style0 := QuoteMore.AutoDouble; callp0 := CallForm.NoSingleTable; space0 := CallForm.SCalls; collapse0 := CAlways |}.
Definition prog_example : blk :=
  Blk [ Item [(false, str " a comment")] false
          (SLocal [str "x"] [EUn Neg (EParen (EUn Neg (ECall (EName (str "f")) false [ENum (str "12"); EStr (str "it's")])))]) (Some (str " trailing"));
        Item [] true (SWhile (EBin Lt (EName (str "x")) (ENum (str "3"))) (Blk [Item [] false (SCall (EMethod (EName (str "o")) (str "m") true [EStr (str "sugar")])) None] [(false, str " end of block")])) None;
        Item [] false (SLocal [str "t"] [ETableML [FCom false (str " a comment line"); FLine true (FNamed (str "a") (ENum (str "1"))) (Some (str " behind the comma")); FPos (ETableML [FPos (EName (str "x")); FCom true (str " dangling")])]]) None ] [].
Example example_is_well_formed : wfb1 v51 cfg_example prog_example.
Proof.
  cbn. repeat split; try reflexivity; try discriminate; try (repeat constructor; fail);
    try (intros q; destruct q; eexists; vm_compute; reflexivity).
  all: try (repeat constructor; repeat split; reflexivity).
  constructor; [|constructor]. cbn. repeat split; try reflexivity; try (intros q; destruct q; eexists; vm_compute; reflexivity).
Qed.
Example example_lexes_back :
  lex_loop v51 (S (List.length (format0 cfg_example prog_example))) (format0 cfg_example prog_example) = Some (pprog cfg_example (norm0 cfg_example prog_example)).
Proof. apply (format0_relexes v51 eq_refl cfg_example); [discriminate|exact example_is_well_formed]. Qed.
