(* Mirror for rs2v's kernel brackets_string (src/formatters/expression.rs is_brackets_string): an expression as that function sees it -
   parentheses, a binary operator, a string token with its quote kind, a type assertion, or anything else. *)
Inductive StringLiteralQuoteType := StringLiteralQuoteType_Brackets | StringLiteralQuoteType_Double | StringLiteralQuoteType_Single.
Inductive TokenType := TokenType_StringLiteral (literal : unit) (multi_line_depth : nat) (quote_type : StringLiteralQuoteType) | TokenType_Other.
Definition TokenReference := TokenType.
Definition token_type (t : TokenReference) : TokenType := t.
Inductive Expression :=
| Expression_Parentheses (contained : unit) (expression : Expression)
| Expression_BinaryOperator (lhs : Expression) (binop : unit) (rhs : Expression)
| Expression_String (token_reference : TokenReference)
| Expression_TypeAssertion (expression : Expression) (type_assertion : unit)
| Expression_Other.
