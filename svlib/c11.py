from . import fmtprops
def run(res): return fmtprops.run_prop(res, "C11")
def replay(payload): return fmtprops.replay(payload, "C11")
