"""C19 - results do not depend on thread count or scheduling (DESIGN 5/C19)."""
import itertools, random, re
from .clitree import *
from . import c05

def generated_programs():
    text = open(os.path.join(COQ, "gen", "ExitOps.v")).read()
    m = re.search(r"Definition exit_programs[^=]*:=\s*\[(.*?)\]\.\s*Definition exit_main", text, re.S)
    progs = []
    for body in re.findall(r"\[([^\[\]]*)\]\s*\(\*", m.group(1)):
        ops = []
        for tok in [t.strip() for t in body.split(";") if t.strip()]:
            w = tok.split()
            ops.append({"Load": "load", "Store": "store:%s", "FetchMax": "fetch_max:%s", "Cas": "compare_exchange:%s:%s"}[w[0]] % tuple(w[1:]) if len(w) > 1 else "load")
        progs.append(ops)
    return progs

SCENARIOS = [  # (files, argument orders to try)
    dict(files=[("u.lua", "unformatted"), ("m.lua", "missing")], name="missing+unformatted"),
    dict(files=[("u.lua", "unformatted"), ("p.lua", "unparseable")], name="unparseable+unformatted"),
    dict(files=[("u.lua", "unformatted"), ("p.lua", "unparseable"), ("m.lua", "missing")], name="missing+unparseable+unformatted"),
    dict(files=[("u.lua", "unformatted"), ("v.lua", "unformatted"), ("m.lua", "missing")], name="missing+2 unformatted"),
]

def forced_runs(sc_files, mode, fmt_of, schedule=None, trace=False, nthreads=2, args=None):
    sc = dict(id="sched", mode=mode, files=sc_files, args=args or [p for p, _ in sc_files],
              extra=["--num-threads", str(nthreads)] + (["--check"] if mode == "check" else []))
    env = {"STYLUA_VERIF_TRACE": "1", "STYLUA_VERIF_TIMEOUT_MS": "250"}
    if schedule: env["STYLUA_VERIF_SCHEDULE"] = ",".join(schedule)
    lines, obs = run_scenario(sc, fmt_of, env_extra=env)
    err = obs["stderr"].decode("utf-8", "replace")
    ops = [l.split()[1] for l in err.splitlines() if l.startswith("VSCHED ")]
    infeasible = "VSCHED-TIMEOUT" in err
    return lines, obs["code"], ops, infeasible, sc

def run(res):
    t_ok, t_log = c05.rs2v("exit_ops")
    proof = proof_stage(res, "C19", extra_obligations=2) if t_ok else dict(ok=False, discharged=0, log=t_log, broken_at="rs2v: " + t_log[-300:])
    if not t_ok: res.coverage.update(obligations=2, discharged=0, checker_cmd="rs2v", trusted_base=list(TRUSTED_BASE))
    build_ml(); build_cli()
    contents = set(CONTENT[k](i) for k in CONTENT for i in range(10))
    fmt_of = library_formatted(contents)
    rng = random.Random(res.seed * 31337 + 19)
    all_lines, forced, infeasible_n, samples, violations = [], 0, 0, [], []
    distinct = set()
    # (1) model-guided search when the generated protocol is not provably monotone
    model_sched = None
    if t_ok:
        progs = generated_programs()
        r = subprocess.run([driver("drv_c19")], input="".join("P %s\n" % " ".join(p) for p in progs), stdout=subprocess.PIPE, text=True)
        for l in r.stdout.splitlines():
            if l.startswith("BADSCHED"): model_sched = l.split()[2].split(",")
        res.coverage["model_search"] = r.stdout.strip().splitlines()
    # (2) forced interleavings on the real binary
    for scn in SCENARIOS:
        for mode in ("check", "write"):
            for args in itertools.permutations([p for p, _ in scn["files"]]):
                if len(violations) >= 3: break       # enough failing interleavings to report
                _, code0, ops, _, sc = forced_runs(scn["files"], mode, fmt_of, trace=True, args=list(args))
                if ops and ops[-1] == "load": ops = ops[:-1]          # the final load after pool.join
                # which accesses happen can itself depend on the interleaving: add every access the generated programs can make
                for prog in (progs if t_ok else []):
                    for o in prog:
                        if o not in ops: ops.append(o)
                ops = ops[:5]
                expected = 2
                scheds = sorted(set(itertools.permutations(ops)))
                cap = 12 if res.tier == "quick" else 120
                if len(scheds) > cap: scheds = rng.sample(scheds, cap)
                if model_sched: scheds = [tuple(model_sched)] + scheds
                for s in scheds:
                    lines, code, seen_ops, infeasible, sc = forced_runs(scn["files"], mode, fmt_of, schedule=list(s), args=list(args))
                    if infeasible:
                        infeasible_n += 1; continue
                    forced += 1
                    distinct.add((scn["name"], mode, args, s))
                    all_lines += [l.replace("SCN sched", "SCN %s|%s|%s|%s" % (scn["name"].replace(" ", "_"), mode, "-".join(args), ",".join(s))) for l in lines]
                    if len(samples) < 6 and forced % 17 == 1: samples.append(dict(scenario=scn["name"], mode=mode, args=list(args), schedule=list(s), status=code))
                    if code != expected:
                        violations.append(dict(kind="input", check="status-%d-expected-%d-under-forced-schedule" % (code, expected),
                                               cli=dict(scenario=sc, schedule=list(s)), expected="exit status 2 on every interleaving (C19_exit_status_schedule_independent)"))
    # (3) thread-count sweep on random trees: same status and same final contents for every --num-threads
    n_trees = 12 if res.tier == "quick" else 150
    sweep = 0
    for t in range(n_trees):
        sc = gen_scenario(rng, "t%03d" % t, rng.choice(["check", "write"]), ["formatted", "unformatted", "unformatted", "unparseable", "unreadable"])
        base = None
        for nt in range(1, 17):
            sc2 = dict(sc, extra=[a for a in sc["extra"] if a not in ("--num-threads",) and not a.isdigit()] + ["--num-threads", str(nt)], id="%s-n%d" % (sc["id"], nt))
            lines, obs = run_scenario(sc2, fmt_of)
            sweep += 1
            all_lines += lines
            key = (obs["code"], tuple(l for l in lines if l.startswith("AFTER")))
            if base is None: base = key
            elif key != base:
                violations.append(dict(kind="input", check="num-threads-%d-differs-from-1" % nt, cli=dict(scenario=sc2), expected="same status and file contents for every --num-threads"))
    # (4) many files per directory, written by many workers at once; and a walk that ends on an error (a configuration file that does not
    # parse in a sub-directory) while workers are busy: every file must hold exactly its own formatted text, and status and set of files
    # written must be the same for every --num-threads and every repetition
    big = 0
    # (each file holds 120 further statements, so that formatting a file takes the workers noticeably longer than walking to the next)
    pad_u = "".join("local   p%d   =   { %d,   %d }\n" % (j, j, j + 1) for j in range(120))
    pad_f = "".join("local p%d = { %d, %d }\n" % (j, j, j + 1) for j in range(120))
    def big_tree(root, broken):
        for d in ("a", "b", "c", "zz"):
            os.makedirs(os.path.join(root, d))
            for i in range(50): open(os.path.join(root, d, "m%d.lua" % i), "w").write("local   %s%d   =   %d\n" % (d, i, i) + pad_u)
        if broken: open(os.path.join(root, "zz", "stylua.toml"), "w").write('column_width = "oops"\n')
    def big_state(root):
        st = []
        for d in ("a", "b", "c", "zz"):
            for i in range(50):
                t = open(os.path.join(root, d, "m%d.lua" % i)).read()
                st.append("f" if t == "local %s%d = %d\n" % (d, i, i) + pad_f else ("u" if t == "local   %s%d   =   %d\n" % (d, i, i) + pad_u else "X"))
        return "".join(st)
    for broken in (False, True):
        base = None
        for nt in (1, 16, 1, 3, 16, 2, 8, 1):
            root = scratch("c19big")
            try:
                big_tree(root, broken)
                # the directories are named in order, so that the walk reaches the one with the broken configuration last
                code, _, _ = stylua(["--no-editorconfig", "--num-threads", str(nt), "a", "b", "c", "zz"], root)
                key = (code, big_state(root)); big += 1
            finally:
                cleanup(root)
            want_code = 2 if broken else 0
            # with the broken configuration: everything the walk handed out before it got there (a, b, c) is formatted, nothing of zz is
            if "X" in key[1] or key[0] != want_code or (not broken and "u" in key[1]) or (broken and key[1] != "f" * 150 + "u" * 50) or (base is not None and key != base):
                violations.append(dict(kind="input", check="many-files-%s-num-threads-%d" % ("walk-error" if broken else "all-good", nt),
                                       cli=dict(scenario=dict(id="big-%s" % ("broken" if broken else "good"), note="4 directories x 50 unformatted files%s; --num-threads %d" % (", zz/stylua.toml does not parse" if broken else "", nt)),
                                                observed="status %d, files formatted/unformatted/garbled: %d/%d/%d" % (key[0], key[1].count("f"), key[1].count("u"), key[1].count("X"))),
                                       expected="every file holds its own formatted text or its original text; the same status and the same set of written files for every --num-threads and repetition"))
                break
            if base is None: base = key
    ok, tot, bads, _, err = judge(all_lines)
    tie_ok = ok and not bads and not violations and forced > 0
    if t_ok and proof["ok"]: res.coverage["discharged"] = proof["discharged"] + 1 + (1 if tie_ok else 0)
    res.coverage.update(
        evaluations=forced + sweep + big, distinct_nontrivial=len(distinct),
        rule="for 4 file sets containing a missing path, an unparseable file and unformatted files, in check and write mode, every order of the arguments: the accesses to the exit code are traced, then EVERY distinct total order of "
             "those accesses is forced through the cfg(stylua_verif) scheduling cell (orders that contradict program order time out and are counted as infeasible: %d); plus %d random trees run with --num-threads 1..16, plus a tree of 4 directories x 50 files under 6 thread counts, once all good and once with a configuration file that does not parse in the last directory (8 runs each). "
             "distinct = distinct (file set, mode, argument order, forced order)" % (infeasible_n, n_trees),
        samples=samples or ["-"], exhaustive=(res.tier != "quick"),
        input_distribution=dict(forced_schedules=forced, infeasible_orders=infeasible_n, thread_sweep_runs=sweep, many_files_runs=big, **tot),
        kernels_translated=["src/cli/main.rs :: EXIT_CODE accesses -> coq/gen/ExitOps.v (rs2v); programs: %s" % (generated_programs() if t_ok else "-")],
        correspondence="each forced or swept run is also judged by the extracted CliModel.run (status, contents); the generated programs are searched exhaustively for a bad interleaving in the model (Sched.find_bad_schedule) and that order is forced first")
    res.assumptions = ["real preemption is replaced by forced orders of the named accesses to the exit-code cell; other shared state (stdout lock, channel, thread pool) is not scheduled",
                       "a conditional access is translated as unconditional (more behaviours in the model, never fewer)"]
    for v in violations[:4]: res.violation(v)
    if not violations and not (t_ok and proof["ok"] and tie_ok):
        if bads:
            res.violation(dict(kind="input", check=bads[0], cli=dict(note="see scenario id in the check name"), expected="CliModel.run"))
        else:
            res.violation(dict(kind="obligation", obligation=dict(theorem_or_kernel=proof.get("broken_at", "correspondence"), log=proof.get("log", "")[-2500:] + err[-500:],
                               model_schedule=model_sched)), no_input=True)
    return res

def replay(payload):
    build_ml(); build_cli()
    sc = payload["cli"]["scenario"]; sc["files"] = [tuple(x) for x in sc["files"]]
    contents = set(CONTENT[k](i) for k in CONTENT for i in range(10))
    fmt_of = library_formatted(contents)
    env = {"STYLUA_VERIF_TRACE": "1", "STYLUA_VERIF_TIMEOUT_MS": "250"}
    if payload["cli"].get("schedule"): env["STYLUA_VERIF_SCHEDULE"] = ",".join(payload["cli"]["schedule"])
    lines, obs = run_scenario(sc, fmt_of, env_extra=env)
    print("\n".join(lines)); print(obs["stderr"].decode("utf-8", "replace"))
    ok, tot, bads, _, _ = judge(lines)
    print(bads)
    return 1 if bads or obs["code"] != 2 else 0
