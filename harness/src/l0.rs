//! Tie of the L0 whole-formatter model (coq/theories/Fmt0.v): programs of the fragment, as a tree (S-expression) and as
//! source text in an arbitrary layout (blanks, tabs, single line breaks, redundant parentheses, semicolons, call sugar,
//! single quotes, `;` table separators, trailing separators), formatted by the library under every whitespace configuration.
//!   L0 <id> <windows 0|1> <spaces 0|1> <indent width> <quote style>/<call_parentheses>/<space_after_function_names>/<collapse_simple_statement> <tree> <source hex> <ok|status> <output hex>
use crate::common::*;

#[derive(Clone)]
enum E { Nil, True, False, Va, Num(String), Str(char, String), Long(usize, String), Name(String), Field(Box<E>, String), Index(Box<E>, Box<E>), Call(Box<E>, Vec<E>), Method(Box<E>, String, Vec<E>), Sugar(Box<E>),
         Un(&'static str, Box<E>), Bin(&'static str, Box<E>, Box<E>), Paren(Box<E>), Table(bool, Vec<F>) }
#[derive(Clone)]
enum F { Pos(E), Named(String, E), Key(E, E),
         /// lines of a table written over several lines: a field with "an empty line precedes it" and the comment behind its comma; a comment line
         Line(bool, Box<F>, Option<String>), Com(bool, String) }
enum S { Local(Vec<String>, Vec<E>), Assign(Vec<E>, Vec<E>), Call(E), Do(B), While(E, B), Repeat(B, E), If(E, B, Els),
         NumFor(String, E, E, Option<E>, B), GenFor(Vec<String>, Vec<E>, B), Function(Vec<String>, Option<String>, Vec<String>, bool, B),
         LocalFunction(String, Vec<String>, bool, B), Return(Vec<E>), Break }
struct Item { lead: Vec<(bool, String)>, blank: bool, s: S, trail: Option<String> }
struct B { items: Vec<Item>, tail: Vec<(bool, String)> }
enum Els { No, Else(B), ElseIf(E, B, Box<Els>) }

const NAMES: &[&str] = &["a", "b", "foo", "bar", "x1", "_t", "self", "value", "idx", "T"];
/// (quote used in the source, body as written between the quotes)
const STRS0: &[(char, &str)] = &[('"', ""), ('\'', ""), ('"', "abc"), ('\'', "abc"), ('"', "hello world"), ('"', "it's"), ('\'', r"it\'s"),
    ('"', r#"say \"hi\""#), ('\'', r#"say "hi""#), ('"', r"a\nb"), ('\'', r"tab\tend"), ('"', r"\065\x41"), ('\'', r#"both \' and ""#),
    ('"', r#"both ' and \""#), ('"', r"back\\slash"), ('\'', r#"q\"q"#), ('"', r#"'''\""#), ('\'', r#"""\'"#), ('"', r"\'needless"), ('\'', r"x\-y")];
const BINS: &[(&str, u32, bool)] = &[("or", 1, false), ("and", 2, false), ("<", 3, false), (">", 3, false), ("<=", 3, false), (">=", 3, false), ("~=", 3, false), ("==", 3, false),
    ("..", 8, true), ("+", 9, false), ("-", 9, false), ("*", 10, false), ("/", 10, false), ("%", 10, false), ("^", 12, true)];
/// long-bracket strings (level, body), bodies on one line
const LONGS0: &[(usize, &str)] = &[(0, "long"), (0, "two words"), (0, ""), (1, "a]]b"), (2, "x]=]y"), (1, "it's \"q\""), (0, "-- not a comment")];
fn binfo(op: &str) -> (u32, bool) { let b = BINS.iter().find(|b| b.0 == op).unwrap(); (b.1, b.2) }

struct G<'a> { rng: &'a mut Rng, loops: usize, noml: usize, comok: bool, argcom: bool }
impl<'a> G<'a> {
    fn name(&mut self) -> String { self.rng.pick(NAMES).to_string() }
    /// (an index or a table key may begin with a long-bracket string: the model writes the blank that keeps it away from the `[`, Fmt0.brk)
    fn no_brk_key(&mut self, k: E) -> E { k }
    fn atom(&mut self, vararg: bool) -> E {
        match self.rng.below(9) {
            0 => E::Nil, 1 => E::True, 2 => E::False,
            3 => E::Num(self.rng.pick(&["0", "1", "42", "007", "123456", ".5", "3.25", "1e10", "0xFF", "5.", ".0e1"]).to_string()),
            4 => self.string(),
            5 if vararg => E::Va,
            _ => E::Name(self.name()),
        }
    }
    /// call arguments; one time in three a single string / table, half of them written without parentheses (E::Sugar)
    /// an expression without a table written over several lines inside (the layout of argument lists, generic-for lists,
    /// index keys and prefixes that hold one follows heuristics outside L0)
    fn exp_noml(&mut self, d: usize, va: bool) -> E { self.noml += 1; let e = self.exp(d, va); self.noml -= 1; e }
    /// call arguments; one time in three a single string / table, half of them written without parentheses (E::Sugar);
    /// otherwise each argument is a table (possibly over several lines) or an expression without such a table inside
    fn args(&mut self, d: usize, va: bool) -> Vec<E> {
        if self.rng.chance(1, 3) {
            let x = if d > 0 && self.rng.chance(1, 2) { self.comok = self.argcom; self.table(d - 1, va) } else { self.string() };
            let x = if self.rng.chance(1, 5) { E::Paren(Box::new(x)) } else if self.rng.chance(1, 2) { E::Sugar(Box::new(x)) } else { x };
            return vec![x];
        }
        // at most one of several arguments is a table written over several lines (two of them make the whole list break)
        let mut had_ml = false;
        (0..self.rng.below(4)).map(|_| if d > 0 && self.rng.chance(1, 5) {
            if had_ml { self.noml += 1; }
            self.comok = self.argcom;
            let t = self.table(d - 1, va);
            if had_ml { self.noml -= 1; }
            if matches!(t, E::Table(true, _)) { had_ml = true; }
            t
        } else { self.exp_noml(d, va) }).collect()
    }
    /// a prefix expression: name, parenthesised expression, field / index / call / method chain
    fn prefix(&mut self, d: usize, va: bool) -> E {
        let mut e = if d > 0 && self.rng.chance(1, 6) { E::Paren(Box::new(self.exp_noml(d - 1, va))) } else { E::Name(self.name()) };
        for _ in 0..self.rng.below(3) {
            e = match self.rng.below(5) {
                0 => E::Field(Box::new(e), self.name()),
                1 if d > 0 => { let k = self.exp_noml(d - 1, va); let k = self.no_brk_key(k); E::Index(Box::new(e), Box::new(k)) }
                // the arguments of calls inside expressions hold no table written over several lines (chains that hold one are hung)
                2 if d > 0 => { self.noml += 1; let a = self.args(d - 1, va); self.noml -= 1; E::Call(Box::new(e), a) }
                3 if d > 0 => { self.noml += 1; let a = self.args(d - 1, va); self.noml -= 1; E::Method(Box::new(e), self.name(), a) }
                _ => E::Field(Box::new(e), self.name()),
            };
        }
        e
    }
    fn exp(&mut self, d: usize, va: bool) -> E {
        if d == 0 { return self.atom(va); }
        match self.rng.below(12) {
            0 | 1 | 2 => {
                let op = self.rng.pick(BINS).0;
                let (p, ra) = binfo(op);
                let mut l = self.exp(d - 1, va);
                let mut r = self.exp(d - 1, va);
                // parentheses the grammar needs are part of the tree
                let needs = |x: &E, left: bool| match x {
                    E::Bin(o, _, _) => { let (q, _) = binfo(o); q < p || (q == p && (left == ra)) }
                    E::Un(_, _) => left && op == "^",
                    _ => false,
                };
                if needs(&l, true) { l = E::Paren(Box::new(l)); }
                if needs(&r, false) { r = E::Paren(Box::new(r)); }
                E::Bin(op, Box::new(l), Box::new(r))
            }
            3 => {
                let u = *self.rng.pick(&["-", "not", "#"]);
                let mut x = self.exp(d - 1, va);
                if let E::Bin(o, _, _) = &x { if binfo(o).0 < 12 { x = E::Paren(Box::new(x)); } }
                // a minus in front of a minus, bare or already in parentheses (the guard of the parenthesis rule; C06)
                if u == "-" && self.rng.chance(1, 3) { x = E::Un("-", Box::new(x)); if self.rng.chance(1, 2) { x = E::Paren(Box::new(x)); } }
                E::Un(u, Box::new(x))
            }
            // parentheses that must stay around a double minus (what is inside could be truncated): the shape of the listed C06 finding
            4 if self.rng.chance(1, 6) => { let x = self.prefix(d, va); E::Paren(Box::new(E::Un("-", Box::new(E::Un("-", Box::new(x)))))) }
            4 | 5 => E::Paren(Box::new(self.exp(d - 1, va))),
            6 | 7 => self.prefix(d, va),
            8 => self.table(d - 1, va),
            _ => self.atom(va),
        }
    }
    fn string(&mut self) -> E {
        // one string in five is a long-bracket string
        if self.rng.chance(1, 5) { let (l, b) = *self.rng.pick(LONGS0); return E::Long(l, b.to_string()); }
        let (q, b) = *self.rng.pick(STRS0); E::Str(q, b.to_string())
    }
    fn table(&mut self, d: usize, va: bool) -> E {
        let n = self.rng.below(4);
        // one table in three has a line break right behind its `{` in the source: the formatter then always writes it over several lines
        let ml = self.noml == 0 && self.rng.chance(1, 3);
        // comments inside the table only where the layout around it is regular: the table is the only value of a local / an
        // assignment / a return, a direct argument of a call statement, or directly the value of a field of such a table
        // (elsewhere an expression that holds a comment is hung or its surroundings are expanded)
        let comok = ml && std::mem::replace(&mut self.comok, false);
        self.comok = false;
        let mut fs: Vec<F> = vec![];
        for _ in 0..n {
            let mut val = |g: &mut Self| -> E { if comok && g.rng.chance(1, 4) { g.comok = true; let t = g.table(d, va); g.comok = false; t } else { g.exp(d, va) } };
            let f = match self.rng.below(3) {
                0 => { let n = self.name(); F::Named(n, val(self)) }
                1 => { let k = self.exp(d, va); let k = self.no_brk_key(k); F::Key(k, val(self)) }
                _ => F::Pos(val(self)),
            };
            // (a field that starts with a parenthesis the formatter may remove loses the empty line and the comments in front of it
            // with that parenthesis: none are generated there)
            let paren = matches!(&f, F::Pos(e) if starts_paren(e));
            // comments on lines of their own in front of a field
            if comok && !paren { while self.rng.chance(1, 4) { let b = self.rng.chance(1, 4); let c = self.comment(); fs.push(F::Com(b, c)); } }
            if ml && self.rng.chance(1, 2) { let b = !paren && self.rng.chance(1, 4); let t = if comok && self.rng.chance(1, 3) { Some(self.comment()) } else { None }; fs.push(F::Line(b, Box::new(f), t)); }
            else { fs.push(f); }
        }
        // comments dangling before the closing brace
        if comok { while self.rng.chance(1, 8) { let b = self.rng.chance(1, 4); let c = self.comment(); fs.push(F::Com(b, c)); } }
        E::Table(ml, fs)
    }
    /// the only value of a local / an assignment / a return: one time in four a table that may hold comments
    fn sole(&mut self, d: usize, va: bool) -> E { if d > 0 && self.noml == 0 && self.rng.chance(1, 2) { self.comok = true; let t = self.table(d - 1, va); self.comok = false; t } else { self.exp(d, va) } }
    fn exps(&mut self, min: usize, d: usize, va: bool) -> Vec<E> { (0..min + self.rng.below(3)).map(|_| self.exp(d, va)).collect() }
    fn names(&mut self) -> Vec<String> { (0..1 + self.rng.below(2)).map(|_| self.name()).collect() }
    /// a variable: name, or a chain that ends in a field or an index and starts with a name
    fn var(&mut self, va: bool) -> E {
        let n = E::Name(self.name());
        // one time in six a call in the middle of the chain: `f "s".x = 1`, `f({}):m()[1] = 2`
        let n = if self.rng.chance(1, 6) { self.noml += 1; let a = self.args(1, va); self.noml -= 1; if self.rng.chance(1, 3) { E::Method(Box::new(n), self.name(), a) } else { E::Call(Box::new(n), a) } } else { n };
        let must = !matches!(n, E::Name(_));
        match self.rng.below(3) { 0 if !must => n, 1 => E::Field(Box::new(n), self.name()), 0 => E::Field(Box::new(n), self.name()), _ => { let k = self.exp_noml(1, va); let k = self.no_brk_key(k); E::Index(Box::new(n), Box::new(k)) } }
    }
    fn call_stmt(&mut self, va: bool) -> E {
        let n = E::Name(self.name());
        let f = if self.rng.chance(1, 3) { E::Field(Box::new(n), self.name()) } else { n };
        // one time in five a call of the result of a call: `f "s" "t"`, `f("s"):m()`
        let f = if self.rng.chance(1, 5) { self.noml += 1; let a = self.args(1, va); self.noml -= 1; E::Call(Box::new(f), a) } else { f };
        // the tables among the arguments of the statement's own call may hold comments
        self.argcom = true; let a = self.args(2, va); self.argcom = false;
        if self.rng.chance(1, 3) { E::Method(Box::new(f), self.name(), a) } else { E::Call(Box::new(f), a) }
    }
    fn comment(&mut self) -> String { let n = self.rng.below(1000); match self.rng.below(6) { 0 => String::new(), 1 => format!(" c{} two words", n), 2 => format!("c{}", n), _ => format!(" c{}", n) } }
    fn trivia(&mut self, first: bool) -> Vec<(bool, String)> {
        let n = if self.rng.chance(1, 5) { 1 + self.rng.below(2) } else { 0 };
        (0..n).map(|i| ((i > 0 || !first) && self.rng.chance(1, 3), self.comment())).collect()
    }
    /// [tail_ok]: the block is closed by `end` / `until` / the end of the file (comments before `else` are outside L0)
    fn block_t(&mut self, depth: usize, va: bool, max: usize, tail_ok: bool) -> B {
        let n = self.rng.below(max + 1);
        let mut stmts: Vec<S> = (0..n).map(|_| self.stmt(depth, va)).collect();
        if depth > 0 && self.rng.chance(1, 4) { stmts.push(if self.loops > 0 && self.rng.chance(1, 3) { S::Break } else { S::Return(if self.rng.chance(1, 4) { vec![self.sole(2, va)] } else { self.exps(0, 2, va) }) }); }
        let mut items = vec![];
        for (i, st) in stmts.into_iter().enumerate() {
            let lead = self.trivia(i == 0);
            let blank = (i > 0 || !lead.is_empty()) && self.rng.chance(1, 5);
            let trail = if self.rng.chance(1, 6) { Some(self.comment()) } else { None };
            items.push(Item { lead, blank, s: st, trail });
        }
        // the flags of dangling comments are always honoured (no leading empty line is dropped in front of them)
        let tail = if tail_ok { self.trivia(false) } else { vec![] };
        B { items, tail }
    }
    fn block(&mut self, depth: usize, va: bool, max: usize) -> B { self.block_t(depth, va, max, true) }
    fn stmt(&mut self, depth: usize, va: bool) -> S {
        let deep = depth >= 3;
        match self.rng.below(if deep { 5 } else { 14 }) {
            0 | 1 => { let ns = self.names(); let es = if self.rng.chance(1, 4) { vec![] } else if self.rng.chance(1, 3) { vec![self.sole(2, va)] } else { self.exps(1, 2, va) }; S::Local(ns, es) }
            2 | 3 => { let n = 1 + self.rng.below(2); let vs = (0..n).map(|_| self.var(va)).collect(); let es = if self.rng.chance(1, 3) { vec![self.sole(2, va)] } else { self.exps(1, 2, va) }; S::Assign(vs, es) }
            4 => S::Call(self.call_stmt(va)),
            5 => S::Do(self.block(depth + 1, va, 2)),
            6 => { let c = self.exp(2, va); self.loops += 1; let b = self.block(depth + 1, va, 2); self.loops -= 1; S::While(c, b) }
            // comments before `until` are outside L0 (the formatter leaves them unindented and keeps the empty lines after them)
            7 => { self.loops += 1; let b = self.block_t(depth + 1, va, 2, false); self.loops -= 1; S::Repeat(b, self.exp(2, va)) }
            8 | 9 => {
                let c = self.exp(2, va);
                let mut e = match self.rng.below(3) { 1 => Els::Else(self.block(depth + 1, va, 2)), _ => Els::No };
                for _ in 0..self.rng.below(3) {
                    if self.rng.chance(1, 2) { let last = matches!(e, Els::No); e = Els::ElseIf(self.exp(1, va), self.block_t(depth + 1, va, 1, last), Box::new(e)); }
                }
                let last = matches!(e, Els::No);
                let t = self.block_t(depth + 1, va, 2, last);
                S::If(c, t, e)
            }
            10 => { let st = if self.rng.chance(1, 3) { Some(self.exp(1, va)) } else { None }; let (a, b) = (self.exp(1, va), self.exp(1, va)); self.loops += 1; let body = self.block(depth + 1, va, 2); self.loops -= 1; S::NumFor(self.name(), a, b, st, body) }
            11 => { let ns = self.names(); self.noml += 1; let es = self.exps(1, 1, va); self.noml -= 1; self.loops += 1; let body = self.block(depth + 1, va, 2); self.loops -= 1; S::GenFor(ns, es, body) }
            12 => {
                let path: Vec<String> = (0..1 + self.rng.below(3)).map(|_| self.name()).collect();
                let m = if self.rng.chance(1, 3) { Some(self.name()) } else { None };
                let v = self.rng.chance(1, 3); let ps: Vec<String> = (0..self.rng.below(3)).map(|_| self.name()).collect();
                let saved = std::mem::replace(&mut self.loops, 0); let body = self.block(depth + 1, v, 2); self.loops = saved;
                S::Function(path, m, ps, v, body)
            }
            _ => {
                let v = self.rng.chance(1, 3); let ps: Vec<String> = (0..self.rng.below(3)).map(|_| self.name()).collect();
                let saved = std::mem::replace(&mut self.loops, 0); let body = self.block(depth + 1, v, 2); self.loops = saved;
                S::LocalFunction(self.name(), ps, v, body)
            }
        }
    }
}

// ---- the tree as an S-expression (blanks written `_`, as ml/sexp.ml expects) ----
fn hx(s: &str) -> String { let h = hex(s.as_bytes()); if h == "#" || h.is_empty() { "#".to_string() } else { h } }
fn starts_brk(e: &E) -> bool { match e { E::Long(_, _) => true, E::Paren(x) => starts_brk(x), E::Bin(_, l, _) => starts_brk(l), _ => false } }
/// the source text of the expression starts with a long-bracket string (a blank must then separate it from a `[` in front of it)
fn starts_brk_src(e: &E) -> bool { match e { E::Long(_, _) => true, E::Bin(_, l, _) => starts_brk_src(l), E::Field(p, _) | E::Index(p, _) | E::Call(p, _) | E::Method(p, _, _) => starts_brk_src(p), _ => false } }
fn starts_paren(e: &E) -> bool {
    match e { E::Paren(_) => true, E::Bin(_, l, _) => starts_paren(l), E::Field(p, _) | E::Index(p, _) | E::Call(p, _) | E::Method(p, _, _) => starts_paren(p), _ => false }
}
fn sugar(a: &[E]) -> u8 { matches!(a, [E::Sugar(_)]) as u8 }
fn sx_e(e: &E) -> String {
    match e {
        E::Nil => "(nil)".into(), E::True => "(true)".into(), E::False => "(false)".into(), E::Va => "(va)".into(),
        E::Num(s) => format!("(num_{})", hx(s)), E::Str(_, s) => format!("(str_{})", hx(s)), E::Long(l, s) => format!("(brk_{}_{})", l, hx(s)), E::Name(s) => format!("(name_{})", hx(s)),
        E::Field(p, n) => format!("(field_{}_{})", sx_e(p), hx(n)), E::Index(p, k) => format!("(index_{}_{})", sx_e(p), sx_e(k)),
        // the flag: the single string / table argument is written without parentheses
        E::Call(f, a) => format!("(call_{}_{}_({}))", sx_e(f), sugar(a), a.iter().map(sx_e).collect::<Vec<_>>().join("_")),
        E::Method(o, m, a) => format!("(method_{}_{}_{}_({}))", sx_e(o), hx(m), sugar(a), a.iter().map(sx_e).collect::<Vec<_>>().join("_")),
        E::Un(u, x) => format!("(un_{}_{})", u, sx_e(x)), E::Bin(b, l, r) => format!("(bin_{}_{}_{})", b, sx_e(l), sx_e(r)),
        E::Paren(x) => format!("(paren_{})", sx_e(x)), E::Sugar(x) => sx_e(x),
        E::Table(ml, fs) => format!("({}_({}))", if *ml { "tableml" } else { "table" }, fs.iter().map(sx_f).collect::<Vec<_>>().join("_")),
    }
}
fn sx_f(f: &F) -> String {
    match f {
        F::Pos(x) => format!("(fpos_{})", sx_e(x)), F::Named(n, x) => format!("(fnamed_{}_{})", hx(n), sx_e(x)), F::Key(k, x) => format!("(fkey_{}_{})", sx_e(k), sx_e(x)),
        F::Line(b, f, t) => format!("(fline_{}_{}_({}))", *b as u8, sx_f(f), t.as_ref().map_or(String::new(), |c| hx(c))),
        F::Com(b, c) => format!("(fcom_{}_{})", *b as u8, hx(c)),
    }
}
fn sx_names(v: &[String]) -> String { format!("({})", v.iter().map(|n| hx(n)).collect::<Vec<_>>().join("_")) }
fn sx_es(v: &[E]) -> String { format!("({})", v.iter().map(sx_e).collect::<Vec<_>>().join("_")) }
fn sx_tv(v: &[(bool, String)]) -> String { format!("({})", v.iter().map(|(b, c)| format!("({}_{})", *b as u8, hx(c))).collect::<Vec<_>>().join("_")) }
fn sx_b(b: &B) -> String {
    format!("(blk_({})_{})", b.items.iter().map(|i| format!("(item_{}_{}_{}_{})", sx_tv(&i.lead), i.blank as u8, sx_s(&i.s), match &i.trail { Some(c) => format!("({})", hx(c)), None => "()".into() })).collect::<Vec<_>>().join("_"), sx_tv(&b.tail))
}
fn sx_els(e: &Els) -> String { match e { Els::No => "(noelse)".into(), Els::Else(b) => format!("(else_{})", sx_b(b)), Els::ElseIf(c, t, r) => format!("(elseif_{}_{}_{})", sx_e(c), sx_b(t), sx_els(r)) } }
fn sx_s(s: &S) -> String {
    match s {
        S::Local(ns, es) => format!("(local_{}_{})", sx_names(ns), sx_es(es)), S::Assign(vs, es) => format!("(assign_{}_{})", sx_es(vs), sx_es(es)),
        S::Call(e) => format!("(callst_{})", sx_e(e)), S::Do(b) => format!("(do_{})", sx_b(b)), S::While(c, b) => format!("(while_{}_{})", sx_e(c), sx_b(b)),
        S::Repeat(b, c) => format!("(repeat_{}_{})", sx_b(b), sx_e(c)), S::If(c, t, e) => format!("(if_{}_{}_{})", sx_e(c), sx_b(t), sx_els(e)),
        S::NumFor(v, a, b, st, body) => format!("(numfor_{}_{}_{}_{}_{})", hx(v), sx_e(a), sx_e(b), match st { Some(x) => format!("({})", sx_e(x)), None => "()".into() }, sx_b(body)),
        S::GenFor(ns, es, body) => format!("(genfor_{}_{}_{})", sx_names(ns), sx_es(es), sx_b(body)),
        S::Function(p, m, ps, va, body) => format!("(function_{}_{}_{}_{}_{})", sx_names(p), match m { Some(n) => format!("({})", hx(n)), None => "()".into() }, sx_names(ps), *va as u8, sx_b(body)),
        S::LocalFunction(n, ps, va, body) => format!("(localfunction_{}_{}_{}_{})", hx(n), sx_names(ps), *va as u8, sx_b(body)),
        S::Return(es) => format!("(return_{})", sx_es(es)), S::Break => "(break)".into(),
    }
}

// ---- the source text, in an arbitrary layout ----
struct P<'a> { rng: &'a mut Rng, out: String, noblank: bool }
impl<'a> P<'a> {
    /// separator between two tokens: never a blank line, never empty
    fn ws(&mut self) { let w = *self.rng.pick(&[" ", " ", " ", "  ", "\t", "\n", " \n", "\n\t"]); self.out.push_str(w); }
    /// a blank that is not a line break (before call arguments, after `{`)
    fn bl(&mut self) { let w = *self.rng.pick(&[" ", "", "", "  "]); self.out.push_str(w); }
    fn t(&mut self, s: &str) { self.out.push_str(s); }
    fn list<T>(&mut self, v: &[T], mut f: impl FnMut(&mut Self, &T)) { for (i, x) in v.iter().enumerate() { if i > 0 { self.bl(); self.t(","); self.ws(); } f(self, x); } }
    fn args(&mut self, a: &[E]) {
        // a single string / table argument written without parentheses
        if let [E::Sugar(x)] = a { self.bl(); let x = (**x).clone(); self.e(&x); return; }
        self.bl(); self.t("("); self.bl(); self.list(a, |p, x| p.e(x)); self.bl(); self.t(")");
    }
    fn e(&mut self, e: &E) {
        match e {
            E::Nil => self.t("nil"), E::True => self.t("true"), E::False => self.t("false"), E::Va => self.t("..."),
            E::Num(s) => self.t(s), E::Name(s) => self.t(s),
            E::Str(q, s) => { let q = q.to_string(); self.t(&q); self.t(s); self.t(&q); }
            E::Long(l, s) => { let eq = "=".repeat(*l); self.t(&format!("[{}[{}]{}]", eq, s, eq)); }
            E::Field(p, n) => { self.e(p); self.bl(); self.t("."); self.bl(); self.t(n); }
            E::Index(p, k) => { self.e(p); self.bl(); self.t("["); if starts_brk_src(k) { self.t(" "); } self.bl(); self.e(k); self.bl(); self.t("]"); }
            E::Call(f, a) => { self.e(f); self.args(a); }
            E::Method(o, m, a) => { self.e(o); self.bl(); self.t(":"); self.bl(); self.t(m); self.args(a); }
            E::Un(u, x) => { self.t(u); self.t(" "); self.e(x); }
            E::Bin(b, l, r) => { self.e(l); self.ws(); self.t(b); self.ws(); self.e(r); }
            E::Paren(x) => { self.t("("); self.bl(); self.e(x); self.bl(); self.t(")"); }
            E::Sugar(x) => self.e(x),
            E::Table(false, fs) => {
                // (no line break right behind the brace; an empty line may stand between two fields and before the closing brace:
                // the table is still written on one line)
                self.t("{"); self.bl();
                for (i, f) in fs.iter().enumerate() {
                    if i > 0 { let sep = if self.rng.chance(1, 4) { ";" } else { "," }; self.t(sep); if self.rng.chance(1, 8) { self.t("\n\n"); self.hb(); } else { self.ws(); } }
                    self.field(f);
                }
                if !fs.is_empty() && self.rng.chance(1, 4) { self.t(","); }
                if !fs.is_empty() && self.rng.chance(1, 10) { self.t("\n \n"); }
                self.bl(); self.t("}");
            }
            E::Table(true, fs) => {
                // the line break right behind the brace; then the lines, each starting on a line of its own when it is (or follows) a comment
                self.t("{"); self.bl(); self.t("\n");
                let mut fresh = true;
                let nfields = fs.iter().filter(|f| !matches!(f, F::Com(_, _))).count();
                let mut seen = 0;
                for f in fs.iter() {
                    let (blank, body, trail) = match f { F::Com(b, c) => (*b, None, Some(c.clone())), F::Line(b, g, t) => (*b, Some(&**g), t.clone()), g => (false, Some(g), None) };
                    if blank { if !fresh { self.t("\n"); } self.hb(); self.t("\n"); fresh = true; }
                    match body {
                        None => { if !fresh { self.t("\n"); } self.hb(); self.t("--"); self.t(trail.as_ref().unwrap()); if self.rng.chance(1, 3) { self.t("  "); } self.t("\n"); fresh = true; }
                        Some(g) => {
                            if fresh { self.hb(); } else { self.ws(); }
                            self.field(g); seen += 1;
                            let last = seen == nfields;
                            if !last || self.rng.chance(1, 2) { self.bl(); let sep = if self.rng.chance(1, 4) { ";" } else { "," }; self.t(sep); }
                            match trail { Some(c) => { self.t(" "); self.hb(); self.t("--"); self.t(&c); if self.rng.chance(1, 3) { self.t(" \t"); } self.t("\n"); fresh = true; } None => { fresh = false; } }
                        }
                    }
                }
                if fresh { self.hb(); } else { self.ws(); }
                self.t("}");
            }
        }
    }
    fn field(&mut self, f: &F) {
        match f {
            F::Pos(x) => self.e(x),
            F::Named(n, x) => { self.t(n); self.ws(); self.t("="); self.ws(); self.e(x); }
            F::Key(k, x) => { self.t("["); if starts_brk_src(k) { self.t(" "); } self.bl(); self.e(k); self.bl(); self.t("]"); self.ws(); self.t("="); self.ws(); self.e(x); }
            F::Line(_, g, _) => { let g = (**g).clone(); self.field(&g); }
            F::Com(_, _) => {}
        }
    }
    fn names(&mut self, v: &[String]) { self.list(v, |p, n| p.t(n)); }
    fn params(&mut self, ps: &[String], va: bool) {
        self.bl(); self.t("("); let mut all: Vec<String> = ps.to_vec(); if va { all.push("...".into()); }
        self.list(&all, |p, n| p.t(n)); self.t(")");
    }
    /// blanks that do not end the line
    fn hb(&mut self) { let w = *self.rng.pick(&["", " ", "\t", "  "]); self.out.push_str(w); }
    /// ends the current line; [blank]: leaves an empty line as well; [loose]: extra empty lines may be added (they are dropped)
    fn newline(&mut self, blank: bool, loose: bool) {
        self.hb(); self.t("\n");
        if blank { self.hb(); self.t("\n"); if self.rng.chance(1, 3) { self.hb(); self.t("\n"); } }
        else if loose && self.rng.chance(1, 4) { self.hb(); self.t("\n"); }
    }
    fn own_comment(&mut self, c: &str) { self.hb(); self.t("--"); self.t(c); if self.rng.chance(1, 3) { self.t("  "); } }
    /// the items of a block and its dangling comments; the caller has written the opening keyword and writes the closing one.
    /// [fresh]: nothing but blanks precedes on the current line (start of the file)
    fn block(&mut self, b: &B, fresh: bool) {
        let noblank = std::mem::replace(&mut self.noblank, false);
        let mut fresh = fresh;          // true: we are at the start of a line
        let mut first = true;           // nothing of the block has been written yet: empty lines here are dropped
        for it in &b.items {
            for (bl, c) in &it.lead {
                if !fresh { self.newline(*bl, first); } else if *bl { self.hb(); self.t("\n"); }
                self.own_comment(c); fresh = false; first = false;
            }
            if !it.lead.is_empty() || it.blank { if !fresh { self.newline(it.blank, false); } else if it.blank { self.hb(); self.t("\n"); } fresh = true; }
            if fresh { self.hb(); } else { self.ws(); }
            self.s(&it.s);
            first = false; fresh = false;
            match &it.trail {
                Some(c) => { if self.rng.chance(1, 8) { self.bl(); self.t(";"); } self.t(" "); self.hb(); self.t("--"); self.t(c); if self.rng.chance(1, 3) { self.t(" \t"); } self.t("\n"); fresh = true; }
                None => { if self.rng.chance(1, 6) { self.bl(); self.t(";"); } }
            }
        }
        for (bl, c) in &b.tail {
            if !fresh { self.newline(*bl, false); } else if *bl { self.hb(); self.t("\n"); }
            self.own_comment(c); fresh = false; first = false;
        }
        // (an empty line before the closing keyword is dropped by the formatter: it is not part of the tree)
        if !b.tail.is_empty() { self.newline(false, true); self.hb(); } else if fresh { self.hb(); } else if !noblank && !b.items.is_empty() && self.rng.chance(1, 8) { self.t("\n"); self.hb(); self.t("\n"); self.hb(); } else { self.ws(); }
    }
    fn s(&mut self, s: &S) {
        match s {
            S::Local(ns, es) => { self.t("local"); self.ws(); self.names(ns); if !es.is_empty() { self.ws(); self.t("="); self.ws(); self.list(es, |p, x| p.e(x)); } }
            S::Assign(vs, es) => { self.list(vs, |p, x| p.e(x)); self.ws(); self.t("="); self.ws(); self.list(es, |p, x| p.e(x)); }
            S::Call(e) => self.e(e),
            S::Do(b) => { self.t("do"); self.block(b, false); self.t("end"); }
            S::While(c, b) => { self.t("while"); self.ws(); self.e(c); self.ws(); self.t("do"); self.block(b, false); self.t("end"); }
            S::Repeat(b, c) => { self.t("repeat"); self.noblank = true; self.block(b, false); self.t("until"); self.ws(); self.e(c); }   // (an empty line before `until` is kept: outside L0)
            S::If(c, t, e) => {
                self.t("if"); self.ws(); self.e(c); self.ws(); self.t("then"); self.block(t, false);
                let mut cur = e;
                loop {
                    match cur {
                        Els::No => break,
                        Els::Else(b) => { self.t("else"); self.block(b, false); break; }
                        Els::ElseIf(c2, t2, r) => { self.t("elseif"); self.ws(); self.e(c2); self.ws(); self.t("then"); self.block(t2, false); cur = r; }
                    }
                }
                self.t("end");
            }
            S::NumFor(v, a, b, st, body) => { self.t("for"); self.ws(); self.t(v); self.ws(); self.t("="); self.ws(); self.e(a); self.t(","); self.ws(); self.e(b); if let Some(x) = st { self.t(","); self.ws(); self.e(x); } self.ws(); self.t("do"); self.block(body, false); self.t("end"); }
            S::GenFor(ns, es, body) => { self.t("for"); self.ws(); self.names(ns); self.ws(); self.t("in"); self.ws(); self.list(es, |p, x| p.e(x)); self.ws(); self.t("do"); self.block(body, false); self.t("end"); }
            S::Function(p, m, ps, va, body) => { self.t("function"); self.ws(); self.t(&p.join(".")); if let Some(n) = m { self.t(":"); self.t(n); } self.params(ps, *va); self.block(body, false); self.t("end"); }
            S::LocalFunction(n, ps, va, body) => { self.t("local"); self.ws(); self.t("function"); self.ws(); self.t(n); self.params(ps, *va); self.block(body, false); self.t("end"); }
            S::Return(es) => { self.t("return"); if !es.is_empty() { self.t(" "); self.list(es, |p, x| p.e(x)); } }
            S::Break => self.t("break"),
        }
    }
}

pub fn main(args: &[String]) {
    silence_panics();
    let (mut seed, mut n, mut shard, mut shards) = (0u64, 100usize, 0usize, 1usize);
    let mut i = 0;
    while i < args.len() {
        match args[i].as_str() {
            "--seed" => { seed = args[i + 1].parse().unwrap(); i += 1 }
            "--n" => { n = args[i + 1].parse().unwrap(); i += 1 }
            "--shard" => { let (a, b) = args[i + 1].split_once('/').unwrap(); shard = a.parse().unwrap(); shards = b.parse().unwrap(); i += 1 }
            _ => panic!("l0: unknown argument {}", args[i]),
        }
        i += 1;
    }
    let mut records = 0usize; let mut unparsed = 0usize;
    // what the generated programs hold (counted on the trees) and which option values the records ran under: goes into the evidence
    let mut dist: std::collections::BTreeMap<String, usize> = std::collections::BTreeMap::new();
    for k in 0..n {
        if k % shards != shard { continue; }
        let mut rng = Rng(seed.wrapping_mul(0x9E3779B97F4A7C15) ^ (k as u64).wrapping_mul(0xD1B54A32D192ED03) ^ 0x10);
        let prog = { let mut g = G { rng: &mut rng, loops: 0, noml: 0, comok: false, argcom: false }; let mut b = g.block_t(0, true, 5, true); if b.items.is_empty() { let s = g.stmt(0, true); b.items.push(Item { lead: vec![], blank: false, s, trail: None }); } b };
        let tree = sx_b(&prog);
        for (key, pat) in [("programs_with_tables_over_several_lines", "(tableml_"), ("programs_with_comment_lines_in_tables", "(fcom_"), ("programs_with_field_lines", "(fline_"), ("programs_with_call_sugar", "_1_("), ("programs_with_long_bracket_strings", "(brk_"), ("programs_with_if", "(if_"), ("programs_with_function", "function_")] {
            if tree.contains(pat) { *dist.entry(key.to_string()).or_insert(0) += 1; }
        }
        let src = { let mut p = P { rng: &mut rng, out: String::new(), noblank: false }; p.block(&prog, true); if !p.out.ends_with('\n') && p.rng.chance(3, 4) { p.t("\n"); } p.out };
        if !parses(&src, syntax("Lua51")) { unparsed += 1; println!("UNPARSED g{} {}", k, hex(src.as_bytes())); continue; }
        for (win, spaces, width) in [(0, 0, 4), (1, 0, 4), (0, 1, 1 + rng.below(8)), (1, 1, 1 + rng.below(8))] {
            let style = *rng.pick(&["AutoPreferDouble", "AutoPreferSingle", "ForceDouble", "ForceSingle"]);
            let callp = *rng.pick(&["Always", "Always", "NoSingleString", "NoSingleTable", "None", "Input"]);
            let space = *rng.pick(&["Never", "Never", "Definitions", "Calls", "Always"]);
            let collapse = *rng.pick(&["Never", "Never", "FunctionOnly", "ConditionalOnly", "Always", "Always"]);
            let cfg = config(&["syntax=Lua51", "column_width=100000", &format!("line_endings={}", if win == 1 { "Windows" } else { "Unix" }),
                               &format!("indent_type={}", if spaces == 1 { "Spaces" } else { "Tabs" }), &format!("indent_width={}", width), &format!("quote_style={}", style),
                               &format!("call_parentheses={}", callp), &format!("space_after_function_names={}", space),
                               &format!("collapse_simple_statement={}", collapse)]);
            records += 1;
            for (o, v) in [("quote", style), ("call_parentheses", callp), ("space_after_function_names", space), ("collapse_simple_statement", collapse)] { *dist.entry(format!("{}_{}", o, v)).or_insert(0) += 1; }
            match format_guarded(&src, cfg, None) {
                Outcome::Ok(o) => {
                    // the second pass: the library on its own output, under the same configuration (C06)
                    let second = match format_guarded(&o, cfg, None) { Outcome::Ok(o2) => hex(o2.as_bytes()), Outcome::ParseError => "parseerror".to_string(), Outcome::OtherError(_) => "error".to_string(), Outcome::Panic(_) => "panic".to_string() };
                    // ... and, where the second pass changed something, a third one: it must change nothing (C06_L0_second_pass_is_a_fixed_point)
                    let third = match format_guarded(&o, cfg, None) {
                        Outcome::Ok(o2) if o2 != o => match format_guarded(&o2, cfg, None) { Outcome::Ok(o3) => hex(o3.as_bytes()), _ => "failed".to_string() },
                        _ => "-".to_string(),
                    };
                    println!("L0 g{} {} {} {} {}/{}/{}/{} {} {} ok {} {} {}", k, win, spaces, width, style, callp, space, collapse, tree, hex(src.as_bytes()), hex(o.as_bytes()), second, third)
                }
                Outcome::ParseError => println!("L0 g{} {} {} {} {}/{}/{}/{} {} {} parseerror - - -", k, win, spaces, width, style, callp, space, collapse, tree, hex(src.as_bytes())),
                Outcome::OtherError(_) => println!("L0 g{} {} {} {} {}/{}/{}/{} {} {} error - - -", k, win, spaces, width, style, callp, space, collapse, tree, hex(src.as_bytes())),
                Outcome::Panic(_) => println!("L0 g{} {} {} {} {}/{}/{}/{} {} {} panic - - -", k, win, spaces, width, style, callp, space, collapse, tree, hex(src.as_bytes())),
            }
        }
    }
    println!("STATS records={} unparsed={}{}", records, unparsed, dist.iter().map(|(k, v)| format!(" {}={}", k, v)).collect::<String>());
}
