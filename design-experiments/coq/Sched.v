From Coq Require Import List Arith Lia Bool.
Import ListNotations.

(* one shared cell, per-thread register; instructions are atomic *)
Inductive instr := Load | StoreIfRegNe (k v : nat) | Store (v : nat) | FetchMax (v : nat).
Record thread := { reg : nat; code : list instr }.
Definition state := (nat * list thread)%type.   (* cell, threads *)

Definition exec (i : instr) (cell r : nat) : nat * nat :=
  match i with
  | Load => (cell, cell)
  | StoreIfRegNe k v => (if Nat.eqb r k then cell else v, r)
  | Store v => (v, r)
  | FetchMax v => (Nat.max cell v, r)
  end.

(* a schedule is a list of thread indices; a step on a finished or missing thread is a no-op *)
Fixpoint step_at (n : nat) (cell : nat) (ts : list thread) : nat * list thread :=
  match ts, n with
  | [], _ => (cell, [])
  | t :: r, O => match code t with
                 | [] => (cell, t :: r)
                 | i :: c => let '(cell', r') := exec i cell (reg t) in (cell', {| reg := r'; code := c |} :: r)
                 end
  | t :: r, S n => let '(cell', r') := step_at n cell r in (cell', t :: r')
  end.
Fixpoint run (sched : list nat) (st : state) : state :=
  match sched with [] => st | n :: s => let '(c, ts) := st in run s (step_at n c ts) end.

Definition finished (ts : list thread) : Prop := Forall (fun t => code t = []) ts.
Definition monotone (ts : list thread) : Prop :=
  Forall (fun t => Forall (fun i => match i with FetchMax _ | Load => True | _ => False end) (code t)) ts.
Fixpoint lvl (c : list instr) : nat := match c with [] => 0 | FetchMax v :: r => Nat.max v (lvl r) | _ :: r => lvl r end.
Fixpoint pending (ts : list thread) : nat := match ts with [] => 0 | t :: r => Nat.max (lvl (code t)) (pending r) end.

Lemma step_inv n : forall cell ts, monotone ts ->
  monotone (snd (step_at n cell ts)) /\
  Nat.max (fst (step_at n cell ts)) (pending (snd (step_at n cell ts))) = Nat.max cell (pending ts).
Proof.
  induction n as [|n IH]; intros cell ts Hm; destruct ts as [|t r]; cbn [step_at]; auto.
  - destruct t as [rg cd]. cbn [code reg]. destruct cd as [|i c]; [split; auto|].
    inversion Hm as [|? ? Ht Hr]; subst. cbn [code] in Ht. inversion Ht as [|? ? Hi Hc]; subst.
    destruct i as [|k v|v|v]; try contradiction; cbn [exec fst snd].
    + split; [constructor; auto|]. cbn. reflexivity.
    + split; [constructor; auto|]. cbn. lia.
  - inversion Hm as [|? ? Ht Hr]; subst. specialize (IH cell r Hr). destruct (step_at n cell r) as [c' r'].
    cbn [fst snd] in *. destruct IH as [Hm' He]. split; [constructor; auto|]. cbn. lia.
Qed.

Lemma finished_pending ts : finished ts -> pending ts = 0.
Proof. induction 1 as [|t r Ht _ IH]; cbn; auto. rewrite Ht, IH. reflexivity. Qed.

Theorem monotone_protocol sched : forall cell ts,
  monotone ts -> finished (snd (run sched (cell, ts))) ->
  fst (run sched (cell, ts)) = Nat.max cell (pending ts).
Proof.
  induction sched as [|n s IH]; intros cell ts Hm Hf; cbn [run] in *.
  - cbn in *. rewrite (finished_pending ts Hf). lia.
  - pose proof (step_inv n cell ts Hm) as [Hm' He]. destruct (step_at n cell ts) as [c' ts'].
    cbn [fst snd] in *. rewrite (IH c' ts' Hm' Hf). exact He.
Qed.
Print Assumptions monotone_protocol.

(* the code as it stands: the diff handler does Load; StoreIfRegNe 2 1 while the logger does Store 2 *)
Definition handler_old := {| reg := 0; code := [Load; StoreIfRegNe 2 1] |}.
Definition logger_old := {| reg := 0; code := [Store 2] |}.
Theorem exit_status_race_refuted :
  exists sched, finished (snd (run sched (0, [handler_old; logger_old]))) /\ fst (run sched (0, [handler_old; logger_old])) = 1.
Proof. exists [0; 1; 0]. split; [repeat constructor|reflexivity]. Qed.
