(* C01 - formatted output is always syntactically valid.  Statements only.
   Partial by nature (full_moon's statement parser is not modelled): what is proved is (a) the lexical half - a token
   list whose members re-lex one by one re-lexes as a whole, with the per-class conditions under which a token re-lexes
   in front of what follows it - and (b) the side conditions through which the formatter could leave the grammar.
   Acceptance by the real parser is part of the correspondence. *)
From Coq Require Import List Ascii String.
From SV Require Lex LexRender LexSym LexNum LexLong Expr Parens ParensProof PrattProof.
Import ListNotations Lex LexRender.

(* (a) printing a well-formed token list and lexing it again gives the list back, for any length *)
Theorem C01_lex_render_roundtrip : forall v ts fuel, all_single v ts -> List.length (render ts) < fuel ->
  lex_loop v fuel (render ts) = Some ts.
Proof. exact lex_loop_render. Qed.
Check C01_lex_render_roundtrip : forall v ts fuel, all_single v ts -> List.length (render ts) < fuel -> lex_loop v fuel (render ts) = Some ts.
Print Assumptions C01_lex_render_roundtrip.
(* ... with, per token class, what must not follow it *)
Theorem C01_identifier : forall v s rest, wf_ident s -> is_keyword v s = false -> follow_ident rest -> single v (TIdent s) rest.
Proof. exact single_ident. Qed.
Print Assumptions C01_identifier.
Theorem C01_keyword : forall v s rest, wf_ident s -> is_keyword v s = true -> follow_ident rest -> single v (TSym s) rest.
Proof. exact single_keyword. Qed.
Print Assumptions C01_keyword.
Theorem C01_quoted_strings : forall v b rest,
  (wf_qbody v """"%char b -> single v (TStr QDouble 0 b) rest) /\ (wf_qbody v "'"%char b -> single v (TStr QSingle 0 b) rest).
Proof. intros. split; [apply single_string_dq|apply single_string_sq]. Qed.
Print Assumptions C01_quoted_strings.
Theorem C01_long_brackets : forall v d b rest, LexLong.wf_long d b ->
  single v (TBlockCom d b) rest /\ single v (TStr QBrackets d b) rest.
Proof. intros. split; [apply LexLong.single_block_comment|apply LexLong.single_bracket_string]; assumption. Qed.
Print Assumptions C01_long_brackets.
Theorem C01_decimal_number : forall v c s rest, vjit v = false -> LexNum.wf_decimal v c s -> LexNum.follow_num rest -> single v (TNum (c :: s)) rest.
Proof. exact LexNum.single_decimal. Qed.
Print Assumptions C01_decimal_number.
(* the minus sign: re-lexes as a minus exactly when no minus sign, `=` or `>` follows - the reason for C05's guard *)
Theorem C01_minus_sign : forall v rest, LexSym.hd_ne "-"%char rest -> LexSym.hd_ne "="%char rest -> LexSym.hd_ne ">"%char rest ->
  single v (TSym (str "-")) rest.
Proof. exact LexSym.single_minus. Qed.
Print Assumptions C01_minus_sign.
(* the opening bracket: not when `[` or `=` follows - the reason for the blank in `t[ [[k]] ]` *)
Theorem C01_left_bracket : forall v rest, LexSym.hd_ne "["%char rest -> LexSym.hd_ne "="%char rest -> single v (TSym (str "[")) rest.
Proof. exact LexSym.single_lbracket. Qed.
Print Assumptions C01_left_bracket.
(* a line comment swallows everything up to the next line feed: it must be followed by one *)
Theorem C01_line_comment : forall v s rest, no_lf s = true ->
  (match s with c :: _ => eqc c "["%char = false | [] => True end) -> follow_comment rest -> single v (TLineCom s) rest.
Proof. exact single_line_comment. Qed.
Print Assumptions C01_line_comment.

(* (b) the expression printer never needs a token it cannot re-lex: on every layout path no unary minus meets a minus
   sign, and what is printed is a tree the parser returns for its own print-out *)
Theorem C01_no_double_minus_any_layout : forall c e o, Parens.R c e o -> Expr.can e = true -> Expr.no_double_minus o = true.
Proof. exact ParensProof.R_no_double_minus. Qed.
Print Assumptions C01_no_double_minus_any_layout.
Theorem C01_expression_output_reparses : forall c e o, Parens.R c e o -> Expr.can e = true -> Expr.parse (Expr.tokens o) = Some o.
Proof. intros c e o H K. apply PrattProof.pratt_roundtrip. exact (ParensProof.R_can c e o H K). Qed.
Print Assumptions C01_expression_output_reparses.

(* (c) the semicolon rule of format_block, regenerated from src/formatters/block.rs on every run: the `;` between two
   statements is kept whenever the next one begins with `(` and this one can end in an expression - the only place
   where dropping it lets the parser read the two statements as one (or reject them) *)
From SV Require FmAst Semicolon SemicolonProof.
From SVgen Require SemiRule.
Theorem C01_semicolon_kept_where_the_next_statement_would_be_absorbed : forall s n semi,
  Semicolon.wf_stmt n = true -> Semicolon.open_ended s = true -> Semicolon.starts_with_paren n = true ->
  SemiRule.check_stmt_requires_semicolon s (Some (n, semi)) = true.
Proof. exact SemicolonProof.semicolon_kept_where_needed. Qed.
Print Assumptions C01_semicolon_kept_where_the_next_statement_would_be_absorbed.

(* (d) L0 - the whole-formatter model on a fragment of Lua 5.1 (Fmt0.v), tied to the binary byte for byte on every run:
   no expression it prints has a unary minus applied to something that starts with a minus sign *)
From SV Require Fmt0 Fmt0Proof.
Theorem C01_L0_no_double_minus : forall e c, Expr.can (Fmt0.shape e) = true -> Expr.no_double_minus (Fmt0.shape (Fmt0.nexp c e)) = true.
Proof. exact Fmt0Proof.nexp_no_double_minus. Qed.
Print Assumptions C01_L0_no_double_minus.

(* (e) L0: the text the whole-formatter model prints lexes back to exactly the tokens it printed, for every
   well-formed program of the fragment, every indentation setting (an indent width of zero excluded), quote style, call_parentheses and
   space_after_function_names value;
   with comments the line ending must be LF (full_moon makes the CR of a CR LF behind a line comment part of the
   comment: the text is the same, the token list is not).  Proved through LexAdj.adj_relex: every printed token is
   compatible with the first character of what follows it. *)
From SV Require LexAdj Fmt0Lex.
Theorem C01_L0_output_lexes_back_to_the_printed_tokens : forall v, Lex.vjit v = false -> forall c,
  (Fmt0.spaces0 c = true -> Fmt0.width0 c <> 0) -> forall p, Fmt0Lex.wfb v c p ->
  Lex.lex_loop v (S (List.length (LexRender.render (Fmt0.pprog c p)))) (LexRender.render (Fmt0.pprog c p)) = Some (Fmt0.pprog c p).
Proof. intros v Hj c Hw p W. exact (Fmt0Lex.pprog_relexes v Hj c Hw p W). Qed.
Print Assumptions C01_L0_output_lexes_back_to_the_printed_tokens.
Theorem C01_adjacent_token_checker_is_sound : forall v, Lex.vjit v = false -> forall ts,
  List.Forall (LexAdj.wf_tok v) ts -> LexAdj.adj_ok ts None = true ->
  Lex.lex_loop v (S (List.length (LexRender.render ts))) (LexRender.render ts) = Some ts.
Proof. exact LexAdj.adj_relex. Qed.
Print Assumptions C01_adjacent_token_checker_is_sound.
(* ... and end to end: for a program that is well formed in the structural sense (every unary node a tree the parser can
   return), what format0 prints - both passes (parentheses, call form) included - lexes back to the tokens of the normalised program *)
Theorem C01_L0_formatted_text_lexes_back : forall v, Lex.vjit v = false -> forall c,
  (Fmt0.spaces0 c = true -> Fmt0.width0 c <> 0) -> forall p, Fmt0Lex.wfb1 v c p ->
  Lex.lex_loop v (S (List.length (Fmt0.format0 c p))) (Fmt0.format0 c p) = Some (Fmt0.pprog c (Fmt0.norm0 c p)).
Proof. intros v Hj c Hw p W. exact (Fmt0Lex.format0_relexes v Hj c Hw p W). Qed.
Print Assumptions C01_L0_formatted_text_lexes_back.
(* the hypotheses are met by a concrete program with a comment, a guarded double minus, a call and a nested block *)
Theorem C01_L0_example_meets_the_hypotheses : Fmt0Lex.wfb1 Fmt0Lex.v51 Fmt0Lex.cfg_example Fmt0Lex.prog_example.
Proof. exact Fmt0Lex.example_is_well_formed. Qed.
Print Assumptions C01_L0_example_meets_the_hypotheses.
(* Tie 1 for the guard that keeps `- -` from being printed as the start of a comment: the function regenerated from /repo's
   parenthesise_double_minus decides by the model's [starts_neg] and builds the model's [guard] *)
From SV Require MinusGuardProof ParensTie.
From SVgen Require MinusGuard.
Theorem C01_regenerated_double_minus_guard_is_the_models : forall e, MinusGuard.starts_with_minus (ParensTie.embed e) = Parens.starts_neg e.
Proof. exact MinusGuardProof.generated_starts_with_minus_is_model. Qed.
Print Assumptions C01_regenerated_double_minus_guard_is_the_models.
Theorem C01_regenerated_guard_parenthesises_exactly_then : forall oracle : FmAst.Expression -> FmAst.Expression * unit, (forall e, fst (oracle e) = e) ->
  forall u x, MinusGuard.parenthesise_double_minus oracle (ParensTie.embed_uop u) (ParensTie.embed x) = ParensTie.embed (Parens.guard u x).
Proof. exact MinusGuardProof.generated_guard_is_model. Qed.
Print Assumptions C01_regenerated_guard_parenthesises_exactly_then.
(* Tie 1 for the blank that keeps a long-bracket string away from the `[` of an index or a table key (`t[ [[s]] ]`; without it the text
   would read `t[[[s]]]`): the function regenerated from /repo's is_brackets_string is the L0 model's [bstr], which says "the leftmost leaf,
   through parentheses and left operands, is a long-bracket string"; the model then writes the blanks exactly there *)
From SV Require BracketsProof.
From SVgen Require BracketsString.
Theorem C01_regenerated_brackets_string_test_is_the_models : forall e, BracketsString.is_brackets_string (BracketsProof.emb e) = Fmt0.bstr e.
Proof. exact BracketsProof.generated_is_brackets_string_is_bstr. Qed.
Print Assumptions C01_regenerated_brackets_string_test_is_the_models.
Theorem C01_brackets_string_test_is_about_the_leftmost_leaf : forall e,
  Fmt0.bstr e = match BracketsProof.leftmost e with Fmt0.EBrk _ _ => true | _ => false end.
Proof. exact BracketsProof.bstr_is_leftmost_long. Qed.
Print Assumptions C01_brackets_string_test_is_about_the_leftmost_leaf.
Theorem C01_L0_long_string_key_is_kept_away_from_the_bracket : forall c d n b,
  Fmt0.brk (Fmt0.bstr (Fmt0.EBrk n b)) (Fmt0.pexp c d (Fmt0.EBrk n b)) = (Fmt0.kw "[" :: Fmt0.sp :: Lex.TStr Lex.QBrackets n b :: Fmt0.sp :: Fmt0.kw "]" :: nil)%list.
Proof. exact BracketsProof.brackets_of_a_long_string. Qed.
Print Assumptions C01_L0_long_string_key_is_kept_away_from_the_bracket.
(* ... so that, for every key that is an expression the parser can return (whatever it holds: the premise speaks of the leftmost path only),
   no long-bracket string token stands right behind the `[` of an index or a table key in what the model prints - `[[[` never arises *)
Theorem C01_L0_no_long_string_right_behind_a_bracket : forall c d k, BracketsProof.lok k = true ->
  match Fmt0.brk (Fmt0.bstr k) (Fmt0.pexp c d k) with (_ :: rest)%list => BracketsProof.hd_brk rest = false | nil => True end.
Proof. exact BracketsProof.no_long_string_right_behind_the_bracket. Qed.
Print Assumptions C01_L0_no_long_string_right_behind_a_bracket.
