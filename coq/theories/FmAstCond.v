(* Mirror for rs2v's kernel condition_parentheses (src/formatters/stmt.rs remove_condition_parentheses): an expression as that
   function sees it - parentheses with the span of their two tokens, or anything else.  The mirror holds no trivia: the
   functions that move comments (take_trailing_comments, update_trailing_trivia) return the expression they are given; what
   the function asks about comments it asks through two oracles (parentheses_contain_comments, has_leading_comments). *)
Inductive TokenReference := mkTok (id : nat).
Inductive CommentSearch := CommentSearch_Single | CommentSearch_Multi | CommentSearch_All.
Record ContainedSpan := { tokens : TokenReference * TokenReference }.
Inductive Expression :=
| Expression_Parentheses (contained : ContainedSpan) (expression : Expression)
| Expression_Other (id : nat).
Inductive FormatTriviaType := FormatTriviaType_Append (comments : unit).
Definition update_trailing_trivia (e : Expression) (_ : FormatTriviaType) : Expression := e.
Definition trivia_util_take_trailing_comments (e : Expression) : Expression * unit := (e, tt).
