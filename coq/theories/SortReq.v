(* (K) sort_requires at the level of the top-level statement list (C12).
   An item is a require-like local (group kind, sort key, line of its name, last line, whether it is being formatted,
   its body and its leading trivia) or any other statement. *)
From Coq Require Import List Bool Arith Lia.
Import ListNotations.

Section Sort.
Variable key : Type.
Variable leb : key -> key -> bool.               (* byte-wise order of the variable names *)
Variable body trivia : Type.

Record req := { kind : bool; name : key; l0 : nat; l1 : nat; normal : bool; rbody : body; rlead : list trivia }.
Inductive item := Req (r : req) | Other (b : body) (l : list trivia).

(* slice::sort_by_key is a stable sort; insertion from the right is one *)
Fixpoint insert (x : req) (l : list req) : list req :=
  match l with [] => [x] | y :: r => if leb (name x) (name y) then x :: l else y :: insert x r end.
Fixpoint isort (l : list req) : list req := match l with [] => [] | x :: r => insert x (isort r) end.

Definition set_lead (r : req) (l : list trivia) : req :=
  {| kind := kind r; name := name r; l0 := l0 r; l1 := l1 r; normal := normal r; rbody := rbody r; rlead := l |}.
(* the leading trivia of the group's first member is taken off, the group sorted, and the member that comes first
   gets that trivia in front of its own *)
Definition sort_group (g : list req) : list req :=
  if forallb normal g then
    match g with
    | [] => []
    | first :: rest =>
      match isort (set_lead first [] :: rest) with
      | [] => []
      | s :: others => set_lead s (rlead first ++ rlead s) :: others
      end
    end
  else g.

(* grouping: maximal runs of requires of one kind where each starts at most one line after the previous one ends *)
Fixpoint groups (cur : list req) (l : list item) : list (list req + item) :=
  match l with
  | [] => match cur with [] => [] | _ => [inl (rev cur)] end
  | Other b ld :: r => (match cur with [] => [] | _ => [inl (rev cur)] end) ++ inr (Other b ld) :: groups [] r
  | Req q :: r =>
      match cur with
      | [] => groups [q] r
      | p :: _ => if Bool.eqb (kind p) (kind q) && (l0 q - l1 p <=? 1) then groups (q :: cur) r
                  else inl (rev cur) :: groups [q] r
      end
  end.
Definition flatten (gs : list (list req + item)) : list item :=
  flat_map (fun g => match g with inl rs => map Req rs | inr i => [i] end) gs.
Definition sort_groups (gs : list (list req + item)) : list (list req + item) :=
  map (fun g => match g with inl rs => inl (sort_group rs) | inr i => inr i end) gs.
Definition sort_requires (l : list item) : list item := flatten (sort_groups (groups [] l)).

Definition body_of (i : item) : body := match i with Req r => rbody r | Other b _ => b end.
Definition lead_of (i : item) : list trivia := match i with Req r => rlead r | Other _ l => l end.
Definition other_slot (i : item) : option (body * list trivia) := match i with Other b l => Some (b, l) | Req _ => None end.
End Sort.

(* the order of Rust's String: lexicographic on bytes *)
From Coq Require Import Ascii NArith.
Fixpoint str_leb (a b : list ascii) : bool :=
  match a, b with
  | [], _ => true
  | _ :: _, [] => false
  | x :: a', y :: b' => if N.ltb (N_of_ascii x) (N_of_ascii y) then true
                        else if N.eqb (N_of_ascii x) (N_of_ascii y) then str_leb a' b' else false
  end.
