open Fmt0
type sx = A of string | L of sx list
let parse (s : string) : sx =
  let n = String.length s in
  let pos = ref 0 in
  let rec skip () = if !pos < n && s.[!pos] = ' ' then (incr pos; skip ()) in
  let rec item () =
    skip ();
    if s.[!pos] = '(' then begin
      incr pos; let acc = ref [] in
      let rec loop () = skip (); if s.[!pos] = ')' then incr pos else (acc := item () :: !acc; loop ()) in
      loop (); L (List.rev !acc) end
    else begin
      let st = !pos in
      while !pos < n && s.[!pos] <> ' ' && s.[!pos] <> ')' && s.[!pos] <> '(' do incr pos done;
      A (String.sub s st (!pos - st)) end in
  item ()
let unhex (h : string) : char list =
  (* "#68656c" *)
  let k = (String.length h - 1) / 2 in
  List.init k (fun i -> Char.chr (int_of_string ("0x" ^ String.sub h (1 + 2*i) 2)))
let hex l = "#" ^ String.concat "" (List.map (fun c -> Printf.sprintf "%02x" (Char.code c)) l)
let rec nat_of_int i = if i <= 0 then O else S (nat_of_int (i - 1))
let fail_sx what = failwith ("bad sexpr: " ^ what)
let triv = function
  | L [A "ws"; A h] -> Ws (unhex h) | L [A "lc"; A h] -> LCom (unhex h)
  | L [A "bc"; A d; A h] -> BCom (nat_of_int (int_of_string d), unhex h) | L [A "sb"; A h] -> Sheb (unhex h)
  | _ -> fail_sx "triv"
let trivs = function L l -> List.map triv l | _ -> fail_sx "trivs"
let strk = function "sq" -> SQ | "dq" -> DQ | _ -> BR
let opt f = function L [A "some"; x] -> Some (f x) | L [A "none"] -> None | _ -> fail_sx "opt"
let rec expr = function
  | L [A "nil"] -> ENil | L [A "true"] -> ETrue | L [A "false"] -> EFalse | L [A "varargs"] -> EVarargs
  | L [A "num"; A h] -> ENum (unhex h)
  | L [A "str"; A k; A d; A h] -> EStr (strk k, nat_of_int (int_of_string d), unhex h)
  | L [A "name"; A h] -> EName (unhex h)
  | L [A "paren"; e] -> EParen (expr e)
  | L [A "un"; A o; e] -> EUn ((match o with "neg" -> UNeg | "not" -> UNot | "len" -> ULen | _ -> UBNot), expr e)
  | L [A "bin"; A o; l; r] -> EBin (unhex o, expr l, expr r)
  | L [A "chain"; p; L sufs] -> EChain (prefix p, List.map suffix sufs)
  | L [A "func"; L ps; b] -> EFunc (List.map param ps, block b)
  | L [A "tbl"; L fs; A nl] -> ETbl (List.map field fs, nl = "1")
  | _ -> fail_sx "expr"
and prefix = function L [A "pname"; A h] -> PName (unhex h) | L [A "pparen"; e] -> PParen (expr e) | _ -> fail_sx "prefix"
and suffix = function
  | L [A "sdot"; A h] -> SDot (unhex h) | L [A "sidx"; e] -> SIdx (expr e)
  | L [A "scall"; a] -> SCall (args a) | L [A "smeth"; A h; a] -> SMeth (unhex h, args a) | _ -> fail_sx "suffix"
and args = function
  | L [A "aparen"; L es] -> AParen (List.map expr es)
  | L [A "astr"; L [A "str"; A k; A d; A h]] -> AStr (strk k, nat_of_int (int_of_string d), unhex h)
  | L [A "atbl"; L [A "tbl"; L fs; A nl]] -> ATbl (List.map field fs, nl = "1") | _ -> fail_sx "args"
and field = function
  | L [A "fpos"; e] -> FPos (expr e) | L [A "fname"; A h; e] -> FName (unhex h, expr e)
  | L [A "fexpr"; k; v] -> FExpr (expr k, expr v) | _ -> fail_sx "field"
and param = function L [A "pn"; A h] -> PN (unhex h) | L [A "pvar"] -> PVar | _ -> fail_sx "param"
and names = function L l -> List.map (function A h -> unhex h | _ -> fail_sx "name") l | _ -> fail_sx "names"
and exprs = function L l -> List.map expr l | _ -> fail_sx "exprs"
and stmt = function
  | L [A "local"; ns; es] -> SLocal (names ns, exprs es)
  | L [A "assign"; vs; es] -> SAssign (exprs vs, exprs es)
  | L [A "callstmt"; e] -> SCallStmt (expr e)
  | L [A "do"; b] -> SDo (block b)
  | L [A "while"; c; b] -> SWhile (expr c, block b)
  | L [A "repeat"; b; c] -> SRepeat (block b, expr c)
  | L [A "if"; c; b; L eis; els] -> SIf (expr c, block b, List.map (function L [ce; cb] -> (expr ce, block cb) | _ -> fail_sx "elseif") eis, opt block els)
  | L [A "numfor"; A v; a; b; st; blk] -> SNumFor (unhex v, expr a, expr b, opt expr st, block blk)
  | L [A "genfor"; ns; es; b] -> SGenFor (names ns, exprs es, block b)
  | L [A "function"; ns; m; L ps; b] -> SFunction (names ns, opt (function A h -> unhex h | _ -> fail_sx "m") m, List.map param ps, block b)
  | L [A "localfunction"; A n; L ps; b] -> SLocalFunction (unhex n, List.map param ps, block b)
  | L [A "return"; es] -> SReturn (exprs es) | L [A "break"] -> SBreak
  | _ -> fail_sx "stmt"
and item = function
  | L [A "item"; lead; s; semi; trail] ->
      Item (trivs lead, stmt s, (match semi with L [A "nosemi"] -> None | L [A "semi"; a; b] -> Some (trivs a, trivs b) | _ -> fail_sx "semi"), trivs trail)
  | _ -> fail_sx "item"
and block = function L (A "block" :: items) -> Block (List.map item items) | _ -> fail_sx "block"

let () =
  let base = { c_nl = ['\n']; c_indent = ['\t']; c_quote = AutoDouble; c_cp = CPAlways; c_sp_call = false; c_sp_def = false } in
  let cfg = match Sys.argv.(1) with
    | "1" -> { base with c_nl = ['\r'; '\n']; c_indent = [' '; ' '; ' ']; c_quote = AutoSingle }
    | "2" -> { base with c_quote = ForceSingle; c_cp = CPNone; c_sp_call = true; c_sp_def = true }
    | "3" -> { base with c_quote = ForceDouble; c_cp = CPNoString; c_sp_call = true }
    | "4" -> { base with c_cp = CPNoTable; c_sp_def = true; c_indent = [' '] }
    | "5" -> { base with c_cp = CPInput }
    | _ -> base in
  let name = ref "" and ast = ref None in
  let ok = ref 0 and bad = ref 0 and unsup = ref 0 and skipped = ref 0 in
  (try while true do
    let l = input_line stdin in
    if String.length l > 5 && String.sub l 0 5 = "CASE " then (name := String.sub l 5 (String.length l - 5); ast := None)
    else if String.length l > 4 && String.sub l 0 4 = "AST " then ast := Some (parse (String.sub l 4 (String.length l - 4)))
    else if String.length l > 4 && String.sub l 0 4 = "OUT " then begin
      match !ast with
      | Some (L [A "program"; b; eof]) ->
          let out = fmt0 cfg (block b) (trivs eof) in
          if List.mem '\255' out then incr unsup
          else if hex out = String.sub l 4 (String.length l - 4) then incr ok
          else begin incr bad; Printf.printf "MISMATCH %s\n  model: %s\n  impl : %s\n" !name (String.escaped (String.of_seq (List.to_seq out)))
            (String.escaped (String.of_seq (List.to_seq (unhex (String.sub l 4 (String.length l - 4)))))) end
      | _ -> incr skipped end
    else incr skipped
  done with End_of_file -> ());
  Printf.printf "ok=%d mismatch=%d unsupported-by-model=%d other-lines=%d\n" !ok !bad !unsup !skipped
