(* A proven checker for "this token list lexes back to itself": every token only has to be compatible with the first
   character of what follows it.  [safe t n] is a sufficient condition, per token class, for the per-token lemmas of
   LexRender / LexSym / LexNum; [adj_ok] runs it along a list; [adj_sound] lifts it to LexRender.all_single and so to
   lex_loop v fuel (render ts) = Some ts.  Printers are then verified by reasoning about first characters only. *)
From Coq Require Import List Ascii String Bool Arith Lia.
Import ListNotations.
From SV Require Import Lex LexRender LexSym LexNum.
Open Scope char_scope.

Lemma beqb_eq : forall a b, beqb a b = true -> a = b.
Proof.
  induction a as [|x a IH]; destruct b as [|y b]; cbn; intros H; try discriminate; [reflexivity|].
  apply andb_true_iff in H. destruct H as [E H]. apply Ascii.eqb_eq in E. subst. f_equal. apply IH. exact H.
Qed.

Section Adj.
Variable v : ver.
Hypothesis Hjit : vjit v = false.

(* all_single with something more behind the list *)
Fixpoint all_single_tail (ts : list tok) (rest : bytes) : Prop :=
  match ts with [] => True | t :: r => show t <> [] /\ single v t (render r ++ rest) /\ all_single_tail r rest end.
Lemma all_single_tail_nil ts : all_single_tail ts [] -> all_single v ts.
Proof. induction ts as [|t r IH]; cbn; [auto|]. rewrite app_nil_r. intros (A & B & C). auto. Qed.

Definition nc := option ascii.
Definition ne (x : ascii) (n : nc) : bool := match n with Some c => negb (eqc c x) | None => true end.
Definition dot_follow (n : nc) : bool := ne "." n && match n with Some c => negb (is_digit c) | None => true end.
Definition symtab : list (bytes * (nc -> bool)) :=
  [ (str "(", fun _ => true); (str ")", fun _ => true); (str "]", fun _ => true); (str ",", fun _ => true); (str "#", fun _ => true);
    (str "{", fun _ => true); (str "}", fun _ => true); (str ";", fun _ => true); (str "==", fun _ => true); (str "~=", fun _ => true);
    (str ">=", fun _ => true); (str "<=", fun _ => true); (str "...", fun _ => true);
    (str "=", ne "="); (str "+", ne "="); (str "*", ne "="); (str "%", ne "="); (str "^", ne "=");
    (str "<", fun n => ne "=" n && ne "<" n); (str ">", fun n => ne "=" n && ne ">" n); (str "/", fun n => ne "=" n && ne "/" n);
    (str ":", ne ":"); (str "..", fun n => ne "." n && ne "=" n); (str "-", fun n => ne "-" n && ne "=" n && ne ">" n);
    (str ".", dot_follow); (str "[", fun n => ne "[" n && ne "=" n) ].
Fixpoint lookup (s : bytes) (tab : list (bytes * (nc -> bool))) : option (nc -> bool) :=
  match tab with [] => None | (k, f) :: r => if beqb s k then Some f else lookup s r end.
Definition sym_safe (s : bytes) (n : nc) : bool := match lookup s symtab with Some f => f n | None => false end.
Definition word_follow (n : nc) : bool := match n with Some c => negb (is_ident_char c) | None => true end.
Definition safe (t : tok) (n : nc) : bool :=
  match t with
  | TIdent s => word_follow n
  | TSym s => match s with c0 :: _ => if is_ident_start c0 then word_follow n else sym_safe s n | [] => false end
  | TNum _ => match n with Some c => num_stop c | None => true end
  | TStr _ _ _ => true
  | TWs s => if beqb s [LF] || beqb s [CR; LF] then true
             else match n with Some c => negb (blank c) && negb (eqc c LF) && negb (eqc c CR) | None => true end
  | TLineCom _ => match n with Some c => eqc c LF | None => true end
  | _ => false
  end.
(* what a token must be in itself *)
Definition wf_tok (t : tok) : Prop :=
  match t with
  | TIdent s => wf_ident s /\ is_keyword v s = false
  | TSym s => match s with c0 :: _ => if is_ident_start c0 then wf_ident s /\ is_keyword v s = true else True | [] => False end
  | TNum s => match s with c0 :: s' => wf_decimal v c0 s' | [] => False end
  | TStr q d b => d = 0 /\ match q with QDouble => wf_qbody v """" b | QSingle => wf_qbody v "'" b | QBrackets => False end
  | TWs s => s = [LF] \/ s = [CR; LF] \/ (s <> [] /\ forallb blank s = true)
  | TLineCom s => no_lf s = true /\ match s with c :: _ => eqc c "[" = false | [] => True end
  | _ => False
  end.

Definition hdc (rest : bytes) : nc := match rest with c :: _ => Some c | [] => None end.
Lemma ne_hd x rest : ne x (hdc rest) = true -> hd_ne x rest.
Proof. destruct rest as [|c r]; cbn; [auto|]. intros H E. subst. unfold eqc in H. rewrite Ascii.eqb_refl in H. discriminate. Qed.
Lemma word_follow_hd rest : word_follow (hdc rest) = true -> follow_ident rest.
Proof. destruct rest as [|c r]; cbn; [auto|]. intros H. apply negb_true_iff in H. exact H. Qed.

Lemma lookup_in s tab f : lookup s tab = Some f -> In (s, f) tab.
Proof.
  induction tab as [|[k g] r IH]; cbn [lookup]; [discriminate|]. destruct (beqb s k) eqn:E.
  - intros H. injection H as <-. apply beqb_eq in E. subst k. left. reflexivity.
  - intros H. right. apply IH. exact H.
Qed.
Ltac nes := repeat match goal with H : _ && _ = true |- _ => apply andb_true_iff in H; destruct H end.
Lemma sym_safe_single s rest : sym_safe s (hdc rest) = true -> single v (TSym s) rest.
Proof.
  unfold sym_safe. destruct (lookup s symtab) as [f|] eqn:L; [|discriminate]. intros H. apply lookup_in in L.
  cbn [symtab In] in L.
  repeat (destruct L as [L|L]; [injection L as <- <-; cbn beta in H; nes;
    first [ apply single_lparen | apply single_rparen | apply single_rbracket | apply single_comma | apply single_hash
          | apply single_lbrace | apply single_rbrace | apply single_semi | apply single_eqeq | apply single_neq
          | apply single_ge | (apply single_le; cbn; discriminate) | apply single_ellipsis
          | (apply single_assign; apply ne_hd; assumption) | (apply single_plus; apply ne_hd; assumption)
          | (apply single_star; apply ne_hd; assumption) | (apply single_percent; apply ne_hd; assumption)
          | (apply single_caret; apply ne_hd; assumption) | (apply single_lt; apply ne_hd; assumption)
          | (apply single_gt; apply ne_hd; assumption) | (apply single_slash; apply ne_hd; assumption)
          | (apply single_colon; apply ne_hd; assumption) | (apply single_concat; apply ne_hd; assumption)
          | (apply single_minus; apply ne_hd; assumption) | (apply single_lbracket; apply ne_hd; assumption)
          | idtac ] | ]); try contradiction.
  (* the dot *)
  unfold dot_follow in H. apply andb_true_iff in H. destruct H as [H1 H2]. apply single_dot; [apply ne_hd; exact H1|].
  destruct rest as [|c r]; [exact I|]. cbn in H2. apply negb_true_iff in H2. exact H2.
Qed.

Lemma safe_single t rest : wf_tok t -> safe t (hdc rest) = true -> show t <> [] /\ single v t rest.
Proof.
  destruct t; cbn [wf_tok safe]; try contradiction.
  - intros [W K] H. split; [destruct s; [destruct W|discriminate]|]. apply single_ident; [exact W|exact K|apply word_follow_hd; exact H].
  - destruct s as [|c0 s']; [contradiction|]. destruct (is_ident_start c0) eqn:I0.
    + intros [W K] H. split; [discriminate|]. apply single_keyword; [exact W|exact K|apply word_follow_hd; exact H].
    + intros _ H. split; [discriminate|]. apply sym_safe_single. exact H.
  - destruct s as [|c0 s']; [contradiction|]. intros W H. split; [discriminate|]. apply single_decimal; [exact Hjit|exact W|].
    destruct rest as [|c r]; [exact I|exact H].
  - intros [D W] _. subst depth. destruct q; [| |contradiction]; (split; [discriminate|]).
    + apply single_string_sq. exact W.
    + apply single_string_dq. exact W.
  - intros W H. destruct W as [W|[W|[N W]]].
    + subst s. split; [discriminate|]. apply single_newline.
    + subst s. split; [discriminate|]. apply single_crlf.
    + split; [exact N|]. destruct s as [|c s']; [contradiction|]. cbn [forallb] in W. apply andb_true_iff in W. destruct W as [W1 W2].
      assert (E1 : beqb (c :: s') [LF] = false).
      { destruct s'; cbn [beqb]; [|apply andb_false_r]. rewrite andb_true_r. unfold blank in W1. destruct (eqc c LF) eqn:E; [|reflexivity].
        apply Ascii.eqb_eq in E. subst c. discriminate. }
      assert (E2 : beqb (c :: s') [CR; LF] = false).
      { cbn [beqb]. unfold blank in W1. destruct (eqc c CR) eqn:E; [|reflexivity]. apply Ascii.eqb_eq in E. subst c. discriminate. }
      rewrite E1, E2 in H. cbn [orb] in H. apply single_blanks; [exact W1|exact W2|].
      destruct rest as [|x r]; [exact I|]. cbn in H. apply andb_true_iff in H. destruct H as [H H3]. apply andb_true_iff in H. destruct H as [H1 H2].
      apply negb_true_iff in H1, H2, H3. cbn. auto.
  - intros [W1 W2] H. split; [discriminate|]. apply single_line_comment; [exact W1|exact W2|].
    destruct rest as [|x r]; [exact I|exact H].
Qed.

(* the first character of a token's text / of what follows in a list *)
Definition fct (t : tok) : nc := hdc (show t).
Definition nextc (ts : list tok) (n : nc) : nc := match ts with t :: _ => fct t | [] => n end.
Fixpoint adj_ok (ts : list tok) (n : nc) : bool :=
  match ts with [] => true | t :: r => safe t (nextc r n) && adj_ok r n end.
Lemma hdc_app a b : a <> [] -> hdc (a ++ b) = hdc a.
Proof. destruct a; [contradiction|reflexivity]. Qed.
Lemma wf_show_ne t : wf_tok t -> show t <> [].
Proof.
  destruct t; cbn [wf_tok show]; try contradiction; try discriminate.
  - intros [W _]. destruct s; [destruct W|discriminate].
  - destruct s; [contradiction|discriminate].
  - destruct s; [contradiction|discriminate].
  - intros [_ W]. destruct q; discriminate.
  - intros [W|[W|[N _]]]; subst; try discriminate. exact N.
Qed.
Lemma hdc_render ts rest : Forall wf_tok ts -> hdc (render ts ++ rest) = nextc ts (hdc rest).
Proof.
  intros W. destruct ts as [|t r]; [reflexivity|]. inversion W as [|? ? Wt Wr]; subst.
  unfold render. cbn [map List.concat nextc]. rewrite <- app_assoc. unfold fct. apply hdc_app. apply wf_show_ne. exact Wt.
Qed.
Theorem adj_sound : forall ts rest, Forall wf_tok ts -> adj_ok ts (hdc rest) = true -> all_single_tail ts rest.
Proof.
  induction ts as [|t r IH]; intros rest W H; [exact I|]. inversion W as [|? ? Wt Wr]; subst.
  cbn [adj_ok] in H. apply andb_true_iff in H. destruct H as [H1 H2]. cbn [all_single_tail].
  rewrite <- (hdc_render r rest Wr) in H1. destruct (safe_single t (render r ++ rest) Wt H1) as [A B].
  split; [exact A|]. split; [exact B|]. apply IH; assumption.
Qed.
(* ... and to the lexer *)
Theorem adj_relex ts : Forall wf_tok ts -> adj_ok ts None = true ->
  lex_loop v (S (List.length (render ts))) (render ts) = Some ts.
Proof.
  intros W H. apply lex_loop_render; [|lia]. apply all_single_tail_nil. apply (adj_sound ts [] W). exact H.
Qed.
(* composition, for printers *)
Lemma adj_ok_app a b n : adj_ok (a ++ b) n = adj_ok a (nextc b n) && adj_ok b n.
Proof.
  induction a as [|t a IH]; [reflexivity|]. cbn [app adj_ok]. rewrite IH, andb_assoc. f_equal. f_equal.
  destruct a; reflexivity.
Qed.
End Adj.
