from . import fmtprops
def run(res): return fmtprops.run_prop(res, "C10")
def replay(payload): return fmtprops.replay(payload, "C10")
