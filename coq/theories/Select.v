From Coq Require Import List Bool Arith Lia.
Import ListNotations.

(* C16 core: the selection glue of the main loop.  The walker (ignore crate) is an oracle producing entries in
   some order, possibly the same file under several spellings; [key] is the resolved location of a path. *)
Section Select.
Variables path key : Type.
Variable key_eqb : key -> key -> bool.
Hypothesis key_eqb_spec : forall a b, key_eqb a b = true <-> a = b.
Variable resolve : path -> key.
Variable is_file : path -> bool.
Variable explicit : path -> bool.          (* named on the command line *)
Variable glob_ok : path -> bool.           (* matches the default glob (only consulted without --glob) *)
Variable ignored : path -> bool.           (* .styluaignore says no (only consulted for explicit paths) *)
Variables use_default_glob respect_ignores : bool.

Definition wanted (p : path) : bool :=
  is_file p
  && (if use_default_glob && (negb (explicit p) || respect_ignores) then glob_ok p else true)
  && negb (explicit p && respect_ignores && ignored p).

Fixpoint mem (k : key) (l : list key) : bool := match l with [] => false | x :: r => key_eqb x k || mem k r end.
Lemma mem_In k l : mem k l = true <-> In k l.
Proof. induction l as [|x r IH]; cbn; [split; [discriminate|tauto]|].
  rewrite orb_true_iff, IH, key_eqb_spec. tauto. Qed.

(* the loop: a wanted file is processed unless its resolved location was processed already *)
Fixpoint go (seen : list key) (entries : list path) : list path :=
  match entries with
  | [] => []
  | p :: r => if wanted p then
                if mem (resolve p) seen then go seen r else p :: go (resolve p :: seen) r
              else go seen r
  end.
Definition processed (entries : list path) : list path := go [] entries.

Lemma go_spec : forall entries seen p, In p (go seen entries) -> wanted p = true /\ In p entries /\ ~ In (resolve p) seen.
Proof.
  induction entries as [|q r IH]; intros seen p H; cbn in H; [contradiction|].
  destruct (wanted q) eqn:W.
  - destruct (mem (resolve q) seen) eqn:M.
    + destruct (IH seen p H) as (A & B & C). repeat split; auto. right; auto.
    + assert (NM : ~ In (resolve q) seen) by (intros X; apply mem_In in X; congruence).
      destruct H as [H|H].
      * subst. repeat split; auto. left; auto.
      * destruct (IH _ p H) as (A & B & C). repeat split; auto; [right; auto|]. intros X. apply C. right; auto.
  - destruct (IH seen p H) as (A & B & C). repeat split; auto. right; auto.
Qed.

(* each file is processed at most once, however many arguments reach it *)
Theorem processed_once : forall entries seen, NoDup (map resolve (go seen entries)).
Proof.
  induction entries as [|q r IH]; intros seen; cbn; [constructor|].
  destruct (wanted q); auto. destruct (mem (resolve q) seen); auto.
  cbn. constructor; auto. intros X. apply in_map_iff in X. destruct X as (p & E & Hp).
  destruct (go_spec r _ p Hp) as (_ & _ & C). apply C. left. auto.
Qed.
(* only wanted files are processed *)
Theorem processed_wanted entries p : In p (processed entries) -> wanted p = true /\ In p entries.
Proof. intros H. destruct (go_spec entries [] p H) as (A & B & _). auto. Qed.
(* and every wanted file is: under the first wanted spelling that reaches it *)
Lemma go_complete : forall entries seen p, In p entries -> wanted p = true -> ~ In (resolve p) seen ->
  exists q, In q (go seen entries) /\ resolve q = resolve p.
Proof.
  induction entries as [|e r IH]; intros seen p Hin W NS; [contradiction|]. cbn [go].
  destruct (wanted e) eqn:We.
  - destruct (mem (resolve e) seen) eqn:M.
    + destruct Hin as [E|Hin]; [subst e; apply mem_In in M; contradiction|]. apply IH; auto.
    + destruct Hin as [E|Hin]; [subst e; exists p; split; [left; reflexivity|reflexivity]|].
      destruct (key_eqb (resolve e) (resolve p)) eqn:K.
      * apply key_eqb_spec in K. exists e. split; [left; reflexivity|exact K].
      * destruct (IH (resolve e :: seen) p Hin W) as (q & Hq & Eq).
        { intros [X|X]; [apply key_eqb_spec in X; congruence|contradiction]. }
        exists q. split; [right; exact Hq|exact Eq].
  - destruct Hin as [E|Hin]; [subst e; congruence|]. apply IH; auto.
Qed.
Theorem processed_complete entries p : In p entries -> wanted p = true -> exists q, In q (processed entries) /\ resolve q = resolve p.
Proof. intros Hin W. apply go_complete; auto. Qed.
End Select.
