(* Theorems about the L0 whole-formatter model (Fmt0.v), for every program of the fragment and every whitespace
   configuration:
     - C02: normalisation changes nothing the semantic erasure sees, and keeps the operator grouping;
     - C10: the output passes the whitespace discipline Census.ws_check;
     - C06: normalisation is NOT idempotent in general (witness: `x = (- -f())`), it is on expressions without a
       parenthesised double minus ... see nexp_not_idempotent_refuted. *)
From Coq Require Import List Ascii String Bool Arith Lia.
Import ListNotations.
From SV Require Import Lex LexRender Expr Parens ParensProof Census EraseProof Fmt0.
From SV Require QuoteMore.
Notation tok := Lex.tok (only parsing).

(* ---------- induction over expressions with their argument / field lists ---------- *)
Section ExpInd.
Variable P : exp -> Prop.
Hypothesis Hnil : P ENil. Hypothesis Htrue : P ETrue. Hypothesis Hfalse : P EFalse. Hypothesis Hva : P EVararg.
Hypothesis Hnum : forall s, P (ENum s). Hypothesis Hstr : forall s, P (EStr s). Hypothesis Hname : forall n, P (EName n).
Hypothesis Hbrk : forall n b, P (EBrk n b).
Hypothesis Hfield : forall p n, P p -> P (EField p n).
Hypothesis Hindex : forall p k, P p -> P k -> P (EIndex p k).
Hypothesis Hcall : forall f sg args, P f -> Forall P args -> P (ECall f sg args).
Hypothesis Hmethod : forall o m sg args, P o -> Forall P args -> P (EMethod o m sg args).
Hypothesis Hun : forall u e, P e -> P (EUn u e).
Hypothesis Hbin : forall b l r, P l -> P r -> P (EBin b l r).
Hypothesis Hparen : forall e, P e -> P (EParen e).
Hypothesis Htable : forall fs, Forall P fs -> P (ETable fs).
Hypothesis Hfpos : forall e, P e -> P (FPos e).
Hypothesis Hfnamed : forall n e, P e -> P (FNamed n e).
Hypothesis Hfkey : forall k e, P k -> P e -> P (FKey k e).
Hypothesis Htableml : forall fs, Forall P fs -> P (ETableML fs).
Hypothesis Hfline : forall b f t, P f -> P (FLine b f t).
Hypothesis Hfcom : forall b x, P (FCom b x).
Fixpoint exp_ind' (e : exp) : P e :=
  let all := fix all (l : list exp) : Forall P l := match l with [] => Forall_nil P | x :: r => Forall_cons x (exp_ind' x) (all r) end in
  match e with
  | ENil => Hnil | ETrue => Htrue | EFalse => Hfalse | EVararg => Hva
  | ENum s => Hnum s | EStr s => Hstr s | EName n => Hname n | EBrk n b => Hbrk n b
  | EField p n => Hfield p n (exp_ind' p)
  | EIndex p k => Hindex p k (exp_ind' p) (exp_ind' k)
  | ECall f sg args => Hcall f sg args (exp_ind' f) (all args)
  | EMethod o m sg args => Hmethod o m sg args (exp_ind' o) (all args)
  | EUn u x => Hun u x (exp_ind' x)
  | EBin b l r => Hbin b l r (exp_ind' l) (exp_ind' r)
  | EParen x => Hparen x (exp_ind' x)
  | ETable fs => Htable fs (all fs)
  | FPos x => Hfpos x (exp_ind' x)
  | FNamed n x => Hfnamed n x (exp_ind' x)
  | FKey k x => Hfkey k x (exp_ind' k) (exp_ind' x)
  | ETableML fs => Htableml fs (all fs)
  | FLine b f t => Hfline b f t (exp_ind' f)
  | FCom b x => Hfcom b x
  end.
End ExpInd.

(* ---------- C02 (a): the operator shape of the normalised expression is Parens.fmt_single of the shape ---------- *)
Lemma shape_guard u x : shape (guard0 u x) = guard u (shape x).
Proof. unfold guard0, guard. destruct u; try reflexivity. destruct (starts_neg (shape x)); reflexivity. Qed.
Lemma shape_nexp : forall e c, shape (nexp c e) = fmt_single c (shape e).
Proof.
  induction e using exp_ind'; intros c; cbn [nexp shape fmt_single]; try reflexivity.
  - rewrite shape_guard, IHe. reflexivity.
  - rewrite IHe1, IHe2. reflexivity.
  - destruct (droppable c (shape e)); [apply IHe|]. cbn [shape]. rewrite IHe. reflexivity.
Qed.
(* ... hence every layout theorem of ParensProof applies to what L0 prints *)
Theorem nexp_keeps_grouping e c : Sm (shape (nexp c e)) = Sm (shape e).
Proof. rewrite shape_nexp. apply (R_sem c). apply fmt_single_R. Qed.
Theorem nexp_no_double_minus e c : can (shape e) = true -> no_double_minus (shape (nexp c e)) = true.
Proof. intros H. rewrite shape_nexp. apply (R_no_double_minus c (shape e)); [apply fmt_single_R|exact H]. Qed.

(* ---------- C02 (b): the erasure of the printed tokens is untouched by normalisation ---------- *)
(* The two observations the properties use - the semantic erasure (C02) and the comment census (C03) - are both
   homomorphisms from token lists that do not see parentheses, commas and blanks: the proofs are written once. *)
Section Obs.
Context {X : Type}.
Variable obs : list tok -> list X.
Hypothesis obs_nil : obs [] = [].
Hypothesis obs_app : forall a b, obs (a ++ b) = obs a ++ obs b.
Hypothesis obs_cons : forall t r r', obs r = obs r' -> obs (t :: r) = obs (t :: r').
Hypothesis obs_lparen : forall r, obs (kw "(" :: r) = obs r.
Hypothesis obs_rparen : obs [kw ")"] = [].
Hypothesis obs_comma : forall r, obs (kw "," :: sp :: r) = obs r.
Hypothesis obs_ws : forall w r, forallb blank w = true -> obs (TWs w :: r) = obs r.       (* blanks; line breaks may be observed *)
Section ObsExp.
Variable c0 : cfg0.
Notation pexp := (Fmt0.pexp c0).
Lemma erase_kw_paren_l r : obs (kw "(" :: r) = obs r. Proof. apply obs_lparen. Qed.
Lemma erase_kw_paren_r : obs [kw ")"] = []. Proof. apply obs_rparen. Qed.
Lemma erase_commas l : obs (commas l) = List.concat (map obs l).
Proof.
  induction l as [|x r IH]; [exact obs_nil|]. destruct r as [|y r'].
  - cbn [commas map List.concat]. rewrite app_nil_r. reflexivity.
  - change (commas (x :: y :: r')) with (x ++ kw "," :: sp :: commas (y :: r')).
    rewrite obs_app, obs_comma, IH. reflexivity.
Qed.
Lemma map_ext_Forall {A B} (f g : A -> B) l : Forall (fun x => f x = g x) l -> map f l = map g l.
Proof. induction 1; cbn; congruence. Qed.
Lemma erase_cons t r r' : obs r = obs r' -> obs (t :: r) = obs (t :: r').
Proof. apply obs_cons. Qed.
Lemma obs_app_congr a a' b b' : obs a = obs a' -> obs b = obs b' -> obs (a ++ b) = obs (a' ++ b').
Proof. intros H1 H2. rewrite !obs_app, H1, H2. reflexivity. Qed.
Lemma erase_commas_congr (f g : exp -> list tok) l :
  Forall (fun x => obs (f x) = obs (g x)) l -> obs (commas (map f l)) = obs (commas (map g l)).
Proof.
  intros H. rewrite !erase_commas, !map_map. f_equal. induction H as [|x r Hx Hr IH]; cbn [map]; [reflexivity|]. rewrite Hx, IH. reflexivity.
Qed.
Lemma erase_parens d x : obs (kw "(" :: pexp d x ++ [kw ")"]) = obs (pexp d x).
Proof. rewrite erase_kw_paren_l, obs_app, erase_kw_paren_r, app_nil_r. reflexivity. Qed.
Lemma erase_guard d u x : obs (pexp d (guard0 u x)) = obs (pexp d x).
Proof.
  unfold guard0. destruct u; try reflexivity. destruct (starts_neg (shape x)); [|reflexivity].
  cbn [pexp]. apply erase_parens.
Qed.
(* the brackets of an index or a key, with or without the blanks that keep a long string away from them *)
Lemma obs_brk b xs : obs (brk b xs) = obs (kw "[" :: xs ++ [kw "]"]).
Proof.
  unfold brk. destruct b; [|reflexivity]. apply erase_cons. unfold sp. rewrite obs_ws by reflexivity. rewrite !obs_app. f_equal.
  change [TWs [SP]; kw "]"] with (TWs [SP] :: [kw "]"]). rewrite obs_ws by reflexivity. reflexivity.
Qed.
Lemma obs_brk_congr b b' xs xs' : obs xs = obs xs' -> obs (brk b xs) = obs (brk b' xs').
Proof. intros H. rewrite !obs_brk. apply erase_cons. rewrite !obs_app, H. reflexivity. Qed.
Ltac congr := repeat first [ reflexivity | assumption | apply obs_app_congr | apply erase_cons | apply obs_brk_congr ].
(* parentheses around call arguments, and the blank in front of them, are not observed *)
Lemma erase_pargs b xs : obs (pargs c0 b xs) = obs xs.
Proof.
  unfold pargs, gap_call, gap_sugar. destruct b; [apply obs_ws; destruct (CallForm.space_call (space0 c0)); reflexivity|].
  destruct (CallForm.space_call (space0 c0)); cbn [app]; unfold sp; rewrite ?obs_ws by reflexivity;
    rewrite erase_kw_paren_l, obs_app, erase_kw_paren_r, app_nil_r; reflexivity.
Qed.
Lemma erase_pargs_congr b b' xs xs' : obs xs = obs xs' -> obs (pargs c0 b xs) = obs (pargs c0 b' xs').
Proof. intros H. rewrite !erase_pargs. exact H. Qed.
(* the lines of a table written over several lines *)
Definition tline (d : nat) (x : exp) : list tok :=
  match x with
  | FCom b t => (if b then [eol c0] else []) ++ indent c0 (S d) ++ [TLineCom t; eol c0]
  | FLine b f t => (if b then [eol c0] else []) ++ indent c0 (S d) ++ pexp (S d) f ++ kw "," :: (match t with Some t1 => [sp; TLineCom t1] | None => [] end) ++ [eol c0]
  | f => indent c0 (S d) ++ pexp (S d) f ++ [kw ","; eol c0]
  end.
Definition tlines (d : nat) (xs : list exp) : list tok := List.concat (map (tline d) xs).
Lemma p_tableml d f fs : pexp d (ETableML (f :: fs)) = kw "{" :: eol c0 :: tlines d (f :: fs) ++ indent c0 d ++ [kw "}"].
Proof. reflexivity. Qed.
Definition isline (x : exp) : bool := match x with FLine _ _ _ | FCom _ _ => true | _ => false end.
Lemma tline_plain d x : isline x = false -> tline d x = indent c0 (S d) ++ pexp (S d) x ++ [kw ","; eol c0].
Proof. destruct x; try discriminate; reflexivity. Qed.
(* a pass [g] that keeps the two line forms in place and maps anything else to something else *)
Definition keeps_lines (g : exp -> exp) : Prop :=
  (forall b t, g (FCom b t) = FCom b t) /\ (forall b f t, exists f', g (FLine b f t) = FLine b f' t)
  /\ (forall x, isline x = false -> isline (g x) = false).
Lemma erase_tline_congr d (g : exp -> exp) x : keeps_lines g -> (forall d, obs (pexp d (g x)) = obs (pexp d x)) -> obs (tline d (g x)) = obs (tline d x).
Proof.
  intros (K1 & K2 & K3) Hx. destruct (isline x) eqn:L.
  - destruct x; try discriminate.
    + (* a field line: outside a table the line prints as its field, so the hypothesis speaks about the fields *)
      destruct (K2 b x t) as (f' & E). pose proof (Hx (S d)) as Hf. rewrite E in Hf |- *. cbn [pexp] in Hf. cbn [tline].
      apply obs_app_congr; [reflexivity|]. apply obs_app_congr; [reflexivity|]. apply obs_app_congr; [exact Hf|reflexivity].
    + rewrite K1. reflexivity.
  - rewrite (tline_plain d x L), (tline_plain d (g x) (K3 x L)). apply obs_app_congr; [reflexivity|]. apply obs_app_congr; [apply Hx|reflexivity].
Qed.
Lemma erase_tlines_congr d (g : exp -> exp) fs : keeps_lines g ->
  Forall (fun x => forall d, obs (pexp d (g x)) = obs (pexp d x)) fs -> obs (tlines d (map g fs)) = obs (tlines d fs).
Proof.
  intros K. unfold tlines. induction 1 as [|x r Hx Hr IH]; [reflexivity|]. cbn [map List.concat].
  apply obs_app_congr; [|exact IH]. apply erase_tline_congr; assumption.
Qed.
Lemma erase_tableml d (g : exp -> exp) fs : keeps_lines g ->
  Forall (fun x => forall d, obs (pexp d (g x)) = obs (pexp d x)) fs -> obs (pexp d (ETableML (map g fs))) = obs (pexp d (ETableML fs)).
Proof.
  intros K H. destruct fs as [|f fs]; [reflexivity|]. change (map g (f :: fs)) with (g f :: map g fs). rewrite !p_tableml.
  change (g f :: map g fs) with (map g (f :: fs)). apply erase_cons. apply erase_cons. apply obs_app_congr; [apply erase_tlines_congr; assumption|reflexivity].
Qed.
Lemma isline_nexp : forall e c, isline e = false -> isline (nexp c e) = false.
Proof.
  induction e; intros c L; try discriminate; try reflexivity.
  cbn [nexp]. destruct (droppable c (shape e)) eqn:D; [|reflexivity]. apply IHe. destruct e; try reflexivity; discriminate.
Qed.
Lemma keeps_lines_nexp c : keeps_lines (nexp c).
Proof. split; [reflexivity|]. split; [intros b f t; eexists; reflexivity|]. intros x L. apply isline_nexp. exact L. Qed.
Lemma keeps_lines_cexp m o : keeps_lines (cexp m o).
Proof. split; [reflexivity|]. split; [intros b f t; eexists; reflexivity|]. intros x L. destruct x; try discriminate; reflexivity. Qed.
Lemma erase_pexp_nexp : forall e c d, obs (pexp d (nexp c e)) = obs (pexp d e).
Proof.
  induction e using exp_ind'; intros c d; cbn [nexp]; try reflexivity.
  - (* EField *) cbn [pexp]. congr. apply IHe.
  - (* EIndex *) cbn [pexp]. congr; [apply IHe1|apply IHe2].
  - (* ECall *) cbn [pexp]. rewrite map_map. congr; [apply IHe|]. apply erase_pargs_congr.
    apply (erase_commas_congr (fun x => pexp d (nexp Std x)) (fun x => pexp d x)). eapply Forall_impl; [|exact H]. intros a Ha. apply Ha.
  - (* EMethod *) cbn [pexp]. rewrite map_map. congr; [apply IHe|]. apply erase_pargs_congr.
    apply (erase_commas_congr (fun x => pexp d (nexp Std x)) (fun x => pexp d x)). eapply Forall_impl; [|exact H]. intros a Ha. apply Ha.
  - (* EUn *) cbn [pexp]. congr. rewrite erase_guard. apply IHe.
  - (* EBin *) cbn [pexp]. congr; [apply IHe1|apply IHe2].
  - (* EParen *) destruct (droppable c (shape e)).
    + rewrite IHe. cbn [pexp]. symmetry. apply erase_parens.
    + cbn [pexp]. congr. apply IHe.
  - (* ETable *) destruct fs as [|f fs]; [reflexivity|].
    change (nexp c (ETable (f :: fs))) with (ETable (map (nexp Std) (f :: fs))).
    change (pexp d (ETable (map (nexp Std) (f :: fs)))) with (kw "{" :: sp :: commas (map (pexp d) (map (nexp Std) (f :: fs))) ++ [sp; kw "}"]).
    change (pexp d (ETable (f :: fs))) with (kw "{" :: sp :: commas (map (pexp d) (f :: fs)) ++ [sp; kw "}"]).
    rewrite map_map. congr.
    apply (erase_commas_congr (fun x => pexp d (nexp Std x)) (fun x => pexp d x)). eapply Forall_impl; [|exact H]. intros a Ha. apply Ha.
  - (* FPos *) cbn [pexp]. apply IHe.
  - (* FNamed *) cbn [pexp]. congr. apply IHe.
  - (* FKey *) cbn [pexp]. congr; [apply IHe1|apply IHe2].
  - (* ETableML *) apply erase_tableml; [apply keeps_lines_nexp|]. eapply Forall_impl; [|exact H]. intros a Ha d0. apply Ha.
  - (* FLine *) cbn [pexp]. apply IHe.
Qed.
(* the call-form pass: a single argument gains or loses its parentheses, nothing else *)
Lemma erase_pexp_cexp m : forall e o d, obs (pexp d (cexp m o e)) = obs (pexp d e).
Proof.
  induction e using exp_ind'; intros o d; cbn [cexp]; try reflexivity.
  - cbn [pexp]. congr. apply IHe.
  - cbn [pexp]. congr; [apply IHe1|apply IHe2].
  - cbn [pexp]. congr; [apply IHe|]. apply erase_pargs_congr. rewrite map_map.
    apply (erase_commas_congr (fun x => pexp d (cexp m false x)) (fun x => pexp d x)). eapply Forall_impl; [|exact H]. intros a Ha. apply Ha.
  - cbn [pexp]. congr; [apply IHe|]. apply erase_pargs_congr. rewrite map_map.
    apply (erase_commas_congr (fun x => pexp d (cexp m false x)) (fun x => pexp d x)). eapply Forall_impl; [|exact H]. intros a Ha. apply Ha.
  - cbn [pexp]. congr. apply IHe.
  - cbn [pexp]. congr; [apply IHe1|apply IHe2].
  - cbn [pexp]. congr. apply IHe.
  - destruct fs as [|f fs]; [reflexivity|].
    change (cexp m o (ETable (f :: fs))) with (ETable (map (cexp m false) (f :: fs))).
    change (pexp d (ETable (map (cexp m false) (f :: fs)))) with (kw "{" :: sp :: commas (map (pexp d) (map (cexp m false) (f :: fs))) ++ [sp; kw "}"]).
    change (pexp d (ETable (f :: fs))) with (kw "{" :: sp :: commas (map (pexp d) (f :: fs)) ++ [sp; kw "}"]).
    rewrite map_map. congr.
    apply (erase_commas_congr (fun x => pexp d (cexp m false x)) (fun x => pexp d x)). eapply Forall_impl; [|exact H]. intros a Ha. apply Ha.
  - cbn [pexp]. apply IHe.
  - cbn [pexp]. congr. apply IHe.
  - cbn [pexp]. congr; [apply IHe1|apply IHe2].
  - apply erase_tableml; [apply keeps_lines_cexp|]. eapply Forall_impl; [|exact H]. intros a Ha d0. apply Ha.
  - cbn [pexp]. apply IHe.
Qed.
End ObsExp.

(* ---------- statements: unfolding equations and induction with the nested blocks ---------- *)
Definition fbody (c : cfg0) (d : nat) (b : blk) : list tok :=
  if blk_empty b then [sp; kw "end"]
  else match fun_guard c b with
       | Some s1 => if oneline (psimple c d s1) && nocom (psimple c d s1) then sp :: psimple c d s1 ++ [sp; kw "end"] else eol c :: pblk c (S d) b ++ indent c d ++ [kw "end"]
       | None => eol c :: pblk c (S d) b ++ indent c d ++ [kw "end"]
       end.
Section Unfold.
Variables (c : cfg0) (d : nat).
Notation pexp := (Fmt0.pexp c).
Notation pexps := (Fmt0.pexps c).
Lemma p_do b : pstmt c d (SDo b) = kw "do" :: eol c :: pblk c (S d) b ++ indent c d ++ [kw "end"]. Proof. reflexivity. Qed.
Lemma p_while e b : pstmt c d (SWhile e b) = kw "while" :: sp :: pexp d e ++ sp :: kw "do" :: eol c :: pblk c (S d) b ++ indent c d ++ [kw "end"]. Proof. reflexivity. Qed.
Lemma p_repeat b e : pstmt c d (SRepeat b e) = kw "repeat" :: eol c :: pblk c (S d) b ++ indent c d ++ kw "until" :: sp :: pexp d e. Proof. reflexivity. Qed.
Lemma p_if e t r : pstmt c d (SIf e t r) =
  match if_guard c t r with
  | Some s1 => if nocom (psimple c d s1) then kw "if" :: sp :: pexp d e ++ sp :: kw "then" :: sp :: psimple c d s1 ++ [sp; kw "end"]
               else kw "if" :: sp :: pexp d e ++ sp :: kw "then" :: eol c :: pblk c (S d) t ++ pels c d r ++ indent c d ++ [kw "end"]
  | None => kw "if" :: sp :: pexp d e ++ sp :: kw "then" :: eol c :: pblk c (S d) t ++ pels c d r ++ indent c d ++ [kw "end"]
  end. Proof. reflexivity. Qed.
Lemma p_numfor v a b st body : pstmt c d (SNumFor v a b st body) =
  kw "for" :: sp :: TIdent v :: sp :: kw "=" :: sp :: pexp d a ++ kw "," :: sp :: pexp d b ++
  (match st with Some x => kw "," :: sp :: pexp d x | None => [] end) ++ sp :: kw "do" :: eol c :: pblk c (S d) body ++ indent c d ++ [kw "end"]. Proof. reflexivity. Qed.
Lemma p_genfor ns es body : pstmt c d (SGenFor ns es body) =
  kw "for" :: sp :: pnames ns ++ sp :: kw "in" :: sp :: pexps d es ++ sp :: kw "do" :: eol c :: pblk c (S d) body ++ indent c d ++ [kw "end"]. Proof. reflexivity. Qed.
Lemma p_function p m ps va body : pstmt c d (SFunction p m ps va body) =
  kw "function" :: sp :: dotted p ++ (match m with Some n => [kw ":"; TIdent n] | None => [] end) ++ pparams c ps va ++ fbody c d body. Proof. reflexivity. Qed.
Lemma p_localfunction n ps va body : pstmt c d (SLocalFunction n ps va body) =
  kw "local" :: sp :: kw "function" :: sp :: TIdent n :: pparams c ps va ++ fbody c d body. Proof. reflexivity. Qed.
Lemma p_else b : pels c d (Else b) = indent c d ++ kw "else" :: eol c :: pblk c (S d) b. Proof. reflexivity. Qed.
Lemma p_elseif e t r : pels c d (ElseIf e t r) = indent c d ++ kw "elseif" :: sp :: pexp d e ++ sp :: kw "then" :: eol c :: pblk c (S d) t ++ pels c d r. Proof. reflexivity. Qed.
Lemma p_item l b s t : pitem c d (Item l b s t) = ptrivia c d l ++ (if b then [eol c] else []) ++ indent c d ++ pstmt c d s ++ ptrail t ++ [eol c]. Proof. reflexivity. Qed.
Lemma p_blk is tl : pblk c d (Blk is tl) = List.concat (map (pitem c d) is) ++ ptrivia c d tl. Proof. reflexivity. Qed.
End Unfold.

Section StmtInd.
Variables (P : stmt -> Prop) (Q : els -> Prop) (I : item -> Prop) (B : blk -> Prop).
Hypothesis Hlocal : forall ns es, P (SLocal ns es).
Hypothesis Hassign : forall vs es, P (SAssign vs es).
Hypothesis Hcall : forall e, P (SCall e).
Hypothesis Hdo : forall b, B b -> P (SDo b).
Hypothesis Hwhile : forall e b, B b -> P (SWhile e b).
Hypothesis Hrepeat : forall b e, B b -> P (SRepeat b e).
Hypothesis Hif : forall e t r, B t -> Q r -> P (SIf e t r).
Hypothesis Hnumfor : forall v a b st body, B body -> P (SNumFor v a b st body).
Hypothesis Hgenfor : forall ns es body, B body -> P (SGenFor ns es body).
Hypothesis Hfunction : forall p m ps va body, B body -> P (SFunction p m ps va body).
Hypothesis Hlocalfunction : forall n ps va body, B body -> P (SLocalFunction n ps va body).
Hypothesis Hreturn : forall es, P (SReturn es).
Hypothesis Hbreak : P SBreak.
Hypothesis Hnoelse : Q NoElse.
Hypothesis Helse : forall b, B b -> Q (Else b).
Hypothesis Helseif : forall e t r, B t -> Q r -> Q (ElseIf e t r).
Hypothesis Hitem : forall l b s t, P s -> I (Item l b s t).
Hypothesis Hblk : forall is tl, Forall I is -> B (Blk is tl).
Fixpoint stmt_ind' (s : stmt) : P s :=
  match s with
  | SLocal ns es => Hlocal ns es | SAssign vs es => Hassign vs es | SCall e => Hcall e
  | SDo b => Hdo b (blk_ind' b) | SWhile e b => Hwhile e b (blk_ind' b) | SRepeat b e => Hrepeat b e (blk_ind' b)
  | SIf e t r => Hif e t r (blk_ind' t) (els_ind' r)
  | SNumFor v a b st body => Hnumfor v a b st body (blk_ind' body)
  | SGenFor ns es body => Hgenfor ns es body (blk_ind' body)
  | SFunction p m ps va body => Hfunction p m ps va body (blk_ind' body)
  | SLocalFunction n ps va body => Hlocalfunction n ps va body (blk_ind' body)
  | SReturn es => Hreturn es | SBreak => Hbreak
  end
with els_ind' (r : els) : Q r :=
  match r with NoElse => Hnoelse | Else b => Helse b (blk_ind' b) | ElseIf e t r2 => Helseif e t r2 (blk_ind' t) (els_ind' r2) end
with item_ind' (i : item) : I i := match i with Item l b s t => Hitem l b s t (stmt_ind' s) end
with blk_ind' (b : blk) : B b :=
  match b with
  | Blk is tl => Hblk is tl ((fix all (l : list item) : Forall I l := match l with [] => Forall_nil I | x :: r => Forall_cons x (item_ind' x) (all r) end) is)
  end.
End StmtInd.

(* ---------- C02 on whole programs: normalisation is invisible to the semantic erasure ---------- *)
Section EraseProg.
Variable c : cfg0.
Notation pexp := (Fmt0.pexp c).
Notation pexps := (Fmt0.pexps c).
Ltac congr := repeat first [ reflexivity | assumption | apply obs_app_congr | apply erase_cons ].
Lemma erase_ncond d e : obs (pexp d (ncond e)) = obs (pexp d e).
Proof.
  induction e; try apply erase_pexp_nexp. cbn [ncond]. rewrite IHe. cbn [Fmt0.pexp]. symmetry. apply erase_parens.
Qed.
Lemma erase_pexps d es : obs (pexps d (nexps es)) = obs (pexps d es).
Proof.
  unfold Fmt0.pexps, nexps. rewrite map_map. apply (erase_commas_congr (fun x => pexp d (nexp Std x)) (fun x => pexp d x)).
  apply Forall_forall. intros x _. apply erase_pexp_nexp.
Qed.
Definition Ps (s : stmt) : Prop := forall d, obs (pstmt c d (nstmt s)) = obs (pstmt c d s).
Definition Qe (r : els) : Prop := forall d, obs (pels c d (nels r)) = obs (pels c d r).
Definition Ie (i : item) : Prop := forall d, obs (pitem c d (nitem i)) = obs (pitem c d i).
Definition Be (b : blk) : Prop := forall d, obs (pblk c d (nblk b)) = obs (pblk c d b).
Lemma blk_empty_nblk b : blk_empty (nblk b) = blk_empty b.
Proof. destruct b as [is tl]. destruct is; reflexivity. Qed.
(* the collapsed forms: the guards do not see the expressions, the statement inside is printed by psimple *)
Lemma simple_stmt_nstmt s : simple_stmt (nstmt s) = simple_stmt s.
Proof.
  destruct s; try reflexivity; cbn [nstmt simple_stmt].
  - destruct ns as [|n0 [|n1 r]]; try reflexivity. unfold nexps. rewrite map_length. reflexivity.
  - destruct vs as [|v0 [|v1 r]]; try reflexivity. cbn [nexps map]. unfold nexps. rewrite map_length. reflexivity.
Qed.
Lemma simple_blk_nblk b : simple_blk (nblk b) = option_map nstmt (simple_blk b).
Proof.
  destruct b as [is tl]. destruct is as [|[l bl s t] [|i2 r]]; try reflexivity.
  - cbn [nblk map nitem simple_blk]. destruct l, t, tl; try reflexivity. rewrite simple_stmt_nstmt. destruct (simple_stmt s); reflexivity.
  - cbn [nblk map nitem simple_blk]. destruct l; try reflexivity. destruct t; reflexivity.
Qed.
Lemma if_guard_nblk t r : if_guard c (nblk t) (nels r) = option_map nstmt (if_guard c t r).
Proof. unfold if_guard. destruct (collapse_if (collapse0 c)); [|reflexivity]. destruct r; try reflexivity. apply simple_blk_nblk. Qed.
Lemma fun_guard_nblk b : fun_guard c (nblk b) = option_map nstmt (fun_guard c b).
Proof. unfold fun_guard. destruct (collapse_fun (collapse0 c)); [apply simple_blk_nblk|reflexivity]. Qed.
Lemma erase_psimple d s : obs (psimple c d (nstmt s)) = obs (psimple c d s).
Proof.
  destruct s; try reflexivity.
  - (* SLocal *) cbn [nstmt]. destruct es as [|e es']; [reflexivity|].
    change (nexps (e :: es')) with (nexp Std e :: nexps es'). cbn [psimple]. congr.
    change (nexp Std e :: nexps es') with (nexps (e :: es')). apply erase_pexps.
  - (* SAssign *) cbn [nstmt psimple]. congr; apply erase_pexps.
  - (* SCall *) cbn [nstmt psimple]. apply erase_pexp_nexp.
  - (* SReturn *) cbn [nstmt]. destruct es as [|e es']; [reflexivity|].
    change (nexps (e :: es')) with (nexp Std e :: nexps es'). cbn [psimple]. congr.
    change (nexp Std e :: nexps es') with (nexps (e :: es')). apply erase_pexps.
Qed.
(* the collapsed function body is taken when its statement prints on one line: normalisation does not change that (the
   hypothesis is discharged, where the section is instantiated, by this very development applied to the observation
   "the line breaks of a token list") *)
Hypothesis Hone_n : forall d s, oneline (psimple c d (nstmt s)) = oneline (psimple c d s).
Hypothesis Hcom_n : forall d s, nocom (psimple c d (nstmt s)) = nocom (psimple c d s).
Lemma erase_fbody b : Be b -> forall d, obs (fbody c d (nblk b)) = obs (fbody c d b).
Proof.
  intros H d. unfold fbody. rewrite blk_empty_nblk, fun_guard_nblk. destruct (blk_empty b); [reflexivity|].
  destruct (fun_guard c b) as [s1|]; cbn [option_map].
  - rewrite Hone_n, Hcom_n. destruct (oneline (psimple c d s1) && nocom (psimple c d s1)).
    + congr. apply erase_psimple.
    + apply erase_cons. apply obs_app_congr; [apply H|reflexivity].
  - apply erase_cons. apply obs_app_congr; [apply H|reflexivity].
Qed.
Lemma erase_concat_items is : Forall Ie is -> forall d, obs (List.concat (map (pitem c d) (map nitem is))) = obs (List.concat (map (pitem c d) is)).
Proof.
  induction 1 as [|i r Hi Hr IH]; intros d; [reflexivity|]. cbn [map List.concat]. apply obs_app_congr; [apply Hi|apply IH].
Qed.
Opaque pblk.
Lemma erase_prog_all : (forall s, Ps s) /\ (forall b, Be b).
Proof.
  assert (H : forall s, Ps s); [|split; [exact H|]].
  - apply (stmt_ind' Ps Qe Ie Be); unfold Ps, Qe, Ie, Be; intros.
    + (* SLocal *) cbn [nstmt]. destruct es as [|e es']; [reflexivity|].
      change (nexps (e :: es')) with (nexp Std e :: nexps es'). cbn [pstmt psimple]. congr.
      change (nexp Std e :: nexps es') with (nexps (e :: es')). apply erase_pexps.
    + (* SAssign *) cbn [nstmt pstmt psimple]. congr; apply erase_pexps.
    + (* SCall *) cbn [nstmt pstmt psimple]. apply erase_pexp_nexp.
    + (* SDo *) cbn [nstmt]. rewrite !p_do. congr. apply H.
    + (* SWhile *) cbn [nstmt]. rewrite !p_while. congr; [apply erase_ncond|apply H].
    + (* SRepeat *) cbn [nstmt]. rewrite !p_repeat. congr; [apply H|apply erase_ncond].
    + (* SIf *) cbn [nstmt]. rewrite !p_if, if_guard_nblk. destruct (if_guard c t r) as [s1|]; cbn [option_map].
      * rewrite Hcom_n. destruct (nocom (psimple c d s1)).
        -- congr; [apply erase_ncond|apply erase_psimple].
        -- congr; [apply erase_ncond|apply H|apply H0].
      * congr; [apply erase_ncond|apply H|apply H0].
    + (* SNumFor *) cbn [nstmt]. rewrite !p_numfor. congr; try apply erase_pexp_nexp; [|apply H].
      destruct st as [x|]; cbn [option_map]; congr. apply erase_pexp_nexp.
    + (* SGenFor *) cbn [nstmt]. rewrite !p_genfor. congr; [apply erase_pexps|apply H].
    + (* SFunction *) cbn [nstmt]. rewrite !p_function. congr. apply erase_fbody. exact H.
    + (* SLocalFunction *) cbn [nstmt]. rewrite !p_localfunction. congr. apply erase_fbody. exact H.
    + (* SReturn *) cbn [nstmt]. destruct es as [|e es']; [reflexivity|].
      change (nexps (e :: es')) with (nexp Std e :: nexps es'). cbn [pstmt psimple]. congr.
      change (nexp Std e :: nexps es') with (nexps (e :: es')). apply erase_pexps.
    + (* SBreak *) reflexivity.
    + (* NoElse *) reflexivity.
    + (* Else *) cbn [nels]. rewrite !p_else. congr. apply H.
    + (* ElseIf *) cbn [nels]. rewrite !p_elseif. congr; [apply erase_ncond|apply H|apply H0].
    + (* Item *) cbn [nitem]. rewrite !p_item. congr. apply H.
    + (* Blk *) cbn [nblk]. rewrite !p_blk. apply obs_app_congr; [apply erase_concat_items; exact H|reflexivity].
  - intros b. destruct b as [is tl]. unfold Be. intros d. cbn [nblk]. rewrite !p_blk.
    apply obs_app_congr; [|reflexivity]. apply erase_concat_items. apply Forall_forall. intros i _.
    destruct i as [l bl s t]. unfold Ie. intros d0. cbn [nitem]. rewrite !p_item. congr. apply H.
Qed.
(* the same for any pass that rewrites expressions into expressions with the same observation *)
Section SMapObs.
Variable fe : exp -> exp.
Hypothesis Hfe : forall d e, obs (pexp d (fe e)) = obs (pexp d e).
Lemma smap_pexps d es : obs (pexps d (map fe es)) = obs (pexps d es).
Proof.
  unfold Fmt0.pexps. rewrite map_map. apply (erase_commas_congr (fun x => pexp d (fe x)) (fun x => pexp d x)).
  apply Forall_forall. intros x _. apply Hfe.
Qed.
Definition Ps' (s : stmt) : Prop := forall d, obs (pstmt c d (smap_s fe s)) = obs (pstmt c d s).
Definition Qe' (r : els) : Prop := forall d, obs (pels c d (smap_r fe r)) = obs (pels c d r).
Definition Ie' (i : item) : Prop := forall d, obs (pitem c d (smap_i fe i)) = obs (pitem c d i).
Definition Be' (b : blk) : Prop := forall d, obs (pblk c d (smap_b fe b)) = obs (pblk c d b).
Lemma blk_empty_smap b : blk_empty (smap_b fe b) = blk_empty b.
Proof. destruct b as [is tl]. destruct is; reflexivity. Qed.
Lemma simple_stmt_smap s : simple_stmt (smap_s fe s) = simple_stmt s.
Proof.
  destruct s; try reflexivity; cbn [smap_s simple_stmt].
  - destruct ns as [|n0 [|n1 r]]; try reflexivity. rewrite map_length. reflexivity.
  - destruct vs as [|v0 [|v1 r]]; try reflexivity. cbn [map]. rewrite map_length. reflexivity.
Qed.
Lemma simple_blk_smap b : simple_blk (smap_b fe b) = option_map (smap_s fe) (simple_blk b).
Proof.
  destruct b as [is tl]. destruct is as [|[l bl s t] [|i2 r]]; try reflexivity.
  - cbn [smap_b map smap_i simple_blk]. destruct l, t, tl; try reflexivity. rewrite simple_stmt_smap. destruct (simple_stmt s); reflexivity.
  - cbn [smap_b map smap_i simple_blk]. destruct l; try reflexivity. destruct t; reflexivity.
Qed.
Lemma if_guard_smap t r : if_guard c (smap_b fe t) (smap_r fe r) = option_map (smap_s fe) (if_guard c t r).
Proof. unfold if_guard. destruct (collapse_if (collapse0 c)); [|reflexivity]. destruct r; try reflexivity. apply simple_blk_smap. Qed.
Lemma fun_guard_smap b : fun_guard c (smap_b fe b) = option_map (smap_s fe) (fun_guard c b).
Proof. unfold fun_guard. destruct (collapse_fun (collapse0 c)); [apply simple_blk_smap|reflexivity]. Qed.
Lemma smap_psimple d s : obs (psimple c d (smap_s fe s)) = obs (psimple c d s).
Proof.
  destruct s; try reflexivity.
  - cbn [smap_s]. destruct es as [|e es']; [reflexivity|].
    change (map fe (e :: es')) with (fe e :: map fe es'). cbn [psimple]. congr.
    change (fe e :: map fe es') with (map fe (e :: es')). apply smap_pexps.
  - cbn [smap_s psimple]. congr; apply smap_pexps.
  - cbn [smap_s psimple]. apply Hfe.
  - cbn [smap_s]. destruct es as [|e es']; [reflexivity|].
    change (map fe (e :: es')) with (fe e :: map fe es'). cbn [psimple]. congr.
    change (fe e :: map fe es') with (map fe (e :: es')). apply smap_pexps.
Qed.
Hypothesis Hone_fe : forall d s, oneline (psimple c d (smap_s fe s)) = oneline (psimple c d s).
Hypothesis Hcom_fe : forall d s, nocom (psimple c d (smap_s fe s)) = nocom (psimple c d s).
Lemma smap_fbody b : Be' b -> forall d, obs (fbody c d (smap_b fe b)) = obs (fbody c d b).
Proof.
  intros H d. unfold fbody. rewrite blk_empty_smap, fun_guard_smap. destruct (blk_empty b); [reflexivity|].
  destruct (fun_guard c b) as [s1|]; cbn [option_map].
  - rewrite Hone_fe, Hcom_fe. destruct (oneline (psimple c d s1) && nocom (psimple c d s1)).
    + congr. apply smap_psimple.
    + apply erase_cons. apply obs_app_congr; [apply H|reflexivity].
  - apply erase_cons. apply obs_app_congr; [apply H|reflexivity].
Qed.
Lemma smap_concat_items is : Forall Ie' is -> forall d, obs (List.concat (map (pitem c d) (map (smap_i fe) is))) = obs (List.concat (map (pitem c d) is)).
Proof.
  induction 1 as [|i r Hi Hr IH]; intros d; [reflexivity|]. cbn [map List.concat]. apply obs_app_congr; [apply Hi|apply IH].
Qed.
Lemma smap_obs_all : (forall s, Ps' s) /\ (forall b, Be' b).
Proof.
  assert (H : forall s, Ps' s); [|split; [exact H|]].
  - apply (stmt_ind' Ps' Qe' Ie' Be'); unfold Ps', Qe', Ie', Be'; intros.
    + (* SLocal *) cbn [smap_s]. destruct es as [|e es']; [reflexivity|].
      change (map fe (e :: es')) with (fe e :: map fe es'). cbn [pstmt psimple]. congr.
      change (fe e :: map fe es') with (map fe (e :: es')). apply smap_pexps.
    + (* SAssign *) cbn [smap_s pstmt psimple]. congr; apply smap_pexps.
    + (* SCall *) cbn [smap_s pstmt psimple]. apply Hfe.
    + (* SDo *) cbn [smap_s]. rewrite !p_do. congr. apply H.
    + (* SWhile *) cbn [smap_s]. rewrite !p_while. congr; [apply Hfe|apply H].
    + (* SRepeat *) cbn [smap_s]. rewrite !p_repeat. congr; [apply H|apply Hfe].
    + (* SIf *) cbn [smap_s]. rewrite !p_if, if_guard_smap. destruct (if_guard c t r) as [s1|]; cbn [option_map].
      * rewrite Hcom_fe. destruct (nocom (psimple c d s1)).
        -- congr; [apply Hfe|apply smap_psimple].
        -- congr; [apply Hfe|apply H|apply H0].
      * congr; [apply Hfe|apply H|apply H0].
    + (* SNumFor *) cbn [smap_s]. rewrite !p_numfor. congr; try apply Hfe; [|apply H].
      destruct st as [x|]; cbn [option_map]; congr. apply Hfe.
    + (* SGenFor *) cbn [smap_s]. rewrite !p_genfor. congr; [apply smap_pexps|apply H].
    + (* SFunction *) cbn [smap_s]. rewrite !p_function. congr. apply smap_fbody. exact H.
    + (* SLocalFunction *) cbn [smap_s]. rewrite !p_localfunction. congr. apply smap_fbody. exact H.
    + (* SReturn *) cbn [smap_s]. destruct es as [|e es']; [reflexivity|].
      change (map fe (e :: es')) with (fe e :: map fe es'). cbn [pstmt psimple]. congr.
      change (fe e :: map fe es') with (map fe (e :: es')). apply smap_pexps.
    + (* SBreak *) reflexivity.
    + (* NoElse *) reflexivity.
    + (* Else *) cbn [smap_r]. rewrite !p_else. congr. apply H.
    + (* ElseIf *) cbn [smap_r]. rewrite !p_elseif. congr; [apply Hfe|apply H|apply H0].
    + (* Item *) cbn [smap_i]. rewrite !p_item. congr. apply H.
    + (* Blk *) cbn [smap_b]. rewrite !p_blk. apply obs_app_congr; [apply smap_concat_items; exact H|reflexivity].
  - intros b. destruct b as [is tl]. unfold Be'. intros d. cbn [smap_b]. rewrite !p_blk.
    apply obs_app_congr; [|reflexivity]. apply smap_concat_items. apply Forall_forall. intros i _.
    destruct i as [l bl s t]. unfold Ie'. intros d0. cbn [smap_i]. rewrite !p_item. congr. apply H.
Qed.
End SMapObs.
Transparent pblk.
Theorem nprog_keeps_obs p : obs (pprog c (nprog p)) = obs (pprog c p).
Proof. unfold pprog, nprog. apply (proj2 erase_prog_all). Qed.
Hypothesis Hone_c : forall m d s, oneline (psimple c d (smap_s (cexp m false) s)) = oneline (psimple c d s).
Hypothesis Hcom_c : forall m d s, nocom (psimple c d (smap_s (cexp m false) s)) = nocom (psimple c d s).
Theorem cprog_keeps_obs m p : obs (pprog c (cprog m p)) = obs (pprog c p).
Proof. unfold pprog, cprog. apply (proj2 (smap_obs_all (cexp m false) (fun d e => erase_pexp_cexp c m e false d) (Hone_c m) (Hcom_c m))). Qed.
(* both passes together: what format0 prints *)
Theorem format0_keeps_obs p : obs (pprog c (norm0 c p)) = obs (pprog c p).
Proof. unfold norm0. rewrite cprog_keeps_obs. apply nprog_keeps_obs. Qed.
End EraseProg.
End Obs.

(* an auxiliary instance first: the line breaks of a token list.  It shows that neither pass changes whether a simple
   statement prints on one line, which is what the hypotheses Hone_n / Hone_c of the section ask for *)
Definition isbreak (t : tok) : bool := match t with TWs w => existsb (fun ch => Ascii.eqb ch LF) w | _ => false end.
Definition lb (ts : list tok) : list tok := filter isbreak ts.
Lemma oneline_lb ts : oneline ts = match lb ts with [] => true | _ => false end.
Proof.
  induction ts as [|t r IH]; [reflexivity|]. unfold oneline, lb in *. cbn [forallb filter]. destruct t; cbn [isbreak]; try exact IH.
  destruct (existsb (fun ch => Ascii.eqb ch LF) s); cbn [negb andb]; [reflexivity|exact IH].
Qed.
Lemma lb_cons_inst t r r' : lb r = lb r' -> lb (t :: r) = lb (t :: r').
Proof. intros H. unfold lb in *. cbn [filter]. rewrite H. reflexivity. Qed.
Lemma blank_no_lf w : forallb blank w = true -> existsb (fun ch => Ascii.eqb ch LF) w = false.
Proof.
  induction w as [|x r IH]; [reflexivity|]. cbn [forallb existsb]. intros H. apply andb_true_iff in H. destruct H as [B R]. rewrite (IH R), orb_false_r.
  unfold blank, eqc in B. destruct (Ascii.eqb x LF) eqn:E; [|reflexivity]. apply Ascii.eqb_eq in E. subst x. discriminate.
Qed.
Lemma lb_ws w r : forallb blank w = true -> lb (TWs w :: r) = lb r.
Proof. intros H. unfold lb. cbn [filter isbreak]. rewrite (blank_no_lf w H). reflexivity. Qed.
Ltac lb_hyps := first [ reflexivity | apply filter_app | apply lb_cons_inst | apply lb_ws | (intros; apply filter_app) | (intros; apply lb_cons_inst; assumption) | (intros; apply lb_ws; assumption) | (intros; reflexivity) ].
Lemma oneline_psimple_nstmt c d s : oneline (psimple c d (nstmt s)) = oneline (psimple c d s).
Proof. rewrite !oneline_lb. erewrite (erase_psimple lb); [reflexivity|..]; lb_hyps. Qed.
Lemma oneline_psimple_cexp c m d s : oneline (psimple c d (smap_s (cexp m false) s)) = oneline (psimple c d s).
Proof.
  rewrite !oneline_lb. erewrite (smap_psimple lb); [reflexivity|..]; try lb_hyps.
  intros d0 e. apply (erase_pexp_cexp lb); lb_hyps.
Qed.

(* and the comments of a token list, for the other side condition *)
Definition iscom (t : tok) : bool := match t with TLineCom _ | TBlockCom _ _ => true | _ => false end.
Definition cm (ts : list tok) : list tok := filter iscom ts.
Lemma nocom_cm ts : nocom ts = match cm ts with [] => true | _ => false end.
Proof. induction ts as [|t r IH]; [reflexivity|]. unfold nocom, cm in *. cbn [forallb filter]. destruct t; cbn [iscom andb]; try exact IH; reflexivity. Qed.
Lemma cm_cons_inst t r r' : cm r = cm r' -> cm (t :: r) = cm (t :: r').
Proof. intros H. unfold cm in *. cbn [filter]. rewrite H. reflexivity. Qed.
Ltac cm_hyps := first [ reflexivity | apply filter_app | apply cm_cons_inst | (intros; apply filter_app) | (intros; apply cm_cons_inst; assumption) | (intros; reflexivity) ].
Lemma nocom_psimple_nstmt c d s : nocom (psimple c d (nstmt s)) = nocom (psimple c d s).
Proof. rewrite !nocom_cm. erewrite (erase_psimple cm); [reflexivity|..]; cm_hyps. Qed.
Lemma nocom_psimple_cexp c m d s : nocom (psimple c d (smap_s (cexp m false) s)) = nocom (psimple c d s).
Proof.
  rewrite !nocom_cm. erewrite (smap_psimple cm); [reflexivity|..]; try cm_hyps.
  intros d0 e. apply (erase_pexp_cexp cm); cm_hyps.
Qed.

(* the two instances the properties use *)
Lemma erase_cons_inst dl t r r' : erase dl r = erase dl r' -> erase dl (t :: r) = erase dl (t :: r').
Proof. intros H. destruct t; cbn [erase]; rewrite H; reflexivity. Qed.
Theorem format0_keeps_erasure dl c p : erase dl (pprog c (norm0 c p)) = erase dl (pprog c p).
Proof.
  apply (format0_keeps_obs (erase dl)); [reflexivity|apply erase_app|apply erase_cons_inst|reflexivity|reflexivity|reflexivity|reflexivity|apply oneline_psimple_nstmt|apply nocom_psimple_nstmt|apply oneline_psimple_cexp|apply nocom_psimple_cexp].
Qed.
Lemma census_cons_inst t r r' : census r = census r' -> census (t :: r) = census (t :: r').
Proof. intros H. cbn [census]. rewrite H. reflexivity. Qed.
Lemma census_app a b : census (a ++ b) = census a ++ census b.
Proof. induction a as [|t a IH]; [reflexivity|]. cbn [app census]. rewrite IH. destruct (norm_com t); reflexivity. Qed.
(* C03 on L0: normalisation leaves every comment where it is *)
Theorem format0_keeps_comments c p : census (pprog c (norm0 c p)) = census (pprog c p).
Proof.
  apply (format0_keeps_obs census); [reflexivity|apply census_app|apply census_cons_inst|reflexivity|reflexivity|reflexivity|reflexivity|apply oneline_psimple_nstmt|apply nocom_psimple_nstmt|apply oneline_psimple_cexp|apply nocom_psimple_cexp].
Qed.

(* ---------- C03 on whole programs: the comments of the output are the comments of the program, each once, in order ---------- *)
(* the comments inside an expression: those of the lines of its tables written over several lines, in order *)
Fixpoint coms_x (e : exp) : list bytes :=
  match e with
  | EField p _ => coms_x p
  | EIndex p k => coms_x p ++ coms_x k
  | ECall f _ args => coms_x f ++ List.concat (map coms_x args)
  | EMethod o _ _ args => coms_x o ++ List.concat (map coms_x args)
  | EUn _ x | EParen x | FPos x | FNamed _ x | FLine _ x _ => coms_x x
  | EBin _ l r | FKey l r => coms_x l ++ coms_x r
  | ETable fs => List.concat (map coms_x fs)
  | ETableML fs => List.concat (map (fun x => match x with
                                              | FCom _ t => [t]
                                              | FLine _ f t => coms_x f ++ match t with Some t1 => [t1] | None => [] end
                                              | f => coms_x f
                                              end) fs)
  | _ => []
  end.
Definition cline (x : exp) : list bytes :=
  match x with FCom _ t => [t] | FLine _ f t => coms_x f ++ match t with Some t1 => [t1] | None => [] end | f => coms_x f end.
Lemma coms_x_ml fs : coms_x (ETableML fs) = List.concat (map cline fs). Proof. reflexivity. Qed.
Definition coms_xs (es : list exp) : list bytes := List.concat (map coms_x es).
Definition coms_o (o : option exp) : list bytes := match o with Some x => coms_x x | None => [] end.
Fixpoint coms_s (s : stmt) : list bytes :=
  match s with
  | SLocal _ es | SReturn es => coms_xs es
  | SAssign vs es => coms_xs vs ++ coms_xs es
  | SCall e => coms_x e
  | SDo b | SFunction _ _ _ _ b | SLocalFunction _ _ _ b => coms_b b
  | SWhile e b => coms_x e ++ coms_b b
  | SRepeat b e => coms_b b ++ coms_x e
  | SIf e t r => coms_x e ++ coms_b t ++ coms_e r
  | SNumFor _ a b st body => coms_x a ++ coms_x b ++ coms_o st ++ coms_b body
  | SGenFor _ es b => coms_xs es ++ coms_b b
  | SBreak => []
  end
with coms_e (r : els) : list bytes := match r with NoElse => [] | Else b => coms_b b | ElseIf e t r2 => coms_x e ++ coms_b t ++ coms_e r2 end
with coms_i (i : item) : list bytes := match i with Item l _ s t => map snd l ++ coms_s s ++ match t with Some x => [x] | None => [] end end
with coms_b (b : blk) : list bytes := match b with Blk is tl => List.concat (map coms_i is) ++ map snd tl end.
Section CensusProg.
Variable c : cfg0.
Notation pexp := (Fmt0.pexp c).
Notation pexps := (Fmt0.pexps c).
Definition lc (l : list bytes) : list com := map (fun x => LineC (trim_end x)) l.
Lemma census_kw s r : census (kw s :: r) = census r. Proof. reflexivity. Qed.
Lemma census_sp r : census (sp :: r) = census r. Proof. reflexivity. Qed.
Lemma census_ident n r : census (TIdent n :: r) = census r. Proof. reflexivity. Qed.
Lemma census_com x r : census (TLineCom x :: r) = LineC (trim_end x) :: census r. Proof. reflexivity. Qed.
Lemma census_eol r : census (eol c :: r) = census r. Proof. reflexivity. Qed.
Lemma census_indent d r : census (indent c d ++ r) = census r. Proof. destruct d; reflexivity. Qed.
Lemma lc_app a b : lc (a ++ b) = lc a ++ lc b. Proof. apply map_app. Qed.
Lemma lc_concat l : lc (List.concat l) = List.concat (map lc l). Proof. unfold lc. apply concat_map. Qed.
Lemma census_commas l : census (commas l) = List.concat (map census l).
Proof.
  induction l as [|x r IH]; [reflexivity|]. destruct r as [|y r']; [cbn [commas map List.concat]; rewrite app_nil_r; reflexivity|].
  change (commas (x :: y :: r')) with (x ++ kw "," :: sp :: commas (y :: r')). rewrite census_app, census_kw, census_sp, IH. reflexivity.
Qed.
Lemma census_map_pexp d l : Forall (fun e => forall d, census (pexp d e) = lc (coms_x e)) l -> List.concat (map census (map (pexp d) l)) = lc (coms_xs l).
Proof.
  unfold coms_xs. intros H. rewrite lc_concat, !map_map. f_equal. induction H as [|x r Hx Hr IH]; [reflexivity|]. cbn [map]. rewrite Hx, IH. reflexivity.
Qed.
Lemma census_pargs b xs : census (pargs c b xs) = census xs.
Proof.
  unfold pargs, gap_call, gap_sugar. destruct b; [reflexivity|]. destruct (CallForm.space_call (space0 c)); cbn [app]; rewrite ?census_sp, census_kw, census_app; cbn [census norm_com]; apply app_nil_r.
Qed.
Lemma census_brk b xs : census (brk b xs) = census xs.
Proof. unfold brk. destruct b; [rewrite census_kw, census_sp, census_app|rewrite census_kw, census_app]; cbn [census norm_com]; apply app_nil_r. Qed.
Lemma census_pexp : forall e d, census (pexp d e) = lc (coms_x e).
Proof.
  induction e using exp_ind'; intros d; cbn [Fmt0.pexp coms_x]; try reflexivity.
  - rewrite census_app, IHe. cbn [census norm_com]. apply app_nil_r.
  - rewrite census_app, IHe1, census_brk, IHe2, lc_app. reflexivity.
  - rewrite census_app, IHe, census_pargs, census_commas, (census_map_pexp d args H), lc_app. reflexivity.
  - rewrite census_app, IHe, census_kw, census_ident, census_pargs, census_commas, (census_map_pexp d args H), lc_app. reflexivity.
  - rewrite census_app, IHe. destruct u; reflexivity.
  - rewrite census_app, IHe1, census_sp, census_kw, census_sp, IHe2, lc_app. reflexivity.
  - rewrite census_kw, census_app, IHe. cbn [census norm_com]. apply app_nil_r.
  - destruct fs as [|f fs]; [reflexivity|]. rewrite census_kw, census_sp, census_app, census_commas, (census_map_pexp d (f :: fs) H). cbn [census norm_com]. apply app_nil_r.
  - apply IHe.
  - rewrite census_ident, census_sp, census_kw, census_sp. apply IHe.
  - rewrite census_app, census_brk, IHe1, census_sp, census_kw, census_sp, IHe2, lc_app. reflexivity.
  - (* a table over several lines: line by line *)
    destruct fs as [|f fs]; [reflexivity|].
    match goal with |- census ?X = lc ?Y => change X with (kw "{" :: eol c :: tlines c d (f :: fs) ++ indent c d ++ [kw "}"]); change Y with (List.concat (map cline (f :: fs))) end.
    rewrite census_kw, census_eol, census_app, census_indent. cbn [census norm_com]. rewrite app_nil_r.
    unfold tlines. rewrite lc_concat, map_map. induction H as [|x r Hx Hr IH]; [reflexivity|]. cbn [map List.concat]. rewrite census_app, IH. f_equal.
    assert (E : forall (bl : bool) k, census ((if bl then [eol c] else []) ++ k) = census k) by (intros bl k; destruct bl; reflexivity).
    destruct x; try (cbn [tline cline]; rewrite census_indent, census_app, Hx; cbn [census norm_com]; apply app_nil_r).
    + (* a field line *) cbn [tline cline]. rewrite E, census_indent, census_app. pose proof (Hx (S d)) as Hf. cbn [Fmt0.pexp coms_x] in Hf. rewrite Hf, census_kw, lc_app.
      destruct t; cbn [app]; [rewrite census_sp, census_com|]; reflexivity.
    + (* a comment line *) cbn [tline cline]. rewrite E, census_indent. reflexivity.
  - apply IHe.
Qed.
Lemma census_pexps d es : census (pexps d es) = lc (coms_xs es).
Proof. unfold Fmt0.pexps. rewrite census_commas. apply census_map_pexp. apply Forall_forall. intros x _. apply census_pexp. Qed.
Lemma census_pnames ns : census (pnames ns) = [].
Proof. unfold pnames. rewrite census_commas, map_map. induction ns; [reflexivity|exact IHns]. Qed.
Lemma census_dotted p : census (dotted p) = [].
Proof. induction p as [|n r IH]; [reflexivity|]. destruct r; [reflexivity|]. exact IH. Qed.
Lemma census_pparams ps va : census (pparams c ps va) = [].
Proof.
  unfold pparams. rewrite census_app. assert (E : census (if CallForm.space_definition (space0 c) then [sp] else []) = []) by (destruct (CallForm.space_definition (space0 c)); reflexivity).
  rewrite E. cbn [app]. rewrite census_kw, census_app, census_commas.
  assert (Z : List.concat (map census (map (fun n : bytes => [TIdent n]) ps ++ (if va then [[kw "..."]] else []))) = []).
  { rewrite map_app, concat_app. destruct va; (induction ps as [|n r IH]; [reflexivity|exact IH]). }
  rewrite Z. reflexivity.
Qed.
Lemma census_ptrivia d tv : census (ptrivia c d tv) = lc (map snd tv).
Proof.
  unfold ptrivia. induction tv as [|[b x] r IH]; [reflexivity|]. cbn [map List.concat fst snd]. rewrite <- !app_assoc.
  assert (E : forall k, census ((if b then [eol c] else []) ++ k) = census k) by (intros k; destruct b; reflexivity).
  rewrite E, census_indent. cbn [app]. rewrite census_com, census_eol, IH. reflexivity.
Qed.
Definition Pc (s : stmt) : Prop := forall d, census (pstmt c d s) = lc (coms_s s).
Definition Qc (r : els) : Prop := forall d, census (pels c d r) = lc (coms_e r).
Definition Ic (i : item) : Prop := forall d, census (pitem c d i) = lc (coms_i i).
Definition Bc (b : blk) : Prop := forall d, census (pblk c d b) = lc (coms_b b).
Lemma census_psimple d s : census (psimple c d s) = lc (match s with SLocal _ _ | SAssign _ _ | SCall _ | SReturn _ | SBreak => coms_s s | _ => [] end).
Proof.
  destruct s; try reflexivity; cbn [psimple coms_s].
  - destruct es; rewrite census_kw, census_sp; [apply census_pnames|]. rewrite census_app, census_pnames, census_sp, census_kw, census_sp. apply census_pexps.
  - rewrite census_app, census_pexps, census_sp, census_kw, census_sp, census_pexps, lc_app. reflexivity.
  - apply census_pexp.
  - destruct es; [reflexivity|]. rewrite census_kw, census_sp. apply census_pexps.
Qed.
(* a block that can be collapsed: its comments are those of its statement *)
Lemma simple_blk_coms b s1 : simple_blk b = Some s1 -> coms_b b = coms_s s1 /\ simple_stmt s1 = true.
Proof.
  destruct b as [is tl]. destruct is as [|[l bl s t] [|i2 r]]; try discriminate; cbn [simple_blk].
  - destruct l; [|discriminate]. destruct t; [discriminate|]. destruct tl; [|discriminate]. destruct (simple_stmt s) eqn:S; [|discriminate]. intros E. injection E as <-.
    split; [|exact S]. cbn [coms_b map List.concat coms_i app]. rewrite !app_nil_r. reflexivity.
  - destruct l; [|discriminate]. destruct t; discriminate.
Qed.
Lemma census_psimple_simple d s : simple_stmt s = true -> census (psimple c d s) = lc (coms_s s).
Proof. intros S. rewrite census_psimple. destruct s; try discriminate; reflexivity. Qed.
Lemma census_collapsed d s1 r : simple_stmt s1 = true -> census (sp :: psimple c d s1 ++ sp :: kw "end" :: r) = lc (coms_s s1) ++ census r.
Proof. intros S. rewrite census_sp, census_app, (census_psimple_simple d s1 S), census_sp, census_kw. reflexivity. Qed.
Lemma census_fbody b d : Bc b -> census (fbody c d b) = lc (coms_b b).
Proof.
  intros H. unfold fbody. destruct (blk_empty b) eqn:E.
  - destruct b as [is tl]. destruct is; [destruct tl|]; try discriminate. reflexivity.
  - assert (N : census (eol c :: pblk c (S d) b ++ indent c d ++ [kw "end"]) = lc (coms_b b)).
    { rewrite census_eol, census_app, H, census_indent. cbn [census norm_com]. rewrite app_nil_r. reflexivity. }
    destruct (fun_guard c b) as [s1|] eqn:G; [|exact N]. destruct (oneline (psimple c d s1) && nocom (psimple c d s1)); [|exact N].
    unfold fun_guard in G. destruct (collapse_fun (collapse0 c)); [|discriminate]. destruct (simple_blk_coms b s1 G) as [Cb S].
    rewrite Cb. rewrite (census_collapsed d s1 [] S). cbn [census]. apply app_nil_r.
Qed.
Opaque pblk.
Lemma census_all : (forall s, Pc s) /\ (forall b, Bc b).
Proof.
  assert (HB : forall is, Forall Ic is -> forall d, census (List.concat (map (pitem c d) is)) = lc (List.concat (map coms_i is))).
  { induction 1 as [|i r Hi Hr IH]; intros d; [reflexivity|]. cbn [map List.concat]. rewrite census_app, lc_app, Hi, IH. reflexivity. }
  assert (Hitem : forall l bl s t, Pc s -> Ic (Item l bl s t)).
  { intros l bl s t H d. rewrite p_item, census_app, census_ptrivia.
    assert (E : forall k, census ((if bl then [eol c] else []) ++ k) = census k) by (intros k; destruct bl; reflexivity).
    rewrite E, census_indent, census_app, H. cbn [coms_i]. rewrite !lc_app. f_equal. f_equal. destruct t; reflexivity. }
  assert (Hend : forall b d, Bc b -> census (pblk c (S d) b ++ indent c d ++ [kw "end"]) = lc (coms_b b)).
  { intros b d H. rewrite census_app, H, census_indent. cbn [census norm_com]. apply app_nil_r. }
  assert (H : forall s, Pc s); [|split; [exact H|]].
  - apply (stmt_ind' Pc Qc Ic Bc); unfold Pc, Qc, Bc; intros; try (apply Hitem; assumption).
    + change (pstmt c d (SLocal ns es)) with (psimple c d (SLocal ns es)). rewrite census_psimple. reflexivity.
    + change (pstmt c d (SAssign vs es)) with (psimple c d (SAssign vs es)). rewrite census_psimple. reflexivity.
    + change (pstmt c d (SCall e)) with (psimple c d (SCall e)). rewrite census_psimple. reflexivity.
    + rewrite p_do, census_kw, census_eol. apply Hend. exact H.
    + rewrite p_while, census_kw, census_sp, census_app, census_pexp, census_sp, census_kw, census_eol, (Hend b d H). cbn [coms_s]. rewrite lc_app. reflexivity.
    + rewrite p_repeat, census_kw, census_eol, census_app, H, census_indent, census_kw, census_sp, census_pexp. cbn [coms_s]. rewrite lc_app. reflexivity.
    + rewrite p_if. cbn [coms_s]. rewrite !lc_app.
      assert (N : census (kw "if" :: sp :: pexp d e ++ sp :: kw "then" :: eol c :: pblk c (S d) t ++ pels c d r ++ indent c d ++ [kw "end"]) = lc (coms_x e) ++ lc (coms_b t) ++ lc (coms_e r)).
      { rewrite census_kw, census_sp, census_app, census_pexp, census_sp, census_kw, census_eol, census_app, H, census_app, H0, census_indent. cbn [census norm_com]. rewrite app_nil_r. reflexivity. }
      destruct (if_guard c t r) as [s1|] eqn:G; [|exact N]. destruct (nocom (psimple c d s1)); [|exact N].
      unfold if_guard in G. destruct (collapse_if (collapse0 c)); [|discriminate]. destruct r; try discriminate. destruct (simple_blk_coms t s1 G) as [Ct S].
      rewrite census_kw, census_sp, census_app, census_pexp, census_sp, census_kw, (census_collapsed d s1 [] S), Ct. cbn [census coms_e lc map]. rewrite !app_nil_r. reflexivity.
    + rewrite p_numfor, census_kw, census_sp, census_ident, census_sp, census_kw, census_sp, census_app, census_pexp, census_kw, census_sp, census_app, census_pexp, census_app.
      assert (E : census (match st with Some x => kw "," :: sp :: pexp d x | None => [] end) = lc (coms_o st)) by (destruct st; [rewrite census_kw, census_sp; apply census_pexp|reflexivity]).
      rewrite E, census_sp, census_kw, census_eol, (Hend body d H). cbn [coms_s]. rewrite !lc_app. reflexivity.
    + rewrite p_genfor, census_kw, census_sp, census_app, census_pnames, census_sp, census_kw, census_sp, census_app, census_pexps, census_sp, census_kw, census_eol, (Hend body d H).
      cbn [coms_s app]. rewrite lc_app. reflexivity.
    + rewrite p_function, census_kw, census_sp, census_app, census_dotted, census_app.
      assert (E : census (match m with Some n => [kw ":"; TIdent n] | None => [] end) = []) by (destruct m; reflexivity).
      rewrite E, census_app, census_pparams. cbn [app coms_s]. apply census_fbody. exact H.
    + rewrite p_localfunction, census_kw, census_sp, census_kw, census_sp, census_ident, census_app, census_pparams. cbn [app coms_s]. apply census_fbody. exact H.
    + change (pstmt c d (SReturn es)) with (psimple c d (SReturn es)). rewrite census_psimple. reflexivity.
    + reflexivity.
    + reflexivity.
    + rewrite p_else, census_indent, census_kw, census_eol. apply H.
    + rewrite p_elseif, census_indent, census_kw, census_sp, census_app, census_pexp, census_sp, census_kw, census_eol, census_app, H, H0. cbn [coms_e]. rewrite !lc_app. reflexivity.
    + rewrite p_blk, census_app, (HB is H), census_ptrivia. cbn [coms_b]. rewrite lc_app. reflexivity.
  - intros b. destruct b as [is tl]. unfold Bc. intros d. rewrite p_blk, census_app, census_ptrivia. cbn [coms_b]. rewrite lc_app. f_equal.
    apply HB. apply Forall_forall. intros i _. destruct i as [l bl s t]. apply Hitem. apply H.
Qed.
Transparent pblk.
Theorem format0_comments_exact p : census (pprog c (norm0 c p)) = lc (coms_b p).
Proof. rewrite format0_keeps_comments. unfold pprog. apply (proj2 census_all). Qed.
End CensusProg.

(* the rule on whole programs: a predicate on every expression of a program, with "nothing follows" at the roots *)
Section SAll.
Variable P : exp -> bool.
Notation pall := (Fmt0.pall P).
Notation sall_s := (Fmt0.sall_s P).
Notation sall_r := (Fmt0.sall_r P).
Notation sall_i := (Fmt0.sall_i P).
Notation sall_b := (Fmt0.sall_b P).
Variable fe : exp -> exp.
Hypothesis Hfe : forall e, P (fe e) = true.
Lemma pall_map es : pall (map fe es) = true.
Proof. unfold pall. apply forallb_forall. intros x Hx. apply in_map_iff in Hx. destruct Hx as (y & <- & _). apply Hfe. Qed.
Theorem sall_smap : (forall s, sall_s (smap_s fe s) = true) /\ (forall b, sall_b (smap_b fe b) = true).
Proof.
  assert (HI : forall is, Forall (fun i => sall_i (smap_i fe i) = true) is -> forallb sall_i (map (smap_i fe) is) = true).
  { induction 1 as [|i r Hi Hr IH]; [reflexivity|]. cbn [map forallb]. rewrite Hi, IH. reflexivity. }
  assert (H : forall s, sall_s (smap_s fe s) = true).
  - apply (stmt_ind' (fun s => sall_s (smap_s fe s) = true) (fun r => sall_r (smap_r fe r) = true) (fun i => sall_i (smap_i fe i) = true) (fun b => sall_b (smap_b fe b) = true));
      intros; try (cbn [smap_b sall_b]; apply HI; assumption); cbn [smap_s smap_r smap_i sall_s sall_r sall_i]; rewrite ?pall_map, ?Hfe;
      try (match goal with |- context [option_map fe ?st] => destruct st; cbn [option_map]; rewrite ?Hfe end);
      repeat (apply andb_true_iff; split); try reflexivity; try assumption; try apply Hfe; try apply pall_map.
  - split; [exact H|]. intros [is tl]. cbn [smap_b sall_b]. apply HI. apply Forall_forall. intros [l bl s t] _. cbn [smap_i sall_i]. apply H.
Qed.
End SAll.
(* ... and a pass that does not change the predicate on expressions does not change it on programs *)
Section SAllEq.
Variable P : exp -> bool.
Section Map.
Variable fe : exp -> exp.
Hypothesis Hfe : forall e, P (fe e) = P e.
Lemma pall_map_eq es : pall P (map fe es) = pall P es.
Proof. unfold pall. induction es as [|x r IH]; [reflexivity|]. cbn [map forallb]. rewrite Hfe, IH. reflexivity. Qed.
Theorem sall_smap_eq : (forall s, sall_s P (smap_s fe s) = sall_s P s) /\ (forall b, sall_b P (smap_b fe b) = sall_b P b).
Proof.
  assert (HI : forall is, Forall (fun i => sall_i P (smap_i fe i) = sall_i P i) is -> forallb (sall_i P) (map (smap_i fe) is) = forallb (sall_i P) is).
  { induction 1 as [|i r Hi Hr IH]; [reflexivity|]. cbn [map forallb]. rewrite Hi, IH. reflexivity. }
  assert (H : forall s, sall_s P (smap_s fe s) = sall_s P s).
  - apply (stmt_ind' (fun s => sall_s P (smap_s fe s) = sall_s P s) (fun r => sall_r P (smap_r fe r) = sall_r P r) (fun i => sall_i P (smap_i fe i) = sall_i P i) (fun b => sall_b P (smap_b fe b) = sall_b P b));
      intros; try (cbn [smap_b sall_b]; apply HI; assumption); cbn [smap_s smap_r smap_i sall_s sall_r sall_i];
      try (match goal with |- context [option_map fe ?st] => destruct st; cbn [option_map] end);
      repeat first [ reflexivity | assumption | apply Hfe | apply pall_map_eq | apply (f_equal2 andb) ].
  - split; [exact H|]. intros [is tl]. cbn [smap_b sall_b]. apply HI. apply Forall_forall. intros [l bl s t] _. cbn [smap_i sall_i]. apply H.
Qed.
End Map.
Hypothesis Hn : forall c e, P (nexp c e) = P e.
Hypothesis Hp : forall e, P (EParen e) = P e.
Lemma P_ncond e : P (ncond e) = P e.
Proof. induction e; try apply Hn. cbn [ncond]. rewrite IHe, Hp. reflexivity. Qed.
Lemma pall_nexps es : pall P (nexps es) = pall P es.
Proof. unfold pall, nexps. induction es as [|x r IH]; [reflexivity|]. cbn [map forallb]. rewrite Hn, IH. reflexivity. Qed.
Theorem sall_nblk_eq : (forall s, sall_s P (nstmt s) = sall_s P s) /\ (forall b, sall_b P (nblk b) = sall_b P b).
Proof.
  assert (HI : forall is, Forall (fun i => sall_i P (nitem i) = sall_i P i) is -> forallb (sall_i P) (map nitem is) = forallb (sall_i P) is).
  { induction 1 as [|i r Hi Hr IH]; [reflexivity|]. cbn [map forallb]. rewrite Hi, IH. reflexivity. }
  assert (H : forall s, sall_s P (nstmt s) = sall_s P s).
  - apply (stmt_ind' (fun s => sall_s P (nstmt s) = sall_s P s) (fun r => sall_r P (nels r) = sall_r P r) (fun i => sall_i P (nitem i) = sall_i P i) (fun b => sall_b P (nblk b) = sall_b P b));
      intros; try (cbn [nblk sall_b]; apply HI; assumption); cbn [nstmt nels nitem sall_s sall_r sall_i];
      try (match goal with |- context [option_map (nexp Std) ?st] => destruct st; cbn [option_map] end);
      repeat first [ reflexivity | assumption | apply Hn | apply P_ncond | apply pall_nexps | apply (f_equal2 andb) ].
  - split; [exact H|]. intros [is tl]. cbn [nblk sall_b]. apply HI. apply Forall_forall. intros [l bl s t] _. cbn [nitem sall_i]. apply H.
Qed.
End SAllEq.
(* no comment inside the expression holds a carriage return *)
Fixpoint crf (e : exp) : bool :=
  match e with
  | EField p _ => crf p
  | EIndex p k => crf p && crf k
  | ECall f _ args => crf f && forallb crf args
  | EMethod o _ _ args => crf o && forallb crf args
  | EUn _ x | EParen x | FPos x | FNamed _ x => crf x
  | EBin _ l r | FKey l r => crf l && crf r
  | ETable fs | ETableML fs => forallb crf fs
  | FLine _ f t => crf f && match t with Some x => negb (has_cr x) | None => true end
  | FCom _ x => negb (has_cr x)
  | _ => true
  end.
Lemma crf_map (g : exp -> exp) l : Forall (fun e => crf (g e) = crf e) l -> forallb crf (map g l) = forallb crf l.
Proof. induction 1 as [|x r Hx Hr IH]; [reflexivity|]. cbn [map forallb]. rewrite Hx, IH. reflexivity. Qed.
Lemma crf_guard u x : crf (guard0 u x) = crf x.
Proof. unfold guard0. destruct u; try reflexivity. destruct (starts_neg (shape x)); reflexivity. Qed.
Lemma crf_nexp : forall e c, crf (nexp c e) = crf e.
Proof.
  induction e using exp_ind'; intros c; cbn [nexp crf]; try reflexivity; rewrite ?IHe, ?IHe1, ?IHe2; try reflexivity.
  - rewrite (crf_map (nexp Std) args); [reflexivity|]. eapply Forall_impl; [|exact H]. intros a Ha. apply Ha.
  - rewrite (crf_map (nexp Std) args); [reflexivity|]. eapply Forall_impl; [|exact H]. intros a Ha. apply Ha.
  - rewrite crf_guard. apply IHe.
  - destruct (droppable c (shape e)); [apply IHe|]. cbn [crf]. apply IHe.
  - apply crf_map. eapply Forall_impl; [|exact H]. intros a Ha. apply Ha.
  - apply crf_map. eapply Forall_impl; [|exact H]. intros a Ha. apply Ha.
Qed.
Lemma crf_cexp m : forall e o, crf (cexp m o e) = crf e.
Proof.
  induction e using exp_ind'; intros o; cbn [cexp crf]; try reflexivity; rewrite ?IHe, ?IHe1, ?IHe2; try reflexivity.
  - rewrite (crf_map (cexp m false) args); [reflexivity|]. eapply Forall_impl; [|exact H]. intros a Ha. apply Ha.
  - rewrite (crf_map (cexp m false) args); [reflexivity|]. eapply Forall_impl; [|exact H]. intros a Ha. apply Ha.
  - apply crf_map. eapply Forall_impl; [|exact H]. intros a Ha. apply Ha.
  - apply crf_map. eapply Forall_impl; [|exact H]. intros a Ha. apply Ha.
Qed.
Theorem crf_norm0 c p : sall_b crf (norm0 c p) = sall_b crf p.
Proof.
  unfold norm0, cprog. rewrite (proj2 (sall_smap_eq crf (cexp (callp0 c) false) (fun e => crf_cexp (callp0 c) e false))).
  apply (proj2 (sall_nblk_eq crf (fun c0 e => crf_nexp e c0) (fun e => eq_refl))).
Qed.
(* ---------- C10 on whole programs: the printed tokens pass the whitespace discipline ---------- *)
Section Whitespace.
Variable c : cfg0.
Notation pexp := (Fmt0.pexp c).
Notation pexps := (Fmt0.pexps c).
Definition wcfg (eof : bool) : wscfg := {| windows := windows0 c; spaces := spaces0 c; width := width0 c; eof_formatted := eof |}.
(* the scan of Census.ws_scan on token lists whose comments are line comments without a carriage return, as a state
   machine (state: "at the start of a line"); it is stricter than ws_scan in one place: an indentation is judged even
   when nothing follows it *)
Definition step (b : bool) (t : tok) : option bool :=
  match t with
  | TWs s => if negb (newlines_ok (windows0 c) s) then None
             else if ends_in_lf s then Some true
             else if b then (if indent_ok (wcfg false) s then Some false else None) else Some false
  | TLineCom s => if has_cr s then None else Some false
  | TShebang _ | TBlockCom _ _ => None
  | _ => Some false
  end.
Fixpoint run (b : bool) (ts : list tok) : option bool :=
  match ts with [] => Some b | t :: r => match step b t with Some b' => run b' r | None => None end end.
Lemma no_cr_split s : has_cr s = false -> split_cr s = (s, false).
Proof.
  intros H. unfold split_cr. destruct (rev s) as [|x r] eqn:E; [reflexivity|].
  assert (In x s) as I by (apply in_rev; rewrite E; left; reflexivity).
  unfold has_cr in H. destruct (Quote.eqc x Lex.CR) eqn:X; [|reflexivity].
  exfalso. assert (existsb (fun c0 => Quote.eqc c0 Lex.CR) s = true) as T by (apply existsb_exists; exists x; split; assumption).
  rewrite T in H. discriminate.
Qed.
Lemma run_sound eof : forall ts b b', run b ts = Some b' -> ws_scan (wcfg eof) b false ts = None.
Proof.
  induction ts as [|t r IH]; intros b b' H; [reflexivity|].
  cbn [run] in H. destruct (step b t) as [b1|] eqn:S; [|discriminate].
  destruct t; cbn [step] in S; try discriminate; cbn [ws_scan]; try (eapply IH; injection S as <-; exact H).
  - cbn [windows wcfg]. destruct (newlines_ok (windows0 c) s); cbn [negb] in *; [|discriminate].
    destruct (ends_in_lf s); [injection S as <-; eapply IH; exact H|].
    destruct b.
    + change (indent_ok (wcfg eof) s) with (indent_ok (wcfg false) s).
      destruct (indent_ok (wcfg false) s); [|discriminate]. injection S as <-. destruct r; [reflexivity|]. eapply IH; exact H.
    + injection S as <-. eapply IH; exact H.
  - destruct (has_cr s) eqn:C; [discriminate|]. injection S as <-. rewrite (no_cr_split s C), C. eapply IH; exact H.
Qed.
Lemma run_app a r b : run b (a ++ r) = match run b a with Some b' => run b' r | None => None end.
Proof. revert b. induction a as [|t a IH]; intros b; [reflexivity|]. cbn [app run]. destruct (step b t); [apply IH|reflexivity]. Qed.

Definition plain (t : tok) : bool := match t with TWs _ | TLineCom _ | TShebang _ | TBlockCom _ _ => false | _ => true end.
Lemma run_plain t r b : plain t = true -> run b (t :: r) = run false r.
Proof. destruct t; try discriminate; reflexivity. Qed.
Lemma run_kw s r b : run b (kw s :: r) = run false r. Proof. reflexivity. Qed.
Lemma run_sp r : run false (sp :: r) = run false r.
Proof. cbn [run step sp]. destruct (windows0 c); reflexivity. Qed.
Lemma run_eol r b : run b (eol c :: r) = run true r.
Proof. unfold eol. cbn [run step]. destruct (windows0 c); reflexivity. Qed.
Lemma run_com x r b : has_cr x = false -> run b (TLineCom x :: r) = run false r.
Proof. intros H. cbn [run step]. rewrite H. reflexivity. Qed.
Lemma forallb_repeat (f : ascii -> bool) x n : f x = true -> forallb f (repeat x n) = true.
Proof. intros H. induction n as [|n IH]; cbn; [reflexivity|]. rewrite H, IH. reflexivity. Qed.
Lemma newlines_ok_blanks win x n : Ascii.eqb x CR = false -> Ascii.eqb x LF = false -> newlines_ok win (repeat x n) = true.
Proof. intros A B. induction n as [|n IH]; cbn [repeat newlines_ok]; [reflexivity|]. unfold Quote.eqc, Lex.eqc. rewrite A, B. exact IH. Qed.
Lemma ends_in_lf_blanks x n : Ascii.eqb x LF = false -> ends_in_lf (repeat x n) = false.
Proof.
  intros A. unfold ends_in_lf, Quote.eqc, Lex.eqc. destruct (rev (repeat x n)) as [|y r] eqn:E; [reflexivity|].
  assert (In y (repeat x n)) as I by (apply in_rev; rewrite E; left; reflexivity).
  apply repeat_spec in I. subst y. exact A.
Qed.
Lemma run_indent d r : run true (indent c d ++ r) = run (match d with O => true | _ => false end) r.
Proof.
  destruct d as [|d]; [reflexivity|]. unfold indent. cbn [app run step].
  destruct (spaces0 c) eqn:Sp.
  - rewrite newlines_ok_blanks, ends_in_lf_blanks by reflexivity. cbn [negb].
    unfold indent_ok. cbn [spaces wcfg width]. rewrite Sp, forallb_repeat by reflexivity. cbn [andb].
    destruct (width0 c) as [|w] eqn:W; [reflexivity|]. rewrite repeat_length.
    replace (Nat.modulo (S d * S w) (S w)) with 0; [reflexivity|]. symmetry. apply Nat.mod_mul. discriminate.
  - rewrite newlines_ok_blanks, ends_in_lf_blanks by reflexivity. cbn [negb].
    unfold indent_ok. cbn [spaces wcfg]. rewrite Sp, forallb_repeat by reflexivity. reflexivity.
Qed.

(* expressions never contain a line break: whatever the state before, the state after is "inside a line" *)
Definition inline (x : list tok) : Prop := forall b, run b x = Some false.
Lemma run_commas l : Forall inline l -> forall b, run b (commas l) = Some (match l with [] => b | _ => false end).
Proof.
  induction 1 as [|x r Hx Hr IH]; intros b; [reflexivity|]. destruct r as [|y r'].
  - cbn [commas]. apply Hx.
  - change (commas (x :: y :: r')) with (x ++ kw "," :: sp :: commas (y :: r')).
    rewrite run_app, Hx, run_kw, run_sp. apply IH.
Qed.
Lemma inline_commas_ne l : l <> [] -> Forall inline l -> inline (commas l).
Proof. intros N H b. rewrite run_commas by exact H. destruct l; [contradiction|reflexivity]. Qed.
Lemma run_commas_false l : Forall inline l -> run false (commas l) = Some false.
Proof. intros H. rewrite run_commas by exact H. destruct l; reflexivity. Qed.
Lemma run_blanks n r : run false (TWs (repeat SP (S n)) :: r) = run false r.
Proof.
  cbn [run step]. rewrite newlines_ok_blanks by reflexivity. rewrite ends_in_lf_blanks by reflexivity. reflexivity.
Qed.
Lemma run_pargs sug l : Forall inline l -> run false (pargs c sug (commas l)) = Some false.
Proof.
  intros H. unfold pargs, gap_call, gap_sugar. destruct sug.
  { destruct (CallForm.space_call (space0 c)); [rewrite (run_blanks 1)|rewrite (run_blanks 0)]; apply run_commas_false; exact H. }
  destruct (CallForm.space_call (space0 c)); cbn [app]; rewrite ?run_sp, run_kw, run_app, run_commas_false by exact H; reflexivity.
Qed.
Lemma crf_Forall l : forallb crf l = true -> Forall (fun e => crf e = true) l.
Proof. intros H. apply Forall_forall. intros x Hx. apply (proj1 (forallb_forall crf l) H x Hx). Qed.
Lemma inline_brk b xs : inline xs -> inline (brk b xs).
Proof.
  intros H b0. unfold brk. destruct b.
  - rewrite run_kw, run_sp, run_app, H, run_sp. reflexivity.
  - rewrite run_kw, run_app, H. reflexivity.
Qed.
Lemma inline_pexp : forall e, crf e = true -> forall d, inline (pexp d e).
Proof.
  induction e using exp_ind'; intros C d b0; cbn [crf] in C; cbn [Fmt0.pexp]; try reflexivity.
  - rewrite run_app, IHe by exact C. reflexivity.
  - apply andb_true_iff in C. destruct C as [C1 C2]. rewrite run_app, IHe1 by assumption. apply (inline_brk _ _ (IHe2 C2 d)).
  - apply andb_true_iff in C. destruct C as [C1 C2]. rewrite run_app, IHe by exact C1. apply run_pargs. apply Forall_map. apply crf_Forall in C2.
    rewrite Forall_forall in *. intros a Ha. apply H; [exact Ha|apply C2; exact Ha].
  - apply andb_true_iff in C. destruct C as [C1 C2]. rewrite run_app, IHe, run_kw by exact C1. rewrite run_plain by reflexivity. apply run_pargs. apply Forall_map. apply crf_Forall in C2.
    rewrite Forall_forall in *. intros a Ha. apply H; [exact Ha|apply C2; exact Ha].
  - rewrite run_app. destruct u; cbn [uop_toks]; try (rewrite run_kw; cbn [run]; apply IHe; exact C).
  - apply andb_true_iff in C. destruct C as [C1 C2]. rewrite run_app, IHe1, run_sp, run_kw, run_sp by exact C1. apply IHe2. exact C2.
  - rewrite run_kw, run_app, IHe by exact C. reflexivity.
  - destruct fs as [|f fs]; [reflexivity|]. rewrite run_kw, run_sp, run_app.
    rewrite (inline_commas_ne (map (pexp d) (f :: fs))); [rewrite run_sp; reflexivity|discriminate|]. apply Forall_map. apply crf_Forall in C.
    rewrite Forall_forall in *. intros a Ha. apply H; [exact Ha|apply C; exact Ha].
  - apply IHe. exact C.
  - rewrite run_plain by reflexivity. rewrite run_sp, run_kw, run_sp. apply IHe. exact C.
  - apply andb_true_iff in C. destruct C as [C1 C2]. rewrite run_app, (inline_brk _ _ (IHe1 C1 d)), run_sp, run_kw, run_sp. apply IHe2. exact C2.
  - (* a table over several lines: every line starts with the indentation of its level and ends with a line break *)
    destruct fs as [|f fs]; [reflexivity|].
    change (run b0 (kw "{" :: eol c :: tlines c d (f :: fs) ++ indent c d ++ [kw "}"]) = Some false).
    rewrite run_kw, run_eol, run_app.
    assert (E : run true (tlines c d (f :: fs)) = Some true).
    { unfold tlines. apply crf_Forall in C. induction H as [|x r Hx Hr IH]; [reflexivity|]. inversion C as [|? ? Cx Cr]; subst. cbn [map List.concat]. rewrite run_app.
      assert (B : forall (bl : bool) k, run true ((if bl then [eol c] else []) ++ k) = run true k) by (intros bl k; destruct bl; [cbn [app]; apply run_eol|reflexivity]).
      assert (L : run true (tline c d x) = Some true).
      { destruct x; try (cbn [tline]; rewrite run_indent, run_app, Hx, run_kw, run_eol by exact Cx; reflexivity).
        - (* a field line *) pose proof Cx as Cx0. cbn [crf] in Cx. apply andb_true_iff in Cx. destruct Cx as [Cf Ct]. cbn [tline]. rewrite B, run_indent, run_app.
          pose proof (Hx Cx0 (S d)) as Hf. cbn [Fmt0.pexp] in Hf. rewrite Hf, run_kw. destruct t as [t1|]; cbn [app].
          + apply negb_true_iff in Ct. rewrite run_sp, (run_com t1 _ _ Ct), run_eol. reflexivity.
          + rewrite run_eol. reflexivity.
        - (* a comment line *) cbn [crf] in Cx. apply negb_true_iff in Cx. cbn [tline]. rewrite B, run_indent. cbn [app]. rewrite (run_com x _ _ Cx), run_eol. reflexivity. }
      rewrite L. apply IH. exact Cr. }
    rewrite E, run_indent. reflexivity.
  - (* a field line outside a table prints as its field *) apply andb_true_iff in C. destruct C as [C1 _]. apply IHe. exact C1.
Qed.
Lemma inline_pexps_false d es : forallb crf es = true -> run false (pexps d es) = Some false.
Proof. intros C. apply run_commas_false. apply Forall_map. apply crf_Forall in C. eapply Forall_impl; [|exact C]. intros x Cx. apply inline_pexp. exact Cx. Qed.
Lemma inline_pnames_false ns : run false (pnames ns) = Some false.
Proof. apply run_commas_false. apply Forall_map. apply Forall_forall. intros x _ b. reflexivity. Qed.
Lemma run_dotted p : run false (dotted p) = Some false.
Proof. induction p as [|n r IH]; [reflexivity|]. destruct r; [reflexivity|]. change (dotted (n :: b :: r)) with (TIdent n :: kw "." :: dotted (b :: r)). rewrite run_plain by reflexivity. rewrite run_kw. exact IH. Qed.
Lemma run_pparams ps va r : run false (pparams c ps va ++ r) = run false r.
Proof.
  unfold pparams. destruct (CallForm.space_definition (space0 c)); cbn [app]; rewrite ?run_sp, run_kw, <- app_assoc, run_app, run_commas_false; try reflexivity.
  all: apply Forall_app; (split; [apply Forall_map; apply Forall_forall; intros x _ b; reflexivity|]); destruct va; [repeat constructor; intros b; reflexivity|constructor].
Qed.

(* well-formedness: an assignment has a target (the one shape the printer would misplace), comments hold no carriage return *)
Definition wf_trivia (tv : trivia) : Prop := Forall (fun bc : bool * bytes => has_cr (snd bc) = false) tv.
Fixpoint wf_stmt (s : stmt) : Prop :=
  match s with
  | SAssign vs _ => vs <> []
  | SDo b | SWhile _ b | SRepeat b _ | SNumFor _ _ _ _ b | SGenFor _ _ b | SFunction _ _ _ _ b | SLocalFunction _ _ _ b => wf_blk b
  | SIf _ t r => wf_blk t /\ wf_els r
  | _ => True
  end
with wf_els (r : els) : Prop := match r with NoElse => True | Else b => wf_blk b | ElseIf _ t2 r2 => wf_blk t2 /\ wf_els r2 end
with wf_item (i : item) : Prop :=
  match i with Item l _ s t => wf_trivia l /\ wf_stmt s /\ match t with Some x => has_cr x = false | None => True end end
with wf_blk (b : blk) : Prop :=
  match b with Blk is tl => (fix all (l : list item) : Prop := match l with [] => True | x :: r => wf_item x /\ all r end) is /\ wf_trivia tl end.
Fixpoint wf_items (l : list item) : Prop := match l with [] => True | x :: r => wf_item x /\ wf_items r end.
Lemma wf_blk_eq is tl : wf_blk (Blk is tl) = (wf_items is /\ wf_trivia tl).
Proof. reflexivity. Qed.

Lemma run_ptrivia d tv : wf_trivia tv -> run true (ptrivia c d tv) = Some true.
Proof.
  unfold ptrivia. induction 1 as [|[b x] r Hx Hr IH]; [reflexivity|]. cbn [map List.concat fst snd].
  rewrite <- !app_assoc. assert (E : forall k, run true ((if b then [eol c] else []) ++ k) = run true k) by (intros k; destruct b; [cbn [app]; apply run_eol|reflexivity]).
  rewrite E, run_indent. cbn [app]. cbn [snd] in Hx. rewrite (run_com x _ _ Hx), run_eol. exact IH.
Qed.
Definition Pw (s : stmt) : Prop := wf_stmt s -> sall_s crf s = true -> forall d b, run b (pstmt c d s) = Some false.
Definition Qw (r : els) : Prop := wf_els r -> sall_r crf r = true -> forall d, run true (pels c d r) = Some true.
Definition Iw (i : item) : Prop := wf_item i -> sall_i crf i = true -> forall d, run true (pitem c d i) = Some true.
Definition Bw (b : blk) : Prop := wf_blk b -> sall_b crf b = true -> forall d, run true (pblk c d b) = Some true.
Ltac crs := repeat match goal with C : _ && _ = true |- _ => apply andb_true_iff in C; destruct C end.
Lemma run_block_end b d : Bw b -> wf_blk b -> sall_b crf b = true -> run true (pblk c (S d) b ++ indent c d ++ [kw "end"]) = Some false.
Proof. intros H W C. rewrite run_app, H by assumption. rewrite run_indent. reflexivity. Qed.
(* the statement of a collapsed block *)
Lemma run_psimple d s b0 : wf_stmt s -> sall_s crf s = true -> run b0 (psimple c d s) = Some false \/ psimple c d s = [].
Proof.
  intros W C. destruct s; try (right; reflexivity); left; cbn [psimple]; cbn [sall_s] in C; unfold pall in C; crs.
  - destruct es as [|e es']; rewrite run_kw, run_sp; [apply inline_pnames_false|].
    rewrite run_app, inline_pnames_false, run_sp, run_kw, run_sp. apply inline_pexps_false. exact C.
  - rewrite run_app. cbn [wf_stmt] in W.
    rewrite (inline_commas_ne (map (pexp d) vs)); [|destruct vs; [contradiction|discriminate]|apply Forall_map; eapply Forall_impl; [|apply crf_Forall; eassumption]; intros x Cx; apply inline_pexp; exact Cx].
    rewrite run_sp, run_kw, run_sp. apply inline_pexps_false. assumption.
  - apply inline_pexp. exact C.
  - destruct es as [|e es']; [reflexivity|]. rewrite run_kw, run_sp. apply inline_pexps_false. exact C.
  - reflexivity.
Qed.
Lemma simple_blk_wf b s1 : simple_blk b = Some s1 -> wf_blk b -> sall_b crf b = true -> wf_stmt s1 /\ sall_s crf s1 = true.
Proof.
  destruct b as [is tl]. destruct is as [|[l bl s t] [|i2 r]]; try discriminate; cbn [simple_blk].
  - destruct l; [|discriminate]. destruct t; [discriminate|]. destruct tl; [|discriminate]. destruct (simple_stmt s); [|discriminate].
    intros E W C. injection E as <-. rewrite wf_blk_eq in W. destruct W as [[(_ & W & _) _] _]. cbn [sall_b forallb sall_i] in C. rewrite andb_true_r in C. split; assumption.
  - destruct l; [|discriminate]. destruct t; discriminate.
Qed.
Lemma run_collapsed d s1 r : wf_stmt s1 -> sall_s crf s1 = true -> run false (sp :: psimple c d s1 ++ sp :: kw "end" :: r) = run false r.
Proof.
  intros W C. rewrite run_sp. destruct (run_psimple d s1 false W C) as [E|E].
  - rewrite run_app, E, run_sp, run_kw. reflexivity.
  - rewrite E. cbn [app]. rewrite run_sp, run_kw. reflexivity.
Qed.
Lemma run_fbody b d : Bw b -> wf_blk b -> sall_b crf b = true -> run false (fbody c d b) = Some false.
Proof.
  intros H W C. unfold fbody. destruct (blk_empty b); [rewrite run_sp; reflexivity|].
  assert (N : run false (eol c :: pblk c (S d) b ++ indent c d ++ [kw "end"]) = Some false) by (rewrite run_eol; apply run_block_end; assumption).
  destruct (fun_guard c b) as [s1|] eqn:G; [|exact N]. destruct (oneline (psimple c d s1) && nocom (psimple c d s1)); [|exact N].
  unfold fun_guard in G. destruct (collapse_fun (collapse0 c)); [|discriminate]. destruct (simple_blk_wf b s1 G W C) as [W1 C1]. apply (run_collapsed d s1 []); assumption.
Qed.
Opaque pblk.
Lemma discipline_all : (forall s, Pw s) /\ (forall b, Bw b).
Proof.
  assert (HB : forall is, Forall Iw is -> wf_items is -> forallb (sall_i crf) is = true -> forall d, run true (List.concat (map (pitem c d) is)) = Some true).
  { induction 1 as [|i r Hi Hr IH]; intros W C d; [reflexivity|]. destruct W as [W1 W2]. cbn [forallb] in C. apply andb_true_iff in C. destruct C as [C1 C2].
    cbn [map List.concat]. rewrite run_app, Hi by assumption. apply IH; assumption. }
  assert (Hitem : forall l bl s t, Pw s -> Iw (Item l bl s t)).
  { intros l bl s t H (W1 & W2 & W3) C d. cbn [sall_i] in C. rewrite p_item, run_app, run_ptrivia by exact W1.
    assert (E : forall k, run true ((if bl then [eol c] else []) ++ k) = run true k) by (intros k; destruct bl; [cbn [app]; apply run_eol|reflexivity]).
    rewrite E, run_indent, run_app, (H W2 C). destruct t as [x|]; cbn [ptrail app].
    - rewrite run_sp, (run_com x _ _ W3), run_eol. reflexivity.
    - rewrite run_eol. reflexivity. }
  assert (H : forall s, Pw s); [|split; [exact H|]].
  - apply (stmt_ind' Pw Qw Iw Bw); unfold Pw, Qw, Bw; intros; try (apply Hitem; assumption);
      repeat match goal with C : sall_s crf _ = true |- _ => cbn [sall_s] in C | C : sall_r crf _ = true |- _ => cbn [sall_r] in C end; unfold pall in *; crs.
    + (* SLocal *) destruct es as [|e es']; cbn [pstmt psimple]; rewrite run_kw, run_sp.
      * apply inline_pnames_false.
      * rewrite run_app, inline_pnames_false, run_sp, run_kw, run_sp. apply inline_pexps_false. assumption.
    + (* SAssign *) cbn [pstmt psimple]. rewrite run_app. cbn [wf_stmt] in H.
      rewrite (inline_commas_ne (map (pexp d) vs)); [|destruct vs; [contradiction|discriminate]|apply Forall_map; eapply Forall_impl; [|apply crf_Forall; eassumption]; intros x Cx; apply inline_pexp; exact Cx].
      rewrite run_sp, run_kw, run_sp. apply inline_pexps_false. assumption.
    + (* SCall *) cbn [pstmt psimple]. apply inline_pexp. assumption.
    + (* SDo *) rewrite p_do, run_kw, run_eol. apply run_block_end; assumption.
    + (* SWhile *) rewrite p_while, run_kw, run_sp, run_app, inline_pexp, run_sp, run_kw, run_eol by assumption. apply run_block_end; assumption.
    + (* SRepeat *) rewrite p_repeat, run_kw, run_eol, run_app, H by assumption. rewrite run_indent. rewrite run_kw, run_sp. apply inline_pexp. assumption.
    + (* SIf *) match goal with W : wf_stmt (SIf _ _ _) |- _ => destruct W as [W1 W2] end. rewrite p_if.
      assert (N : run b (kw "if" :: sp :: pexp d e ++ sp :: kw "then" :: eol c :: pblk c (S d) t ++ pels c d r ++ indent c d ++ [kw "end"]) = Some false).
      { rewrite run_kw, run_sp, run_app, inline_pexp, run_sp, run_kw, run_eol by assumption.
        rewrite run_app, H by assumption. rewrite run_app, H0 by assumption. rewrite run_indent. reflexivity. }
      destruct (if_guard c t r) as [s1|] eqn:G; [|exact N]. destruct (nocom (psimple c d s1)); [|exact N].
      unfold if_guard in G. destruct (collapse_if (collapse0 c)); [|discriminate]. destruct r; try discriminate.
      destruct (simple_blk_wf t s1 G W1) as [Ws Cs]; [assumption|].
      rewrite run_kw, run_sp, run_app, inline_pexp, run_sp, run_kw by assumption. apply (run_collapsed d s1 []); assumption.
    + (* SNumFor *) rewrite p_numfor, run_kw, run_sp. rewrite run_plain by reflexivity. rewrite run_sp, run_kw, run_sp, run_app, inline_pexp, run_kw, run_sp, run_app, inline_pexp by assumption.
      rewrite run_app. assert (E : run false (match st with Some x => kw "," :: sp :: pexp d x | None => [] end) = Some false).
      { destruct st; [rewrite run_kw, run_sp; apply inline_pexp; assumption|reflexivity]. }
      rewrite E, run_sp, run_kw, run_eol. apply run_block_end; assumption.
    + (* SGenFor *) rewrite p_genfor, run_kw, run_sp, run_app, inline_pnames_false, run_sp, run_kw, run_sp, run_app, inline_pexps_false, run_sp, run_kw, run_eol by assumption.
      apply run_block_end; assumption.
    + (* SFunction *) rewrite p_function, run_kw, run_sp, run_app, run_dotted, run_app.
      assert (E : run false (match m with Some n => [kw ":"; TIdent n] | None => [] end) = Some false) by (destruct m; reflexivity).
      rewrite E, run_pparams. apply run_fbody; assumption.
    + (* SLocalFunction *) rewrite p_localfunction, run_kw, run_sp, run_kw, run_sp. rewrite run_plain by reflexivity. rewrite run_pparams.
      apply run_fbody; assumption.
    + (* SReturn *) destruct es as [|e es']; cbn [pstmt psimple]; [reflexivity|]. rewrite run_kw, run_sp. apply inline_pexps_false. assumption.
    + (* SBreak *) reflexivity.
    + (* NoElse *) reflexivity.
    + (* Else *) rewrite p_else, run_indent, run_kw, run_eol. apply H; assumption.
    + (* ElseIf *) match goal with W : wf_els (ElseIf _ _ _) |- _ => destruct W as [W1 W2] end. rewrite p_elseif, run_indent, run_kw, run_sp, run_app, inline_pexp, run_sp, run_kw, run_eol by assumption.
      rewrite run_app, H by assumption. apply H0; assumption.
    + (* Blk *) match goal with W : wf_blk (Blk _ _) |- _ => rewrite wf_blk_eq in W; destruct W as [W1 W2] end.
      match goal with C : sall_b crf (Blk _ _) = true |- _ => cbn [sall_b] in C end. rewrite p_blk, run_app, (HB is H W1) by assumption. apply run_ptrivia. exact W2.
  - intros b. destruct b as [is tl]. unfold Bw. intros W C d. rewrite wf_blk_eq in W. destruct W as [W1 W2]. cbn [sall_b] in C.
    rewrite p_blk, run_app, (HB is); [apply run_ptrivia; exact W2| |exact W1|exact C].
    apply Forall_forall. intros i _. destruct i as [l bl s t]. apply Hitem. apply H.
Qed.
Transparent pblk.
Theorem format0_whitespace_discipline p eof : wf_blk p -> sall_b crf p = true -> ws_scan (wcfg eof) true false (pprog c p) = None.
Proof. intros W C. apply (run_sound eof _ true true). unfold pprog. apply (proj2 discipline_all); assumption. Qed.
End Whitespace.

(* ---------- C10 on what format0 prints: both passes keep the (weak) well-formedness the discipline theorem asks for ---------- *)
Theorem wf_nblk : (forall s, wf_stmt s -> wf_stmt (nstmt s)) /\ (forall b, wf_blk b -> wf_blk (nblk b)).
Proof.
  assert (HI : forall is, Forall (fun i => wf_item i -> wf_item (nitem i)) is -> wf_items is -> wf_items (map (nitem) is)).
  { induction 1 as [|i r Hi Hr IH]; intros W; [exact I|]. destruct W as [W1 W2]. cbn [map wf_items]. split; [apply Hi; exact W1|apply IH; exact W2]. }
  assert (H : forall s, wf_stmt s -> wf_stmt (nstmt s)).
  - apply (stmt_ind' (fun s => wf_stmt s -> wf_stmt (nstmt s)) (fun r => wf_els r -> wf_els (nels r)) (fun i => wf_item i -> wf_item (nitem i)) (fun b => wf_blk b -> wf_blk (nblk b)));
      intros; cbn [nstmt nels nitem wf_stmt wf_els wf_item] in *; try exact I; try (apply H; assumption).
    + destruct vs; [contradiction|discriminate].
    + destruct H1 as [A B]. split; [apply H; exact A|apply H0; exact B].
    + destruct H1 as [A B]. split; [apply H; exact A|apply H0; exact B].
    + destruct H0 as (A & B & C). split; [exact A|]. split; [apply H; exact B|exact C].
    + rewrite wf_blk_eq in H0. destruct H0 as [A B]. change (wf_items (map (nitem) is) /\ wf_trivia tl). split; [apply HI; assumption|exact B].
  - split; [exact H|]. intros [is tl] W. rewrite wf_blk_eq in W. destruct W as [A B]. change (wf_items (map (nitem) is) /\ wf_trivia tl).
    split; [|exact B]. apply HI; [|exact A]. apply Forall_forall. intros [l bl s t] _ (X & Y & Z). split; [exact X|]. split; [apply H; exact Y|exact Z].
Qed.
Section WfSMap.
Variable fe : exp -> exp.
Theorem wf_smap : (forall s, wf_stmt s -> wf_stmt (smap_s fe s)) /\ (forall b, wf_blk b -> wf_blk (smap_b fe b)).
Proof.
  assert (HI : forall is, Forall (fun i => wf_item i -> wf_item (smap_i fe i)) is -> wf_items is -> wf_items (map (smap_i fe) is)).
  { induction 1 as [|i r Hi Hr IH]; intros W; [exact I|]. destruct W as [W1 W2]. cbn [map wf_items]. split; [apply Hi; exact W1|apply IH; exact W2]. }
  assert (H : forall s, wf_stmt s -> wf_stmt (smap_s fe s)).
  - apply (stmt_ind' (fun s => wf_stmt s -> wf_stmt (smap_s fe s)) (fun r => wf_els r -> wf_els (smap_r fe r)) (fun i => wf_item i -> wf_item (smap_i fe i)) (fun b => wf_blk b -> wf_blk (smap_b fe b)));
      intros; cbn [smap_s smap_r smap_i wf_stmt wf_els wf_item] in *; try exact I; try (apply H; assumption).
    + destruct vs; [contradiction|discriminate].
    + destruct H1 as [A B]. split; [apply H; exact A|apply H0; exact B].
    + destruct H1 as [A B]. split; [apply H; exact A|apply H0; exact B].
    + destruct H0 as (A & B & C). split; [exact A|]. split; [apply H; exact B|exact C].
    + rewrite wf_blk_eq in H0. destruct H0 as [A B]. change (wf_items (map (smap_i fe) is) /\ wf_trivia tl). split; [apply HI; assumption|exact B].
  - split; [exact H|]. intros [is tl] W. rewrite wf_blk_eq in W. destruct W as [A B]. change (wf_items (map (smap_i fe) is) /\ wf_trivia tl).
    split; [|exact B]. apply HI; [|exact A]. apply Forall_forall. intros [l bl s t] _ (X & Y & Z). split; [exact X|]. split; [apply H; exact Y|exact Z].
Qed.
End WfSMap.
Theorem format0_output_obeys_the_discipline c p eof : wf_blk p -> sall_b crf p = true -> ws_scan (wcfg c eof) true false (pprog c (norm0 c p)) = None.
Proof.
  intros W C. apply format0_whitespace_discipline; [|rewrite crf_norm0; exact C]. unfold norm0, cprog. apply (proj2 (wf_smap _)). apply (proj2 wf_nblk). exact W.
Qed.

(* ---------- C06: normalisation is not idempotent on all of L0 ---------- *)
(* `local x = (- -f())`: the first pass keeps the outer parentheses (the rule looks through the unary operators and finds
   a call, whose parentheses could truncate), and guards the double minus: `(-(-f()))`; the second pass finds
   parentheses under the outer minus, which the rule always lets go: `-(-f())`.  The binary does exactly this. *)
Definition witness_not_idempotent : blk :=
  Blk [Item [] false (SLocal [str "x"] [EParen (EUn Neg (EUn Neg (ECall (EName (str "f")) false [])))]) None] [].
Theorem nprog_not_idempotent_refuted : exists p, nprog (nprog p) <> nprog p.
Proof. exists witness_not_idempotent. vm_compute. discriminate. Qed.

(* ---------- C11 on whole programs: every call has the form call_parentheses asks for ---------- *)
(* the form a call is printed in, and the kind of its arguments *)
Definition out_form (sg : bool) (args : list exp) : CallForm.aform := aform_args (sg && sugarable args) args.
Lemma aform_args_eff sg args : aform_args (sg && sugarable args) args = aform_args sg args.
Proof. destruct sg; [|reflexivity]. destruct args as [|x [|y r]]; try reflexivity; destruct x; reflexivity. Qed.
Lemma wf_call_args sg args : CallForm.wf_call (aform_args sg args) (akind_args args) = true.
Proof. destruct sg; [|reflexivity]. destruct args as [|x [|y r]]; try reflexivity; destruct x; reflexivity. Qed.
Lemma sugarable_map_cexp m args : sugarable (map (cexp m false) args) = sugarable args.
Proof. destruct args as [|x [|y r]]; try reflexivity; destruct x; reflexivity. Qed.
Lemma akind_map_cexp m args : akind_args (map (cexp m false) args) = akind_args args.
Proof. destruct args as [|x [|y r]]; try reflexivity; destruct x; reflexivity. Qed.
Lemma aform_map_cexp m sg args : aform_args sg (map (cexp m false) args) = aform_args sg args.
Proof. destruct sg; [|reflexivity]. destruct args as [|x [|y r]]; try reflexivity; destruct x; reflexivity. Qed.
(* the new flag says exactly "call_form did not answer FParen", and then the arguments can be written without parentheses *)
Lemma newsg_form m o sg args : aform_args (newsg m o sg args) args = CallForm.call_form m (aform_args sg args) (akind_args args) o.
Proof.
  unfold newsg. destruct sg; cbn [aform_args].
  - destruct args as [|x [|y r]]; try (destruct m, o; reflexivity); destruct x; try (destruct m, o; reflexivity).
  - destruct args as [|x [|y r]]; try (destruct m, o; reflexivity); destruct x; try (destruct m, o; reflexivity).
Qed.
(* every call site of an expression obeys the rule; [o]: an index or a method call follows the expression *)
Fixpoint calls_ok (m : CallForm.cmode) (o : bool) (e : exp) : bool :=
  let all := forallb (calls_ok m false) in
  match e with
  | EField p _ => calls_ok m true p
  | EIndex p k => calls_ok m true p && calls_ok m false k
  | ECall f sg args => CallForm.form_ok m (out_form sg args) (akind_args args) o && calls_ok m false f && all args
  | EMethod ob _ sg args => CallForm.form_ok m (out_form sg args) (akind_args args) o && calls_ok m true ob && all args
  | EUn _ x | EParen x | FPos x | FNamed _ x | FLine _ x _ => calls_ok m false x
  | EBin _ l r | FKey l r => calls_ok m false l && calls_ok m false r
  | ETable fs | ETableML fs => all fs
  | _ => true
  end.
Definition calls_okl (m : CallForm.cmode) (l : list exp) : bool := forallb (calls_ok m false) l.
Lemma calls_okl_map m l : Forall (fun e => forall o, calls_ok m o (cexp m o e) = true) l -> calls_okl m (map (cexp m false) l) = true.
Proof. unfold calls_okl. induction 1 as [|x r Hx Hr IH]; [reflexivity|]. cbn [map forallb]. rewrite Hx, IH. reflexivity. Qed.
Theorem cexp_calls_ok m : forall e o, calls_ok m o (cexp m o e) = true.
Proof.
  induction e using exp_ind'; intros o; cbn [cexp calls_ok]; try reflexivity; rewrite ?IHe, ?IHe1, ?IHe2; try reflexivity.
  - change (CallForm.form_ok m (out_form (newsg m o sg args) (map (cexp m false) args)) (akind_args (map (cexp m false) args)) o && true && calls_okl m (map (cexp m false) args) = true).
    rewrite (calls_okl_map m args H), akind_map_cexp. unfold out_form. rewrite aform_args_eff, aform_map_cexp, newsg_form.
    rewrite (CallForm.call_form_obeys_rule m _ _ o (wf_call_args sg args)). reflexivity.
  - change (CallForm.form_ok m (out_form (newsg m o sg args) (map (cexp m false) args)) (akind_args (map (cexp m false) args)) o && true && calls_okl m (map (cexp m false) args) = true).
    rewrite (calls_okl_map m args H), akind_map_cexp. unfold out_form. rewrite aform_args_eff, aform_map_cexp, newsg_form.
    rewrite (CallForm.call_form_obeys_rule m _ _ o (wf_call_args sg args)). reflexivity.
  - change (calls_okl m (map (cexp m false) fs) = true). apply calls_okl_map. exact H.
  - change (calls_okl m (map (cexp m false) fs) = true). apply calls_okl_map. exact H.
Qed.
Lemma bstr_cexp m : forall e o, bstr (cexp m o e) = bstr e.
Proof. induction e; intros o; cbn [cexp bstr]; try reflexivity; [apply IHe1|apply IHe]. Qed.
(* under Input the pass prints every call as it was written *)
Theorem cexp_input_prints_the_same c : forall e o d, pexp c d (cexp CallForm.Input o e) = pexp c d e.
Proof.
  assert (M : forall l d, Forall (fun e => forall o d, pexp c d (cexp CallForm.Input o e) = pexp c d e) l -> map (pexp c d) (map (cexp CallForm.Input false) l) = map (pexp c d) l).
  { intros l d. induction 1 as [|x r Hx Hr IH]; [reflexivity|]. cbn [map]. rewrite Hx, IH. reflexivity. }
  assert (F : forall o sg args, newsg CallForm.Input o sg args && sugarable (map (cexp CallForm.Input false) args) = sg && sugarable args).
  { intros o sg args. rewrite sugarable_map_cexp. unfold newsg. rewrite CallForm.input_keeps_form.
    destruct sg; [|reflexivity]. destruct args as [|x [|y r]]; try reflexivity; destruct x; reflexivity. }
  induction e using exp_ind'; intros o d; cbn [cexp]; try reflexivity; try (cbn [pexp]; rewrite ?bstr_cexp, ?IHe, ?IHe1, ?IHe2; reflexivity).
  - cbn [pexp]. rewrite IHe, F, (M args d H). reflexivity.
  - cbn [pexp]. rewrite IHe, F, (M args d H). reflexivity.
  - destruct fs as [|f fs]; [reflexivity|]. pose proof (M (f :: fs) d H) as Q. cbn [map] in Q. cbn [map pexp]. rewrite Q. reflexivity.
  - destruct fs as [|f fs]; [reflexivity|]. cbn [map]. rewrite !(p_tableml c). f_equal. f_equal. f_equal.
    change (cexp CallForm.Input false f :: map (cexp CallForm.Input false) fs) with (map (cexp CallForm.Input false) (f :: fs)).
    unfold tlines. rewrite map_map. f_equal.
    clear -H. induction H as [|x r Hx Hr IH]; [reflexivity|]. cbn [map]. rewrite IH. f_equal.
    destruct (isline x) eqn:L.
    + destruct x; try discriminate; [|reflexivity]. pose proof (Hx false (S d)) as Hf. cbn [cexp pexp] in Hf. cbn [cexp tline]. rewrite Hf. reflexivity.
    + assert (L' : isline (cexp CallForm.Input false x) = false) by (destruct x; try discriminate; reflexivity).
      rewrite (tline_plain c d x L), (tline_plain c d _ L'), Hx. reflexivity.
Qed.
Theorem format0_calls_obey_the_option c p : sall_b (calls_ok (callp0 c) false) (norm0 c p) = true.
Proof. unfold norm0, cprog. apply (proj2 (sall_smap (calls_ok (callp0 c) false) (cexp (callp0 c) false) (fun e => cexp_calls_ok (callp0 c) e false))). Qed.
(* non-vacuity: a tree that breaks the rule is rejected *)
Example calls_ok_rejects : calls_ok CallForm.NoneM false (ECall (EName (str "f")) false [EStr (str "s")]) = false
  /\ calls_ok CallForm.Always false (ECall (EName (str "f")) true [EStr (str "s")]) = false
  /\ calls_ok CallForm.NoneM false (EField (ECall (EName (str "f")) true [EStr (str "s")]) (str "x")) = false.
Proof. repeat split; reflexivity. Qed.
Definition cfg_witness : cfg0 := {| windows0 := false; spaces0 := false; width0 := 4; style0 := QuoteMore.AutoDouble; callp0 := CallForm.Always; space0 := CallForm.SNever; collapse0 := CNever |}.
Theorem norm0_not_idempotent_refuted : exists c p, norm0 c (norm0 c p) <> norm0 c p.
Proof. exists cfg_witness, witness_not_idempotent. vm_compute. discriminate. Qed.
(* ... while the call-form pass alone is idempotent on every tree (CallForm.call_form_idempotent, site by site) *)
Theorem cexp_idempotent m : forall e o, cexp m o (cexp m o e) = cexp m o e.
Proof.
  assert (M : forall l, Forall (fun e => forall o, cexp m o (cexp m o e) = cexp m o e) l -> map (cexp m false) (map (cexp m false) l) = map (cexp m false) l).
  { induction 1 as [|x r Hx Hr IH]; [reflexivity|]. cbn [map]. rewrite Hx, IH. reflexivity. }
  assert (F : forall o sg args, newsg m o (newsg m o sg args) (map (cexp m false) args) = newsg m o sg args).
  { intros o sg args. unfold newsg at 1. rewrite aform_map_cexp, akind_map_cexp, newsg_form, (CallForm.call_form_idempotent m _ _ o (wf_call_args sg args)). reflexivity. }
  induction e using exp_ind'; intros o; cbn [cexp]; try reflexivity; rewrite ?IHe, ?IHe1, ?IHe2; try reflexivity.
  - rewrite F, (M args H). reflexivity.
  - rewrite F, (M args H). reflexivity.
  - rewrite (M fs H). reflexivity.
  - rewrite (M fs H). reflexivity.
Qed.
