(* Tie of gen/ShouldFormat.v (C09): POS records of `svh c09 --pos-only`
     POS <case> <path> <range start> <range end> <stmt start> <stmt end (last token)> <end full_moon reports> <class> <text as expected 0|1>
   The kernel regenerated from src/context.rs, applied to the positions the binary sees, must say Normal exactly for the
   statements the harness classified (and byte-compared) as formatted like the whole-file run. *)
open Util
open ShouldGen
let rec nat_of n = if n <= 0 then O else S (nat_of (n - 1))
let records = ref 0 and bad = ref 0 and normal = ref 0 and boundary = ref 0
let report k line = incr bad; Printf.printf "BAD %s %s\n" k line
let starts s p = SS.length s >= SS.length p && SS.sub s 0 (SS.length p) = p
let handle line = match words line with
  | ["POS"; id; path; a; b; s; e; fe; cls; same] ->
    incr records;
    let a = int_of_string a and b = int_of_string b and s = int_of_string s and fe = int_of_string fe and e = int_of_string e in
    if s = a || e = b || fe = b then incr boundary;
    let v = should_format_node false None (Some { start = Some (nat_of a); end_ = Some (nat_of b) }) { start_position = Some (nat_of s); end_position = Some (nat_of fe) } in
    let spec = verdict false None (Some { start = Some (nat_of a); end_ = Some (nat_of b) }) { start_position = Some (nat_of s); end_position = Some (nat_of fe) } in
    if v = FormatNode_Normal then incr normal;
    if v <> spec then report "generated-kernel-differs-from-specification" line
    (* the end-position quirk (known finding): the harness classifies by the last token, the binary sees full_moon's end;
       there the kernel's verdict is only checked against the bytes: not formatted means unchanged *)
    else if cls = "outside-endquirk" then
      (* itself the quirk statement (fe < e), or one that contains it and changes with it: only the former is judged *)
      (if fe < e && v <> FormatNode_Normal && same <> "1" then report "binary-differs-from-generated-kernel" line)
    else if (v = FormatNode_Normal) <> starts cls "inrange" then report "binary-differs-from-generated-kernel" line
    else if same <> "1" && (cls = "inrange" || cls = "outside") then report "statement-text" line
  | "STATS" :: _ -> print_endline line
  | [] -> ()
  | _ -> report "unreadable-record" line
let () = iter_lines handle; Printf.printf "SUMMARY records=%d formatted=%d on_a_range_boundary=%d bad=%d\n" !records !normal !boundary !bad
