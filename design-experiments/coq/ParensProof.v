From Coq Require Import List Arith Bool Lia.
Import ListNotations.

(* Toy instance of the C05 development: operator grammar, StyLua's parenthesis rule and the *repaired* context
   flow (the context is kept when a parenthesis is dropped; lhs operands get BL / BLE on every path; the
   "- -" guard is applied on every path).  Theorems: the semantic tree is unchanged and canonical form
   (= what the Pratt parser returns, see PrattProof.v) is preserved, hence parse (print (fmt e)) has the tree of e. *)

Inductive bop := Or | Eqq | Add | Concat | Pow.
Definition prec (b : bop) : nat := match b with Or => 1 | Eqq => 3 | Add => 9 | Concat => 8 | Pow => 12 end.
Definition rassoc (b : bop) : bool := match b with Concat | Pow => true | _ => false end.
Definition q (b : bop) : nat := if rassoc b then prec b else S (prec b).
Definition uprec := 11.
Inductive uop := Neg | Not.
Inductive expr := Atom | Multi | Paren (e : expr) | Un (u : uop) (e : expr) | Bin (b : bop) (l r : expr).

Definition inf := 100.
Fixpoint rmin (e : expr) : nat :=
  match e with Atom | Multi | Paren _ => inf | Un _ a => Nat.min uprec (rmin a) | Bin b _ r => Nat.min (q b) (rmin r) end.
Definition top_ge (k : nat) (e : expr) : Prop := match e with Bin c _ _ => k <= prec c | _ => True end.
Definition starts_neg (e : expr) : bool := match e with Un Neg _ => true | _ => false end.
Fixpoint lmost_neg (e : expr) : bool :=
  match e with Un Neg _ => true | Bin _ l _ => lmost_neg l | _ => false end.
Fixpoint can (e : expr) : Prop :=
  match e with
  | Atom | Multi => True | Paren e => can e
  | Un u a => can a /\ top_ge uprec a /\ (u = Neg -> lmost_neg a = false)
  | Bin b l r => can l /\ can r /\ prec b < rmin l /\ top_ge (q b) r
  end.

Inductive sem := SAtom | SMulti | STrunc | SUn (u : uop) (s : sem) | SBin (b : bop) (l r : sem).
Fixpoint Sm (e : expr) : sem :=
  match e with
  | Atom => SAtom | Multi => SMulti
  | Paren x => match Sm x with SMulti => STrunc | s => s end
  | Un u x => SUn u (Sm x) | Bin b l r => SBin b (Sm l) (Sm r)
  end.

Inductive ctx := Std | Prefix | BL | BLE | UB.
Fixpoint check (e : expr) (c : ctx) : bool :=
  match e with
  | Paren _ => true
  | Un u x => match c with BLE => false | BL => (match u with Not => false | Neg => check x c end) | _ => check x c end
  | Bin _ _ _ => false
  | Multi => false
  | Atom => true
  end.
Definition is_prefix (c : ctx) := match c with Prefix => true | _ => false end.
Definition lhs_ctx (b : bop) : ctx := match b with Pow => BLE | _ => BL end.

Fixpoint fmt (c : ctx) (e : expr) : expr :=
  match e with
  | Atom | Multi => e
  | Paren x => if check x c && negb (is_prefix c) then fmt c x else Paren (fmt Std x)
  | Un u x => let x' := fmt UB x in
              Un u (match u with Neg => if starts_neg x' then Paren x' else x' | Not => x' end)
  | Bin b l r => Bin b (fmt (lhs_ctx b) l) (fmt UB r)
  end.

(* ---- the semantic tree is unchanged ---- *)
Lemma check_not_multi x c : check x c = true -> Sm x <> SMulti.
Proof. destruct x; cbn; try discriminate; intros _; try discriminate.
  destruct (Sm x); discriminate. Qed.

Theorem fmt_sem : forall e c, Sm (fmt c e) = Sm e.
Proof.
  induction e as [| |x IH|u x IH|b l IHl r IHr]; intros c; cbn [fmt Sm]; auto.
  - destruct (check x c && negb (is_prefix c)) eqn:E.
    + apply andb_true_iff in E. destruct E as [E _]. rewrite (IH c).
      pose proof (check_not_multi x c E). destruct (Sm x); congruence.
    + cbn [Sm]. rewrite IH. reflexivity.
  - destruct u; cbn [Sm].
    + destruct (starts_neg (fmt UB x)) eqn:E; cbn [Sm]; [|rewrite IH; reflexivity].
      pose proof (IH UB) as I. destruct (fmt UB x) eqn:F; try discriminate. destruct u; try discriminate.
      rewrite <- I. reflexivity.
    + rewrite IH. reflexivity.
  - rewrite IHl, IHr. reflexivity.
Qed.

(* ---- canonical form is preserved ---- *)
Lemma rmin_le_inf e : rmin e <= inf.
Proof. induction e as [| |x IH|u x IH|b l IHl r IHr]; cbn [rmin]; unfold inf in *; lia. Qed.

Lemma top_ge_fmt : forall e k c, top_ge k e -> top_ge k (fmt c e).
Proof.
  induction e as [| |x IH|u x IH|b l IHl r IHr]; intros k c H; cbn [fmt]; auto.
  - destruct (check x c && negb (is_prefix c)) eqn:E; [|exact I].
    apply IH. destruct x; cbn in E; try discriminate; exact I.
Qed.

Lemma check_UB x c : check x c = true -> check x UB = true.
Proof. induction x; cbn; auto. destruct c, u; auto; discriminate. Qed.

Lemma simple_rmin : forall x c, check x c = true -> uprec <= rmin (fmt c x).
Proof.
  induction x as [| |x IH|u x IH|b l IHl r IHr]; intros c H; cbn [fmt]; cbn in H; try discriminate.
  - cbn. unfold uprec, inf. lia.
  - destruct (check x c && negb (is_prefix c)) eqn:E.
    + apply andb_true_iff in E. destruct E. auto.
    + cbn. unfold uprec, inf. lia.
  - assert (Hx : check x UB = true). { destruct c, u; try discriminate; eauto using check_UB. }
    specialize (IH UB Hx). destruct u; cbn [rmin].
    + destruct (starts_neg (fmt UB x)); cbn [rmin]; unfold uprec, inf in *; lia.
    + unfold uprec in *. lia.
Qed.

Lemma rmin_fmt : forall e c, c <> BLE -> Nat.min uprec (rmin e) <= rmin (fmt c e).
Proof.
  induction e as [| |x IH|u x IH|b l IHl r IHr]; intros c Hc; cbn [fmt].
  - cbn. unfold uprec, inf. lia.
  - cbn. unfold uprec, inf. lia.
  - destruct (check x c && negb (is_prefix c)) eqn:E.
    + apply andb_true_iff in E. destruct E as [E _]. pose proof (simple_rmin x c E). cbn [rmin]. unfold uprec, inf in *. lia.
    + cbn. unfold uprec, inf. lia.
  - specialize (IH UB ltac:(discriminate)). destruct u; cbn [rmin].
    + destruct (starts_neg (fmt UB x)); cbn [rmin]; unfold uprec, inf in *; lia.
    + unfold uprec in *. lia.
  - cbn [rmin]. specialize (IHr UB ltac:(discriminate)). unfold uprec in *. lia.
Qed.

Lemma rmin_fmt_BLE : forall e, rmin e = inf -> rmin (fmt BLE e) = inf.
Proof.
  induction e as [| |x IH|u x IH|b l IHl r IHr]; intros H; cbn [fmt]; auto.
  - destruct (check x BLE && negb (is_prefix BLE)) eqn:E; [|reflexivity].
    apply andb_true_iff in E. destruct E as [E _]. apply IH.
    destruct x; cbn in E; try discriminate; reflexivity.
  - cbn [rmin] in H. unfold uprec, inf in H. lia.
  - cbn [rmin] in H. assert (q b <= 13) by (destruct b; cbn; lia). unfold inf in *. lia.
Qed.

Lemma lmost_neg_pow_operand a : can a -> top_ge uprec a -> starts_neg a = false -> lmost_neg a = false.
Proof.
  destruct a as [| |x|u x|b l r]; cbn [can top_ge starts_neg lmost_neg]; auto.
  intros (Hl & Hr & Hlt & Hq) Hp _.
  assert (b = Pow) by (destruct b; cbn in Hp; unfold uprec in Hp; try lia; reflexivity). subst.
  cbn [prec] in Hlt. destruct l as [| |y|v y|c l1 l2]; cbn [lmost_neg]; auto.
  - cbn [rmin] in Hlt. unfold uprec in Hlt. lia.
  - cbn [rmin] in Hlt. assert (q c <= 12) by (destruct c; cbn; lia). lia.
Qed.

Theorem fmt_can : forall e c, can e -> can (fmt c e).
Proof.
  induction e as [| |x IH|u x IH|b l IHl r IHr]; intros c H; cbn [fmt]; auto.
  - destruct (check x c && negb (is_prefix c)); cbn; auto.
  - cbn in H. destruct H as (Ha & Ht & Hn). pose proof (IH UB Ha) as Ha'. pose proof (top_ge_fmt x uprec UB Ht) as Ht'.
    destruct u.
    + destruct (starts_neg (fmt UB x)) eqn:E.
      * cbn. repeat split; auto.
      * cbn. repeat split; auto. intros _. apply lmost_neg_pow_operand; auto.
    + cbn. repeat split; auto. discriminate.
  - cbn in H. destruct H as (Hl & Hr & Hlt & Hq). cbn [can]. repeat split; auto.
    + destruct b; cbn [lhs_ctx].
      1-4: (pose proof (rmin_fmt l BL ltac:(discriminate)); cbn [prec] in *; unfold uprec in *; lia).
      rewrite rmin_fmt_BLE; [cbn [prec]; unfold inf; lia|].
      pose proof (rmin_le_inf l). cbn [prec] in Hlt.
      clear - Hlt H. destruct l as [| |y|v y|c l1 l2]; cbn [rmin] in *; auto.
      * unfold uprec in *. lia.
      * assert (q c <= 12) by (destruct c; cbn; lia). lia.
    + apply top_ge_fmt; auto.
Qed.
Print Assumptions fmt_sem.
Print Assumptions fmt_can.

(* non-vacuity and the two refuted variants of today's code, found by computation in the model *)
Example can_witness : can (Bin Pow (Paren (Un Neg Atom)) Atom) /\ fmt Std (Bin Pow (Paren (Un Neg Atom)) Atom) = Bin Pow (Paren (Un Neg Atom)) Atom.
Proof. cbn. unfold uprec, inf. repeat split; auto; lia. Qed.
