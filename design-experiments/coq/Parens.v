From Coq Require Import String.
From Coq Require Import List Arith Bool Lia.
Import ListNotations.

Inductive bop := Or | Eqq | Add | Concat | Pow.
Definition prec (b : bop) : nat := match b with Or => 1 | Eqq => 3 | Add => 9 | Concat => 8 | Pow => 12 end.
Definition rassoc (b : bop) : bool := match b with Concat | Pow => true | _ => false end.
Definition q (b : bop) : nat := if rassoc b then prec b else S (prec b).
Definition uprec := 11.
Inductive uop := Neg | Not.
Inductive expr := Atom | Multi | Paren (e : expr) | Un (u : uop) (e : expr) | Bin (b : bop) (l r : expr).

Definition inf := 100.
Fixpoint rmin (e : expr) : nat :=
  match e with Atom | Multi | Paren _ => inf | Un _ a => Nat.min uprec (rmin a) | Bin b _ r => Nat.min (q b) (rmin r) end.
Definition top_ge (k : nat) (e : expr) : bool := match e with Bin c _ _ => k <=? prec c | _ => true end.
(* canonical + no "- -" adjacency *)
Definition starts_neg (e : expr) : bool := match e with Un Neg _ => true | _ => false end.
Fixpoint lmost_starts_neg (e : expr) : bool :=
  match e with Un Neg _ => true | Bin _ l _ => lmost_starts_neg l | _ => false end.
Fixpoint can (e : expr) : bool :=
  match e with
  | Atom | Multi => true | Paren e => can e
  | Un u a => can a && top_ge uprec a && negb (match u with Neg => lmost_starts_neg a | Not => false end)
  | Bin b l r => can l && can r && (prec b <? rmin l) && top_ge (q b) r
  end.

(* semantic tree: parentheses erased, except the truncation marker on multi-valued atoms *)
Inductive sem := SAtom | SMulti | STrunc | SUn (u : uop) (s : sem) | SBin (b : bop) (l r : sem).
Fixpoint Sm (e : expr) : sem :=
  match e with
  | Atom => SAtom | Multi => SMulti
  | Paren x => match Sm x with SMulti => STrunc | s => s end
  | Un u x => SUn u (Sm x) | Bin b l r => SBin b (Sm l) (Sm r)
  end.
Fixpoint sem_eqb (a b : sem) : bool :=
  match a, b with
  | SAtom, SAtom | SMulti, SMulti | STrunc, STrunc => true
  | SUn u x, SUn v y => (match u, v with Neg, Neg | Not, Not => true | _, _ => false end) && sem_eqb x y
  | SBin o l r, SBin o' l' r' => (prec o =? prec o') && sem_eqb l l' && sem_eqb r r'
  | _, _ => false end.

Inductive ctx := Std | Prefix | BL | BLE | UB.
Fixpoint check (e : expr) (c : ctx) : bool :=
  match e with
  | Paren _ => true
  | Un u x => match c with BLE => false | BL => (match u with Not => false | Neg => check x c end) | _ => check x c end
  | Bin _ _ _ => false
  | Multi => false
  | Atom => true
  end.
Definition is_prefix (c : ctx) := match c with Prefix => true | _ => false end.
Definition lhs_ctx (b : bop) : ctx := match b with Pow => BLE | _ => BL end.

Section Flow.
  Variable fixed : bool.   (* false = code as it stands, true = candidate repair *)
  Variable hang : bool.    (* which of the two flows handles operands of the top-level expression *)
  Fixpoint fmt (fuel : nat) (c : ctx) (e : expr) : expr :=
    match fuel with O => e | S fuel =>
    match e with
    | Atom | Multi => e
    | Paren x => if check x c && negb (is_prefix c)
                 then fmt fuel (if fixed then c else (if hang then c else Std)) x
                 else Paren (fmt fuel Std x)
    | Un u x =>
        let x' := fmt fuel UB x in
        let guard := if hang then fixed else true in
        let needs := match u with
                     | Neg => guard && (match x' with Un Neg _ => true | Paren (Un Neg _) => negb fixed | _ => false end)
                     | Not => false end in
        Un u (if needs then Paren x' else x')
    | Bin b l r =>
        let lc := if hang then (if fixed then lhs_ctx b else UB) else lhs_ctx b in
        Bin b (fmt fuel lc l) (fmt fuel (if hang then (if fixed then UB else Std) else UB) r)
    end end.
End Flow.

Definition ops := [Eqq; Pow].
Fixpoint gen (d : nat) : list expr :=
  match d with O => [Atom; Multi] | S d =>
    let t := gen d in
    Atom :: Multi :: map Paren t ++ map (Un Neg) t ++ map (Un Not) t
      ++ flat_map (fun b => flat_map (fun l => map (fun r => Bin b l r) t) t) ops end.

Definition ok (fixed hang : bool) (c : ctx) (e : expr) : bool :=
  let o := fmt fixed hang 50 c e in
  implb (can e) (can o && sem_eqb (Sm o) (Sm e)).
Fixpoint expr_eqb (a b : expr) : bool :=
  match a, b with
  | Atom, Atom | Multi, Multi => true | Paren x, Paren y => expr_eqb x y
  | Un u x, Un v y => (match u, v with Neg, Neg | Not, Not => true | _, _ => false end) && expr_eqb x y
  | Bin o l r, Bin o' l' r' => (prec o =? prec o') && expr_eqb l l' && expr_eqb r r'
  | _, _ => false end.
Definition idem2 (fixed hang : bool) (c : ctx) (e : expr) : bool :=
  let o := fmt fixed hang 50 c e in implb (can e) (expr_eqb (fmt fixed hang 50 c o) o).

Definition first_bad (f : expr -> bool) (l : list expr) := hd_error (filter (fun e => negb (f e)) l).
Definition count_bad (f : expr -> bool) (l : list expr) := length (filter (fun e => negb (f e)) l).

Eval vm_compute in (length (gen 3)).
Eval vm_compute in ("as-is single"%string, count_bad (ok false false Std) (gen 3), first_bad (ok false false Std) (gen 3)).
Eval vm_compute in ("as-is hang"%string, count_bad (ok false true Std) (gen 3), first_bad (ok false true Std) (gen 3)).
Eval vm_compute in ("fixed single"%string, count_bad (ok true false Std) (gen 3), first_bad (ok true false Std) (gen 3)).
Eval vm_compute in ("fixed hang"%string, count_bad (ok true true Std) (gen 3), first_bad (ok true true Std) (gen 3)).
Eval vm_compute in ("as-is single idem"%string, count_bad (idem2 false false Std) (gen 3), first_bad (idem2 false false Std) (gen 3)).
Eval vm_compute in ("fixed single idem"%string, count_bad (idem2 true false Std) (gen 3), first_bad (idem2 true false Std) (gen 3)).
