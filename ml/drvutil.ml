(* string helpers for the drivers *)
open Util
let str_of_hex h = let cl = unhex h in let b = Buffer.create 64 in L.iter (Buffer.add_char b) cl; Buffer.contents b
let chars (s : string) : char list = L.init (SS.length s) (SS.get s)
let rec pos_to_int = function BinNums.Coq_xH -> 1 | BinNums.Coq_xO p -> 2 * pos_to_int p | BinNums.Coq_xI p -> 2 * pos_to_int p + 1
let n_to_int = function BinNums.N0 -> 0 | BinNums.Npos p -> pos_to_int p
let z_to_string = function BinNums.Z0 -> "0" | BinNums.Zpos p -> string_of_int (pos_to_int p) | BinNums.Zneg p -> "-" ^ string_of_int (pos_to_int p)
