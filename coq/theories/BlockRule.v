From Coq Require Import List Bool Arith Lia.
Import ListNotations.

(* C08 / C09 core: the post-processing loop of format_block over abstract statements.
   [S] = a statement with all of its own trivia; [Semi] = a semicolon token with its trivia.
   Everything the formatter does to a Normal statement is abstract ([fmt], [strip_first], [move_trailing],
   [absorb_semi_comments]); the theorem is about what it must NOT do to the others. *)
Section Block.
Variables S Semi : Type.
Inductive mode := Normal | Skip | NotInRange.
Variable mode_of : S -> mode.                 (* after toggling: should_format_node on the INPUT statement *)
Variable fmt : S -> S.                        (* format_stmt for Normal statements *)
Variable inner : S -> S.                      (* stmt_block::format_stmt_block: only nested blocks are visited *)
Variable strip_first : S -> S.                (* remove leading blank lines of the first statement *)
Variable needs_semi : S -> option S -> bool.  (* check_stmt_requires_semicolon on (formatted stmt, next INPUT stmt) *)
Variable fmt_semi : Semi -> Semi.
Variable fresh_semi : Semi.
Variable move_trailing : S -> Semi -> S * Semi.     (* trailing trivia of the statement moves behind the semicolon *)
Variable absorb : S -> Semi -> S.                   (* comments of a removed semicolon move onto the statement *)

Definition item := (S * option Semi)%type.

(* the loop (after the repair 13c2fa7): non-Normal statements and their semicolons are passed through *)
Fixpoint go (first : bool) (l : list item) : list item :=
  match l with
  | [] => []
  | (s, semi) :: r =>
    let next := match r with (n, _) :: _ => Some n | [] => None end in
    let out :=
      match mode_of s with
      | Skip => (s, semi)
      | NotInRange => (inner s, semi)
      | Normal =>
        let s1 := fmt s in
        let s2 := if first then strip_first s1 else s1 in
        if needs_semi s2 next
        then let '(s3, sm) := move_trailing s2 (match semi with Some x => fmt_semi x | None => fresh_semi end) in (s3, Some sm)
        else (match semi with Some x => absorb s2 x | None => s2 end, None)
      end in
    out :: go false r
  end.
Definition format_block (l : list item) : list item := go true l.

(* the loop before the repair: every statement went through the semicolon logic *)
Fixpoint go_old (first : bool) (l : list item) : list item :=
  match l with
  | [] => []
  | (s, semi) :: r =>
    let next := match r with (n, _) :: _ => Some n | [] => None end in
    let s1 := match mode_of s with Skip => s | NotInRange => inner s | Normal => fmt s end in
    let s2 := if first then (match mode_of s1 with Normal => strip_first s1 | _ => s1 end) else s1 in
    let out :=
      if needs_semi s2 next
      then let '(s3, sm) := move_trailing s2 (match semi with Some x => fmt_semi x | None => fresh_semi end) in (s3, Some sm)
      else (match semi with Some x => absorb s2 x | None => s2 end, None) in
    out :: go_old false r
  end.

Lemma go_length : forall l first, length (go first l) = length l.
Proof. induction l as [|[s semi] r IH]; intros first; cbn; auto. Qed.

(* C08: an ignored statement and its semicolon come out exactly as written, whatever its neighbours are *)
Theorem skip_verbatim : forall l first i s semi,
  nth_error l i = Some (s, semi) -> mode_of s = Skip -> nth_error (go first l) i = Some (s, semi).
Proof.
  induction l as [|[s0 semi0] r IH]; intros first i s semi H M; [destruct i; discriminate|].
  destruct i as [|i]; cbn [nth_error go] in *.
  - inversion H; subst. rewrite M. reflexivity.
  - apply (IH false i s semi H M).
Qed.
(* C09: an out-of-range statement keeps its semicolon and only has its nested blocks visited *)
Theorem out_of_range_shallow : forall l first i s semi,
  nth_error l i = Some (s, semi) -> mode_of s = NotInRange -> nth_error (go first l) i = Some (inner s, semi).
Proof.
  induction l as [|[s0 semi0] r IH]; intros first i s semi H M; [destruct i; discriminate|].
  destruct i as [|i]; cbn [nth_error go] in *.
  - inversion H; subst. rewrite M. reflexivity.
  - apply (IH false i s semi H M).
Qed.
(* a formatted statement does not depend on whether its neighbours are formatted (C09: "as when the whole file
   is formatted"): its output is a function of the statement, its semicolon, its position and the next INPUT statement *)
Definition normal_out (first : bool) (s : S) (semi : option Semi) (next : option S) : item :=
  let s1 := fmt s in
  let s2 := if first then strip_first s1 else s1 in
  if needs_semi s2 next
  then let '(s3, sm) := move_trailing s2 (match semi with Some x => fmt_semi x | None => fresh_semi end) in (s3, Some sm)
  else (match semi with Some x => absorb s2 x | None => s2 end, None).
Theorem normal_local : forall l first i s semi,
  nth_error l i = Some (s, semi) -> mode_of s = Normal ->
  nth_error (go first l) i =
    Some (normal_out (match i with O => first | _ => false end) s semi (option_map fst (nth_error l (Datatypes.S i)))).
Proof.
  induction l as [|[s0 semi0] r IH]; intros first i s semi H M; [destruct i; discriminate|].
  destruct i as [|i]; cbn [nth_error go] in *.
  - inversion H; subst. rewrite M. unfold normal_out. destruct r as [|[n sn] r']; reflexivity.
  - rewrite (IH false i s semi H M). destruct i; reflexivity.
Qed.
End Block.

(* the loop before the repair is refuted: an ignored statement loses its semicolon *)
Theorem skip_verbatim_refuted :
  exists (mode_of : nat -> mode) l, nth_error l 0 = Some (7, Some tt) /\ mode_of 7 = Skip /\
    nth_error (go_old nat unit mode_of (fun x => x) (fun x => x) (fun x => x) (fun _ _ => false) (fun x => x) tt
                      (fun s sm => (s, sm)) (fun s _ => s) true l) 0 <> Some (7, Some tt).
Proof. exists (fun _ => Skip), [(7, Some tt)]. repeat split. cbn. discriminate. Qed.

(* C09: "as when the whole file is formatted" - two runs that both format a statement (whatever they do to its
   neighbours: different ranges, different ignore regions) give it the same output *)
Theorem normal_mode_independent S Semi mode_a mode_b fmt inner strip_first needs_semi fmt_semi fresh_semi move_trailing absorb l first i s semi :
  nth_error l i = Some (s, semi) -> mode_a s = Normal -> mode_b s = Normal ->
  nth_error (go S Semi mode_a fmt inner strip_first needs_semi fmt_semi fresh_semi move_trailing absorb first l) i =
  nth_error (go S Semi mode_b fmt inner strip_first needs_semi fmt_semi fresh_semi move_trailing absorb first l) i.
Proof.
  intros H A B.
  rewrite (normal_local S Semi mode_a fmt inner strip_first needs_semi fmt_semi fresh_semi move_trailing absorb l first i s semi H A).
  rewrite (normal_local S Semi mode_b fmt inner strip_first needs_semi fmt_semi fresh_semi move_trailing absorb l first i s semi H B).
  reflexivity.
Qed.
