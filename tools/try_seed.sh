#!/bin/sh
# applies a seeded change to /repo, runs the quick check(s), undoes it, then re-runs them on the clean tree so that the
# evidence files left behind come from clean runs.  usage: tools/try_seed.sh <seeded dir name> <prop> [<prop>...]
d=/verif/seeded/$1; shift
git -C /repo apply "$d/patch.diff" || exit 2
for p in "$@"; do ./sv check $p 2>&1 | grep -v "^KNOWN-FINDING" | tail -n 4 | cut -c1-230; done
git -C /repo checkout -- . ; git -C /repo status --short | head -3
for p in "$@"; do ./sv check $p 2>&1 | grep -v "^KNOWN-FINDING" | tail -n 1 | sed 's/^/  clean tree: /' | cut -c1-120; done
