(* C09 - range formatting touches only statements inside the range.  Statements only (same block model as C08). *)
From Coq Require Import List.
From SV Require BlockRule.
Import ListNotations BlockRule.
Theorem C09_out_of_range_statement_only_visited_inside : forall S Semi mode_of fmt inner strip_first needs_semi fmt_semi fresh_semi move_trailing absorb l first i s semi,
  nth_error l i = Some (s, semi) -> mode_of s = NotInRange ->
  nth_error (go S Semi mode_of fmt inner strip_first needs_semi fmt_semi fresh_semi move_trailing absorb first l) i = Some (inner s, semi).
Proof. exact out_of_range_shallow. Qed.
Print Assumptions C09_out_of_range_statement_only_visited_inside.
(* a statement inside the range comes out as in a whole-file run: its result depends only on itself, its semicolon,
   its position and the next INPUT statement - not on whether its neighbours are formatted *)
Theorem C09_in_range_as_whole_file : forall S Semi mode_a mode_b fmt inner strip_first needs_semi fmt_semi fresh_semi move_trailing absorb l first i s semi,
  nth_error l i = Some (s, semi) -> mode_a s = Normal -> mode_b s = Normal ->
  nth_error (go S Semi mode_a fmt inner strip_first needs_semi fmt_semi fresh_semi move_trailing absorb first l) i =
  nth_error (go S Semi mode_b fmt inner strip_first needs_semi fmt_semi fresh_semi move_trailing absorb first l) i.
Proof. exact normal_mode_independent. Qed.
Print Assumptions C09_in_range_as_whole_file.
Theorem C09_statement_count_kept : forall S Semi mode_of fmt inner strip_first needs_semi fmt_semi fresh_semi move_trailing absorb l first,
  length (go S Semi mode_of fmt inner strip_first needs_semi fmt_semi fresh_semi move_trailing absorb first l) = length l.
Proof. exact go_length. Qed.
Print Assumptions C09_statement_count_kept.

(* the decision itself, regenerated from src/context.rs :: should_format_node on every run: with formatting enabled
   and no ignore comment a node is formatted iff it lies wholly inside the range, both bounds inclusive *)
From SV Require FmAst ShouldFormat ShouldFormatProof.
From SVgen Require ShouldFormat.
Theorem C09_formatted_iff_wholly_inside_the_range : forall r n,
  SVgen.ShouldFormat.should_format_node false None (Some r) n = FmAst.FormatNode_Normal <-> SV.ShouldFormat.inside r n = true.
Proof. exact ShouldFormatProof.formatted_iff_wholly_inside. Qed.
Print Assumptions C09_formatted_iff_wholly_inside_the_range.
Theorem C09_range_bounds_are_inclusive : forall a b,
  SVgen.ShouldFormat.should_format_node false None (Some {| FmAst.start := Some a; FmAst.end_ := Some b |})
    {| FmAst.start_position := Some {| FmAst.bytes := a |}; FmAst.end_position := Some {| FmAst.bytes := b |} |} = FmAst.FormatNode_Normal.
Proof. exact ShouldFormatProof.bounds_are_inclusive. Qed.
Print Assumptions C09_range_bounds_are_inclusive.
Theorem C09_generated_decision_is_the_specification : forall d l r n,
  SVgen.ShouldFormat.should_format_node d l r n = SV.ShouldFormat.verdict d l r n.
Proof. exact ShouldFormatProof.generated_is_spec. Qed.
Print Assumptions C09_generated_decision_is_the_specification.
