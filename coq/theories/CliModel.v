(* C13 / C14 core: the CLI as a fold over the selected files.  The library's behaviour on each file is an input
   (an oracle), the file system is a function, results reach the exit status in ANY order (C19). *)
From Coq Require Import List Bool Arith Lia Permutation.
Import ListNotations.

Section Cli.
Variables path content : Type.
Variable path_eqb : path -> path -> bool.
Inductive outcome :=
| Formatted                      (* format_code returns the same text *)
| Unformatted (new : content)    (* returns a different text *)
| Failed.                        (* unreadable, unparseable, verification failed, worker panicked *)
Definition fs := path -> option content.
Definition upd (f : fs) (p : path) (c : content) : fs := fun q => if path_eqb q p then Some c else f q.

(* what each result reports to the exit code: a diff fetch_max 1 (check mode only), an error fetch_max 2 *)
Definition level (check : bool) (o : outcome) : nat :=
  match o with Formatted => 0 | Unformatted _ => if check then 1 else 0 | Failed => 2 end.
Definition write (check : bool) (f : fs) (po : path * outcome) : fs :=
  match po with (p, Unformatted c) => if check then f else upd f p c | _ => f end.
Definition diff_printed (check : bool) (o : outcome) : bool :=
  match o with Unformatted _ => check | _ => false end.

Definition run (check : bool) (files : list (path * outcome)) (f : fs) : fs * nat :=
  (fold_left (write check) files f, fold_right Nat.max 0 (map (fun po => level check (snd po)) files)).
End Cli.
Arguments Formatted {content}. Arguments Unformatted {content}. Arguments Failed {content}.

(* stdin mode (C17): what `stylua -` prints and returns.  [lib] is the library's verdict on the text read from stdin. *)
Section Stdin.
Variable content : Type.
Inductive verdict := Ok_ (formatted : content) | ParseFail.
Record stdin_result := { out : option content; status : nat; wrote : bool }.
(* skip = --respect-ignores and --stdin-filepath names an ignored path; check = --check *)
Definition stdin_run (input : content) (lib : verdict) (skip check : bool) (same : content -> content -> bool) : stdin_result :=
  if skip then
    (* the text is passed through (in check mode: compared with itself, so no diff) *)
    {| out := if check then None else Some input; status := 0; wrote := false |}
  else match lib with
       | ParseFail => {| out := None; status := 2; wrote := false |}
       | Ok_ f => if check then {| out := None (* a diff goes to stdout instead, judged by C18 *);
                                   status := if same input f then 0 else 1; wrote := false |}
                  else {| out := Some f; status := 0; wrote := false |}
       end.
End Stdin.
Arguments Ok_ {content}. Arguments ParseFail {content}.
