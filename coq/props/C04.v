(* C04 - literal values survive quote and number normalisation.
   This file contains statements only; every proof is a reference to a lemma of SV. *)
From Coq Require Import List Ascii NArith ZArith.
From SV Require Quote Quote51 QuoteX QuoteAll QuoteMore Bracket BracketProof Number.
Import ListNotations.

(* Lua 5.1 denotation: unconditional, dangling backslash included *)
Theorem C04_quoted_value_lua51 : forall q s, Quote51.decode51 (Quote.rewrite q s) = Quote51.decode51 s.
Proof. exact Quote51.rewrite_decode51. Qed.
Check C04_quoted_value_lua51 : forall q s, Quote51.decode51 (Quote.rewrite q s) = Quote51.decode51 s.
Print Assumptions C04_quoted_value_lua51.

(* Lua 5.2, 5.3, 5.4, LuaJIT (lenient = false) and Luau (lenient = true): whatever a literal denotes, its rewrite denotes *)
Theorem C04_quoted_value : forall lenient q s v,
  QuoteX.decode lenient s = Some v -> QuoteX.decode lenient (Quote.rewrite q s) = Some v.
Proof. exact QuoteAll.rewrite_decode. Qed.
Check C04_quoted_value : forall lenient q s v,
  QuoteX.decode lenient s = Some v -> QuoteX.decode lenient (Quote.rewrite q s) = Some v.
Print Assumptions C04_quoted_value.

(* the token boundary cannot move: no bare quote, no bare newline, no dangling backslash in the new body *)
Theorem C04_rewrite_lexable : forall q0 q s, QuoteMore.lexable q0 s = true -> QuoteMore.lexable q (Quote.rewrite q s) = true.
Proof. exact QuoteMore.rewrite_lexable. Qed.
Check C04_rewrite_lexable : forall q0 q s, QuoteMore.lexable q0 s = true -> QuoteMore.lexable q (Quote.rewrite q s) = true.
Print Assumptions C04_rewrite_lexable.

(* quote choice: forced styles are forced; AutoPrefer* takes the preferred quote unless the other needs strictly fewer escapes *)
Theorem C04_choose_minimal : forall st s, st = QuoteMore.AutoDouble \/ st = QuoteMore.AutoSingle ->
  (QuoteMore.choose st s = QuoteMore.preferred st /\
   QuoteMore.needs (QuoteMore.preferred st) s <= QuoteMore.needs (QuoteMore.other (QuoteMore.preferred st)) s) \/
  (QuoteMore.choose st s = QuoteMore.other (QuoteMore.preferred st) /\
   QuoteMore.needs (QuoteMore.other (QuoteMore.preferred st)) s < QuoteMore.needs (QuoteMore.preferred st) s).
Proof. exact QuoteMore.choose_minimal. Qed.
Print Assumptions C04_choose_minimal.
Theorem C04_choose_forced : forall s, QuoteMore.choose QuoteMore.ForceDouble s = Quote.QD /\ QuoteMore.choose QuoteMore.ForceSingle s = Quote.QS.
Proof. intros s. split; [exact (QuoteMore.choose_force_double s)|exact (QuoteMore.choose_force_single s)]. Qed.
Print Assumptions C04_choose_forced.

(* re-formatting a formatted literal changes nothing (the C06 share of this kernel) *)
Theorem C04_rewrite_idempotent : forall q s, Quote.rewrite q (Quote.rewrite q s) = Quote.rewrite q s.
Proof. exact QuoteMore.rewrite_idem. Qed.
Print Assumptions C04_rewrite_idempotent.
Theorem C04_choose_stable : forall st q s, QuoteMore.choose st (Quote.rewrite q s) = QuoteMore.choose st s.
Proof. exact QuoteMore.choose_stable. Qed.
Print Assumptions C04_choose_stable.

(* long brackets: outside the known class (a CR not followed by LF) the newline conversion preserves the value
   under the PUC-Lua/LuaJIT reading and under the Luau reading; inside the class it does not (known finding) *)
Theorem C04_bracket_value : forall e s, Bracket.no_lone_cr s = true ->
  Bracket.lua_nl (Bracket.conv e s) = Bracket.lua_nl s /\ Bracket.luau_nl (Bracket.conv e s) = Bracket.luau_nl s.
Proof. exact BracketProof.bracket_value_preserved. Qed.
Check C04_bracket_value : forall e s, Bracket.no_lone_cr s = true ->
  Bracket.lua_nl (Bracket.conv e s) = Bracket.lua_nl s /\ Bracket.luau_nl (Bracket.conv e s) = Bracket.luau_nl s.
Print Assumptions C04_bracket_value.
Theorem C04_bracket_lone_cr_refuted : exists s,
  Bracket.lua_nl (Bracket.conv Bracket.Unix s) <> Bracket.lua_nl s /\ Bracket.luau_nl (Bracket.conv Bracket.Unix s) <> Bracket.luau_nl s.
Proof. exact BracketProof.bracket_lone_cr_refuted. Qed.
Print Assumptions C04_bracket_lone_cr_refuted.

(* numbers: .5 -> 0.5 keeps the value; every other spelling is returned byte for byte *)
Theorem C04_number_value : forall s v, Number.decval s = Some v -> Number.decval (Number.number_rewrite s) = Some v.
Proof. exact Number.number_rewrite_value. Qed.
Print Assumptions C04_number_value.
Theorem C04_number_other : forall s, Number.starts_with_dot s = false ->
  (forall r, s <> "-"%char :: "."%char :: r) -> Number.number_rewrite s = s.
Proof. exact Number.number_rewrite_other. Qed.
Print Assumptions C04_number_other.
